#!/usr/bin/env python3
"""Regenerates MANIFEST.json from the table below (kept in one place so the file stays valid)."""
import json, os
HERE = os.path.dirname(os.path.dirname(os.path.abspath(__file__)))
BASE = json.load(open('/root/.vp/BASELINE.json'))['cmd'] if os.path.exists('/root/.vp/BASELINE.json') else \
    'cd /repo && /venv/bin/python -m pytest -ra -q -p no:cacheprovider --timeout=900 --continue-on-collection-errors'
TECH = 'Lean 4 theorems over a hand-written executable model + per-run model/code correspondence (differential, line protocol) + failing-input search'
# pid -> (design section, level text, level note)
CLAIMED = json.load(open(os.path.join(HERE, 'tools', 'claimed.json')))
ALL = [json.loads(l)['id'] for l in open(os.path.join(HERE, 'properties.jsonl'))]
checks = []
for pid in ALL:
    if pid not in CLAIMED:
        continue
    c = CLAIMED[pid]
    checks.append({
        'property_id': pid,
        'quick_cmd': f'./check {pid} --tier quick',
        'thorough_cmd': f'./check {pid} --tier thorough',
        'evidence_file': f'evidence/{pid}.json',
        'replay_cmd_template': f'./check {pid} --replay {{path}}',
        'engine': 'lean4-model-correspondence',
        'level_claimed': {'category': 'proof', 'text': c['text'], 'design_ref': c['design_ref']},
        'level_note': c['note'],
        'technique': c.get('technique', TECH),
    })
na = [{'property_id': pid, 'reason': 'no check registered yet: model, theorems and correspondence for this property are not built in the committed tree (see DESIGN.md §9 for the order of construction)'}
      for pid in ALL if pid not in CLAIMED]
m = {
    'version': 1,
    'setup_cmd': 'cd lean && lake build && cd .. && ./check --selfcheck',
    'hooks': {
        'guard': 'KFAC_PYTORCH_VERIF',
        'enable': 'no source hooks: the harness monkey-patches torch.distributed / kfac.tracing.time in-process (harness/simdist.py); the variable is set by ./check for the harness only',
        'baseline_off_cmd': BASE.replace(' --junitxml=<file>', ''),
        'source_commits': [],
        'add_only': True,
    },
    'engines': [{'name': 'lean4-model-correspondence', 'path': 'lean/ + harness/',
                 'serves_properties': [c['property_id'] for c in checks],
                 'kind_free_text': 'Lean 4 (4.33) model + theorems; Python harness drives /repo and the compiled model through a line protocol'}],
    'checks': checks,
    'notes': 'Fix commits in /repo and known findings are listed in known_findings.json; see DESIGN.md §7.',
    'not_applicable': na,
}
json.dump(m, open(os.path.join(HERE, 'MANIFEST.json'), 'w'), indent=1)
print('claimed', len(checks), 'not_applicable', len(na))
