#!/bin/bash
# usage: tools/run_all.sh <tier> <seed> [props...]   -- runs the registered checks sequentially, prints verdict lines
TIER=${1:-quick}; SEED=${2:-0}; shift; shift
PROPS=${@:-C01 C02 C03 C04 C05 C06 C07 C08 C09 C10 C11 C12 C13 C14 C15 C16 C17 C18 C19 C20}
cd /verif
for p in $PROPS; do
  s=$(date +%s)
  VERIF_SEED=$SEED ./check $p --tier $TIER > out/run_${p}_${TIER}_${SEED}.log 2>&1; rc=$?
  e=$(date +%s)
  echo "$p seed=$SEED tier=$TIER rc=$rc $((e-s))s :: $(grep -E 'VIOLATION|INFRA' out/run_${p}_${TIER}_${SEED}.log | head -2 | tr '\n' ' ') $(tail -1 out/run_${p}_${TIER}_${SEED}.log | cut -c1-160)"
done
