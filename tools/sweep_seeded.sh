#!/bin/bash
# usage: sweep_seeded.sh "<seeds>" [id-glob]   -- every stored seeded change × every seed against the check of the
# property it breaks (scratch worktrees, parallel); prints one line per run and a summary of misses.
SEEDS=${1:-"0 1 2"}; GLOB=${2:-"*"}
cd /verif
for d in seeded/$GLOB/; do id=$(basename $d); pid=$(jq -r .breaks_property $d/meta.json); for s in $SEEDS; do echo "$id $pid $s"; done; done |
  xargs -P 8 -L 1 bash -c 'r=$(VERIF_SEED=$2 tools/try_mutant.sh seeded/$0/patch.diff $1 2>&1 | grep -E "^rc=|no-failing-input-found" | tr "\n" " "); echo "$0 $1 seed=$2 $r"' | tee out/sweep.log
echo "--- not detected:"; grep -v "rc=1" out/sweep.log
