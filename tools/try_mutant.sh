#!/bin/bash
# usage: try_mutant.sh <patch.diff> <pid> [tier]  -- applies to /repo, runs the check, reverts.
set -u
P=$1; PID=$2; TIER=${3:-quick}
cd /repo && git status --short | grep -q . && { echo "/repo dirty"; exit 3; }
git -C /repo apply $P || git -C /repo apply -3 $P || { echo APPLY-FAILED; git -C /repo checkout -- .; exit 4; }
cd /verif && ./check $PID --tier $TIER 2>&1 | grep -E "VIOLATION|KNOWN|tier=|INFRA" ; RC=${PIPESTATUS[0]}
git -C /repo checkout -- . ; git -C /repo status --short
echo "rc=$RC"
