#!/bin/bash
# usage: try_mutant.sh <patch.diff> <pid> [tier]
# Applies the patch in a private scratch worktree of /repo (never /repo itself), runs the check against it
# with outputs redirected to a scratch directory, and removes the worktree.  Safe to run in parallel.
set -u
P=$(readlink -f $1); PID=$2; TIER=${3:-quick}
T=$(mktemp -d /tmp/trymut.XXXXXX)
git -C /repo worktree add --detach -f $T/wt HEAD >/dev/null 2>&1 || { echo WORKTREE-FAILED; exit 3; }
git -C $T/wt apply $P || git -C $T/wt apply -3 $P || { echo APPLY-FAILED; git -C /repo worktree remove --force $T/wt; rm -rf $T; exit 4; }
mkdir -p $T/out $T/evid
cd /verif && KFAC_REPO=$T/wt KFAC_VERIF_OUT=$T/out KFAC_VERIF_EVID=$T/evid ./check $PID --tier $TIER 2>&1 | grep -E "VIOLATION|KNOWN|tier=|INFRA" ; RC=${PIPESTATUS[0]}
if [ -d $T/out/replay ]; then mkdir -p /verif/out/mutant_replays; for f in $T/out/replay/*; do cp $f /verif/out/mutant_replays/$(basename $P .diff)_$(basename $f) 2>/dev/null; done; fi
git -C /repo worktree remove --force $T/wt; rm -rf $T
echo "rc=$RC"
