#!/usr/bin/env python3
"""mk_mutant_prompt.py <property id> <worktree> <outdir> <names e.g. mutE,mutF>
Prints the brief for a fresh sub-agent that proposes seeded changes for one property.  The brief contains ONLY the
property text (from properties.jsonl), the location of the agent's own scratch worktree, and one-line summaries of
what earlier agents proposed for this property (so that the new proposals differ) — nothing about /verif."""
import glob, json, os, sys
pid, wt, out, names = sys.argv[1:5]
a, b = names.split(',')
prop = next(json.loads(l) for l in open('/verif/properties.jsonl') if json.loads(l)['id'] == pid)
anch = prop.get('anchors', {})
files = anch.get('files') if isinstance(anch, dict) else None
mech = anch.get('mechanisms') if isinstance(anch, dict) else None
prev = []
for d in sorted(glob.glob(f'/verif/seeded/{pid}-mut*/meta.json')):
    m = json.load(open(d))
    s = (m.get('summary') or '').strip().replace('\n', ' ')
    if s:
        prev.append('- ' + s[:330])
print(f"""You are helping to evaluate a verification effort by playing the role of a developer who introduces a realistic, subtle bug into a Python library.

The library is gpauloski/kfac-pytorch (a PyTorch K-FAC second-order gradient preconditioner with KAISA distributed work assignment). You have your own scratch git worktree of it at {wt} (HEAD is the pristine version). Work ONLY inside {wt} and write your deliverables to {out}/. Do NOT read or list /verif, /repo, /root or any other directory under {os.path.dirname(wt)} — your work must be independent of anything there. Python to use: /venv/bin/python (has torch and pytest; when you run it from the root of your worktree with `-m pytest` or a script in that directory, `import kfac` resolves to your worktree's copy — verify with `print(kfac.__file__)`).

Here is a semantic property of the library that should always hold:

---
Property {pid}: {prop['title']}

Statement: {prop['statement']}

Quantified over: {prop['quantifier']['text']}

Why the existing tests cannot settle it: {prop['why_tests_cant']}

Code anchors: files {files}; mechanisms: {'; '.join(mech) if isinstance(mech, list) else mech}
---

Your task: produce TWO independent changes (call them {a} and {b}, each a separate patch against the pristine HEAD) to the library code under kfac/ (never the tests) such that each change
  1. BREAKS the property above (in behaviour a user could observe),
  2. still imports and runs, and the ENTIRE existing test suite still passes: `cd {wt} && /venv/bin/python -m pytest -q -p no:cacheprovider --timeout=900` (the pristine tree gives 175 passed, 4 skipped; it takes about a minute) — you must actually run this with each change applied,
  3. is realistic: the kind of mistake made in a refactor, an "optimisation", an off-by-one, a wrong variable, a dropped guard, a wrong group/axis/ordering — not deliberately obfuscated code and not a gratuitous `if x == 17` special case,
  4. needs something SPECIFIC to manifest — a particular interleaving, a multi-step sequence of operations, an unusual-but-legal input or configuration (a particular world size, divisor, tie in costs, shape, dtype, capacity…), a crash/fault at a particular point, or two cooperating sites that each look fine alone — rather than something ordinary use would expose at once. Prefer the two changes to be in different functions/mechanisms.

For each change write, in {out}/{a}/ and {out}/{b}/:
  - patch.diff : output of `git diff` at the worktree root (must apply with `git apply patch.diff` to a pristine checkout),
  - demo.py    : a small standalone program, run as `cd <checkout root> && /venv/bin/python demo.py`, that exits 0 on the pristine tree and exits non-zero (assertion failure / printed explanation) with the patch applied. It must demonstrate the property violation itself (not just "the code differs"). For multi-rank behaviour you may spawn real gloo processes the way testing/distributed.py in the repo does, or call the pure functions/classes directly with mock group functions. deepspeed is NOT installed; if the property concerns GPT-NeoX, stub the few DeepSpeed classes you need inside demo.py (tests/gpt_neox and testing/gpt_neox.py show how the repo's own tests mock them).
  - meta.json  : {{"property": "{pid}", "summary": "...one or two sentences...", "needs_to_manifest": "...what specific input/sequence/configuration is needed...", "files_changed": [...], "suite_result": "...the pytest summary line you observed with the patch applied...", "demo_pristine_exit": 0, "demo_patched_exit": <n>}}

Confirm for each: (a) demo.py exits 0 on pristine HEAD, (b) non-zero with the patch, (c) full test suite passes with the patch. Never use `git stash` (the stash is shared between worktrees and other people are working in sibling worktrees); toggle your change with `git apply` / `git apply -R` or `git checkout -- .` instead. When done, restore the worktree (`git checkout -- . && git status --short` should be clean; remove any files you created inside it). Keep your final report short: for each mutant one paragraph — what changed, what it needs to manifest, results of (a)(b)(c).
""")
if prev:
    print("Other people have already proposed the following changes for this property; yours must use DIFFERENT mechanisms / code sites / triggering conditions (do not produce variations of these):")
    print('\n'.join(prev))
    print("\nAim for changes that are even harder to notice: ones that only show under a rare but legal configuration or after a particular multi-step history, in a code path or option none of the above touches, or that need two individually plausible edits in different functions to cooperate.")
