#!/usr/bin/env python3
"""keep_mutant.py <src dir with patch.diff demo.py meta.json> <seeded id> <property> [confirm-log-line]
Copies a confirmed seeded change into /verif/seeded/<id>/, runs the property's quick check against it
(applied to /repo and reverted straight afterwards) and records the outcome in meta.json."""
import json, os, shutil, subprocess, sys
src, sid, pid = sys.argv[1:4]
confirm = sys.argv[4] if len(sys.argv) > 4 else ''
dst = f'/verif/seeded/{sid}'
os.makedirs(dst, exist_ok=True)
for f in ('patch.diff', 'demo.py'):
    shutil.copy(os.path.join(src, f), os.path.join(dst, f))
meta = json.load(open(os.path.join(src, 'meta.json')))
assert subprocess.run(['git', '-C', '/repo', 'status', '--short'], capture_output=True, text=True).stdout.strip() == '', '/repo dirty'
p = subprocess.run(['git', '-C', '/repo', 'apply', os.path.join(dst, 'patch.diff')], capture_output=True, text=True)
if p.returncode != 0:
    print('apply failed', p.stderr); sys.exit(1)
try:
    r = subprocess.run(['./check', pid, '--tier', 'quick'], cwd='/verif', capture_output=True, text=True)
finally:
    subprocess.run(['git', '-C', '/repo', 'checkout', '--', '.'])
lines = [l for l in r.stdout.splitlines() if l.startswith(('VIOLATION', 'KNOWN-FINDING')) or ' tier=' in l]
meta.update({
    'breaks_property': pid,
    'origin': 'fresh sub-agent given only the property text and its own scratch worktree',
    'confirmed_in_scratch_worktree': confirm,
    'what_i_ran': [f'tools/confirm_mutant.sh (demo.py on pristine HEAD: exit 0; with patch: non-zero; full pytest suite with patch: passes)',
                   f'git -C /repo apply seeded/{sid}/patch.diff && ./check {pid} --tier quick ; git -C /repo checkout -- .'],
    'check_exit_code': r.returncode,
    'check_output': lines[:4],
    'detected': r.returncode == 1,
    'detected_with_failing_input': any(l.startswith('VIOLATION') and 'no-failing-input-found' not in l for l in lines),
})
json.dump(meta, open(os.path.join(dst, 'meta.json'), 'w'), indent=1)
print(sid, 'rc', r.returncode, lines[:1])
