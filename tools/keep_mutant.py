#!/usr/bin/env python3
"""keep_mutant.py <src dir with patch.diff demo.py meta.json> <seeded id> <property>[,<other property>...] [confirm-log-line]
Copies a confirmed seeded change into /verif/seeded/<id>/, runs the quick check of the property it breaks (and of
any further property named) against it and records the outcome in meta.json.  The change is applied in a private
scratch worktree of /repo (removed afterwards), never in /repo itself, and the check's outputs are redirected to a
scratch directory, so this is safe to run while other checks are running."""
import json, os, shutil, subprocess, sys, tempfile
src, sid, pids = sys.argv[1:4]
pids = pids.split(',')
confirm = sys.argv[4] if len(sys.argv) > 4 else ''
dst = f'/verif/seeded/{sid}'
os.makedirs(dst, exist_ok=True)
for f in ('patch.diff', 'demo.py'):
    if os.path.abspath(src) != os.path.abspath(dst):
        shutil.copy(os.path.join(src, f), os.path.join(dst, f))
meta = json.load(open(os.path.join(src, 'meta.json')))
T = tempfile.mkdtemp(prefix='keepmut.', dir='/tmp')
wt = os.path.join(T, 'wt')
subprocess.run(['git', '-C', '/repo', 'worktree', 'add', '--detach', '-f', wt, 'HEAD'], capture_output=True, check=True)
results = {}
try:
    p = subprocess.run(['git', '-C', wt, 'apply', os.path.join(dst, 'patch.diff')], capture_output=True, text=True)
    if p.returncode != 0:
        print('apply failed', p.stderr); sys.exit(1)
    for pid in pids:
        env = dict(os.environ, KFAC_REPO=wt, KFAC_VERIF_OUT=os.path.join(T, 'out'), KFAC_VERIF_EVID=os.path.join(T, 'evid'))
        r = subprocess.run(['./check', pid, '--tier', 'quick'], cwd='/verif', capture_output=True, text=True, env=env)
        lines = [l for l in r.stdout.splitlines() if l.startswith(('VIOLATION', 'KNOWN-FINDING')) or ' tier=' in l]
        lines = [l.replace('../tmp/' + os.path.basename(T) + '/', '') for l in lines]
        results[pid] = {'check_exit_code': r.returncode, 'check_output': [l[:300] for l in lines[:4]],
                        'detected': r.returncode == 1,
                        'detected_with_failing_input': any(l.startswith('VIOLATION') and 'no-failing-input-found' not in l for l in lines)}
finally:
    subprocess.run(['git', '-C', '/repo', 'worktree', 'remove', '--force', wt], capture_output=True)
    shutil.rmtree(T, ignore_errors=True)
main = results[pids[0]]
meta.update({
    'breaks_property': pids[0],
    'origin': 'fresh sub-agent given only the property text and its own scratch worktree',
    'confirmed_in_scratch_worktree': confirm,
    'what_i_ran': ['tools/confirm_mutant.sh (demo.py on pristine HEAD: exit 0; with patch: non-zero; full pytest suite with patch: passes)',
                   'tools/keep_mutant.py: patch applied in a scratch worktree of /repo HEAD, KFAC_REPO=<worktree> ./check <pid> --tier quick'],
    'check_exit_code': main['check_exit_code'],
    'check_output': main['check_output'],
    'detected': any(v['detected'] for v in results.values()),
    'detected_with_failing_input': any(v['detected_with_failing_input'] for v in results.values()),
    'checks': results,
})
json.dump(meta, open(os.path.join(dst, 'meta.json'), 'w'), indent=1)
print(sid, {k: (v['check_exit_code'], v['detected_with_failing_input']) for k, v in results.items()})
