#!/bin/bash
# usage: confirm_mutant.sh <mutant dir containing patch.diff demo.py> <name>
# Confirms in a scratch worktree of /repo HEAD: demo passes pristine, fails patched, suite passes patched.
set -u
M=$1; NAME=$2
WT=/tmp/confirm_$NAME
rm -rf $WT; git -C /repo worktree prune
git -C /repo worktree add -q --detach $WT HEAD || exit 3
cd $WT
cp $M/demo.py demo_mut.py
timeout 600 /venv/bin/python demo_mut.py > /tmp/confirm_$NAME.pristine.log 2>&1; P=$?
if ! git apply $M/patch.diff 2>/tmp/confirm_$NAME.apply.log; then
  if ! git apply -3 $M/patch.diff 2>>/tmp/confirm_$NAME.apply.log; then echo "$NAME APPLY-FAILED"; cd /; git -C /repo worktree remove --force $WT; exit 4; fi
fi
timeout 600 /venv/bin/python demo_mut.py > /tmp/confirm_$NAME.patched.log 2>&1; Q=$?
S=$(timeout 1500 /venv/bin/python -m pytest -q -p no:cacheprovider --timeout=900 -x 2>&1 | tail -1)
cd /; git -C /repo worktree remove --force $WT
echo "$NAME demo_pristine=$P demo_patched=$Q suite=[$S]"
