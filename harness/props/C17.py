"""C17 — greedy assignment complete, confined, balanced, deterministic."""
from __future__ import annotations

import itertools

import gen

RULE = ('cases = (cost dict, disjoint worker groups, world, colocate) on the real static method '
        'KAISAAssignment.greedy_assignment; returned dict compared for equality with the Lean model; '
        'non-trivial = ≥2 layers and ≥2 workers; distinct = distinct canonical (work,groups,colocate)'
        '; order-independent checks through the public KAISAAssignment class (completeness, confinement to the reported gradient-worker group, co-location, in-group balance of non-co-located placements)')
TRUSTED = [
    'Lean 4.33 kernel; axioms audited ⊆ {propext, Classical.choice, Quot.sound}',
    'hand-written model KV.Kaisa.greedy tied to KAISAAssignment.greedy_assignment by this correspondence',
    'costs are natural numbers in the model; dyadic float costs are scaled to integers by the harness '
    '(order- and tie-preserving); arbitrary float costs whose sums round are outside the correspondence',
]
ASSUMPTIONS = ['Python sorted() is stable; dict preserves insertion order']
PARTIAL = []


def real(work, groups, world, colocate):
    from kfac.assignment import KAISAAssignment
    return KAISAAssignment.greedy_assignment(work, groups, world, colocate)


def oracle(ctx, work, groups, world, colocate, res):
    """Independent checker written from the statement (not from the model)."""
    case = {'work': work, 'groups': groups, 'world': world, 'colocate': colocate}
    if list(res) != list(work) or any(list(res[l]) != list(work[l]) for l in work):
        return ctx.fail('key structure differs from input', case, 'keys')
    allranks = {r for g in groups for r in g}
    for l in work:
        rs = set(res[l].values())
        if not rs <= allranks or any(not (0 <= r < world) for r in rs):
            return ctx.fail(f'layer {l}: invalid rank in {rs}', case, 'invalid-rank')
        if work[l] and not any(rs <= set(g) for g in groups):
            return ctx.fail(f'layer {l}: factors spread over several groups {rs}', case, 'not-confined')
        if colocate and len(rs) > 1:
            return ctx.fail(f'layer {l}: co-located factors on several workers', case, 'not-colocated')
    # replay the greedy rule and check each choice was a first-minimum
    loads = [0] * world
    order = sorted(work, key=lambda l: -sum(work[l].values()))  # stable
    biggest_item, biggest_layer = 0, 0
    for l in order:
        if not work[l]:
            continue
        gl = [sum(loads[i] for i in g) for g in groups]
        rs = set(res[l].values())
        gi = next(i for i, g in enumerate(groups) if rs <= set(g))
        if gl[gi] != min(gl) or gi != gl.index(min(gl)):
            return ctx.fail(f'layer {l} not placed on the first least-loaded group', case, 'group-choice')
        g = groups[gi]
        tot = sum(work[l].values())
        biggest_layer = max(biggest_layer, tot)
        if colocate:
            r = next(iter(rs))
            wl = [loads[i] for i in g]
            if r != g[wl.index(min(wl))]:
                return ctx.fail(f'layer {l} not on the first least-loaded worker', case, 'worker-choice')
            loads[r] += tot
            biggest_item = max(biggest_item, tot)
        else:
            for f, c in sorted(work[l].items(), key=lambda x: (x[1], x[0]), reverse=True):
                wl = [loads[i] for i in g]
                if res[l][f] != g[wl.index(min(wl))]:
                    return ctx.fail(f'factor {l}/{f} not on the first least-loaded worker', case, 'worker-choice')
                loads[res[l][f]] += c
                biggest_item = max(biggest_item, c)
        for gg in groups:
            wl = [loads[i] for i in gg]
            if max(wl) - min(wl) > biggest_item:
                return ctx.fail('worker loads in a group differ by more than the largest item', case, 'worker-balance')
        gl = [sum(loads[i] for i in gg) for gg in groups]
        if max(gl) - min(gl) > biggest_layer:
            return ctx.fail('group loads differ by more than the largest layer', case, 'group-balance')
    return None


def gen_groups(rng, world=None):
    if world is None:
        world = rng.choice([1, 2, 3, 4, 6, 8, 12, 16, 32, 64])
    ranks = list(range(world))
    style = rng.choice(['cols', 'rows', 'single', 'ragged', 'shuffled'])
    if style == 'single':
        groups = [ranks]
    elif style in ('cols', 'rows', 'shuffled'):
        k = rng.choice(gen.divisors(world))
        p = world // k
        groups = ([[i + j * p for j in range(k)] for i in range(p)] if style != 'rows'
                  else [[i * p + j for j in range(p)] for i in range(k)])
        if style == 'shuffled':
            rng.shuffle(groups)
            for g in groups:
                rng.shuffle(g)
    else:
        rng.shuffle(ranks)
        groups, i = [], 0
        while i < len(ranks):
            n = rng.randrange(1, 4)
            groups.append(ranks[i:i + n])
            i += n
        if rng.random() < 0.3 and len(groups) > 1:
            groups.pop()  # ranks not covered by any group are legal
    return world, groups


def run_case(ctx, lines, pend, work, groups, world, colocate):
    case = {'work': work, 'groups': groups, 'world': world, 'colocate': colocate}
    try:
        res = real(work, groups, world, colocate)
        res2 = real({l: dict(fs) for l, fs in work.items()}, [list(g) for g in groups], world, colocate)
    except Exception as e:  # noqa: BLE001
        ctx.fail(f'greedy_assignment raised {type(e).__name__}: {e}', case, 'raised')
        return
    if res != res2:
        ctx.fail('two calls with equal arguments returned different results', case, 'impure')
    oracle(ctx, work, groups, world, colocate, res)
    lines.append(f'greedy world={world} col={int(colocate)} groups={gen.natlists(groups)} work={gen.work_str(work)}')
    pend.append((case, gen.assign_str(res)))
    nworkers = sum(len(g) for g in groups)
    ctx.case(lines[-1], nontrivial=(len(work) >= 2 and nworkers >= 2), sample=case)
    ctx.count('colocate' if colocate else 'spread')
    ctx.count(f'layers{min(len(work), 9)}')
    ctx.count(f'groups{min(len(groups), 5)}')


def partitions_into_groups(ranks, maxgroups):
    """all ordered partitions of `ranks` (a list) into ≤ maxgroups non-empty consecutive blocks"""
    n = len(ranks)
    for ng in range(1, min(maxgroups, n) + 1):
        for cuts in itertools.combinations(range(1, n), ng - 1):
            idx = [0, *cuts, n]
            yield [ranks[idx[i]:idx[i + 1]] for i in range(ng)]


def run(ctx):
    rng = ctx.rng
    lines, pend = [], []
    # small-scope domain: ≤3 layers × 2 factors, costs 0..2, partitions of ≤4 ranks into ≤3 groups
    small = []
    for world in (1, 2, 3, 4):
        for groups in partitions_into_groups(list(range(world)), 3):
            small.append((world, groups))
    costs = [0, 1, 2]
    all_small = []
    for nl in (1, 2, 3):
        for cs in itertools.product(costs, repeat=2 * nl):
            all_small.append({f'l{i}': {'A': cs[2 * i], 'G': cs[2 * i + 1]} for i in range(nl)})
    if ctx.thorough():
        chosen = [(w, g, wk, c) for (w, g) in small for wk in all_small for c in (True, False)]
        ctx.exhaustive = True
        ctx.notes.append(f'small-scope domain enumerated completely: {len(chosen)} cases')
    else:
        chosen = [(*rng.choice(small), rng.choice(all_small), rng.random() < 0.5) for _ in range(1500)]
    for world, groups, work, col in chosen:
        run_case(ctx, lines, pend, work, groups, world, col)
    # random large
    for _ in range(ctx.budget(600, 6000)):
        world, groups = gen_groups(rng)
        work = gen.gen_work(rng, nlayers=rng.choice([0, 1, 2, 3, 5, 8, 13, 30, 60]))
        run_case(ctx, lines, pend, work, groups, world, rng.random() < 0.5)
    # dyadic float costs: scaled by 2^10 for the model (order/tie preserving, sums exact)
    for _ in range(ctx.budget(100, 1000)):
        world, groups = gen_groups(rng)
        iw = gen.gen_work(rng, nlayers=rng.choice([2, 3, 5, 9]), maxcost=2**20)
        fw = {l: {f: c / 1024.0 for f, c in fs.items()} for l, fs in iw.items()}
        col = rng.random() < 0.5
        case = {'work': fw, 'groups': groups, 'world': world, 'colocate': col}
        try:
            res = real(fw, groups, world, col)
        except Exception as e:  # noqa: BLE001
            ctx.fail(f'greedy_assignment raised {type(e).__name__}: {e}', case, 'raised')
            continue
        lines.append(f'greedy world={world} col={int(col)} groups={gen.natlists(groups)} work={gen.work_str(iw)}')
        pend.append((case, gen.assign_str(res)))
        ctx.case('f' + lines[-1], sample=None)
        ctx.count('float-costs')
    # through the public class: KAISAAssignment hands greedy_assignment exactly its gradient-worker groups, so every
    # factor of a layer is inverted inside the group that is_grad_worker()/grad_worker_group() report for that layer
    from kfac.assignment import KAISAAssignment
    for _ in range(ctx.budget(150, 1500)):
        w = rng.choice([1, 2, 3, 4, 6, 8, 12, 16])
        k = rng.choice(gen.divisors(w))
        col = rng.random() < 0.5
        work = gen.gen_work(rng, nlayers=rng.choice([1, 2, 3, 5, 9, 20]))
        case = {'work': work, 'world': w, 'grad_workers': k, 'colocate': col, 'stream': 'KAISAAssignment'}
        try:
            a = KAISAAssignment(work, local_rank=rng.randrange(w), world_size=w, grad_worker_fraction=k / w,
                                group_func=lambda r: list(r),
                                # (the flag is tested by truthiness throughout the library: 1 / 0 from a parsed configuration)
                                colocate_factors=(int(col) if rng.random() < 0.3 else col))
            # (which of several equally loaded groups gets a layer depends on the order in which the class lists its
            # groups — a CPython set order, modelled in C06 — so only order-independent facts are checked here)
            got = {l: {f: a.inv_worker(l, f) for f in a.get_factors(l)} for l in a.get_layers()}
            if set(got) != set(work) or any(set(got[l]) != set(work[l]) for l in work):
                ctx.fail('KAISAAssignment does not assign every factor of every layer', case, 'kaisa-complete')
            if col and any(len(set(got[l].values())) > 1 for l in work):
                ctx.fail('co-located factors of a layer are inverted on different ranks', case, 'kaisa-colocate')
            for l in work:
                g = set(a.grad_worker_group(l))
                if any(a.inv_worker(l, f) not in g for f in work[l]) or len(g) != k:
                    ctx.fail(f'a factor of layer {l} is inverted outside the layer\'s gradient-worker group {sorted(g)}', case, 'kaisa-confined')
                    break
            if not col and k > 1:
                # placed factor by factor on the least-loaded worker of the group: inside every gradient-worker group the
                # loads of two workers never differ by more than the largest single factor placed in that group
                loads, biggest = {}, {}
                for l in work:
                    g = tuple(sorted(a.grad_worker_group(l)))
                    for r_ in g:
                        loads.setdefault(g, {}).setdefault(r_, 0)
                    for f, c_ in work[l].items():
                        loads[g][a.inv_worker(l, f)] = loads[g].get(a.inv_worker(l, f), 0) + c_
                        biggest[g] = max(biggest.get(g, 0), c_)
                for g, ld in loads.items():
                    if max(ld.values()) - min(ld.values()) > biggest.get(g, 0):
                        ctx.fail(f'factors not co-located, yet inside gradient-worker group {list(g)} the worker loads {ld} differ by more '
                                 f'than the largest factor ({biggest.get(g, 0)}): not a least-loaded placement', case, 'kaisa-balance')
                        break
        except Exception as e:  # noqa: BLE001
            ctx.fail(f'KAISAAssignment raised {type(e).__name__}: {e}', case, 'kaisa-raised')
        ctx.evaluations += 1
        ctx.count('kaisa-glue')
    outs = ctx.model.ask(lines)
    for (case, il), mo in zip(pend, outs):
        if mo is not None:
            mo = mo.split(' loads=')[0]
        ctx.compare('greedy', case, mo, il)


def search(ctx):
    rng = ctx.rng
    for d in ctx.disagreements:
        c = d['case']
        if isinstance(c.get('work'), dict):
            try:
                res = real(c['work'], c['groups'], c['world'], c['colocate'])
                oracle(ctx, c['work'], c['groups'], c['world'], c['colocate'], res)
            except Exception as e:  # noqa: BLE001
                ctx.fail(f'raised {e}', c, 'raised')
        if ctx.failures:
            return
    for _ in range(20000):
        world, groups = gen_groups(rng, world=rng.choice([2, 3, 4, 6]))
        work = gen.gen_work(rng, nlayers=rng.choice([1, 2, 3, 4, 6]), maxcost=5)
        col = rng.random() < 0.5
        try:
            oracle(ctx, work, groups, world, col, real(work, groups, world, col))
        except Exception as e:  # noqa: BLE001
            ctx.fail(f'raised {e}', {'work': work, 'groups': groups, 'world': world, 'colocate': col}, 'raised')
        if ctx.failures:
            return


def replay(ctx, payload):
    c = payload.get('case', {})
    res = real(c['work'], c['groups'], c['world'], c['colocate'])
    oracle(ctx, c['work'], c['groups'], c['world'], c['colocate'], res)
    for f in ctx.failures:
        print('replay:', f['what'])
    return bool(ctx.failures)
