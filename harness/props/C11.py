"""C11 — model-parallel sharding is transparent to GPT-NeoX preconditioning."""
from __future__ import annotations

from fractions import Fraction

import neoxsim

RULE = ('random (pipe, data, model) decompositions with pipe*data*model ≤ 12, Column/RowParallelLinear shards cut from '
        'one reference layer, bias on/off, 2-d and 3-d activations, bucketed or not, pre-division, 1–3 steps with '
        'update intervals, perturbed schedules; every rank\'s gradient shards and the inverse workers\' factors are '
        'compared with the unsharded float64 reference; data-parallel replicas / model-parallel peers compared with '
        'each other; every rank\'s issued collectives (kind, members, element count, root) are compared exactly, in order, '
        'with the projection of the global script of the Lean model KV.NeoxS; the trace matcher checks matching collectives; clipping: pipe=model=1 must match the reference, '
        'model>1 or pipe>1 with active clipping is known finding F1; damping schedules (callable of the step) that change between inverse updates (intervals 2, 3); non-trivial = model-parallel degree > 1')
TRUSTED = [
    'Lean 4.33 kernel; axioms audited ⊆ {propext, Classical.choice, Quot.sound}',
    'hand-written model KV.NeoxLayer (gather/split/scatter along the sharded dimension, factor shapes, reduction groups) '
    'and KV.Neox (assignment, C12); KV.NeoxS (global script of the collectives of the GPT-NeoX path: hooks, step, '
    'preconditioned_grad, bucketing) tied to kfac/gpt_neox/layer.py, mpu.py, base_preconditioner.py by exact trace comparison',
    'DeepSpeed is NOT installed: topology stub; Megatron Column/RowParallelLinear are harness mocks holding one shard '
    'each whose forward/backward use harness-side collectives (not recorded)',
    'simdist semantics of all_gather / reduce_scatter / broadcast; float32 eigh inside kfac (tolerance 5e-3)',
]
ASSUMPTIONS = ['each pipeline stage is fed its own inputs (no real pipeline transfer): K-FAC treats stages independently']
PARTIAL = ['clip_transparent is disproved for model-parallel degree > 1 (finding F1); the proved/checked part is nu = 1 '
           'or (pipe = model = 1)', 'stub topology, mock parallel layers, float']
TOL = 5e-3
SCRIPT_PEND = []


def check_case(ctx, cfg, seed):
    case = dict(cfg.describe(), sched_seed=seed)
    rr = neoxsim.run_real(cfg, seed)
    f = neoxsim.run_failed(rr)
    if f:
        ctx.fail(f'run failed: {f}', case, 'run-failed')
        return
    import kfacsim

    class W:
        pass
    wcfg = W()
    wcfg.world = cfg.world
    wcfg.describe = lambda: case
    kfacsim.oracle_trace(ctx, wcfg, rr, key_prefix='neox-trace')
    line = neoxsim.script_line(cfg, rr)
    if line is not None:
        SCRIPT_PEND.append((case, line, [neoxsim.impl_issues(rr, r) for r in range(cfg.world)]))
    ref = neoxsim.reference(cfg)
    clip_scope_f1 = cfg.kl is not None and (cfg.mp > 1 or cfg.pp > 1)
    bad = None
    for r in range(cfg.world):
        res = rr.res[r]
        p, d, m = res['coord']
        si = 0
        for oi, rec in enumerate(res['ops']):
            if rec['op'] != 's':
                continue
            facs, V, D = ref[p][si]
            si += 1
            for l, (kind, (wg, bg)) in enumerate(zip(res['kinds'], rec['grads'])):
                ws, bs = neoxsim.shard_of(cfg, kind, bg is not None, V[l], m)
                e = neoxsim.relerr(wg, ws)
                if bg is not None:
                    e = max(e, neoxsim.relerr(bg, bs))
                if e > TOL and bad is None:
                    bad = (r, oi, l, kind, e)
                if rec['factors'][l] is not None:
                    ef = max(neoxsim.relerr(rec['factors'][l][0], facs[l][0]), neoxsim.relerr(rec['factors'][l][1], facs[l][1]))
                    if ef > 1e-9:
                        ctx.fail(f'factor of layer {l} ({kind}-parallel) on inverse worker {r} differs from the unsharded '
                                 f'layer\'s factor by {ef:.2e}', dict(case, layer=l, rank=r), 'neox-factor')
                        return
    if bad is not None:
        r, oi, l, kind, e = bad
        if clip_scope_f1:
            ctx.fail(f'with active clipping and model/pipe parallelism the shards differ from the unsharded clipped gradient '
                     f'(rank {r}, layer {l}, relerr {e:.2e})', case, 'neox-clip-mp-or-pp>1')
        else:
            ctx.fail(f'rank {r} (coord {rr.res[r]["coord"]}) does not hold its shard of the unsharded preconditioned gradient: '
                     f'{kind}-parallel layer {l}, relerr {e:.2e}', dict(case, layer=l, rank=r), 'neox-shard')
    ctx.case(str(case), nontrivial=cfg.mp > 1, sample=case if cfg.world <= 4 else None)
    ctx.count(f'mp{cfg.mp}')
    ctx.count(f'dp{cfg.dp}')
    ctx.count(f'pp{cfg.pp}')
    ctx.count('clip' if cfg.kl is not None else 'noclip')


def exact_layer_stream(ctx):
    """the real GPTNeoXKFACEigenLayer.preconditioned_grad on mp simulated ranks with scripted exact
    eigen data on the primary, compared EXACTLY with the Lean data-movement model (KV.NeoxL.neoxPrecond)"""
    import os
    import sys
    from fractions import Fraction as Fr
    import torch
    import simdist
    sys.path.insert(0, os.path.dirname(os.path.abspath(__file__)))
    import C01
    neoxsim.stubs()
    from kfac.distributed import TorchDistributedCommunicator
    from kfac.gpt_neox.layer import GPTNeoXKFACEigenLayer
    from kfac.gpt_neox.modules import GPTNeoXLinearModuleHelper
    rng = ctx.rng
    lines, pend = [], []
    for it in range(ctx.budget(40, 400)):
        par = rng.choice(['col', 'row'])
        mp = rng.choice([1, 2, 2, 3, 4])
        primary = rng.randrange(mp)
        bias = rng.random() < 0.6
        fin_s, fout_s = rng.choice([1, 2, 3]), rng.choice([1, 2])
        fin = fin_s * (mp if par == 'row' else 1)
        fout = fout_s * (mp if par == 'col' else 1)
        a, g = fin + int(bias), fout
        if a > 8 or g > 8:
            continue
        Qa, Qg = C01.orth(rng, a), C01.orth(rng, g)
        da = torch.tensor([float(rng.choice([0, 1])) for _ in range(a)], dtype=torch.float64)
        dg = torch.tensor([float(rng.choice([0, 1, 3, 7])) for _ in range(g)], dtype=torch.float64)
        wfull = torch.tensor([[float(rng.randrange(-9, 10)) for _ in range(fin)] for _ in range(fout)], dtype=torch.float64)
        bfull = torch.tensor([float(rng.randrange(-9, 10)) for _ in range(fout)], dtype=torch.float64)
        case = {'par': par, 'mp': mp, 'primary': primary, 'bias': bias, 'fin': fin, 'fout': fout}

        def prog(rank):
            import torch.distributed as dist
            w = simdist._tls.world
            w.muted[rank] = True
            grp = dist.new_group(list(range(mp)))
            w.muted[rank] = False
            if par == 'col':
                n = fout // mp
                m = torch.nn.Linear(fin, n, bias=bias).double()
                m.weight.grad = wfull[rank * n:(rank + 1) * n].clone()
                if bias:
                    m.bias.grad = bfull[rank * n:(rank + 1) * n].clone()
                parallelism = 'output'
            else:
                n = fin // mp
                m = torch.nn.Linear(n, fout, bias=bias).double()
                m.weight.grad = wfull[:, rank * n:(rank + 1) * n].clone()
                if bias:
                    m.bias.grad = bfull.clone()
                parallelism = 'input'
            hlp = GPTNeoXLinearModuleHelper(m, grp, parallelism)
            lay = GPTNeoXKFACEigenLayer(hlp, parallelism=parallelism, model_parallel_group=grp,
                                        tdc=TorchDistributedCommunicator(), inv_dtype=torch.float64, primary_rank=primary)
            if rank == primary:
                lay.qa, lay.da, lay.qg, lay.dg = Qa.clone(), da.clone(), Qg.clone(), dg.clone()
            lay.preconditioned_grad(damping=1.0)
            return lay.grad.clone(), hlp.a_factor_shape[0], hlp.g_factor_shape[0]

        wd, res = simdist.run_world(mp, prog, seed=ctx.seed * 53 + it)
        if wd.stalled or wd.exceptions or wd.errors:
            ctx.fail(f'layer run failed: stalled={wd.stalled} exc={dict(list(wd.exceptions.items())[:1])} errors={wd.errors[:1]}',
                     case, 'neox-layer-run')
            continue
        if par == 'col':
            shards = [wfull[r * (fout // mp):(r + 1) * (fout // mp)] for r in range(mp)]
            bsh = [bfull[r * (fout // mp):(r + 1) * (fout // mp)] for r in range(mp)]
            rows, wcols, shardin, shardout = 0, fin, fin, fout // mp
        else:
            shards = [wfull[:, r * (fin // mp):(r + 1) * (fin // mp)] for r in range(mp)]
            bsh = [bfull for _ in range(mp)]
            rows, wcols, shardin, shardout = fout, fin, fin // mp, fout
        lines.append(f'neoxl par={par} mp={mp} primary={primary} rows={rows} wcols={wcols} shardin={shardin} shardout={shardout} '
                     f'g={g} a={a} w={"#".join(C01.mstr(x) for x in shards)} '
                     f'b={"#".join(C01.vstr(x) for x in bsh) if bias else "none"} '
                     f'qa={C01.mstr(Qa)} da={C01.vstr(da)} qg={C01.mstr(Qg)} dg={C01.vstr(dg)} lam=1')
        pend.append((case, res))
        ctx.case(lines[-1], nontrivial=mp > 1, sample=case)
        ctx.count('exact-layer-' + par)
    for (case, res), mo in zip(pend, ctx.model.ask(lines)):
        if mo is None:
            continue
        parts = mo.split(' ')
        ok = True
        why = ''
        ad, gd = int(parts[0].split('=')[1]), int(parts[1].split('=')[1])
        for r, (grad, ash, gsh) in enumerate(res):
            if (ash, gsh) != (ad, gd):
                ok, why = False, f'factor shapes ({ash},{gsh}) vs model ({ad},{gd})'
                break
            _, wpart, bpart = parts[2 + r].split(':')
            wm, bm = wpart[2:], bpart[2:]
            wt = grad[:, :-1] if case['bias'] else grad
            if not C01.matches(wt, wm):
                ok, why = False, f'rank {r} weight shard {wt.tolist()} vs model {wm}'
                break
            if case['bias'] and [Fr(x) for x in bm.split(',')] != [Fr(float(x)) for x in grad[:, -1].tolist()]:
                ok, why = False, f'rank {r} bias {grad[:, -1].tolist()} vs model {bm}'
                break
        ctx.compare('neox-layer-exact', dict(case, why=why), 'match' if ok else why, 'match')


def lowprec_layer_stream(ctx):
    """half-precision gradients with float32 second-order data: every rank's shard of the sharded layer's result is BITWISE
    the corresponding shard of what the library's own unsharded KFACEigenLayer computes from the same (scripted) eigen data —
    both do the whole computation in inv_dtype and round once at the end (C11-mutU cast to the gradient dtype before the
    back-projection: one bfloat16 ulp off, invisible to any tolerance that allows bfloat16 rounding)"""
    import torch
    import simdist
    neoxsim.stubs()
    from kfac.distributed import TorchDistributedCommunicator
    from kfac.gpt_neox.layer import GPTNeoXKFACEigenLayer
    from kfac.gpt_neox.modules import GPTNeoXLinearModuleHelper
    from kfac.layers.eigen import KFACEigenLayer
    from kfac.layers.modules import LinearModuleHelper
    rng = ctx.rng
    for it in range(ctx.budget(10, 80)):
        par = rng.choice(['col', 'row'])
        mp = rng.choice([2, 2, 3, 4])
        primary = rng.randrange(mp)
        bias = rng.random() < 0.6
        gdt = rng.choice([torch.bfloat16, torch.bfloat16, torch.float16])
        fin = rng.choice([2, 3, 5]) * (mp if par == 'row' else 1)
        fout = rng.choice([2, 3, 4]) * (mp if par == 'col' else 1)
        a, g = fin + int(bias), fout
        gen = torch.Generator().manual_seed(ctx.seed * 977 + it)
        Qa = torch.linalg.qr(torch.randn(a, a, generator=gen))[0].float()
        Qg = torch.linalg.qr(torch.randn(g, g, generator=gen))[0].float()
        da = torch.rand(a, generator=gen).float() * 3
        dg = torch.rand(g, generator=gen).float() * 3
        wfull = (torch.randn(fout, fin, generator=gen) * 3).to(gdt)
        bfull = (torch.randn(fout, generator=gen) * 3).to(gdt)
        damping = rng.choice([0.01, 0.3])
        case = {'stream': 'low-precision-layer', 'par': par, 'mp': mp, 'primary': primary, 'bias': bias, 'fin': fin, 'fout': fout,
                'grad_dtype': str(gdt), 'damping': damping, 'seed': ctx.seed * 977 + it}
        full = torch.nn.Linear(fin, fout, bias=bias).to(gdt)
        full.weight.grad = wfull.clone()
        if bias:
            full.bias.grad = bfull.clone()
        ref = KFACEigenLayer(LinearModuleHelper(full), tdc=TorchDistributedCommunicator(), inv_dtype=torch.float32)
        ref.qa, ref.da, ref.qg, ref.dg = Qa.clone(), da.clone(), Qg.clone(), dg.clone()
        ref.preconditioned_grad(damping=damping)
        want = ref.grad.clone()

        def prog(rank):
            import torch.distributed as dist
            w = simdist._tls.world
            w.muted[rank] = True
            grp = dist.new_group(list(range(mp)))
            w.muted[rank] = False
            if par == 'col':
                n = fout // mp
                m = torch.nn.Linear(fin, n, bias=bias).to(gdt)
                m.weight.grad = wfull[rank * n:(rank + 1) * n].clone()
                if bias:
                    m.bias.grad = bfull[rank * n:(rank + 1) * n].clone()
                parallelism = 'output'
            else:
                n = fin // mp
                m = torch.nn.Linear(n, fout, bias=bias).to(gdt)
                m.weight.grad = wfull[:, rank * n:(rank + 1) * n].clone()
                if bias:
                    m.bias.grad = bfull.clone()
                parallelism = 'input'
            hlp = GPTNeoXLinearModuleHelper(m, grp, parallelism)
            lay = GPTNeoXKFACEigenLayer(hlp, parallelism=parallelism, model_parallel_group=grp,
                                        tdc=TorchDistributedCommunicator(), inv_dtype=torch.float32, primary_rank=primary)
            if rank == primary:
                lay.qa, lay.da, lay.qg, lay.dg = Qa.clone(), da.clone(), Qg.clone(), dg.clone()
            lay.preconditioned_grad(damping=damping)
            return lay.grad.clone()

        wd, res = simdist.run_world(mp, prog, seed=ctx.seed * 59 + it)
        if wd.stalled or wd.exceptions or wd.errors:
            ctx.fail(f'low-precision layer run failed: stalled={wd.stalled} exc={dict(list(wd.exceptions.items())[:1])} errors={wd.errors[:1]}',
                     case, 'neox-lowprec-run')
            continue
        for r, got in enumerate(res):
            if par == 'col':
                n = fout // mp
                exp = want[r * n:(r + 1) * n]
            else:
                n = fin // mp
                exp = torch.cat([want[:, r * n:(r + 1) * n]] + ([want[:, fin:]] if bias else []), 1)
            if got.dtype != exp.dtype or tuple(got.shape) != tuple(exp.shape) or not torch.equal(got, exp):
                err = (got.float() - exp.float()).abs().max().item() if tuple(got.shape) == tuple(exp.shape) else float('nan')
                ctx.fail(f'rank {r}: the {gdt} shard of the sharded layer differs from the same shard of the unsharded layer computed from the '
                         f'same float32 eigen data (max abs difference {err:.3e}, dtype {got.dtype} vs {exp.dtype})', case, 'neox-lowprec-shard')
                break
        ctx.evaluations += 1
        ctx.case(('lowprec', par, mp, primary, bias, fin, fout, str(gdt)), nontrivial=True)
        ctx.count('lowprec-' + par)


def gen(ctx, rng):
    while True:
        cfg = neoxsim.NCfg(rng)
        if cfg.world <= 12:
            break
    cfg.ops = []
    for _ in range(rng.randrange(1, 4)):
        cfg.ops += ['f1', 's']
    return cfg


def run(ctx):
    exact_layer_stream(ctx)
    lowprec_layer_stream(ctx)
    rng = ctx.rng
    # corpus -------------------------------------------------------------------------------------
    corpus = []
    # D6 witness: bias-free column-parallel layer, mp > 1
    corpus.append(neoxsim.NCfg(rng, pp=1, dp=1, mp=2, blocks=1, bias_col=False, bias_row=True, ops=['f1', 's'], cap_mb=0.0))
    # F1 witness: active clipping with mp = 2
    corpus.append(neoxsim.NCfg(rng, pp=1, dp=1, mp=2, blocks=1, kl=Fraction(1, 10**4), ops=['f1', 's'], cap_mb=0.0, lead=()))
    # clipping with pipe = model = 1 must match the reference
    corpus.append(neoxsim.NCfg(rng, pp=1, dp=2, mp=1, blocks=2, kl=Fraction(1, 10**4), ops=['f1', 's', 'f1', 's'], cap_mb=0.0))
    # dp×mp with 3-d activations, row bias (non-contiguous bias slice path)
    corpus.append(neoxsim.NCfg(rng, pp=1, dp=2, mp=2, blocks=1, bias_row=True, bias_col=True, lead=(2,), ops=['f1', 's', 'f1', 's']))
    # damping schedule that changes between inverse updates (inv_update_steps = 2, 3): the damping in force at each step counts
    for ius, mp in ((2, 2), (3, 1), (3, 2)):
        corpus.append(neoxsim.NCfg(rng, pp=1, dp=2, mp=mp, blocks=1, fus=1, ius=ius, prediv=False, accum=1,
                                   damping=[Fraction(1, 4), Fraction(1, 16), Fraction(1, 2), Fraction(1, 8)],
                                   ops=['f1', 's'] * 4, cap_mb=0.0))
    # one communicator carries two live groups per rank (data-parallel group of the sharded-side factors on the primaries,
    # stage peers for the replicated side): capacities that hold a sharded-side factor alone but not two in a row, so that
    # one group's bucket overflows while the other group's bucket is still open
    for cap, blocks in ((0.0006, 2), (0.0011, 2), (0.0006, 1)):
        corpus.append(neoxsim.NCfg(rng, pp=1, dp=2, mp=2, blocks=blocks, din=3, hidden=8, bias_col=False, bias_row=False, fus=1, ius=1,
                                   accum=1, hook=True, sym=False, cap_mb=cap, ops=['f1', 's'] * 2))
    # micro-batches of different sizes inside an accumulation window (model-parallel degree 1: the gathers are no collectives,
    # so the script does not depend on the row counts)
    for accum, dp in ((2, 2), (3, 1), (2, 1)):
        corpus.append(neoxsim.NCfg(rng, pp=1, dp=dp, mp=1, blocks=1, fus=1, ius=1, accum=accum, ragged=True, hook=rng.random() < 0.5,
                                   ops=['f1', 's'] * 3, cap_mb=0.0))
    n = ctx.budget(40, 400)
    for i in range(n):
        cfg = corpus[i] if i < len(corpus) else gen(ctx, rng)
        if i >= len(corpus) and rng.random() < 0.25:
            cfg.kl = Fraction(1, 10**4)
            if rng.random() < 0.6:
                cfg.mp, cfg.pp = 1, 1
        check_case(ctx, cfg, ctx.seed * 977 + i)
    # every rank's collectives (kind, members, element count, root), in order, against the projection of the global
    # script of M-NeoxScript
    neoxsim.compare_script(ctx, SCRIPT_PEND)
    del SCRIPT_PEND[:]


def search(ctx):
    pass


def replay(ctx, payload):
    run(ctx)
    for f in ctx.failures[:5]:
        print('replay:', f['what'])
    return any(f['key'] != 'neox-clip-mp-or-pp>1' for f in ctx.failures)
