"""C16 — exactly the eligible layers are registered, once each."""
from __future__ import annotations

import os
import re
import sys

RULE = ('random torch module trees (depth ≤ 4; Sequential/ModuleList/ModuleDict/custom containers, shared '
        'instances, None children, subclasses of Linear/Conv2d, a Linear subclass with a child, unsupported '
        'leaves with and without parameters, partially/fully frozen and tied parameters) and random regex skip '
        'lists; real KFACPreconditioner (and the GPT-NeoX register_modules) vs the Lean walk+filter model '
        'with re.search supplied as a truth table; hooks counted on every module; non-trivial = ≥2 eligible '
        'candidates and ≥1 pattern or shared/frozen module'
        '; siblings whose names extend each other, names containing wrapper prefixes, one skip-list object edited in place between registrations, DEBUG logging enabled for the kfac loggers, Linear and Conv2d leaves with an extra (frozen) parameter besides weight and bias, patterns with inline global flags / capturing groups / anchors')
TRUSTED = [
    'Lean 4.33 kernel; axioms audited ⊆ {propext, Classical.choice, Quot.sound}',
    'hand-written model KV.Reg tied to kfac/layers/register.py and kfac/gpt_neox/preconditioner.py:register_modules',
    'Python re.search is an opaque predicate (its truth table on the occurring strings is shipped to the model)',
    'torch.nn.Module.named_modules/children semantics (pre-order, memoised by identity) — exercised, not proved',
    'GPT-NeoX variant uses mock ColumnParallelLinear/RowParallelLinear subclasses of torch.nn.Linear and a stub deepspeed',
]
ASSUMPTIONS = ['module names contain no "." (PyTorch forbids it)']
PARTIAL = []

STUBS = os.path.join(os.path.dirname(os.path.dirname(os.path.abspath(__file__))), 'stubs')


def classes():
    import torch

    class MyLinear(torch.nn.Linear):
        pass

    class Conv2dSub(torch.nn.Conv2d):
        pass

    class LinWithChild(torch.nn.Linear):
        def __init__(self, *a, **k):
            super().__init__(*a, **k)
            self.act = torch.nn.ReLU()

    class ScaledLinear(torch.nn.Linear):
        """a Linear leaf with a parameter besides weight and bias (fixed scale / gate, weight-norm's g)"""
        def __init__(self, *a, **k):
            super().__init__(*a, **k)
            self.scale = torch.nn.Parameter(torch.ones(1))

    class GatedConv2d(torch.nn.Conv2d):
        def __init__(self, *a, **k):
            super().__init__(*a, **k)
            self.gate = torch.nn.Parameter(torch.ones(1))

    class ColumnParallelLinear(torch.nn.Linear):
        pass

    class RowParallelLinear(torch.nn.Linear):
        pass

    class LoRARowParallelLinear(torch.nn.Linear):
        """class names that merely END with a supported GPT-NeoX name are other layer types"""

    class TELayerNormColumnParallelLinear(torch.nn.Linear):
        pass

    class Block(torch.nn.Module):
        pass

    class linear(torch.nn.Module):  # class NAMED like a supported type but not one
        def __init__(self):
            super().__init__()
            self.weight = torch.nn.Parameter(torch.zeros(2, 2))

    return dict(ScaledLinear=ScaledLinear, GatedConv2d=GatedConv2d, MyLinear=MyLinear, Conv2dSub=Conv2dSub, LinWithChild=LinWithChild,
                ColumnParallelLinear=ColumnParallelLinear, RowParallelLinear=RowParallelLinear,
                LoRARowParallelLinear=LoRARowParallelLinear, TELayerNormColumnParallelLinear=TELayerNormColumnParallelLinear,
                Block=Block, linear=linear)


def gen_tree(rng, C, depth=0, pool=None):
    import torch
    nn = torch.nn
    pool = pool if pool is not None else []
    r = rng.random()
    if depth >= 3 or (depth > 0 and r < 0.55):
        kind = rng.choice(['Linear', 'Linear', 'Conv2d', 'MyLinear', 'Conv2dSub', 'ReLU', 'BatchNorm2d',
                           'LayerNorm', 'Embedding', 'Column', 'Row', 'LinWithChild', 'Identity', 'fake',
                           'Conv1d', 'shared', 'ScaledLinear', 'GatedConv2d', 'LoRARow', 'TECol'])
        if kind == 'shared' and pool:
            return rng.choice(pool)
        bias = rng.random() < 0.7
        m = {
            'Linear': lambda: nn.Linear(2, 3, bias=bias), 'Conv2d': lambda: nn.Conv2d(1, 2, 2, bias=bias),
            'MyLinear': lambda: C['MyLinear'](2, 2, bias=bias), 'Conv2dSub': lambda: C['Conv2dSub'](1, 1, 1, bias=bias),
            'ReLU': nn.ReLU, 'BatchNorm2d': lambda: nn.BatchNorm2d(2), 'LayerNorm': lambda: nn.LayerNorm(2),
            'Embedding': lambda: nn.Embedding(3, 2), 'Column': lambda: C['ColumnParallelLinear'](2, 2, bias=bias),
            'Row': lambda: C['RowParallelLinear'](2, 2, bias=bias), 'LinWithChild': lambda: C['LinWithChild'](2, 2),
            'Identity': nn.Identity, 'fake': C['linear'], 'Conv1d': lambda: nn.Conv1d(1, 1, 1),
            'shared': lambda: nn.Linear(2, 2),
            'LoRARow': lambda: C['LoRARowParallelLinear'](2, 2, bias=bias), 'TECol': lambda: C['TELayerNormColumnParallelLinear'](2, 2, bias=bias),
            'ScaledLinear': lambda: C['ScaledLinear'](2, 2, bias=bias), 'GatedConv2d': lambda: C['GatedConv2d'](1, 1, 1, bias=bias),
        }[kind]()
        fr = rng.random()
        ps = list(m.parameters(recurse=False))
        if kind in ('ScaledLinear', 'GatedConv2d') and fr < 0.6:
            # only the extra parameter is frozen: weight and bias train, the module as a whole is partially frozen
            getattr(m, 'scale' if kind == 'ScaledLinear' else 'gate').requires_grad_(False)
        elif ps and fr < 0.2:
            for p in ps:
                p.requires_grad_(False)
        elif ps and fr < 0.35:
            ps[-1].requires_grad_(False)
        elif ps and fr < 0.5 and pool:
            # tie the weight to an earlier module's (possibly frozen) weight of the same shape
            for o in pool:
                w = getattr(o, 'weight', None)
                if isinstance(w, torch.nn.Parameter) and hasattr(m, 'weight') and m.weight is not None \
                        and w.shape == m.weight.shape:
                    m.weight = w
                    break
        if kind in ('Linear', 'Conv2d', 'MyLinear', 'Conv2dSub') and rng.random() < 0.12:
            # an optional sub-module slot that is empty: the layer is still a leaf (children() yields nothing)
            m.register_module(rng.choice(['aux', 'bn', 'act']), None)
        pool.append(m)
        return m
    n = rng.randrange(2, 6) if depth == 0 else rng.randrange(0, 4)
    kids = [gen_tree(rng, C, depth + 1, pool) for _ in range(n)]
    ck = rng.choice(['Sequential', 'ModuleList', 'ModuleDict', 'Block'])
    if ck == 'Sequential':
        return nn.Sequential(*kids)
    if ck == 'ModuleList':
        return nn.ModuleList(kids)
    # incl. siblings whose names extend each other as strings without being parent and child (proj / proj_drop)
    base = ['fc', 'conv', 'head', 'proj', 'attention', 'dense', 'out', 'l0', 'x']
    if rng.random() < 0.3:
        # attribute names that contain the prefixes model wrappers add ('module.', '_orig_mod.') without being wrappers
        base = ['adapter_module', 'module', 'fc', 'enc_orig_mod', 'conv', 'head', 'submodule', 'x', 'proj']
    if rng.random() < 0.4:
        base = ['fc', 'fc_out', 'proj', 'proj_drop', 'conv', 'conv_bn', 'head', 'head2', 'x', 'x1']
        names = []
        while len(names) < len(kids):
            a = rng.choice(['fc', 'proj', 'conv', 'head', 'x'])
            for nm in (a, {'fc': 'fc_out', 'proj': 'proj_drop', 'conv': 'conv_bn', 'head': 'head2', 'x': 'x1'}[a]):
                if nm not in names and len(names) < len(kids):
                    names.append(nm)
    else:
        names = rng.sample(base, len(kids))
    if ck == 'ModuleDict':
        return nn.ModuleDict(dict(zip(names, kids)))
    b = C['Block']()
    for nm, k in zip(names, kids):
        setattr(b, nm, k)
    if rng.random() < 0.3:
        b.register_module('nothing', None)
    return b


def gen_patterns(rng):
    if rng.random() < 0.15:
        return rng.sample(['adapter_module', r'module\.', r'^module', r'_orig_mod\.', r'_module\.fc', 'submodule', r'module\.\d'],
                          rng.choice([1, 2]))
    if rng.random() < 0.12:
        # patterns whose match is zero-width (look-aheads used as whitelists, optional groups, the empty pattern): a match is
        # a match, however many characters it spans
        zw = [r'^(?!fc)', r'^(?=conv|head)', r'(proj)*', '', r'^(?![^.]*\.)', r'\b(?=x)', r'(?<=\.)(?=0)', r'$']
        return rng.sample(zw, rng.choice([1, 1, 2]))
    atoms = ['fc', 'conv', 'Linear', 'linear', '^0', '0$', r'\.1', 'proj|head', 'Conv2d', '^$', 'a', 'My', 'x.y',
             'Parallel', 'column', r'^\w+\.\d$', 'dense', 'l0', 'Sub$', '.']
    if rng.random() < 0.25:
        # every pattern is searched on its own: an inline flag or a capturing group of one pattern means nothing to
        # the others (global flags are written first, as Python requires)
        special = [r'\d{1,2}$', r'^\w{2,}\.0', r'l{1,}0', r'c{1,2}onv', '(?i)conv', '(?i)LINEAR', '(?i)^FC', r'(fc|proj)_\w+$', r'(\d)\1', r'(conv)$', r'(?i)head\d', r'(.)\1',
                   r'(?x) proj # comment', r'(?s)x.']
        return rng.sample(special, rng.choice([1, 2, 2, 3])) + rng.sample(atoms[:-1], rng.choice([0, 1, 2]))
    return rng.sample(atoms[:-1], rng.choice([0, 0, 1, 1, 2, 3])) if rng.random() < 0.97 else ['.']


def encode(root):
    """tree string for the model + list of all candidate query strings"""
    import torch
    ids = {}
    names = set()
    clsnames = set()

    def enc(m, prefix):
        i = ids.setdefault(id(m), len(ids))
        cls = 1 if isinstance(m, torch.nn.Linear) else (2 if isinstance(m, torch.nn.Conv2d) else 0)
        cn = type(m).__name__
        names.add(prefix)
        clsnames.add(cn)
        ps = ''.join('1' if p.requires_grad else '0' for p in m.parameters(recurse=False)) or '-'
        s = f'({i},{cls},{cn},{ps}'
        for nm, ch in m._modules.items():
            q = prefix + ('.' if prefix else '') + nm
            s += f';{nm}=' + ('~' if ch is None else enc(ch, q))
        return s + ')'
    return enc(root, ''), ids, names, clsnames


def tbl_str(strings, pats):
    rows = []
    for q in sorted(strings):
        bits = ''.join('1' if re.compile(p).search(q) else '0' for p in pats) or '-'
        rows.append(f'{q}:{bits}')
    return '|'.join(rows)


def independent_walk(root, pats, neox):
    """Oracle written from the statement, not from the model."""
    import torch
    seen, out = set(), []

    def rec(m, name):
        if id(m) in seen:
            return
        seen.add(id(m))
        kids = [(n, c) for n, c in m._modules.items() if c is not None]
        if not kids:
            cn = type(m).__name__
            if neox:
                ok_type = cn.lower() in ('columnparallellinear', 'rowparallellinear')
                cq = cn.lower()
            else:
                ok_type = isinstance(m, (torch.nn.Linear, torch.nn.Conv2d))
                cq = cn
            if ok_type and all(p.requires_grad for p in m.parameters()) \
                    and not any(re.search(p, name) for p in pats) and not any(re.search(p, cq) for p in pats):
                out.append((name, id(m)))
        for n, c in kids:
            rec(c, name + ('.' if name else '') + n)
    rec(root, '')
    return out


def run(ctx):
    if STUBS not in sys.path:
        sys.path.insert(0, STUBS)
    import torch
    from kfac.preconditioner import KFACPreconditioner
    from kfac.distributed import TorchDistributedCommunicator
    import kfac.gpt_neox.preconditioner as gp
    rng = ctx.rng
    C = classes()
    lines, pend = [], []
    def tied_frozen():
        # directed corpus: weight tying with the shared parameter frozen (decoder.weight = encoder.weight)
        nn = torch.nn
        enc, dec, other = nn.Linear(3, 3), nn.Linear(3, 3), nn.Linear(3, 2)
        dec.weight = enc.weight
        enc.weight.requires_grad_(False)
        b = C['Block']()
        for nm, k in rng.sample([('encoder', enc), ('decoder', dec), ('head', other)], 3):
            setattr(b, nm, k)
        return b
    import logging
    shared_pats = ['^never$', '^never$']      # ONE list object handed in again and again, edited in place between registrations
    for it_ in range(ctx.budget(500, 5000)):
        root = tied_frozen() if it_ < 3 else gen_tree(rng, C)
        if it_ >= 3 and rng.random() < 0.04:
            # the model handed over is itself a leaf (logistic regression: KFACPreconditioner(torch.nn.Linear(784, 10)))
            root = rng.choice([lambda: torch.nn.Linear(3, 2), lambda: torch.nn.Conv2d(1, 2, 1), lambda: C['MyLinear'](2, 2), lambda: torch.nn.ReLU()])()
            ctx.count('root-is-a-leaf')
        if it_ >= 3 and rng.random() < 0.2:
            # eligibility is a property of the tree and the patterns, not of the train/eval flag at registration time
            # (a validation pass before building the preconditioner, a backbone kept in eval mode)
            mods_ = list(root.modules())
            rng.choice(mods_).eval()
            ctx.count('eval-mode-at-registration')
        pats = [] if it_ < 3 else gen_patterns(rng)
        if it_ >= 3 and rng.random() < 0.25:
            # the caller keeps one skip list and edits it in place (same object, same length, new patterns)
            new = (gen_patterns(rng) + gen_patterns(rng) + ['^never$', '^never$'])[:2]
            shared_pats[:] = new
            pats = shared_pats
            ctx.count('skip-list-edited-in-place')
        neox = rng.random() < 0.25 and it_ >= 3
        # registration must not depend on the logging configuration of the application
        debug = it_ >= 3 and rng.random() < 0.2
        if debug:
            logging.getLogger('kfac').setLevel(logging.DEBUG)
            ctx.count('debug-logging')
        tree, ids, names, clsnames = encode(root)
        case = {'tree': tree, 'patterns': list(pats), 'neox': neox, 'debug_logging': debug, 'in_place_list': pats is shared_pats}
        try:
            if neox:
                layers = gp.register_modules(root, model_parallel_group=None, skip_layers=pats,
                                             tdc=TorchDistributedCommunicator())
                hooked = None
            else:
                p = KFACPreconditioner(root, skip_layers=pats)
                layers = p._layers
                hooked = p
        except Exception as e:  # noqa: BLE001
            ctx.fail(f'registration raised {type(e).__name__}: {e}', case, 'raised')
            logging.getLogger('kfac').setLevel(logging.NOTSET)
            continue
        logging.getLogger('kfac').setLevel(logging.NOTSET)
        reg = []
        for m, (nm, layer) in layers.items():
            h = type(layer.module).__name__
            kind = {'LinearModuleHelper': 'linear', 'Conv2dModuleHelper': 'conv2d'}.get(h)
            if kind is None:
                kind = getattr(layer, 'parallelism', '?')
            reg.append(f'{nm}:{ids[id(m)]}:{kind}')
        walk = [f'{nm}:{ids[id(m)]}' for nm, m in root.named_modules()]
        impl = 'reg=' + ','.join(reg) + ' walk=' + ','.join(walk)
        # oracle 1: the statement
        want = independent_walk(root, pats, neox)
        got = [(nm, id(m)) for m, (nm, _) in layers.items()]
        if got != want:
            ctx.fail(f'registered {[g[0] for g in got]} but the eligible leaves are {[w[0] for w in want]}',
                     case, 'wrong-set')
        if len({g[1] for g in got}) != len(got) or len({g[0] for g in got}) != len(got):
            ctx.fail('a module or a name registered twice', case, 'duplicate')
        # oracle 2: hooks exactly on the registered modules, once
        if hooked is not None:
            regids = {id(m) for m in layers}
            for _, m in root.named_modules():
                nh = len(m._forward_pre_hooks) + len(m._backward_hooks)
                if id(m) in regids and nh != 2:
                    ctx.fail(f'registered module carries {nh} hooks instead of 2', case, 'hooks')
                if id(m) not in regids and nh != 0:
                    ctx.fail('hooks installed on an unregistered module', case, 'hooks-extra')
        # the same root registered AGAIN after its tree was edited (a head replaced, an adapter added, a layer swapped for
        # Identity): the second registration sees the tree as it is now
        if it_ >= 3 and not neox and rng.random() < 0.15 and isinstance(root, torch.nn.Module) and len(list(root.children())) > 0:
            kids = [n_ for n_, c_ in root.named_children()]
            victim = rng.choice(kids)
            try:
                setattr(root, victim, rng.choice([torch.nn.Identity(), torch.nn.Linear(2, 2), torch.nn.Sequential(torch.nn.Linear(2, 2), torch.nn.ReLU())])) \
                    if not isinstance(root, (torch.nn.Sequential, torch.nn.ModuleList, torch.nn.ModuleDict)) else root.__setitem__(
                        victim if isinstance(root, torch.nn.ModuleDict) else int(victim), rng.choice([torch.nn.Identity(), torch.nn.Linear(2, 2)]))
                if not isinstance(root, (torch.nn.Sequential, torch.nn.ModuleList, torch.nn.ModuleDict)):
                    root.add_module('added_adapter', torch.nn.Linear(2, 2))
                for m_ in root.modules():
                    m_._forward_pre_hooks.clear()
                    m_._backward_hooks.clear()
                p2 = KFACPreconditioner(root, skip_layers=list(pats))
                got2 = [(nm, id(m)) for m, (nm, _) in p2._layers.items()]
                want2 = independent_walk(root, pats, False)
                if got2 != want2:
                    ctx.fail(f'second registration after editing the tree: registered {[g[0] for g in got2]} but the eligible leaves are now '
                             f'{[w[0] for w in want2]}', dict(case, edited=victim), 'wrong-set-after-edit')
                ctx.count('re-registered-after-edit')
            except Exception as e:  # noqa: BLE001
                ctx.fail(f'second registration raised {type(e).__name__}: {e}', dict(case, edited=victim), 'raised-after-edit')
        strings = names | (set(c.lower() for c in clsnames) if neox else clsnames)
        lines.append(f'register neox={int(neox)} tree={tree} tbl={tbl_str(strings, pats)}')
        pend.append((case, impl))
        nt = len(want) >= 2 and (len(pats) > 0 or '0' in tree or len(walk) < tree.count('('))
        ctx.case(lines[-1], nontrivial=nt, sample=case if len(tree) < 160 else None)
        ctx.count('neox' if neox else 'standard')
        ctx.count(f'patterns{len(pats)}')
        ctx.count(f'registered{min(len(got), 6)}')
        if len(walk) < tree.count('('):
            ctx.count('shared-instance')
        # clean hooks off shared modules is unnecessary: every tree is fresh
    for (case, il), mo in zip(pend, ctx.model.ask(lines)):
        ctx.compare('register', case, mo, il)


def search(ctx):
    pass  # run() evaluates the independent walk on every case


def replay(ctx, payload):
    run(ctx)
    for f in ctx.failures[:5]:
        print('replay:', f['what'])
    return bool(ctx.failures)
