"""C03 — all ranks issue matching collectives and no rank ever stalls."""
from __future__ import annotations

import kfacsim

RULE = ('random configurations (world 1–8, every divisor k, colocate, method, pre-division, symmetry, bucket caps, '
        'accumulation, hook/no-hook, constant and callable intervals) × random histories over '
        '{train pass, eval pass, step, reset_batch, memory_usage, state_dict, save→fresh→load}; the real '
        'KFACPreconditioner runs on simulated ranks under a seeded deterministic scheduler (three stickiness '
        'levels); per-rank traces of (kind, members, element count, element size, root) issues and of every '
        'future wait are compared exactly, in order, with the projection of the Lean global script; the trace '
        'matcher oracle checks matching/membership/roots/new_group order/stalls directly; non-trivial = world>1 and ≥2 steps'
        '; further input dimensions: every rank a separately spawned interpreter with its own hash seed (tied layer costs) over real gloo, layers of two dtypes in one bucket (trace matcher only), no-hook factor updates that find no new batch statistics (eval iteration, reset, repeated step), launcher environment of a multi-node job (LOCAL_RANK ≠ rank), a loss overflowing on a strict subset of ranks (value independence), bfloat16 second-order data, nested module names, tensors kept alive between iterations')
TRUSTED = [
    'Lean 4.33 kernel; axioms audited ⊆ {propext, Classical.choice, Quot.sound}',
    'hand-written models KV.Precond (K-FAC state machine emitting the global script) and KV.Sched2 (collective semantics) '
    'tied to kfac/base_preconditioner.py, kfac/layers/*.py, kfac/distributed.py by this correspondence',
    'simdist: per-group FIFO matching, all_reduce/broadcast semantics, new_group ordering rule (the semantics of M-Sched); '
    'that gloo/NCCL implement this semantics is trusted',
    'forward hooks fire in registration order and backward hooks in reverse order for the sequential test models',
    'simdist is itself cross-checked on every run against real forked gloo processes (collective sequence, gradients, '
    'factors, memory, holdings) on a few configurations (more in the thorough tier)',
]
ASSUMPTIONS = ['gradients are averaged across ranks before step() (done by the harness, not recorded)',
               'every rank executes the same history (SPMD)']
PARTIAL = []
STREAMS = ('trace', 'holds', 'steps')


def gen_cfgs(ctx, n):
    rng = ctx.rng
    cfgs = []
    # corpus: D2 witness (HYBRID, checkpoint load with compute_inverses) and a bucketed hook-mode run
    c = kfacsim.Config(rng, world=4, k=2, colocate=True, method='eigen', prediv=False, cap_mb=0.0, accum=1, hook=True)
    c.ops = ['f1', 's', 'l11', 'f1', 's']
    cfgs.append(c)
    c = kfacsim.Config(rng, world=4, k=2, colocate=False, method='inverse', prediv=False, sym=True, cap_mb=0.0002, accum=2, hook=True)
    c.ops = ['f1', 'f1', 's', 'm', 'f1', 'f1', 's', 'v1']
    cfgs.append(c)
    c = kfacsim.Config(rng, world=2, k=2, colocate=False, method='eigen', prediv=False, cap_mb=25.0, accum=1, hook=False)
    c.ops = ['f1', 's', 'f1', 's', 'l11', 'f1', 's']
    cfgs.append(c)
    # value independence: one rank's batch overflows in one pass (AMP-style inf/nan on a strict subset of the ranks)
    for _ in range(max(6, n // 8)):
        cfg = kfacsim.Config(rng, world=rng.choice([2, 3, 4]), method='inverse', prediv=False)
        iters = rng.randrange(2, 5)
        cfg.ops = (['f1'] * cfg.accum + ['s']) * iters
        cfg.spike = (rng.randrange(cfg.world), rng.randrange(iters * cfg.accum))
        cfgs.append(cfg)
    # half-precision second-order data (inv_dtype=bfloat16): every tensor of a collective has the dtype its peers expect
    # (only the operation streams are compared here, never values)
    for _ in range(max(4, n // 12)):
        world = rng.choice([2, 4])
        if rng.random() < 0.6:
            # ... in particular the pre-divided eigenvalue products, which only exist with co-located factors
            cfg = kfacsim.Config(rng, world=world, k=rng.choice([k for k in (2, 4) if world % k == 0]),
                                 method='eigen', colocate=True, prediv=True)
        else:
            cfg = kfacsim.Config(rng, world=world)
        cfg.inv16 = True
        cfg.ops = (['f1'] * cfg.accum + ['s']) * rng.randrange(1, 4)
        if rng.random() < 0.5:
            cfg.ops += ['l11'] + ['f1'] * cfg.accum + ['s']
        cfgs.append(cfg)
    # memory_usage() between backward() and step() while hook-queued factor all-reduces sit in an open bucket (the library
    # flushes the buckets first, precisely so that this call never waits for a future nobody launched)
    for world, k in ((2, 2), (2, 1), (4, 2)):
        cfg = kfacsim.Config(rng, world=world, k=k, hook=True, accum=1, cap_mb=25.0, colocate=True)
        cfg.hyper['factor_update_steps'] = 1
        cfg.ops = ['f1', 'm', 's', 'f1', 'm', 's', 'm']
        cfgs.append(cfg)
    # factor updates in step() that find no new batch statistics (eval-mode iteration, reset_batch() before step(), two steps
    # in a row): every rank re-reduces the unchanged running averages, whichever rank still holds an unresolved future
    for i in range(max(6, n // 12)):
        world = rng.choice([2, 3, 4])
        cfg = kfacsim.Config(rng, world=world, k=[1, world, rng.choice([k for k in range(1, world + 1) if world % k == 0])][i % 3],
                             hook=False, accum=1)
        cfg.hyper['factor_update_steps'] = rng.choice([1, 1, 2])
        cfg.hyper['inv_update_steps'] = rng.choice([1, 1, 2, 3])
        tail = [['s'], ['f0', 's'], ['f1', 'r', 's'], ['s', 's'], ['f0', 's', 'm', 's'], ['r', 's', 'f1', 's']]
        cfg.ops = ['f1', 's'] + tail[i % len(tail)] + rng.choice([[], ['f1', 's'], ['s']])
        cfgs.append(cfg)
    while len(cfgs) < n:
        cfg = kfacsim.Config(rng)
        whole = rng.random() < 0.8
        cfg.ops = kfacsim.gen_history(rng, rng.randrange(2, ctx.budget(9, 20)), whole_iterations=whole, accum=cfg.accum)
        cfgs.append(cfg)
    return cfgs


def run(ctx):
    cfgs = gen_cfgs(ctx, ctx.budget(90, 900))
    keep = kfacsim.run_batch(ctx, cfgs, STREAMS, oracles=(kfacsim.oracle_trace,))
    # schedule independence: the same configuration under another schedule gives the same traces
    rng = ctx.rng
    for cfg, rr in rng.sample(keep, min(len(keep), ctx.budget(15, 150))):
        if kfacsim.run_failed(rr):
            continue
        rr2 = kfacsim.run_real(cfg, sched_seed=cfg.sched_seed + 1000003, stickiness=rng.choice([0.0, 0.3, 0.95]))
        for r in range(cfg.world):
            a, b = kfacsim.impl_trace(rr, r), kfacsim.impl_trace(rr2, r)
            if a != b or kfacsim.run_failed(rr2):
                ctx.fail(f'rank {r}: the issued operations depend on the interleaving of the ranks',
                         dict(cfg.describe(), sched_seed=cfg.sched_seed), 'schedule-dependent')
                break
        ctx.count('schedule-pairs')
    mixed_dtype_stream(ctx)
    subgroup_stream(ctx)
    gloo_stream(ctx)
    interpreter_stream(ctx)
    neox_stream(ctx)


def mixed_dtype_stream(ctx):
    """models whose layers have different dtypes (float32 then float64, as under autocast): consecutive factors of one
    bucket differ in dtype.  The Lean script has a single factor dtype, so these runs are judged by the trace matcher
    (matching, stalls, exceptions) alone."""
    rng = ctx.rng
    for i in range(ctx.budget(8, 60)):
        world = rng.choice([2, 3, 4])
        cfg = kfacsim.Config(rng, world=world, nest=False, fac32=False, inv32=False,
                             cap_mb=rng.choice([25.0, 25.0, 0.001, 0.0002, 0.0]))
        if cfg.arch[0][0] != 'lin' or len(cfg.arch) < 2:
            d = [rng.choice([2, 3, 4]) for _ in range(4)]
            cfg.arch = [('lin', d[j], d[j + 1], rng.random() < 0.7) for j in range(3)]
        cfg.mixdt = True
        cfg.ops = (['f1'] * cfg.accum + ['s']) * rng.randrange(1, 4)
        if rng.random() < 0.4:
            cfg.ops += [rng.choice(['m', 'v1', 'l11'])] + ['f1'] * cfg.accum + ['s']
        kfacsim.fix_loads(cfg)
        cfg.sched_seed = ctx.seed * 733 + i
        rr = kfacsim.run_real(cfg, sched_seed=cfg.sched_seed, stickiness=[0.0, 0.5, 0.9][cfg.sched_seed % 3])
        kfacsim.oracle_trace(ctx, cfg, rr, key_prefix='mixed-dtype-trace')
        ctx.case('mixdt' + str(cfg.key()), nontrivial=True, sample=dict(cfg.describe(), sched_seed=cfg.sched_seed))
        ctx.count('mixed-dtype')


def subgroup_stream(ctx):
    """the communicator on several DIFFERENT groups of equal size inside one flush window (pairwise groups on three or four
    ranks, as a user of `allreduce_bucketed(group=…)` or a per-layer reduction group creates them): every collective a rank
    enters is entered by exactly the members of its group, nothing stalls, and every future resolves to the group's sum
    (C03-mutU keyed the open buckets by group SIZE: tensors of two groups shared one bucket)"""
    import torch
    import simdist
    from kfac.distributed import TorchDistributedCommunicator
    rng = ctx.rng
    for i in range(ctx.budget(6, 40)):
        world = rng.choice([3, 4])
        pairs = [(a, b) for a in range(world) for b in range(a + 1, world)]
        rng.shuffle(pairs)
        pairs = pairs[:rng.randrange(2, len(pairs) + 1)]
        nt = rng.randrange(1, 4)
        cap = rng.choice([25.0, 0.00002])
        case = {'stream': 'subgroups', 'world': world, 'groups': pairs, 'tensors_per_group': nt, 'bucket_cap_mb': cap}

        def prog(rank, pairs=pairs, nt=nt, cap=cap):
            import torch.distributed as dist
            groups = [dist.new_group(list(pr)) for pr in pairs]
            comm = TorchDistributedCommunicator(bucket_cap_mb=cap)
            futs = []
            for gi, (pr, grp) in enumerate(zip(pairs, groups)):
                if rank not in pr:
                    continue
                for t in range(nt):
                    x = torch.full((2 + t,), float(100 * (rank + 1) + 10 * gi + t), dtype=torch.float64)
                    futs.append((gi, t, comm.allreduce_bucketed(x, group=grp)))
            comm.flush_allreduce_buckets()
            out = []
            for gi, t, f in futs:
                v = f.wait() if hasattr(f, 'wait') else f
                v = v[0] if isinstance(v, (list, tuple)) else v
                out.append((gi, t, v.tolist()))
            return out
        wd, res = simdist.run_world(world, prog, seed=ctx.seed * 389 + i, stickiness=rng.choice([0.0, 0.5, 0.9]))
        if wd.stalled or wd.errors or wd.exceptions:
            ctx.fail(f'bucketed all-reduces on the groups {pairs} of {world} ranks: stalled={wd.stalled} errors={wd.errors[:1]} '
                     f'exceptions={dict(list(wd.exceptions.items())[:1])}', case, 'subgroup-run')
            continue
        bad = None
        for rank in range(world):
            for gi, t, v in res[rank]:
                want = [float(sum(100 * (r + 1) + 10 * gi + t for r in pairs[gi]))] * (2 + t)
                if v != want and bad is None:
                    bad = f'rank {rank}: tensor {t} of group {pairs[gi]} resolved to {v}, the group\'s sum is {want}'
        if bad:
            ctx.fail(bad, case, 'subgroup-values')
        ctx.evaluations += 1
        ctx.case(('subgroups', world, tuple(pairs), nt, cap), nontrivial=True)
        ctx.count('subgroup-windows')


def neox_stream(ctx):
    """the GPT-NeoX path is a distributed run too: the real GPTNeoXKFACPreconditioner on a simulated 3-D topology, with
    training iterations and checkpoints (in memory and to a directory); the trace matcher evaluates the statement on the
    recorded traces (the exact script comparison of this path is part of C11)"""
    import os
    import shutil
    import neoxsim
    from common import OUT
    rng = ctx.rng

    class W:
        pass
    pend_script = []
    for i in range(ctx.budget(10, 80)):
        while True:
            cfg = neoxsim.NCfg(rng)
            if cfg.world <= 8:
                break
        cfg.ops = ['f1', 's'] * rng.randrange(1, 3)
        if i in (3, 4):
            # directed: a pipeline stage that registers no K-FAC layer (embedding / norm only) takes part in an in-memory
            # checkpoint (save, and save + load) like every other stage
            cfg = neoxsim.NCfg(rng, pp=2, dp=rng.choice([1, 2]), mp=1, blocks=1, empty_stage=i - 3, ckpt_dir=None)
            cfg.ops = ['f1', 's', 'v', 'f1', 's'] if i == 3 else ['f1', 's', 'l1', 'f1', 's']
        if i < 3:
            # directed: first checkpoint into a directory that does not exist yet, small world, many interleavings
            cfg = neoxsim.NCfg(rng, pp=1, dp=rng.choice([2, 3]), mp=rng.choice([1, 2]), blocks=1)
            cfg.ops = ['f1', 's', 'v', 'f1', 's', 'v']
            cfg.ckpt_dir = os.path.join(OUT, 'neox_ckpt_c03', f'case{i}')
            shutil.rmtree(cfg.ckpt_dir, ignore_errors=True)
        elif i > 4 and rng.random() < 0.6:
            cfg.ops += [rng.choice(['v', 'v', 'l1'])] + ['f1', 's'] * rng.randrange(0, 2)
            if rng.random() < 0.5:
                cfg.ckpt_dir = os.path.join(OUT, 'neox_ckpt_c03', f'case{i}')
                shutil.rmtree(cfg.ckpt_dir, ignore_errors=True)
        # (directory checkpoints touch the file system between collectives: several interleavings each)
        for rep in range((10 if i < 3 else 4) if cfg.ckpt_dir else 1):
            sseed = ctx.seed * 271 + i + 7919 * rep
            rr = neoxsim.run_real(cfg, sseed)
            case = dict(cfg.describe(), sched_seed=sseed, stream='gpt-neox')
            wcfg = W()
            wcfg.world = cfg.world
            wcfg.describe = lambda case=case: case
            f = neoxsim.run_failed(rr)
            if f and not (cfg.mp > 1 and any(o == 'l1' for o in cfg.ops)):     # (resume with model parallelism: finding F2 of C18)
                ctx.fail(f'GPT-NeoX run failed: {f}', case, 'neox-run-failed')
            elif not f:
                kfacsim.oracle_trace(ctx, wcfg, rr, key_prefix='neox-trace')
                line = neoxsim.script_line(cfg, rr)
                if line is not None and rep == 0:
                    pend_script.append((case, line, [neoxsim.impl_issues(rr, r) for r in range(cfg.world)]))
            if cfg.ckpt_dir:
                shutil.rmtree(cfg.ckpt_dir, ignore_errors=True)
        ctx.case(str(case), nontrivial=cfg.world > 1)
        ctx.count('gpt-neox')
    # ... and exactly, operation by operation, against the projection of the Lean script (checkpoint collectives included)
    neoxsim.compare_script(ctx, pend_script)


def interpreter_stream(ctx):
    """ranks of a real job are separate interpreters with their own string-hash seeds: a couple of configurations with
    layers of exactly tied cost (identically shaped layers) run over real gloo with every rank spawned as its own interpreter
    (PYTHONHASHSEED differs per rank) and are compared, collective by collective, with the simulated run"""
    import gloo_crosscheck
    rng = ctx.rng
    for i in range(ctx.budget(2, 8)):
        world = rng.choice([2, 3])
        cfg = kfacsim.Config(rng, world=world, k=world if i % 2 == 0 else 1, nest=False, prediv=False, inv32=False, fac32=False, accum=1)
        cfg.arch = [('lin', 3, 3, True)] * rng.choice([4, 5, 6])
        cfg.ops = ['f1', 's', 'f1', 's']
        seeds = [rng.randrange(1, 4000) for _ in range(world)]
        diffs = gloo_crosscheck.crosscheck(ctx, cfg, sched_seed=ctx.seed + 50 + i, hashseeds=seeds)
        case = dict(cfg.describe(), sched_seed=ctx.seed + 50 + i, hashseeds=seeds, stream='separate-interpreters')
        if diffs:
            ctx.fail(f'ranks started as separate interpreters (hash seeds {seeds}) differ from the single-interpreter run: {diffs[0]}',
                     dict(case, diffs=diffs[:3]), 'interpreter-dependent')
        ctx.case(str(case), nontrivial=True, sample=case)
        ctx.count('separate-interpreters')


def gloo_stream(ctx):
    """the simulator itself is validated against real multi-process gloo on a few configurations"""
    import gloo_crosscheck
    rng = ctx.rng
    for i in range(ctx.budget(4, 40)):
        cfg = kfacsim.Config(rng, world=rng.choice([2, 2, 3, 4]))
        cfg.ops = kfacsim.gen_history(rng, rng.randrange(2, 6), whole_iterations=True, accum=cfg.accum)
        kfacsim.fix_loads(cfg)
        diffs = gloo_crosscheck.crosscheck(ctx, cfg, sched_seed=ctx.seed + i)
        ctx.compare('simdist-vs-real-gloo', dict(cfg.describe(), diffs=diffs[:3]), 'same', 'same' if not diffs else diffs[0])
        ctx.count('gloo-crosscheck')


def search(ctx):
    """around a broken correspondence: many more whole-iteration histories with the trace matcher only"""
    rng = ctx.rng
    for i in range(400):
        cfg = kfacsim.Config(rng)
        cfg.ops = kfacsim.gen_history(rng, rng.randrange(2, 10), whole_iterations=True, accum=cfg.accum)
        kfacsim.fix_loads(cfg)
        cfg.sched_seed = 31337 + i
        rr = kfacsim.run_real(cfg, sched_seed=31337 + i)
        kfacsim.oracle_trace(ctx, cfg, rr)
        if ctx.failures:
            ctx.failures[-1]['case']['sched_seed'] = 31337 + i
            return


def replay(ctx, payload):
    return kfacsim.replay_case(ctx, payload, STREAMS, oracles=(kfacsim.oracle_trace,))
