"""C05 — update intervals and hyper-parameter schedules honoured over any history."""
from __future__ import annotations

from fractions import Fraction

import kfacsim

RULE = ('random interval pairs (incl. non-multiples and callables of the step), accumulation counts, hook/no-hook, '
        'constant/callable damping, decay, clip and learning rate, scheduler-style changes between iterations, and '
        'arbitrary interleavings of train passes, eval passes, reset_batch and checkpoint round trips on 1–4 ranks; '
        'after every op the step count and after every step the gradient (as the model\'s symbolic value term evaluated '
        'in float64 on the data the real hooks saw) are compared with the real run; callables are instrumented to log '
        'the step they are called with; the reference K-FAC state machine is the failing-input oracle; '
        'non-trivial = ≥3 steps and intervals not both 1'
        '; roll-back histories (state kept in memory, trained on, loaded again); hyper-parameter-only round trips on the live preconditioner between inverse updates')
TRUSTED = [
    'Lean 4.33 kernel; axioms audited ⊆ {propext, Classical.choice, Quot.sound}',
    'hand-written model KV.Precond tied to kfac/base_preconditioner.py + kfac/layers/*.py by this correspondence',
    'value terms are evaluated numerically by the harness (float64, own implementations of cov/eigh/inv formulas); '
    'comparison tolerance 2e-3 relative (decompositions run in float32 inside kfac)',
]
ASSUMPTIONS = ['floating-point rounding is outside the model']
PARTIAL = []
STREAMS = ('grads', 'steps', 'factors')


def oracle_hpcalls(ctx, cfg, rr):
    if kfacsim.run_failed(rr):
        return
    for rec in rr.res[0]['ops']:
        if rec['op'] == 's':
            for name, arg in rec['hpcalls']:
                if arg != rec['steps_before']:
                    return ctx.fail(f'callable {name} evaluated at {arg} during the step with step count {rec["steps_before"]}',
                                    cfg.describe(), 'hp-wrong-step')
            if rec['steps'] != rec['steps_before'] + 1:
                return ctx.fail('step count did not grow by exactly one', cfg.describe(), 'steps-increment')


def gen_cfgs(ctx, n):
    rng = ctx.rng
    cfgs = []
    # directed: roll-back histories — a state kept in memory while further factor updates go by is loaded again;
    # the factors used afterwards must be those of the kept step (intervals count from the restored step)
    for world in (1, 2):
        cfg = kfacsim.Config(rng, world=world)
        cfg.hyper_changes = []
        cfg.hyper['factor_update_steps'] = rng.choice([1, 2])
        it = ['f1'] * cfg.accum + ['s']
        cfg.ops = it * 2 + ['k'] + it * rng.randrange(2, 5) + ['R11'] + it * 3
        cfgs.append(cfg)
    # directed: a batch dropped with reset_batch() while its data is pending (deferred updates, or the middle of an
    # accumulation window) leaves no trace in the next factor update
    for hook, accum in ((False, 1), (False, 2), (True, 2), (True, 3)):
        cfg = kfacsim.Config(rng, world=rng.choice([1, 2]), hook=hook, accum=accum)
        cfg.hyper_changes = []
        cfg.cap_mb = 0.0
        cfg.hyper['factor_update_steps'] = 1
        it = ['f1'] * accum + ['s']
        cfg.ops = it + ['f1'] * rng.randrange(1, accum + 1) + ['r'] + it * 3
        cfgs.append(cfg)
    # directed: callable and constant hyper-parameters mixed; a constant changed before a checkpoint round trip
    for _ in range(2):
        cfg = kfacsim.Config(rng, world=rng.choice([1, 2]))
        cfg.hyper['factor_decay'] = [Fraction(1, 2), Fraction(3, 4), Fraction(7, 8)]
        cfg.hyper['damping'] = Fraction(1, 4)
        cfg.hyper['inv_update_steps'] = 2
        cfg.hyper_changes = [{'damping': Fraction(1, 64)}]
        cfg.perturb_ctor = True
        it = ['f1'] * cfg.accum + ['s']
        cfg.ops = it + ['h:0'] + it + ['v1', 'l11'] + it * 3
        cfgs.append(cfg)
    # directed: callable damping baked into the second-order data at refresh time, checkpoint taken mid-interval and
    # loaded (with recomputation) into a fresh preconditioner: the damping of the CHECKPOINTED step is used
    for method, prediv in (('inverse', False), ('eigen', True)):
        cfg = kfacsim.Config(rng, world=rng.choice([1, 2]), method=method, prediv=prediv, colocate=True)
        cfg.hyper_changes = []
        cfg.hyper['damping'] = [Fraction(1, 4), Fraction(1, 8), Fraction(1, 2), Fraction(1, 16), Fraction(1, 3), Fraction(1, 5)]
        cfg.hyper['inv_update_steps'] = rng.choice([3, 4])
        cfg.hyper['factor_update_steps'] = 1
        it = ['f1'] * cfg.accum + ['s']
        cfg.ops = it * 2 + ['l11'] + it * 3
        cfgs.append(cfg)
    # directed: a clip schedule that reaches exactly 0 through the real scheduler (nu = 0 from then on, not "no clipping")
    for _ in range(2):
        cfg = kfacsim.Config(rng, world=rng.choice([1, 2]))
        cfg.hyper['kl_clip'] = Fraction(1, 100)
        cfg.hyper_changes = [{'kl_clip': Fraction(1, 200)}, {'kl_clip': Fraction(0)}]
        cfg.hyper_factors = [{'kl_clip': Fraction(1, 2)}, {'kl_clip': Fraction(0)}]
        it = ['f1'] * cfg.accum + ['s']
        cfg.ops = it + ['h:0'] + it + ['h:1'] + it * 2
        cfgs.append(cfg)
    # directed: eval-mode passes (a validation batch) on a factor-update step, before and between the training micro-batches of
    # an accumulation window: they are not micro-batches — the window still closes after `accumulation_steps` training passes
    for i, accum in enumerate((2, 3, 2)):
        cfg = kfacsim.Config(rng, world=rng.choice([1, 2]), hook=True, accum=accum)
        cfg.hyper_changes = []
        cfg.hyper['factor_update_steps'] = 1
        it = ['f1'] * accum + ['s']
        mid = ['f0'] + ['f1'] + ['f0'] * (1 + i % 2) + ['f1'] * (accum - 1) + ['s']
        cfg.ops = it + mid + it + ['f1', 'f0'] + ['f1'] * (accum - 1) + ['s'] + it
        cfgs.append(cfg)
    # directed: a checkpoint of a run WITHOUT clipping (kl_clip=None is a value of its own, not "absent") loaded into a
    # preconditioner constructed with a binding clip: clipping is off again afterwards
    for world in (1, 2):
        cfg = kfacsim.Config(rng, world=world)
        cfg.hyper_changes = []
        cfg.hyper['kl_clip'] = None
        cfg.perturb_ctor = True
        it = ['f1'] * cfg.accum + ['s']
        cfg.ops = it * 2 + ['l11'] + it * 3
        cfgs.append(cfg)
    # directed: intervals changed by the real scheduler with factors whose products are not integral (3 x 3/2 -> 4, 5 x 1/2 -> 2):
    # the truncated interval is the one the following steps honour
    for fus, ius, ff, fi in ((1, 3, None, Fraction(3, 2)), (3, 5, Fraction(3, 2), Fraction(1, 2))):
        cfg = kfacsim.Config(rng, world=rng.choice([1, 2]))
        cfg.hyper['factor_update_steps'], cfg.hyper['inv_update_steps'] = fus, ius
        ch, fa = {'inv_update_steps': int(ius * fi)}, {'inv_update_steps': fi}
        if ff is not None:
            ch['factor_update_steps'], fa['factor_update_steps'] = int(fus * ff), ff
        cfg.hyper_changes, cfg.hyper_factors = [ch], [fa]
        it = ['f1'] * cfg.accum + ['s']
        cfg.ops = it * 2 + ['h:0'] + it * 9
        cfgs.append(cfg)
    # directed: a full state round trip on the live preconditioner while batch statistics are pending (between the
    # micro-batches of a window; between backward and step() when the factors are updated in step()): nothing is dropped
    for hook, accum in ((True, 2), (False, 1), (False, 2), (True, 3)):
        cfg = kfacsim.Config(rng, world=rng.choice([1, 2]), hook=hook, accum=accum)
        cfg.hyper_changes = []
        cfg.cap_mb = 0.0
        cfg.hyper['factor_update_steps'] = 1
        it = ['f1'] * accum + ['s']
        part = ['f1'] * (accum - 1 if hook else accum)
        cfg.ops = it + part + ['Y'] + ['f1'] * (accum - len(part)) + ['s'] + it + part + ['Y'] + ['f1'] * (accum - len(part)) + ['s'] + it
        cfgs.append(cfg)
    # directed: several whole accumulation windows before one step (2*accum passes): every window is folded
    for accum in (1, 2):
        cfg = kfacsim.Config(rng, world=rng.choice([1, 2]), hook=True, accum=accum)
        cfg.hyper_changes = []
        cfg.cap_mb = 0.0
        cfg.hyper['factor_update_steps'] = 1
        cfg.ops = ['f1'] * accum + ['s'] + ['f1'] * (2 * accum) + ['s'] + ['f1'] * (3 * accum) + ['s'] + ['f1'] * accum + ['s']
        cfgs.append(cfg)
    # directed: a hyper-parameter-only round trip on the live preconditioner (state without factors, default
    # compute_inverses=True) between inverse updates, while the factors are newer than the second-order data: nothing is
    # recomputed off schedule, nothing is communicated
    for i, (method, prediv) in enumerate((('inverse', False), ('eigen', False), ('eigen', True))):
        world = [1, 2, 4][i]
        cfg = kfacsim.Config(rng, world=world, method=method, prediv=prediv, colocate=True, k=rng.choice([k for k in (1, 2, 4) if world % k == 0]))
        cfg.hyper_changes = []
        cfg.hyper['factor_update_steps'] = 1
        cfg.hyper['inv_update_steps'] = rng.choice([3, 4])
        cfg.hyper['damping'] = [Fraction(1, 4), Fraction(1, 16), Fraction(1, 2), Fraction(1, 32), Fraction(1), Fraction(1, 8)]
        it = ['f1'] * cfg.accum + ['s']
        cfg.ops = it * 2 + ['X'] + it + ['X'] + it * 3
        cfgs.append(cfg)
    while len(cfgs) < n:
        cfg = kfacsim.Config(rng, world=rng.choice([1, 1, 2, 3, 4]))
        cfg.hyper['factor_update_steps'] = rng.choice([1, 2, 3, 3, 5, [1, 2, 2, 1, 3, 1, 1, 2], [2, 2, 3, 3, 1, 1]])
        cfg.hyper['inv_update_steps'] = rng.choice([1, 2, 2, 3, 4, 6, [1, 3, 2, 2, 1, 1, 4, 1], [2, 3, 1, 1, 5, 2]])
        cfg.hyper['damping'] = rng.choice([Fraction(1, 10), [Fraction(1, 4), Fraction(1, 16), Fraction(1, 2), Fraction(1, 32), Fraction(1), Fraction(1, 8)]])
        # scheduler-like changes
        cfg.hyper_changes = []
        whole = rng.random() < 0.75
        ops = kfacsim.gen_history(rng, rng.randrange(3, ctx.budget(12, 40)), whole_iterations=whole, accum=cfg.accum)
        if rng.random() < 0.3:
            # ragged iterations: a varying number of training passes before each step (epoch tails, skipped
            # micro-batches); unbucketed so that no request can be left queued
            cfg.accum = rng.choice([2, 2, 3])
            cfg.cap_mb = 0.0
            ops = ['f1'] * cfg.accum + ['s']
            for _ in range(rng.randrange(3, ctx.budget(9, 20))):
                ops += ['f1'] * rng.randrange(1, 2 * cfg.accum + 2) + ['s']      # (also several whole windows before one step)
        if rng.random() < 0.5:
            # constants only may be changed by a scheduler
            for j in range(rng.randrange(1, 3)):
                ch = {}
                for name, vals in (('damping', [Fraction(1, 2), Fraction(1, 64), Fraction(1, 5)]),
                                   ('factor_decay', [Fraction(1, 4), Fraction(9, 10)]),
                                   ('inv_update_steps', [1, 2, 3]), ('factor_update_steps', [1, 2]),
                                   ('lr', [Fraction(1, 3)]), ('kl_clip', [Fraction(1, 500), None])):
                    if not isinstance(cfg.hyper[name], list) and rng.random() < 0.4:
                        ch[name] = rng.choice(vals)
                if ch:
                    cfg.hyper_changes.append(ch)
            if rng.random() < 0.6:
                # express the changes as multiplicative factors applied by the real LambdaParamScheduler
                cur = {k: v for k, v in cfg.hyper.items() if not isinstance(v, list)}
                pools = {'damping': [Fraction(1, 2), Fraction(1, 4), Fraction(2)], 'factor_decay': [Fraction(1, 2), Fraction(3, 4)],
                         'inv_update_steps': [Fraction(2), Fraction(1, 2), Fraction(3, 2), Fraction(3)],
                         'factor_update_steps': [Fraction(2), Fraction(1, 2), Fraction(3, 2)],
                         'lr': [Fraction(1, 2), Fraction(2)], 'kl_clip': [Fraction(1, 2), Fraction(0), Fraction(0), Fraction(4)]}
                facs, vals = [], []
                for ch in cfg.hyper_changes:
                    fd, vd = {}, {}
                    for name in ch:
                        if cur.get(name) is None:
                            continue
                        f = rng.choice(pools[name])
                        v = Fraction(cur[name]) * f
                        if name.endswith('_steps'):
                            v = Fraction(int(v))
                            if v < 1:
                                continue
                        fd[name], vd[name] = f, v
                        cur[name] = v
                    facs.append(fd)
                    vals.append(vd)
                keep = [i for i, fd in enumerate(facs) if fd]
                cfg.hyper_factors = [facs[i] for i in keep]
                cfg.hyper_changes = [vals[i] for i in keep]
            # insert at iteration boundaries (after an 's')
            idx = [i + 1 for i, o in enumerate(ops) if o == 's']
            for j in range(len(cfg.hyper_changes)):
                if idx:
                    k = rng.choice(idx)
                    ops.insert(k, f'h:{j}')
                    idx = [i + 1 for i, o in enumerate(ops) if o == 's' and i + 1 > k]
            # renumber so that h:j appear in increasing order
            seen = 0
            for i, o in enumerate(ops):
                if o.startswith('h:'):
                    ops[i] = f'h:{seen}'
                    seen += 1
            cfg.hyper_changes = cfg.hyper_changes[:seen]
        cfg.ops = ops
        cfgs.append(cfg)
    return cfgs


def run(ctx):
    kfacsim.run_batch(ctx, gen_cfgs(ctx, ctx.budget(70, 700)), STREAMS,
                      oracles=(kfacsim.oracle_reference, oracle_hpcalls, kfacsim.oracle_state_keys), whole_only_oracles=False)


def search(ctx):
    rng = ctx.rng
    cfgs = gen_cfgs(ctx, 250)
    for i, cfg in enumerate(cfgs):
        cfg.ops = [o for o in cfg.ops]
        kfacsim.fix_loads(cfg)
        rr = kfacsim.run_real(cfg, sched_seed=999 + i)
        cfg.sched_seed = 999 + i
        kfacsim.oracle_reference(ctx, cfg, rr)
        oracle_hpcalls(ctx, cfg, rr)
        if ctx.failures:
            return


def replay(ctx, payload):
    return kfacsim.replay_case(ctx, payload, STREAMS, oracles=(kfacsim.oracle_reference, oracle_hpcalls))
