"""C07 — KL clipping bounds the update and only rescales it."""
from __future__ import annotations

import copy
from fractions import Fraction

import torch

import kfacsim

RULE = ('(a) real step() on random models, 1–4 ranks, all strategies, both methods, clip values tiny (active) / huge '
        '(inactive) / callable / None, learning rates constant / callable / zero: a twin run with kl_clip=None gives the '
        'unclipped V; the clipped gradients must be nu*V with ONE nu for all layers and ranks, nu = min(1, sqrt(kl/|Σ<V,D>lr²|)), '
        'bound nu²lr²|Σ<V,D>| ≤ kl; (b) exact stream: _compute_grad_scale on hand-set dyadic gradients vs the Lean rational '
        'nu² and the weight/bias split of <V,D>; (c) constructor accepts kl_clip=None; non-trivial = clipping active (nu<1)'
        '; statement oracle on negative inner products; fine-tuning scale (lr down to 2^-26, clip down to 2^-80: products far below float32 eps but non-zero); half-precision models whose per-layer terms are exact but whose sum is not; histories mixing unclipped and clipped steps with gradient tensors kept alive and bias-free layers')
TRUSTED = [
    'Lean 4.33 kernel + Mathlib; axioms audited ⊆ {propext, Classical.choice, Quot.sound}',
    'hand-written models KV.Alg.nuSq/inner and the nu term of KV.Precond/KV.Spec tied to _compute_grad_scale/update_grad',
    'float64 rounding (1e-9 relative on nu); sqrt is compared through nu²',
]
ASSUMPTIONS = ['GPT-NeoX with model-parallel degree > 1 is known finding F1 and is exercised by the C11 check']
PARTIAL = []


def rat(x):
    f = Fraction(float(x))
    return str(f.numerator) if f.denominator == 1 else f'{f.numerator}/{f.denominator}'


def mstr(t):
    return ';'.join(','.join(rat(v) for v in row) for row in t.tolist())


def twin_stream(ctx):
    rng = ctx.rng
    n = ctx.budget(40, 400)
    for i in range(n):
        cfg = kfacsim.Config(rng, world=rng.choice([1, 2, 3, 4]))
        cfg.hyper['kl_clip'] = rng.choice([Fraction(1, 10**6), Fraction(1, 1000), Fraction(1, 10), Fraction(10**6),
                                           [Fraction(1, 100), Fraction(1, 10**5), Fraction(10**6)]])
        cfg.hyper['lr'] = rng.choice([Fraction(1, 10), Fraction(1), Fraction(0), Fraction(3),
                                      [Fraction(0), Fraction(1, 10), Fraction(1, 2)]])
        cfg.ops = []
        for _ in range(rng.randrange(1, 4)):
            cfg.ops += ['f1'] * cfg.accum + ['s']
        twin = copy.copy(cfg)
        twin.hyper = dict(cfg.hyper)
        twin.hyper['kl_clip'] = None
        seed = ctx.seed * 31 + i
        rr = kfacsim.run_real(cfg, sched_seed=seed)
        rt = kfacsim.run_real(twin, sched_seed=seed)
        case = dict(cfg.describe(), sched_seed=seed)
        if kfacsim.run_failed(rr) or kfacsim.run_failed(rt):
            ctx.fail(f'run failed: {kfacsim.run_failed(rr) or kfacsim.run_failed(rt)}', case, 'run-failed')
            continue
        steps = 0
        active = False
        for j, op in enumerate(cfg.ops):
            if op != 's':
                continue
            kl = cfg.hyper['kl_clip']
            kl = float(kl[min(steps, len(kl) - 1)]) if isinstance(kl, list) else float(kl)
            lr = cfg.hyper['lr']
            lr = float(lr[min(steps, len(lr) - 1)]) if isinstance(lr, list) else float(lr)
            steps += 1
            D = rr.res[0]['ops'][j]['raw']
            V = rt.res[0]['ops'][j]['grads']
            s = sum(float((v * d).sum()) for v, d in zip(V, D)) * lr ** 2
            nu = 1.0 if s == 0 else min(1.0, (kl / abs(s)) ** 0.5)
            active = active or nu < 1
            if nu * nu * abs(s) > kl * (1 + 1e-9):
                ctx.fail('bound nu² lr² |Σ<V,D>| ≤ kl_clip violated by the formula itself', case, 'bound')
            # ONE scalar for every rank: all ranks multiply the same preconditioned gradients (broadcast, or computed from the
            # same broadcast second-order data) by it, so the final gradients agree bit for bit across ranks
            for r in range(1, cfg.world):
                for l in range(len(V)):
                    if not torch.equal(rr.res[r]['ops'][j]['grads'][l], rr.res[0]['ops'][j]['grads'][l]):
                        ctx.fail(f'step {steps - 1}: the final gradient of layer {l} differs between rank 0 and rank {r} '
                                 f'(relative {kfacsim.relerr(rr.res[r]["ops"][j]["grads"][l], rr.res[0]["ops"][j]["grads"][l]):.2e}): '
                                 'the clip scalar is not shared by every rank', dict(case, op_index=j), 'nu-differs-across-ranks')
                        break
            for r in range(cfg.world):
                for l, v in enumerate(V):
                    got = rr.res[r]['ops'][j]['grads'][l]
                    if kfacsim.relerr(got, nu * v) > 1e-6:
                        ctx.fail(f'step {steps - 1}: gradient of layer {l} on rank {r} is not nu*V with '
                                 f'nu = min(1, sqrt(kl/|Σ<V,D>lr²|)) = {nu:.6g}', dict(case, op_index=j), 'not-nu-times-V')
                        break
        ctx.case(str(cfg.key()), nontrivial=active, sample=case if len(cfg.ops) <= 4 else None)
        ctx.count('clip-active' if active else 'clip-inactive')
        ctx.count('lr-zero' if (cfg.hyper['lr'] == 0 or (isinstance(cfg.hyper['lr'], list) and 0 in cfg.hyper['lr'])) else 'lr-pos')


def exact_stream(ctx):
    """_compute_grad_scale on hand-set dyadic data vs the Lean rational nu²"""
    from kfac.preconditioner import KFACPreconditioner
    rng = ctx.rng
    lines, pend = [], []
    for _ in range(ctx.budget(150, 1500)):
        biases = [rng.random() < 0.6, rng.random() < 0.6]
        m = torch.nn.Sequential(torch.nn.Linear(3, 2, bias=biases[0]), torch.nn.Linear(2, 2, bias=biases[1])).double()
        kl = Fraction(rng.choice([1, 1, 3, 5]), 2 ** rng.randrange(0, 12))
        lr = Fraction(rng.choice([0, 1, 1, 3]), 2 ** rng.randrange(0, 4))
        if rng.random() < 0.25:
            # fine-tuning scale: tiny learning rate with a clip lowered to match — |Σ<V,D>| lr² far below any float
            # tolerance and still far from zero (the formula has no threshold other than exactly 0)
            lr = Fraction(rng.choice([1, 3]), 2 ** rng.randrange(10, 26))
            kl = Fraction(rng.choice([1, 3, 5]), 2 ** rng.randrange(24, 80))
        tied = rng.random() < 0.2
        if tied:
            # weight tying between two registered layers: one shared gradient tensor, still one <V,D> term PER LAYER
            m = torch.nn.Sequential(torch.nn.Linear(2, 2, bias=biases[0]), torch.nn.Linear(2, 2, bias=biases[1])).double()
            m[1].weight = m[0].weight
        # an AMP loss scale handed to K-FAC (grad_scaler) concerns the factors only: the gradients the clip statistic reads have
        # been unscaled by the training loop (scaler.unscale_(optimizer)) before step()
        gs = (lambda: 1024.0) if rng.random() < 0.3 else None
        p = KFACPreconditioner(m, kl_clip=float(kl), lr=float(lr), grad_scaler=gs)
        if rng.random() < 0.3:
            # the learning rate (and the clip) in force were set by the real LambdaParamScheduler after construction
            from kfac.scheduler import LambdaParamScheduler
            f_lr, f_kl = Fraction(rng.choice([1, 2, 4]), rng.choice([1, 2, 4, 8])), Fraction(rng.choice([1, 1, 2]), rng.choice([1, 4]))
            sch = LambdaParamScheduler(p, lr_lambda=lambda st: float(f_lr), kl_clip_lambda=lambda st: float(f_kl))
            for _ in range(rng.randrange(1, 3)):
                sch.step()
                lr, kl = lr * f_lr, kl * f_kl
            ctx.count('exact-nu-after-scheduler')
        tot = Fraction(0)
        # sometimes one layer's gradient is exactly zero (an auxiliary head whose loss weight is 0, dead units): its inner
        # product contributes 0, the scalar is still the one of the whole sum
        zero_layer = rng.randrange(2) if rng.random() < 0.3 else None
        for li, (name, lay) in enumerate(p._layers.values()):
            mod = lay.module
            a, g = mod.a_factor_shape[0], mod.g_factor_shape[0]
            z = 0 if li == zero_layer else 1
            if not (tied and li == 1):
                mod.module.weight.grad = torch.tensor([[float(z * rng.randrange(-4, 5)) for _ in range(a - int(mod.has_bias()))] for _ in range(g)], dtype=torch.float64)
            if mod.has_bias():
                mod.module.bias.grad = torch.tensor([float(z * rng.randrange(-4, 5)) for _ in range(g)], dtype=torch.float64)
            V = torch.tensor([[rng.randrange(-8, 9) / 2 for _ in range(a)] for _ in range(g)], dtype=torch.float64)
            lay.grad = V
            D = mod.get_grad()
            lines.append(f'alg f=inner g={g} a={a} x={mstr(V)} y={mstr(D)}')
            inner = Fraction(float((V * D).sum()))
            pend.append(({'stream': 'inner', 'kl': str(kl), 'lr': str(lr)}, str(inner.numerator) if inner.denominator == 1 else f'{inner.numerator}/{inner.denominator}', None))
            tot += inner
        try:
            scale = p._compute_grad_scale()
        except Exception as e:  # noqa: BLE001
            ctx.fail(f'_compute_grad_scale raised {type(e).__name__}: {e} (kl={kl}, lr={lr}, Σ<V,D>={tot}); '
                     'a zero inner product must give nu = 1', {'kl': str(kl), 'lr': str(lr), 'sum_inner': str(tot)}, 'scale-raised')
            del lines[len(pend):]
            continue
        # statement oracle on the same hand-set data: nu = min(1, sqrt(kl / |Σ<V,D> lr²|)), 1 when the product is 0,
        # hence nu² lr² |Σ<V,D>| ≤ kl — also when the inner product is negative
        sabs = abs(tot * lr * lr)
        want_nu = 1.0 if sabs == 0 else min(1.0, (float(kl) / float(sabs)) ** 0.5)
        if abs(scale - want_nu) > 1e-12 * want_nu or Fraction(scale) ** 2 * sabs > kl * (1 + Fraction(1, 10**9)):
            ctx.fail(f'_compute_grad_scale() = {scale} but min(1, sqrt(kl_clip/|Σ<V,D> lr²|)) = {want_nu} '
                     f'(kl_clip={kl}, lr={lr}, Σ<V,D>={tot}); bound nu² lr² |Σ<V,D>| ≤ kl_clip '
                     f'{"violated" if Fraction(scale) ** 2 * sabs > kl else "kept"}',
                     {'kl': str(kl), 'lr': str(lr), 'sum_inner': str(tot), 'scale': scale,
                      'layers': [{'V': lay.grad.tolist(), 'D': lay.module.get_grad().tolist()} for _, lay in p._layers.values()]},
                     'nu-formula')
        lines.append(f'alg f=nusq kl={kl.numerator}/{kl.denominator} lr={lr.numerator}/{lr.denominator} s={tot.numerator}/{tot.denominator}')
        pend.append(({'stream': 'nusq', 'kl': str(kl), 'lr': str(lr), 'sum_inner': str(tot)}, None, scale))
        ctx.case(lines[-1], nontrivial=True, sample={'kl': str(kl), 'lr': str(lr), 'sum_inner': str(tot), 'scale': scale})
        ctx.count('exact-nu')
    for (case, want, scale), mo in zip(pend, ctx.model.ask(lines)):
        if mo is None:
            continue
        if want is not None:
            ctx.compare('inner-split', case, mo, want)
        else:
            q = Fraction(mo)
            ok = abs(Fraction(scale) ** 2 - q) <= q * Fraction(1, 10**12) and 0 < scale <= 1
            ctx.compare('nu-squared', dict(case, scale=scale), 'match' if ok else f'nu²={mo}', 'match')


def half_stream(ctx):
    """half-precision models: every per-layer inner product is exactly representable, their SUM is not (it exceeds the
    float16 range, or the small terms vanish next to a dominant one in bfloat16); the scalar is still
    min(1, sqrt(kl / |Σ<V,D> lr²|)) of the exact sum"""
    from kfac.preconditioner import KFACPreconditioner
    rng = ctx.rng
    for _ in range(ctx.budget(8, 60)):
        kind = rng.choice(['fp16-range', 'bf16-absorb'])
        kl = Fraction(1, 2 ** rng.randrange(4, 12))
        if kind == 'fp16-range':
            dt, nl = torch.float16, rng.randrange(3, 6)
            m = torch.nn.Sequential(*[torch.nn.Linear(2, 2, bias=False) for _ in range(nl)]).to(dt)
            vals = [(64.0, 128.0)] * nl                      # 4 * 8192 = 32768 per layer, exact; nl * 32768 > 65504
            per = [4 * v * w for v, w in vals]
        else:
            dt, nl = torch.bfloat16, rng.randrange(12, 30)
            m = torch.nn.Sequential(*[torch.nn.Linear(1, 1, bias=False) for _ in range(nl)]).to(dt)
            vals = [(0.25, 0.5)] * (nl - 1) + [(8.0, 8.0)]   # visited in reverse: 64 first, then 0.125 each (absorbed in bf16)
            per = [v * w for v, w in vals]
        case = {'kind': kind, 'dtype': str(dt), 'layers': nl, 'kl': str(kl), 'per_layer_inner': per}
        try:
            p = KFACPreconditioner(m, kl_clip=float(kl), lr=1.0)
            for (name, lay), (v, w) in zip(p._layers.values(), vals):
                mod = lay.module.module
                mod.weight.grad = torch.full_like(mod.weight, w)
                lay.grad = torch.full_like(mod.weight, v)
            scale = p._compute_grad_scale()
        except Exception as e:  # noqa: BLE001
            ctx.fail(f'_compute_grad_scale raised {type(e).__name__}: {e}', case, 'half-scale-raised')
            continue
        tot = sum(Fraction(x) for x in per)
        want = min(1.0, (float(kl) / float(tot)) ** 0.5)
        if not (scale > 0) or abs(scale - want) > 1e-6 * want or Fraction(scale) ** 2 * tot > kl * (1 + Fraction(1, 10**6)):
            ctx.fail(f'{kind}: _compute_grad_scale() = {scale}, but min(1, sqrt(kl_clip/|Σ<V,D> lr²|)) = {want} (Σ = {float(tot)})',
                     dict(case, scale=scale), 'nu-half')
        ctx.evaluations += 1
        ctx.count('half-' + kind)


def external_lr_stream(ctx):
    """lr (and kl_clip) given as callables that read external state (lr=lambda s: optimizer.param_groups[0]['lr']): the value
    in force when the scale is computed counts, whatever was read (logged) earlier at the same step count"""
    from kfac.preconditioner import KFACPreconditioner
    rng = ctx.rng
    for _ in range(ctx.budget(20, 150)):
        m = torch.nn.Sequential(torch.nn.Linear(2, 2, bias=rng.random() < 0.5)).double()
        lr_cell = [float(Fraction(rng.choice([1, 3]), 2 ** rng.randrange(0, 5)))]
        kl_cell = [float(Fraction(1, 2 ** rng.randrange(2, 10)))]
        p = KFACPreconditioner(m, kl_clip=lambda s: kl_cell[0], lr=lambda s: lr_cell[0])
        (name, lay), = p._layers.values()
        mod = lay.module
        a, g = mod.a_factor_shape[0], mod.g_factor_shape[0]
        mod.module.weight.grad = torch.tensor([[float(rng.randrange(1, 5)) for _ in range(a - int(mod.has_bias()))] for _ in range(g)], dtype=torch.float64)
        if mod.has_bias():
            mod.module.bias.grad = torch.tensor([float(rng.randrange(1, 5)) for _ in range(g)], dtype=torch.float64)
        lay.grad = torch.tensor([[float(rng.randrange(1, 9)) / 2 for _ in range(a)] for _ in range(g)], dtype=torch.float64)
        inner = Fraction(float((lay.grad * mod.get_grad()).sum()))
        logged = (p.lr, p.kl_clip, p.damping)                                  # e.g. a logging call
        lr_cell[0] = float(Fraction(rng.choice([1, 5, 7]), 2 ** rng.randrange(0, 6)))     # the LR scheduler steps
        kl_cell[0] = float(Fraction(1, 2 ** rng.randrange(2, 10)))
        case = {'lr_logged': logged[0], 'lr_now': lr_cell[0], 'kl_logged': logged[1], 'kl_now': kl_cell[0], 'sum_inner': str(inner)}
        try:
            scale = p._compute_grad_scale()
        except Exception as e:  # noqa: BLE001
            ctx.fail(f'_compute_grad_scale raised {type(e).__name__}: {e}', case, 'ext-scale-raised')
            continue
        s_ = abs(inner * Fraction(lr_cell[0]) ** 2)
        want = 1.0 if s_ == 0 else min(1.0, (kl_cell[0] / float(s_)) ** 0.5)
        if abs(scale - want) > 1e-12 * want:
            ctx.fail(f'_compute_grad_scale() = {scale}, but with the learning rate {lr_cell[0]} and clip {kl_cell[0]} now in force '
                     f'min(1, sqrt(kl/|Σ<V,D> lr²|)) = {want}', dict(case, scale=scale), 'nu-stale-hyper')
        ctx.evaluations += 1
        ctx.count('external-lr')


def tied_stream(ctx):
    """two registered layers sharing one weight Parameter (weight tying): with kl_clip=None the gradients are the unscaled
    preconditioned ones — exactly what a clip that never binds (nu = 1) leaves"""
    from kfac.preconditioner import KFACPreconditioner
    rng = ctx.rng

    class Tied(torch.nn.Module):
        def __init__(self):
            super().__init__()
            self.enc = torch.nn.Linear(4, 4)
            self.dec = torch.nn.Linear(4, 4, bias=False)
            self.dec.weight = self.enc.weight
            self.head = torch.nn.Linear(4, 2)

        def forward(self, x):
            return self.head(torch.tanh(self.dec(torch.tanh(self.enc(x)))))
    for method in ('eigen', 'inverse'):
        for _ in range(ctx.budget(2, 10)):
            seed = rng.randrange(10**6)
            case = {'stream': 'tied-weights', 'method': method, 'seed': seed}
            outs = []
            try:
                for kl in (None, 1e30):
                    torch.manual_seed(seed)
                    m = Tied().double()
                    p = KFACPreconditioner(m, kl_clip=kl, compute_method=method, damping=0.01, lr=0.1)
                    for step in range(2):
                        x = torch.randn(8, 4, dtype=torch.float64)
                        m.zero_grad()
                        m(x).pow(2).mean().backward()
                        p.step()
                    outs.append([q.grad.clone() for q in m.parameters()])
            except Exception as e:  # noqa: BLE001
                ctx.fail(f'tied-weight model raised {type(e).__name__}: {e}', case, 'tied-raised')
                continue
            worst = max(kfacsim.relerr(a, b) for a, b in zip(*outs))
            if worst > 1e-9:
                ctx.fail(f'kl_clip=None gives gradients that differ (relative {worst:.2e}) from those of a clip that never binds (nu = 1) '
                         'on a model with tied weights', case, 'none-is-not-nu-1')
            ctx.evaluations += 1
            ctx.count('tied-weights')


def ctor_stream(ctx):
    from kfac.preconditioner import KFACPreconditioner
    for method in ('eigen', 'inverse'):
        m = torch.nn.Sequential(torch.nn.Linear(3, 2)).double()
        try:
            p = KFACPreconditioner(m, kl_clip=None, compute_method=method)
            x = torch.randn(4, 3, dtype=torch.float64)
            m(x).pow(2).sum().backward()
            p.step()
        except Exception as e:  # noqa: BLE001
            ctx.fail(f'kl_clip=None (documented: no clipping) rejected: {type(e).__name__}: {e}', {'method': method}, 'kl-none-rejected')
        ctx.evaluations += 1


def neox_stream(ctx):
    """GPT-NeoX path: with pipe = model = 1 the clipped shards must equal the unsharded clipped reference;
    model > 1 is the F1 witness"""
    import os
    import sys
    sys.path.insert(0, os.path.dirname(os.path.abspath(__file__)))
    import C11
    import neoxsim
    rng = ctx.rng
    cases = [dict(pp=1, dp=1, mp=2, blocks=1, kl=Fraction(1, 10**4), ops=['f1', 's'], cap_mb=0.0, lead=())]
    for _ in range(ctx.budget(6, 40)):
        cases.append(dict(pp=1, mp=1, dp=rng.choice([1, 2, 3]), blocks=rng.choice([1, 2]),
                          kl=rng.choice([Fraction(1, 10**4), Fraction(1, 10**6)]), ops=['f1', 's'] * rng.randrange(1, 3)))
    for i, kw in enumerate(cases):
        C11.check_case(ctx, neoxsim.NCfg(rng, **kw), ctx.seed * 131 + i)


def run(ctx):
    neox_stream(ctx)
    ctor_stream(ctx)
    tied_stream(ctx)
    exact_stream(ctx)
    half_stream(ctx)
    external_lr_stream(ctx)
    twin_stream(ctx)
    rng = ctx.rng
    cfgs = []
    for _ in range(ctx.budget(20, 200)):
        cfg = kfacsim.Config(rng, world=rng.choice([1, 2, 4]))
        cfg.hyper['kl_clip'] = rng.choice([Fraction(1, 10**5), None, [Fraction(1, 100), None, Fraction(1, 10**4)]])
        cfg.hyper['lr'] = rng.choice([Fraction(1, 10), Fraction(0), [Fraction(0), Fraction(1, 2)]])
        cfg.ops = (['f1'] * cfg.accum + ['s']) * rng.randrange(1, 4)
        cfgs.append(cfg)
    # histories mixing unclipped (kl_clip=None or nu=1) and clipped steps, gradient tensors kept alive between
    # iterations, layers without bias (whose gradient is installed as a view): one scalar on every rank, each step
    for _ in range(ctx.budget(24, 240)):
        cfg = kfacsim.Config(rng, world=rng.choice([2, 2, 4, 3]))
        cfg.keepgrad = True
        if rng.random() < 0.7:
            cfg.arch = [tuple(list(a[:-1]) + [False]) if a[0] in ('lin', 'conv') else a for a in cfg.arch]
        nsteps = rng.randrange(2, 5)
        # (a schedule may reach exactly 0: nu = 0 then, the bound holds with equality — 0 is not "no clipping")
        cfg.hyper['kl_clip'] = [rng.choice([None, Fraction(10**6), Fraction(1, 10**5), Fraction(1, 10**3), Fraction(0)]) for _ in range(nsteps)]
        cfg.hyper['lr'] = Fraction(1, 10)
        cfg.ops = (['f1'] * cfg.accum + ['s']) * nsteps
        cfgs.append(cfg)
    # a checkpoint is loaded into a preconditioner constructed with other constants — in particular with clipping
    # enabled where the checkpoint has none and vice versa: the restored kl_clip is the one that counts
    for _ in range(ctx.budget(8, 60)):
        cfg = kfacsim.Config(rng, world=rng.choice([1, 2]))
        cfg.hyper['kl_clip'] = rng.choice([Fraction(1, 10**5), Fraction(1, 10**4), None])
        cfg.hyper['lr'] = Fraction(1, 10)
        cfg.perturb_ctor = True
        it = ['f1'] * cfg.accum + ['s']
        cfg.ops = it + ['l11'] + it * 2
        cfgs.append(cfg)
    kfacsim.run_batch(ctx, cfgs, ('grads', 'ranks'), oracles=(kfacsim.oracle_reference, oracle_clip_disabled), whole_only_oracles=False)


def oracle_clip_disabled(ctx, cfg, rr):
    """a kl_clip schedule may evaluate to None at some step (clipping during warm-up, disabled afterwards): that step writes
    the preconditioned gradients back unscaled — it does not raise (C07-mutU decided on the raw attribute instead of the
    evaluated value and then divided None by a float)"""
    kl = cfg.hyper.get('kl_clip')
    if not (isinstance(kl, list) and any(v is None for v in kl)):
        return
    w = rr.world
    for r, e in (w.exceptions or {}).items():
        if 'TypeError' in str(e) and 'NoneType' in str(e):
            ctx.fail(f'rank {r}: step() raised {e} on a history whose kl_clip schedule evaluates to None at some step (clipping disabled there); '
                     'the statement has the gradients written back unscaled', dict(cfg.describe()), 'clip-disabled-raised')
            return


def search(ctx):
    twin_stream(ctx)


def replay(ctx, payload):
    c = payload.get('case', {})
    if 'world' in c and 'ops' in c:
        return kfacsim.replay_case(ctx, payload, ('grads', 'ranks'), oracles=(kfacsim.oracle_reference, oracle_clip_disabled))
    ctor_stream(ctx)
    exact_stream(ctx)
    for f in ctx.failures[:5]:
        print('replay:', f['what'])
    return bool(ctx.failures)
