"""C06 — KAISA assignment well-formed and identical on every rank."""
from __future__ import annotations

import gen

RULE = ('cases = (world, k | world, colocate, cost dict) x every local rank; real KAISAAssignment '
        'built per rank with a recording group_func; all public queries compared with the Lean '
        'model fed the observed CPython set order; non-trivial = world > 1 and at least one layer; '
        'distinct = distinct (world,k,colocate,work) keys'
        '; k sweeps inside one process, one interpreter per rank with distinct string-hash seeds, the views the real KFACPreconditioner builds on every simulated rank of a multi-node launch, every rank of larger non-power-of-two worlds')
TRUSTED = [
    'Lean 4.33 kernel + Mathlib .olean files; axioms of every theorem audited ⊆ {propext, Classical.choice, Quot.sound}',
    'hand-written model KfacVerif/Model/Kaisa.lean tied to kfac/assignment.py by this correspondence',
    'CPython set iteration order is a parameter (observed, fed to the model); theorems hold for every order',
    'IEEE double product w*(k/w) modelled by the standard rounding model in the fraction theorem',
]
ASSUMPTIONS = ['set iteration order of small-int frozensets is identical on all ranks (checked across local ranks in-process)']
PARTIAL = []


def build(w, k, loc, colocate, work, frac=None):
    from kfac.assignment import KAISAAssignment
    calls = []
    seen = {}
    orig = KAISAAssignment.greedy_assignment

    def rec(work_, groups, world, col):
        seen['groups'] = [list(g) for g in groups]
        return orig(work_, groups, world, col)

    KAISAAssignment.greedy_assignment = staticmethod(rec)
    try:
        a = KAISAAssignment(
            work, local_rank=loc, world_size=w,
            grad_worker_fraction=(k / w if frac is None else frac),
            group_func=lambda ranks: (calls.append(tuple(ranks)), tuple(sorted(ranks)))[1],
            colocate_factors=colocate)
    finally:
        KAISAAssignment.greedy_assignment = staticmethod(orig)
    return a, calls, seen.get('groups', [])


def impl_line(a, loc, work, w, k):
    layers = list(work)
    inv = {l: {f: a.inv_worker(l, f) for f in a.get_factors(l)} for l in a.get_layers()}
    from kfac.assignment import KAISAAssignment
    cols = sorted(sorted(g) for g in KAISAAssignment.partition_grad_workers(w, k))
    rows = sorted(sorted(g) for g in KAISAAssignment.partition_grad_receivers(w, k))
    # model's groupsCreated order: cols by first element, then rows not in cols
    groups = cols + [r for r in rows if r not in cols]
    rg = sorted(a.grad_receiver_group(layers[0])) if layers else None
    return ('inv=' + gen.assign_str(inv)
            + ' gw=' + ';'.join(f'{l}={int(a.is_grad_worker(l))}' for l in layers)
            + ' src=' + ';'.join(f'{l}={a.src_grad_worker(l)}' for l in layers)
            + ' wg=' + ';'.join(f'{l}={gen.nats(sorted(a.grad_worker_group(l)))}' for l in layers)
            + ' rg=' + (gen.nats(rg) if rg is not None else None.__repr__())
            + f' bg={int(a.broadcast_gradients())} bi={int(a.broadcast_inverses())}'
            + ' groups=' + gen.natlists(groups, '|')), rg


def oracle(ctx, w, k, colocate, work, objs, callseqs):
    """The statement of C06 evaluated directly on the real objects of all ranks."""
    case = {'w': w, 'k': k, 'colocate': colocate, 'work': work}
    a0 = objs[0]
    layers = list(work)
    p = w // k
    for loc, a in enumerate(objs):
        for l in layers:
            for f in work[l]:
                if a.inv_worker(l, f) != a0.inv_worker(l, f):
                    return ctx.fail(f'inv_worker({l},{f}) differs between rank 0 and rank {loc}', case, 'inv-differs')
    if any(c != callseqs[0] for c in callseqs):
        return ctx.fail('group_func call sequence differs between ranks', case, 'group-order-differs')
    wgs = {}
    for l in layers:
        g = set(objs[0].grad_worker_group(l))
        for loc, a in enumerate(objs):
            if set(a.grad_worker_group(l)) != g:
                return ctx.fail(f'worker group of {l} differs on rank {loc}', case, 'wg-differs')
        if len(g) != k:
            return ctx.fail(f'worker group of {l} has size {len(g)} != {k}', case, 'wg-size')
        for f in work[l]:
            if a0.inv_worker(l, f) not in g:
                return ctx.fail(f'inverse worker of {l}/{f} outside its worker group', case, 'inv-outside')
        wgs[l] = g
    if layers:
        rgs = [set(a.grad_receiver_group(layers[0])) for a in objs]
        for loc, g in enumerate(rgs):
            if loc not in g or len(g) != p:
                return ctx.fail(f'receiver group of rank {loc} malformed: {sorted(g)}', case, 'rg-malformed')
        distinct = {frozenset(g) for g in rgs}
        if sum(len(g) for g in distinct) != w or set().union(*distinct) != set(range(w)):
            return ctx.fail('receiver groups do not partition the world', case, 'rg-partition')
        created = {frozenset(c) for c in callseqs[0]}
        colsets = {g for g in created if len(g) == k and all((x - min(g)) % p == 0 for x in g)} if p > 0 else set()
        for l in layers:
            if frozenset(wgs[l]) not in created:
                return ctx.fail('worker group never created through group_func', case, 'wg-not-created')
        for loc, a in enumerate(objs):
            for l in layers:
                s = a.src_grad_worker(l)
                if s not in wgs[l] or s not in rgs[loc]:
                    return ctx.fail(f'src_grad_worker({l}) on rank {loc} = {s} not in worker∩receiver', case, 'src-bad')
                if len(wgs[l] & rgs[loc]) != 1:
                    return ctx.fail('worker ∩ receiver group is not a singleton', case, 'src-nonunique')
                if a.is_grad_worker(l) != (loc in wgs[l]):
                    return ctx.fail('is_grad_worker inconsistent with group', case, 'gw-flag')
                if a.is_grad_worker(l) and s != loc:
                    return ctx.fail('gradient worker is not its own source', case, 'src-self')
    from kfac.assignment import KAISAAssignment
    for nm, part, size in (('workers', KAISAAssignment.partition_grad_workers(w, k), k),
                           ('receivers', KAISAAssignment.partition_grad_receivers(w, k), p)):
        allr = sorted(x for g in part for x in g)
        if allr != list(range(w)) or any(len(g) != size for g in part):
            return ctx.fail(f'partition_grad_{nm} is not an equal partition', case, 'partition')
    for a in objs:
        if a.broadcast_gradients() != (k < w) or a.broadcast_inverses() != (k > 1):
            return ctx.fail('broadcast flags do not match the strategy', case, 'flags')
    return None


def one_case(ctx, lines, pend, w, k, colocate, work, ranks=None):
    objs, callseqs = [], []
    case = {'w': w, 'k': k, 'colocate': colocate, 'work': work}
    try:
        for loc in range(w):
            a, calls, gorder = build(w, k, loc, colocate, work)
            objs.append(a)
            callseqs.append(calls)
            if ranks is not None and loc not in ranks:
                continue
            il, _ = impl_line(a, loc, work, w, k)
            lines.append(f'kaisa w={w} k={k} loc={loc} col={int(colocate)} '
                         f'gorder={gen.natlists(gorder)} work={gen.work_str(work)}')
            pend.append((dict(case, loc=loc, gorder=gorder), il))
    except Exception as e:  # noqa: BLE001
        ctx.fail(f'valid configuration rejected: {type(e).__name__}: {e}', case, 'rejected-valid')
        return
    oracle(ctx, w, k, colocate, work, objs, callseqs)
    ctx.case((w, k, colocate, gen.work_str(work)), nontrivial=(w > 1 and len(work) > 0),
             sample=dict(case))
    ctx.count(f'k{"=w" if k == w else ("=1" if k == 1 else "mid")}')
    ctx.count(f'layers{min(len(work), 9)}')


def run(ctx):
    rng = ctx.rng
    lines, pend = [], []
    wmax = ctx.budget(24, 96)
    # exhaustive small domain: every (w, k|w, colocate), every local rank, fixed work shapes
    for w in range(1, wmax + 1):
        for k in gen.divisors(w):
            for colocate in (True, False):
                nl = rng.choice([1, 2, 3, 5, w, w + 3])
                work = gen.gen_work(rng, nlayers=nl)
                ranks = None if w <= 24 else set(rng.sample(range(w), 4))
                one_case(ctx, lines, pend, w, k, colocate, work, ranks)
    # larger, non-power-of-two worlds: EVERY rank's view (index arithmetic on rank/world/worker counts goes wrong, if it
    # does, at isolated (world, rank) pairs), one small cost dictionary
    big = [22, 26, 28, 30, 36, 40, 44, 46, 48, 52, 60, 66, 72, 96, 98, 100]
    for w in (big if ctx.tier == 'thorough' else [22] + rng.sample(big[1:], 3)):
        for k in gen.divisors(w):
            if 1 < k < w or rng.random() < 0.3:
                one_case(ctx, lines, pend, w, k, rng.random() < 0.5, gen.gen_work(rng, nlayers=2), None)
    # worlds beyond 257 ranks (rank numbers outside CPython's small-int cache, more than one byte): the views of the
    # highest ranks and of rank 256/257 are compared with the model, every rank's view goes through the oracle
    huge = [288, 320, 512] if ctx.tier == 'thorough' else [rng.choice([264, 288])]
    for w in huge:
        ks = gen.divisors(w)
        for k in ([1, ks[len(ks) // 2], w] if ctx.tier == 'thorough' else [rng.choice([1, w]), ks[len(ks) // 2]]):
            one_case(ctx, lines, pend, w, k, rng.random() < 0.5, gen.gen_work(rng, nlayers=2), {0, 255, 256, 257, 258, w - 1})
    ctx.exhaustive = True
    ctx.notes.append(f'enumerated every (world<= {wmax}, k | world, colocate) exhaustively; cost dicts random')
    # degenerate but legal cost dictionaries: every cost zero (all ties)
    for _ in range(ctx.budget(6, 40)):
        w = rng.choice([1, 2, 4, 6])
        work0 = {l: {f: 0 for f in fs} for l, fs in gen.gen_work(rng, nlayers=rng.choice([1, 2, 5])).items()}
        one_case(ctx, lines, pend, w, rng.choice(gen.divisors(w)), rng.random() < 0.5, work0, None)
    # random cost dictionaries
    for _ in range(ctx.budget(150, 1500)):
        w = rng.choice([1, 2, 3, 4, 6, 8, 12, 16, 30, 32, 48, 64])
        k = rng.choice(gen.divisors(w))
        work = gen.gen_work(rng)
        one_case(ctx, lines, pend, w, k, rng.random() < 0.5, work,
                 ranks=set(rng.sample(range(w), min(w, 3))))
    outs = ctx.model.ask(lines)
    import re
    for (case, il), mo in zip(pend, outs):
        if not case['work'] and mo is not None:
            # without layers the receiver group is not observable through the public API
            mo = re.sub(r' rg=[0-9,]*', ' rg=None', mo)
        ctx.compare('kaisa-queries', case, mo, il)

    # fractions: every k | w accepted as the float k/w (D1) and through validation ------------
    vlines, vpend = [], []
    from kfac.assignment import KAISAAssignment
    fw = ctx.budget(260, 1500)
    for w in list(range(1, fw + 1)):
        for k in gen.divisors(w):
            try:
                a = KAISAAssignment({'l': {'A': 1, 'G': 1}}, local_rank=w - 1, world_size=w,
                                    grad_worker_fraction=k / w, group_func=lambda r: None)
                got = f'ok {a.grad_workers}'
            except ValueError:
                got = 'ValueError'
                ctx.fail(f'fraction {k}/{w} (float {k / w!r}) rejected', {'w': w, 'k': k}, 'fraction-rejected')
            # fractions inside the constructor's 1e-6 tolerance (0.1 added ten times, k/w computed with rounding error) resolve
            # to the same k: the broadcast flags follow the RESOLVED worker count, not the requested float (C13-mutW)
            for fr in ({k / w * (1 - 1e-9), min(1.0, k / w * (1 + 1e-9))} | ({sum([0.1] * 10)} if k == w else set())):
                try:
                    b = KAISAAssignment({'l': {'A': 1, 'G': 1}}, local_rank=w - 1, world_size=w, grad_worker_fraction=fr,
                                        group_func=lambda r: None)
                except ValueError:
                    continue
                if b.grad_workers != k or b.broadcast_gradients() != (k < w) or b.broadcast_inverses() != (k > 1):
                    ctx.fail(f'fraction {fr!r} on {w} ranks resolves to {b.grad_workers} gradient workers but broadcast_gradients() = '
                             f'{b.broadcast_gradients()}, broadcast_inverses() = {b.broadcast_inverses()} (expected {k < w}, {k > 1})',
                             {'w': w, 'k': k, 'fraction': repr(fr)}, 'flags-inexact-fraction')
            vlines.append(f'kvalidate w={w} num={k} den={w} loc={w - 1}')
            vpend.append(({'w': w, 'k': k}, got))
            ctx.evaluations += 1
    # malformed stream: non-dividing fractions, out-of-range ranks; expected error class
    for _ in range(ctx.budget(300, 3000)):
        w = rng.randrange(1, 40)
        den = rng.choice([w, w, rng.randrange(1, 50)])
        num = rng.randrange(0, den + 3)
        loc = rng.choice([0, w - 1, w, w + 2, rng.randrange(0, w)])
        from fractions import Fraction
        fr = Fraction(num, den)
        # keep the float side exact or clearly non-integral: skip near-integers that are not integers
        prod = w * fr
        if prod.denominator != 1 and abs(prod - round(prod)) < Fraction(1, 1000):
            continue
        try:
            a = KAISAAssignment({'l': {'A': 1}}, local_rank=loc, world_size=w,
                                grad_worker_fraction=num / den, group_func=lambda r: None)
            got = f'ok {a.grad_workers}'
        except ValueError:
            got = 'ValueError'
        vlines.append(f'kvalidate w={w} num={num} den={den} loc={loc}')
        vpend.append(({'w': w, 'num': num, 'den': den, 'loc': loc}, got))
        ctx.count('validate-' + got.split()[0])
        ctx.evaluations += 1
    for (case, got), mo in zip(vpend, ctx.model.ask(vlines)):
        ctx.compare('kaisa-validate', case, mo, got)

    # strategy selection of KFACPreconditioner.__init__ (enum and float paths), single process world
    strategy_stream(ctx)
    history_stream(ctx)
    interpreter_stream(ctx)
    precond_stream(ctx)
    bigcost_stream(ctx)
    reported_strategy_stream(ctx)


def bigcost_stream(ctx):
    """cost dictionaries are arbitrary positive floats: huge, non-integer, not exactly summable ones (n**3 * 1.1 for
    n ~ 10^4) are assigned like any others (oracle only: the model's costs are naturals)"""
    rng = ctx.rng
    for _ in range(ctx.budget(20, 200)):
        w = rng.choice([2, 4, 6, 8])
        k = rng.choice(gen.divisors(w))
        colocate = rng.random() < 0.5
        nl = rng.choice([2, 3, 6, 11])
        work = {f'l{i}': {f: (rng.randrange(2000, 20000) ** 3) * rng.choice([1.1, 0.7, 1 / 3, 1.0]) for f in ('A', 'G')} for i in range(nl)}
        case = {'w': w, 'k': k, 'colocate': colocate, 'work': work}
        objs, callseqs = [], []
        try:
            for loc in range(w):
                a, calls, _ = build(w, k, loc, colocate, work)
                objs.append(a)
                callseqs.append(calls)
        except Exception as e:  # noqa: BLE001
            ctx.fail(f'a legal cost dictionary with large float costs was rejected: {type(e).__name__}: {e}', case, 'rejected-valid')
            continue
        oracle(ctx, w, k, colocate, work, objs, callseqs)
        ctx.evaluations += 1
        ctx.case(('bigcost', w, k, colocate, nl), nontrivial=w > 1)
        ctx.count('big-float-costs')


def precond_stream(ctx):
    """the views the real KFACPreconditioner builds on every rank of a simulated multi-node launch (LOCAL_RANK differs
    from the rank): the statement evaluated on what each rank's own assignment object answers"""
    import kfacsim
    rng = ctx.rng
    for i in range(ctx.budget(10, 80)):
        cfg = kfacsim.Config(rng, world=rng.choice([2, 3, 4, 6, 8]))
        cfg.ops = []
        rr = kfacsim.run_real(cfg, sched_seed=ctx.seed * 31 + i)
        case = dict(cfg.describe(), stream='preconditioner-views')
        if kfacsim.run_failed(rr) or any(x is None or 'assign' not in x for x in rr.res):
            ctx.fail(f'construction failed: {kfacsim.run_failed(rr)}', case, 'precond-ctor')
            continue
        w, k = cfg.world, cfg.k
        views = [rr.res[r]['assign'] for r in range(w)]
        nl = len(views[0]['gw'])
        bad = None
        for r, v in enumerate(views):
            if (v['inva'], v['invg']) != (views[0]['inva'], views[0]['invg']):
                bad = f'inverse workers differ between rank 0 and rank {r}'
            if r not in v['recv'] or len(v['recv']) != w // k:
                bad = f'rank {r} uses the receiver group {v["recv"]} (size {w // k} expected, containing the rank)'
            if v['bg'] != (k < w) or v['bi'] != (k > 1):
                bad = f'broadcast flags on rank {r} do not match the strategy'
        for l in range(nl):
            workers = {r for r in range(w) if views[r]['gw'][l]}
            if len(workers) != k:
                bad = bad or f'layer {l}: {len(workers)} ranks consider themselves gradient workers, {k} expected'
            for r, v in enumerate(views):
                s_ = v['src'][l]
                if s_ not in workers or s_ not in v['recv'] or (v['gw'][l] and s_ != r):
                    bad = bad or f'layer {l}: rank {r} takes its gradient from {s_} (workers {sorted(workers)}, receiver group {v["recv"]})'
        if bad:
            ctx.fail(bad, case, 'precond-views')
        ctx.evaluations += 1
        ctx.case(('precond-views', cfg.world, cfg.k, cfg.colocate, str(cfg.arch)), nontrivial=cfg.world > 1)
        ctx.count('precond-views')


def reported_strategy_stream(ctx):
    """the strategy KFACPreconditioner reports for a float fraction matches the assignment it builds, for every world
    size (1/n is not exactly representable: 49 * (1/49) < 1): MEM-OPT requests (1/n or the shortcut 0) are MEM_OPT with one
    gradient worker and no inverse broadcast, 1.0 is COMM_OPT, k/n in between is HYBRID_OPT.  World size and rank are
    supplied by patching get_world_size / get_rank / new_group (no process group of that size is created)."""
    import torch
    import torch.distributed as dist
    import kfac.preconditioner as kp
    from kfac.enums import DistributedStrategy as DS
    rng = ctx.rng
    worlds = sorted(set([2, 3, 4, 6, 7, 12, 49, 98, 103, 107, 161] + [rng.randrange(2, 260) for _ in range(ctx.budget(12, 120))]))
    if ctx.tier == 'thorough':
        worlds = list(range(2, 261))
    _missing = object()
    orig = (getattr(kp, 'get_world_size', _missing), getattr(kp, 'get_rank', _missing), dist.new_group)
    try:
        for w in worlds:
            ks = gen.divisors(w)
            for k, frac in [(1, 1.0 / w), (1, 0), (w, 1.0)] + [(k, k / w) for k in ks[1:-1][:2]]:
                r = rng.randrange(w)
                kp.get_world_size = lambda *a, **kw_: w
                kp.get_rank = lambda *a, **kw_: r
                dist.new_group = lambda *a, **kw_: None
                case = {'stream': 'reported-strategy', 'world': w, 'grad_worker_fraction': frac, 'rank': r}
                try:
                    p = kp.KFACPreconditioner(torch.nn.Sequential(torch.nn.Linear(2, 2), torch.nn.Linear(2, 2)), grad_worker_fraction=frac)
                except Exception as e:  # noqa: BLE001
                    ctx.fail(f'fraction {frac!r} on {w} ranks rejected: {type(e).__name__}: {e}', case, 'strategy-rejected')
                    continue
                want = DS.COMM_OPT if k == w else (DS.MEM_OPT if k == 1 else DS.HYBRID_OPT)
                a = p._assignment
                got = (p.distributed_strategy, a.broadcast_inverses(), a.broadcast_gradients())
                if got != (want, k > 1, k < w):
                    ctx.fail(f'{w} ranks, fraction {frac!r} ({k} gradient workers): strategy / broadcast_inverses / broadcast_gradients = '
                             f'{got}, expected {(want, k > 1, k < w)}', case, 'reported-strategy')
                ctx.evaluations += 1
            ctx.count('reported-strategy-worlds')
    finally:
        dist.new_group = orig[2]
        for nm_, o_ in (('get_world_size', orig[0]), ('get_rank', orig[1])):
            if o_ is _missing:
                if hasattr(kp, nm_):
                    delattr(kp, nm_)
            else:
                setattr(kp, nm_, o_)


def history_stream(ctx):
    """the assignment is a function of its arguments only: the same cost dictionary and world size built
    for several gradient-worker counts in descending / random order inside ONE process (stale caches)"""
    rng = ctx.rng
    lines, pend = [], []
    for _ in range(ctx.budget(12, 120)):
        w = rng.choice([4, 6, 8, 12, 16])
        work = gen.gen_work(rng, nlayers=rng.choice([3, 5, 9]))
        ks = gen.divisors(w)
        order = list(reversed(ks)) if rng.random() < 0.5 else rng.sample(ks, len(ks))
        colocate = rng.random() < 0.3
        for k in order:
            one_case(ctx, lines, pend, w, k, colocate, work, ranks=set(rng.sample(range(w), 2)))
        ctx.count('k-sweep-' + ('desc' if order == list(reversed(ks)) else 'random'))
    import re
    for (case, il), mo in zip(pend, ctx.model.ask(lines)):
        ctx.compare('kaisa-queries-history', case, mo, il)
    # several assignments ALIVE at once in one process (two preconditioners, e.g. actor and critic) with the same layer
    # names but different costs / worker counts: what one of them answers does not change when another one is built
    for _ in range(ctx.budget(12, 120)):
        w = rng.choice([4, 6, 8, 12])
        names = gen.gen_work(rng, nlayers=rng.choice([2, 4, 7]))
        alive = []
        for j in range(rng.randrange(2, 4)):
            k = rng.choice(gen.divisors(w))
            work = {l: {f: rng.randrange(1, 50) for f in fs} for l, fs in names.items()}
            loc = rng.randrange(w)
            a, _, _ = build(w, k, loc, rng.random() < 0.5, work)
            alive.append((a, loc, work, w, k, impl_line(a, loc, work, w, k)[0]))
        for a, loc, work, w_, k, first in alive:
            try:
                again = impl_line(a, loc, work, w_, k)[0]
            except Exception as e:  # noqa: BLE001
                again = f'query raised {type(e).__name__}: {e}'
            if again != first:
                ctx.fail('an assignment answers differently after another KAISAAssignment was constructed in the same process',
                         {'w': w_, 'k': k, 'loc': loc, 'work': work, 'before': first[:200], 'after': again[:200]}, 'alive-interference')
                break
        ctx.evaluations += 1
        ctx.count('assignments-alive-together')


def interpreter_stream(ctx):
    """every rank is its own Python interpreter with its own string-hash seed: the views must still agree"""
    import json
    import subprocess
    import sys
    rng = ctx.rng
    code = (
        'import sys, json, warnings; warnings.filterwarnings(\"ignore\"); sys.path.insert(0, sys.argv[1])\n'
        'from kfac.assignment import KAISAAssignment\n'
        'cases = json.loads(sys.argv[2]); out = []\n'
        'for w, k, col, work in cases:\n'
        '    calls = []\n'
        '    a = KAISAAssignment(work, local_rank=0, world_size=w, grad_worker_fraction=k / w,\n'
        '                        group_func=lambda r: calls.append(sorted(r)), colocate_factors=col)\n'
        '    out.append([{l: {f: a.inv_worker(l, f) for f in a.get_factors(l)} for l in a.get_layers()}, calls])\n'
        'print(json.dumps(out))\n')
    cases = []
    for _ in range(ctx.budget(8, 60)):
        w = rng.choice([4, 6, 8])
        k = rng.choice(gen.divisors(w))
        work = gen.gen_work(rng, nlayers=rng.choice([4, 7, 12]))
        # many ties in the summed costs
        for l in work:
            work[l] = {f: 1 for f in work[l]}
        cases.append([w, k, rng.random() < 0.5, work])
    outs = []
    for seed in ('1', '2', '12345'):
        import os
        env = dict(os.environ, PYTHONHASHSEED=seed)
        p = subprocess.run([sys.executable, '-c', code, __import__('common').REPO, json.dumps(cases)],
                           capture_output=True, text=True, env=env)
        if p.returncode != 0:
            ctx.fail('sub-interpreter failed: ' + p.stderr[-300:], {'seed': seed}, 'interpreter-failed')
            return
        outs.append(json.loads(p.stdout.strip().splitlines()[-1]))
    # ... and through KFACPreconditioner: the registration order of the layers (hence the order of the cost dictionary and
    # the tie-breaking of the greedy assignment) does not depend on the interpreter either — models mixing Conv2d and Linear
    # layers of exactly tied cost
    code2 = (
        'import sys, json, warnings; warnings.filterwarnings(\"ignore\"); sys.path.insert(0, sys.argv[1])\n'
        'import torch, torch.distributed as dist\n'
        'import kfac.preconditioner as kp\n'
        'w, r = int(sys.argv[2]), int(sys.argv[3])\n'
        'kp.get_world_size = lambda *a, **k: w; kp.get_rank = lambda *a, **k: r; dist.new_group = lambda *a, **k: None\n'
        'out = []\n'
        'for frac in (1.0, 1.0 / w, 0.5):\n'
        '    torch.manual_seed(0)\n'
        '    m = torch.nn.Sequential(torch.nn.Conv2d(4, 8, 1), torch.nn.Flatten(), torch.nn.Linear(8, 8), torch.nn.Linear(4, 8), torch.nn.Conv2d(8, 8, 1, bias=False), torch.nn.Linear(8, 8))\n'
        '    p = kp.KFACPreconditioner(m, grad_worker_fraction=frac)\n'
        '    a = p._assignment\n'
        '    out.append([[n for n, _ in p._layers.values()], {l: {f: a.inv_worker(l, f) for f in a.get_factors(l)} for l in a.get_layers()}])\n'
        'print(json.dumps(out))\n')
    pouts = []
    for seed in ('1', '2', '12345', '77'):
        import os
        env = dict(os.environ, PYTHONHASHSEED=seed)
        p = subprocess.run([sys.executable, '-c', code2, __import__('common').REPO, '4', '1'], capture_output=True, text=True, env=env)
        if p.returncode != 0:
            ctx.fail('sub-interpreter failed: ' + p.stderr[-300:], {'seed': seed, 'stream': 'preconditioner'}, 'interpreter-failed')
            break
        pouts.append(json.loads(p.stdout.strip().splitlines()[-1]))
    for o in pouts[1:]:
        if o != pouts[0]:
            ctx.fail('KFACPreconditioner built in separate interpreters (different string-hash seeds) registers the layers in different '
                     f'orders or derives different inverse workers: {o[0][0]} / {pouts[0][0][0]}', {'stream': 'preconditioner', 'world': 4}, 'interpreter-dependent-preconditioner')
            break
    ctx.evaluations += 1
    for i, c in enumerate(cases):
        for o in outs[1:]:
            if o[i][0] != outs[0][i][0]:
                ctx.fail('ranks running as separate interpreters (different string-hash seeds) derive different inverse '
                         'workers', {'w': c[0], 'k': c[1], 'colocate': c[2], 'work': c[3]}, 'interpreter-dependent')
                return
            if o[i][1] != outs[0][i][1]:
                ctx.fail('group creation order depends on the interpreter\'s hash seed',
                         {'w': c[0], 'k': c[1], 'colocate': c[2], 'work': c[3]}, 'interpreter-group-order')
                return
        ctx.evaluations += 1
    ctx.count('interpreter-cases', len(cases))


def strategy_stream(ctx):
    """KFACPreconditioner.__init__ under simdist: distributed_strategy and grad_workers."""
    import torch
    import simdist
    from kfac.preconditioner import KFACPreconditioner
    from kfac.enums import DistributedStrategy
    lines, pend = [], []
    for w in range(1, ctx.budget(7, 13)):
        opts = [(k, k / w) for k in gen.divisors(w)] + [(w, DistributedStrategy.COMM_OPT), (1, DistributedStrategy.MEM_OPT)]
        if w % 2 == 0:
            opts.append((w // 2, DistributedStrategy.HYBRID_OPT))
        if w > 1:
            opts.append((1, 0))
        for k, frac in opts:
            def prog(rank):
                m = torch.nn.Sequential(torch.nn.Linear(2, 2), torch.nn.Linear(2, 1))
                p = KFACPreconditioner(m, grad_worker_fraction=frac)
                return (p.distributed_strategy.name, p._assignment.grad_workers)
            wd, res = simdist.run_world(w, prog, seed=ctx.seed)
            case = {'w': w, 'k': k, 'frac': str(frac)}
            if wd.exceptions or wd.errors or wd.stalled:
                ctx.fail(f'constructor failed: {wd.exceptions or wd.errors}', case, 'ctor-failed')
                continue
            if any(r != res[0] for r in res):
                ctx.fail('strategy differs between ranks', case, 'strategy-differs')
            if isinstance(frac, DistributedStrategy):
                lines.append(f'enumworkers w={w} s={frac.name}')
                pend.append((case, f'{res[0][0]} workers={res[0][1]}'))
            else:
                lines.append(f'strategy w={w} k={k}')
                pend.append((case, f'{res[0][0]}' if res[0][1] == k else f'workers={res[0][1]}'))
            ctx.evaluations += 1
    for (case, got), mo in zip(pend, ctx.model.ask(lines)):
        ctx.compare('strategy', case, mo, got)


def search(ctx):
    """Failing-input search around disagreements: exhaustive neighbourhood with the oracle only."""
    rng = ctx.rng
    for w in range(1, 33):
        for k in gen.divisors(w):
            for colocate in (True, False):
                for _ in range(3):
                    work = gen.gen_work(rng, nlayers=rng.choice([1, 2, 4, 7]))
                    objs, calls = [], []
                    try:
                        for loc in range(w):
                            a, c, _ = build(w, k, loc, colocate, work)
                            objs.append(a)
                            calls.append(c)
                    except Exception as e:  # noqa: BLE001
                        ctx.fail(f'valid configuration raised {type(e).__name__}: {e}',
                                 {'w': w, 'k': k, 'colocate': colocate, 'work': work}, 'rejected-valid')
                        return
                    oracle(ctx, w, k, colocate, work, objs, calls)
                    if ctx.failures:
                        return


def replay(ctx, payload):
    case = payload.get('case', {})
    if 'work' in case and 'w' in case and 'k' in case:
        w, k = case['w'], case['k']
        objs, calls = [], []
        for loc in range(w):
            a, c, _ = build(w, k, loc, case.get('colocate', True), case['work'])
            objs.append(a)
            calls.append(c)
        oracle(ctx, w, k, case.get('colocate', True), case['work'], objs, calls)
    elif 'w' in case and 'k' in case:
        from kfac.assignment import KAISAAssignment
        try:
            KAISAAssignment({'l': {'A': 1}}, local_rank=0, world_size=case['w'],
                            grad_worker_fraction=case['k'] / case['w'], group_func=lambda r: None)
        except ValueError as e:
            ctx.fail(str(e), case, 'fraction-rejected')
    for f in ctx.failures:
        print('replay:', f['what'])
    return bool(ctx.failures)
