"""C15 — layer helpers keep factors, gradients and weights in one consistent layout."""
from __future__ import annotations

from fractions import Fraction

import torch

RULE = ('[inputs in contiguous / channels_last / cropped-view layouts; helpers reused after inputs with more rows] random Conv2d geometries (channels ≤ 3, rectangular kernels ≤ 3, strides ≤ 3, zero paddings ≤ 2 with '
        'pad_h ≠ pad_w, non-square inputs ≤ 7 incl. sizes not divisible by the stride, bias on/off, batch ≤ 3) and '
        'Linear layers with inputs of rank 2–4, all with small-integer data: real _extract_patches / get_a_factor / '
        'get_g_factor / get_grad / set_grad / advertised shapes compared exactly with the Lean index model; oracles: '
        'get_grad() = Σ outer(g_row, patch_row) from F.unfold, set∘get = id, shapes; non-trivial = conv with '
        'stride>1 or padding>0 or rectangular kernel, or linear with rank>2')
TRUSTED = [
    'Lean 4.33 kernel; axioms audited ⊆ {propext, Classical.choice, Quot.sound}',
    'hand-written model KV.Alg (patches/featIdx/getGrad/setGrad/cov) tied to kfac/layers/modules.py + utils.py',
    'PyTorch autograd/Conv2d/F.unfold/F.pad/view semantics (cross-correlation index conventions) — exercised, not proved',
    'integer-valued float64 data: index/layout comparisons exact; factor entries (quotients) within 1e-12 relative',
]
ASSUMPTIONS = ['dilation 1, groups 1, numeric zero padding (the statement\'s scope)']
PARTIAL = []


def rat(x):
    f = Fraction(x).limit_denominator(10**9)
    return str(f.numerator) if f.denominator == 1 else f'{f.numerator}/{f.denominator}'


def mat_str(t):
    return ';'.join(','.join(rat(float(v)) for v in row) for row in t.tolist())


def t4_str(t):
    return '|'.join('/'.join(';'.join(','.join(rat(float(v)) for v in row) for row in ch) for ch in b) for b in t.tolist())


def exact(t, s, tol=0):
    """parse model matrix string and compare (exactly, or within tol relative for quotients) with tensor t"""
    rows = s.split(';') if s else []
    tl = t.tolist()
    if len(rows) != len(tl):
        return False
    for r, tr in zip(rows, tl):
        vals = r.split(',') if r else []
        if len(vals) != len(tr):
            return False
        for v, tv in zip(vals, tr):
            fv = Fraction(v)
            if fv != Fraction(tv) and abs(fv - Fraction(tv)) > tol * max(1, abs(fv)):
                return False
    return True


def conv_case(ctx, rng, lines, pend):
    from kfac.layers.modules import Conv2dModuleHelper
    cin, cout = rng.randrange(1, 4), rng.randrange(1, 4)
    kh, kw = rng.randrange(1, 4), rng.randrange(1, 4)
    sh, sw = rng.randrange(1, 4), rng.randrange(1, 4)
    ph, pw = rng.randrange(0, 3), rng.randrange(0, 3)
    H, W = rng.randrange(kh, 8), rng.randrange(kw, 8)
    bias = rng.random() < 0.6
    N = rng.randrange(1, 4)
    case = dict(kind='conv', cin=cin, cout=cout, k=(kh, kw), stride=(sh, sw), pad=(ph, pw), H=H, W=W, bias=bias, N=N)
    torch.manual_seed(rng.randrange(10**6))
    regeom = rng.random() < 0.2
    case['geometry_changed_after_wrapping'] = regeom
    if regeom:
        # the module is wrapped first and its stride / zero padding are changed afterwards (densifying a strided stage,
        # dropping the padding): the helper follows the module, as the convolution itself does
        m = torch.nn.Conv2d(cin, cout, (kh, kw), stride=(rng.randrange(1, 4), rng.randrange(1, 4)), padding=(rng.randrange(0, 3), rng.randrange(0, 3)), bias=bias).double()
    else:
        m = torch.nn.Conv2d(cin, cout, (kh, kw), stride=(sh, sw), padding=(ph, pw), bias=bias).double()
    with torch.no_grad():
        m.weight.copy_(torch.randint(-3, 4, m.weight.shape).double())
        if bias:
            m.bias.copy_(torch.randint(-3, 4, m.bias.shape).double())
    hlp = Conv2dModuleHelper(m)
    if regeom:
        m.stride, m.padding = (sh, sw), (ph, pw)
    x = torch.randint(-3, 4, (N, cin, H, W)).double().requires_grad_(True)
    y = m(x)
    gout = torch.randint(-2, 3, y.shape).double()
    (y * gout).sum().backward()
    oh, ow = y.shape[2], y.shape[3]
    # --- oracle (statement): combined gradient = Σ outer(g_row, patch_row | 1)
    cols = torch.nn.functional.unfold(x.detach(), (kh, kw), padding=(ph, pw), stride=(sh, sw))  # N, F, L
    P = cols.transpose(1, 2).reshape(N * oh * ow, -1)
    if bias:
        P1 = torch.cat([P, torch.ones(P.shape[0], 1, dtype=torch.float64)], 1)
    else:
        P1 = P
    Grow = gout.permute(0, 2, 3, 1).reshape(N * oh * ow, cout)
    want = Grow.t() @ P1
    try:
        got = hlp.get_grad()
        # the activation K-FAC is handed may have any memory layout: contiguous NCHW, channels_last (which .clone(), .to()
        # and F.pad preserve), or a cropped / strided view of a larger tensor
        layout = rng.choice(['contiguous', 'contiguous', 'channels_last', 'cropped'])
        case['input_layout'] = layout

        def relayout(t):
            if layout == 'channels_last':
                return t.clone().contiguous(memory_format=torch.channels_last)
            if layout == 'cropped':
                big = torch.full((t.shape[0], t.shape[1], t.shape[2] + 3, t.shape[3] + 4), 7.0, dtype=t.dtype)
                big[:, :, 1:t.shape[2] + 1, 2:t.shape[3] + 2] = t
                return big[:, :, 1:t.shape[2] + 1, 2:t.shape[3] + 2]
            return t.clone()
        xc = relayout(x.detach())
        st0 = xc.stride()
        patches = hlp._extract_patches(xc)
        if tuple(xc.shape) != tuple(x.shape) or xc.stride() != st0 or not torch.equal(xc, x.detach()):
            ctx.fail('_extract_patches changed the tensor it was given (shape/stride/values of the caller\'s input)', case, 'input-mutated')
        # ... and the same tensor can be used again: patch extraction is a function of its argument
        patches2 = hlp._extract_patches(xc)
        if patches2.shape != patches.shape or not torch.equal(patches2, patches):
            ctx.fail('_extract_patches gives a different result when called again on the same tensor', case, 'input-mutated')
        xa = relayout(x.detach())
        A = hlp.get_a_factor(xa)
        if tuple(xa.shape) != tuple(x.shape) or not torch.equal(xa, x.detach()):
            ctx.fail('get_a_factor changed the tensor it was given', case, 'input-mutated')
        gc = relayout(gout)          # (the output gradient of a channels_last convolution is channels_last too)
        G = hlp.get_g_factor(gc)
        if tuple(gc.shape) != tuple(gout.shape) or not torch.equal(gc, gout):
            ctx.fail('get_g_factor changed the tensor it was given', case, 'input-mutated')
        # the helpers are functions of their argument (and the module's geometry): a forward at ANOTHER resolution in
        # between (multi-scale inputs, a convolution shared by two branches, forward-forward-backward-backward) changes
        # neither factor of the first one (C15-mutU normalised G by the patch grid of the last forward)
        x2 = torch.randint(-3, 4, (N, cin, H + rng.randrange(1, 4), W + rng.randrange(0, 4))).double()
        A_other = hlp.get_a_factor(x2)
        G_again = hlp.get_g_factor(relayout(gout))
        A_again = hlp.get_a_factor(relayout(x.detach()))
        if G_again.shape != G.shape or not torch.equal(G_again, G) or A_again.shape != A.shape or not torch.equal(A_again, A):
            ctx.fail(f'after a get_a_factor call at another resolution {tuple(x2.shape[2:])} the factors of the same input / output '
                     'gradient differ from the first time: the helper keeps state between calls', case, 'helper-history')
        del A_other
    except Exception as e:  # noqa: BLE001
        ctx.fail(f'helper raised {type(e).__name__}: {e}', case, 'raised')
        return
    # statement oracle: A is (a multiple of) the second moment of the rows [patch | 1] — aligned with the gradient's columns;
    # the library's normalisation is rows·(out_h·out_w)²
    wantA = P1.t() @ P1 / (P1.shape[0] * (oh * ow) ** 2)
    if tuple(A.shape) != tuple(wantA.shape) or (A - wantA).abs().max().item() > 1e-12 * max(1e-30, wantA.abs().max().item()):
        ctx.fail('conv A factor is not the second moment of the rows [patch|1] (uniformly scaled by 1/(rows·(out_h·out_w)²))', case, 'conv-a-moment')
    wantG = Grow.t() @ Grow / (Grow.shape[0] * (oh * ow) ** 2)
    if tuple(G.shape) != tuple(wantG.shape) or (G - wantG).abs().max().item() > 1e-12 * max(1e-30, wantG.abs().max().item()):
        ctx.fail('conv G factor is not the second moment of the per-position output-gradient rows (uniformly scaled by 1/(rows·(out_h·out_w)²))', case, 'conv-g-moment')
    if got.shape != want.shape or not torch.equal(got, want):
        ctx.fail('get_grad() is not the sum over samples and positions of outer(output-gradient row, input-patch row|1)', case, 'grad-layout')
    if tuple(patches.shape) != (N, oh, ow, cin * kh * kw) or not torch.equal(patches.reshape(N * oh * ow, -1), P):
        ctx.fail('_extract_patches disagrees with the convolution\'s own unfolding (F.unfold)', case, 'patches')
        return
    if tuple(A.shape) != tuple(hlp.a_factor_shape) or tuple(G.shape) != tuple(hlp.g_factor_shape):
        ctx.fail(f'factor shapes {tuple(A.shape)}/{tuple(G.shape)} differ from the advertised '
                 f'{hlp.a_factor_shape}/{hlp.g_factor_shape}', case, 'shapes')
    if A.shape[0] != got.shape[1] or G.shape[0] != got.shape[0]:
        ctx.fail('factor sizes do not match the combined gradient matrix', case, 'shapes-vs-grad')
    # set ∘ get = id, get ∘ set = id
    wg, bg = m.weight.grad.clone(), (m.bias.grad.clone() if bias else None)
    hlp.set_grad(got.clone())
    if not torch.equal(m.weight.grad, wg) or (bias and not torch.equal(m.bias.grad, bg)) \
            or m.weight.grad.shape != m.weight.shape:
        ctx.fail('set_grad(get_grad()) changed the gradients', case, 'set-get')
    newg = torch.randint(-5, 6, got.shape).double()
    hlp.set_grad(newg.clone())
    if not torch.equal(hlp.get_grad(), newg):
        ctx.fail('get_grad() after set_grad(M) is not M', case, 'get-set')
    # --- model line
    lines.append(f'alg f=conv cin={cin} kh={kh} kw={kw} sh={sh} sw={sw} ph={ph} pw={pw} H={H} W={W} bias={int(bias)} x={t4_str(x.detach())}')
    pend.append((case, 'conv', (patches.reshape(N * oh * ow, -1), A, oh, ow)))
    lines.append(f'alg f=convg cout={cout} oh={oh} ow={ow} x={t4_str(gout)}')
    pend.append((case, 'mat', G))
    lines.append('alg f=getgrad w=' + mat_str(wg.reshape(cout, -1)) + ' b=' + (','.join(rat(float(v)) for v in bg.tolist()) if bias else 'none'))
    pend.append((case, 'mat', got))
    ctx.case(str(case), nontrivial=(sh > 1 or sw > 1 or ph + pw > 0 or kh != kw), sample=case)
    ctx.count('conv-bias' if bias else 'conv-nobias')
    ctx.count('pad_h!=pad_w' if ph != pw else 'pad_h==pad_w')
    ctx.count('indivisible' if (H + 2 * ph - kh) % sh or (W + 2 * pw - kw) % sw else 'divisible')


def lin_case(ctx, rng, lines, pend):
    from kfac.layers.modules import LinearModuleHelper
    fin, fout = rng.randrange(1, 5), rng.randrange(1, 5)
    bias = rng.random() < 0.6
    # (rank 1 = a single unbatched sample, which torch.nn.Linear accepts: one row)
    lead = [rng.randrange(1, 4) for _ in range(rng.choice([0, 1, 1, 2, 3]))]
    case = dict(kind='linear', fin=fin, fout=fout, bias=bias, lead=lead)
    m = torch.nn.Linear(fin, fout, bias=bias).double()
    with torch.no_grad():
        m.weight.copy_(torch.randint(-3, 4, m.weight.shape).double())
    hlp = LinearModuleHelper(m)
    x = torch.randint(-3, 4, (*lead, fin)).double()
    y = m(x)
    gout = torch.randint(-2, 3, y.shape).double()
    (y * gout).sum().backward()
    X = x.reshape(-1, fin)
    X1 = torch.cat([X, torch.ones(X.shape[0], 1, dtype=torch.float64)], 1) if bias else X
    want = gout.reshape(-1, fout).t() @ X1
    got = hlp.get_grad()
    if rng.random() < 0.5:
        # the SAME helper saw other inputs before (more rows: a full batch before the epoch's last partial one, a longer
        # sequence): each factor is a function of the input it is given
        for _ in range(rng.randrange(1, 3)):
            more = torch.randint(-3, 4, (rng.randrange(1, 4) + max(1, x.reshape(-1, fin).shape[0]), fin)).double()
            hlp.get_a_factor(more)
            hlp.get_g_factor(torch.randint(-2, 3, (more.shape[0], fout)).double())
        case['helper_history'] = True
    A = hlp.get_a_factor(x.clone())
    G = hlp.get_g_factor(gout.clone())
    if not torch.equal(got, want):
        ctx.fail('linear get_grad() is not Σ outer(g_row, input_row|1)', case, 'grad-layout')
    # statement oracle: A is the second moment of the rows [input | 1] over all leading positions
    wantA = X1.t() @ X1 / X1.shape[0]
    if tuple(A.shape) != tuple(wantA.shape) or (A - wantA).abs().max().item() > 1e-12 * max(1.0, wantA.abs().max().item()):
        ctx.fail(f'linear A factor (shape {tuple(A.shape)}) is not the second moment of the rows [input|1] (shape {tuple(wantA.shape)})', case, 'lin-a-moment')
    if tuple(A.shape) != tuple(hlp.a_factor_shape) or tuple(G.shape) != tuple(hlp.g_factor_shape):
        ctx.fail('linear factor shapes differ from the advertised shapes', case, 'shapes')
    newg = torch.randint(-5, 6, got.shape).double()
    hlp.set_grad(newg.clone())
    if not torch.equal(hlp.get_grad(), newg) or m.weight.grad.shape != m.weight.shape:
        ctx.fail('linear get_grad() after set_grad(M) is not M', case, 'get-set')
    rows = X.shape[0]
    lines.append(f'alg f=lina rows={rows} n={fin} bias={int(bias)} x={mat_str(X)}')
    pend.append((case, 'mat', A))
    lines.append(f'alg f=cov rows={rows} n={fout} x={mat_str(gout.reshape(-1, fout))}')
    pend.append((case, 'mat', G))
    lines.append(f'alg f=setgrad bias={int(bias)} grad={mat_str(newg)}')
    pend.append((case, 'setgrad', (m.weight.grad.clone(), m.bias.grad.clone() if bias else None)))
    ctx.case(str(case), nontrivial=len(lead) > 1, sample=case)
    ctx.count('linear-rank%d' % (len(lead) + 1))


def guarded(ctx, fn, rng, lines, pend):
    n = len(lines)
    try:
        fn(ctx, rng, lines, pend)
    except Exception as e:  # noqa: BLE001
        del lines[n:]
        del pend[n:]
        ctx.fail(f'layer helper misbehaved: {type(e).__name__}: {e}', {'kind': fn.__name__}, 'helper-exception')


def run(ctx):
    rng = ctx.rng
    lines, pend = [], []
    for _ in range(ctx.budget(250, 2500)):
        guarded(ctx, conv_case, rng, lines, pend)
    for _ in range(ctx.budget(120, 1200)):
        guarded(ctx, lin_case, rng, lines, pend)
    for (case, kind, val), mo in zip(pend, ctx.model.ask(lines)):
        if mo is None:
            continue
        if kind == 'mat':
            ctx.compare('layout-matrix', case, 'match' if exact(val, mo, Fraction(1, 10**12)) else mo[:300], 'match')
        elif kind == 'conv':
            P, A, oh, ow = val
            m = dict(kv.split('=', 1) for kv in mo.split(' '))
            ok = exact(P, m['patches']) and exact(A, m['A'], Fraction(1, 10**12)) and int(m['oh']) == oh and int(m['ow']) == ow
            ctx.compare('layout-conv', case, 'match' if ok else mo[:300], 'match')
        else:
            w, b = val
            m = dict(kv.split('=', 1) for kv in mo.split(' '))
            ok = exact(w, m['w']) and ((b is None and m['b'] == 'none') or
                                       (b is not None and [Fraction(v) for v in m['b'].split(',')] == [Fraction(float(v)) for v in b.tolist()]))
            ctx.compare('layout-setgrad', case, 'match' if ok else mo[:300], 'match')


def search(ctx):
    pass  # run() evaluates the statement's oracle on every case


def replay(ctx, payload):
    run(ctx)
    for f in ctx.failures[:5]:
        print('replay:', f['what'])
    return bool(ctx.failures)
