"""C08 — bucketed allreduce ≡ per-tensor allreduce."""
from __future__ import annotations

from fractions import Fraction

import torch

import simdist

RULE = ('random op sequences (1–30 tensors; shapes incl. 0-d, empty and oversized; float16/32/64; '
        'position-revealing integer payloads; 1–3 groups through one communicator incl. distinct groups of equal '
        'size and single-member groups; average/symmetric flags; several fill/flush cycles; capacities from 0 to '
        'huge) on the real TorchDistributedCommunicator under simdist with 2–5 ranks and perturbed schedules; '
        'per-call issued all_reduce events compared exactly with the Lean state machine; every future compared '
        'with the unbucketed value computed in exact arithmetic; non-trivial = ≥3 tensors sharing a communicator '
        'and ≥1 bucket holding ≥2 tensors'
        "; raw payloads that are not multiples of the group size (the average carries exactly the per-tensor rounding); value stream: every member's result for every tensor compared exactly with the Lean value model KV.CommV (split / flatten / sum / unflatten)")
TRUSTED = [
    'Lean 4.33 kernel; axioms audited ⊆ {propext, Classical.choice, Quot.sound}',
    'hand-written model KV.Comm (allreduceBucketed/flush/run) tied to kfac/distributed.py by this correspondence',
    'simdist: in-process deterministic-scheduler simulator of torch.distributed (per-group FIFO matching)',
    'torch._utils._flatten_dense_tensors/_unflatten_dense_tensors concatenate/split in order (exercised via values)',
    'payloads are integers scaled so that sums and averages are exact in the tensor dtype',
]
ASSUMPTIONS = ['all members of a group submit the same request sequence (C03 proves this for kfac itself)']
PARTIAL = []

DT = {0: torch.float32, 1: torch.float64, 2: torch.float16, 3: torch.int64, 4: torch.int32}
ES = {0: 4, 1: 8, 2: 2, 3: 8, 4: 4}


def gen_case(rng, thorough):
    world = rng.choice([2, 3, 4, 5])
    # groups: world + up to 2 subgroups (possibly equal size, overlapping), + maybe a singleton
    groups = [tuple(range(world))]
    for _ in range(rng.choice([0, 1, 2])):
        k = rng.randrange(1, world + 1)
        g = tuple(sorted(rng.sample(range(world), k)))
        if g not in groups:
            groups.append(g)
    if world >= 3 and rng.random() < 0.5:
        a = tuple(sorted(rng.sample(range(world), 2)))
        b = tuple(sorted(rng.sample(range(world), 2)))
        for g in (a, b):
            if g not in groups:
                groups.append(g)
    cap = rng.choice([0, 1, 7, 16, 40, 64, 100, 256, 1000, 10**9])
    nops = rng.randrange(1, 40 if thorough else 24)
    ops = []
    tid = 0
    for _ in range(nops):
        if rng.random() < 0.15:
            ops.append(('fl',))
            continue
        g = rng.randrange(len(groups))
        sym = rng.random() < 0.3
        if sym:
            n = rng.choice([1, 2, 3, 5])
            shape = (n, n)
        else:
            shape = rng.choice([(), (1,), (3,), (2, 2), (2, 3), (4, 1, 2), (0,), (0, 3), (17,), (6, 6), (64,)])
        dt = rng.choice([0, 0, 0, 1, 2, 3, 4]) if rng.random() < 0.4 else 0       # (integer tensors too: counters, masks)
        ops.append(('rb', g, tid, shape, dt, sym, rng.random() < 0.6))
        tid += 1
    ops.append(('fl',))
    if rng.random() < 0.3:
        ops.append(('fl',))
    # raw payloads are NOT multiples of the group size: the average must then carry exactly the rounding of the
    # per-tensor allreduce, (1/n) * (sum over the group), not of any other order of scaling and summing
    return {'world': world, 'groups': groups, 'cap': cap, 'ops': ops, 'raw': rng.random() < 0.35,
            'rankorder': rng.randrange(1, 10**6) if rng.random() < 0.4 else 0, 'expand': rng.random() < 0.25}


def rank_ops(case, rank):
    """the op sequence rank `rank` executes.  With case['rankorder'] every rank interleaves its groups in its own order
    inside each fill/flush cycle — legal: only the sequence on each single group has to agree between its members"""
    ops = case['ops']
    if not case.get('rankorder'):
        return list(ops)
    import random as _r
    out, cyc = [], []
    for op in list(ops) + [None]:
        if op is None or op[0] == 'fl':
            per = {}
            for o in cyc:
                per.setdefault(o[1], []).append(o)
            keys = sorted(per)
            rr_ = _r.Random(case['rankorder'] * 1000003 + rank * 7919 + len(out))
            rr_.shuffle(keys)
            order = []
            # rank-dependent rotation of the groups, then a random merge that keeps each group's own order
            queues = [list(per[k]) for k in keys]
            while any(queues):
                q = rr_.choice([q for q in queues if q])
                order.append(q.pop(0))
            out += order
            cyc = []
            if op is not None:
                out.append(op)
        else:
            cyc.append(op)
    return out


def payload(tid, rank, shape, dt, sym, gsize):
    """position-revealing integers, multiples of gsize so that averaging is exact; symmetric if sym"""
    n = 1
    for s in shape:
        n *= s
    base = torch.arange(n, dtype=torch.float64).reshape(shape) if n else torch.zeros(shape, dtype=torch.float64)
    if sym and len(shape) == 2:
        i = torch.arange(shape[0]).view(-1, 1)
        j = torch.arange(shape[0]).view(1, -1)
        base = (torch.minimum(i, j) * shape[0] + torch.maximum(i, j)).to(torch.float64)
    v = ((base % 5 + (tid % 3) + rank + 1) * gsize).to(DT[dt])
    if _EXPAND[0] and len(shape) == 2 and not sym and shape[0] > 1 and n:
        # a broadcast view (row.expand(rows, cols)): logical size rows*cols elements, storage one row — the bucket
        # accounts for what is communicated, the logical size
        v = v[0:1].clone().expand(*shape)
    return v


_EXPAND = [False]


def run_case(ctx, case, seed):
    from kfac.distributed import TorchDistributedCommunicator
    world, groups, ops = case['world'], case['groups'], case['ops']

    def prog(rank):
        import torch.distributed as dist
        handles = [None]
        for g in groups[1:]:
            handles.append(dist.new_group(list(g)))
        tdc = TorchDistributedCommunicator(bucket_cap_mb=case['cap'] / 1e6)
        w = simdist._tls.world
        per_op, futs = [], {}
        for op in rank_ops(case, rank):
            before = len(w.trace[rank])
            if op[0] == 'fl':
                tdc.flush_allreduce_buckets()
                ret = 'same'
            else:
                _, gi, tid, shape, dt, sym, avg = op
                if rank not in groups[gi]:
                    per_op.append(None)
                    continue
                t = payload(tid, rank, shape, dt, sym, 1 if case.get('raw') else len(groups[gi]))
                r = tdc.allreduce_bucketed(t, average=avg, group=handles[gi], symmetric=sym)
                if isinstance(r, torch.Tensor):
                    ret = 'same'
                    futs[tid] = r
                else:
                    ret = 'future'
                    futs[tid] = r
            evs = [e for e in w.trace[rank][before:] if e[0] == 'issue']
            per_op.append((ret, [(tuple(e[1]), e[3][0]) for e in evs]))
        vals = {}
        for tid, f in futs.items():
            v = f if isinstance(f, torch.Tensor) else f.wait()
            vals[tid] = v
        pend = sum(1 for b in tdc._allreduce_buckets.values() if b is not None)
        return per_op, vals, tdc.bucket_cap_bytes, pend

    wd, res = simdist.run_world(world, prog, seed=seed, stickiness=ctx.rng.choice([0.0, 0.5, 0.9]))
    return wd, res


def check_case(ctx, case, seed, lines, pend):
    world, groups, ops = case['world'], case['groups'], case['ops']
    jcase = {'world': world, 'groups': [list(g) for g in groups], 'cap': case['cap'],
             'ops': [list(o) for o in ops], 'schedule_seed': seed, 'raw': bool(case.get('raw')), 'rankorder': case.get('rankorder', 0)}
    _EXPAND[0] = bool(case.get('expand'))
    jcase['expand'] = _EXPAND[0]
    wd, res = run_case(ctx, case, seed)
    if wd.stalled or wd.exceptions or wd.errors:
        ctx.fail(f'run failed: stalled={wd.stalled} exceptions={dict(list(wd.exceptions.items())[:2])} '
                 f'errors={wd.errors[:2]}', jcase, 'run-failed')
        return
    capb = res[0][2]
    big_bucket = False
    for rank in range(world):
        per_op, vals, _, npend = res[rank]
        if npend:
            ctx.fail('a bucket is still open after the final flush', jcase, 'pending-after-flush')
        # oracle on values: the unbucketed result in exact arithmetic
        for op in ops:
            if op[0] != 'rb' or rank not in groups[op[1]]:
                continue
            _, gi, tid, shape, dt, sym, avg = op
            g = groups[gi]
            got = vals[tid]
            if len(g) == 1:
                want = payload(tid, rank, shape, dt, sym, 1)
            else:
                raw = bool(case.get('raw'))
                tot = sum(payload(tid, r, shape, dt, sym, 1 if raw else len(g)).to(torch.float64) for r in g)
                exp_dt = DT[dt]
                if avg and dt in (3, 4):
                    # the per-tensor all-reduce averages an integer tensor as (1/n) * t: a float tensor of the default dtype
                    want = (1 / len(g)) * tot.to(DT[dt])
                    exp_dt = want.dtype
                elif raw and avg:
                    want = (1 / len(g)) * tot.to(DT[dt])    # TorchDistributedCommunicator.allreduce's own rounding
                else:
                    want = (tot / len(g)) if avg else tot
            if len(g) == 1:
                exp_dt = DT[dt]
            if tuple(got.shape) != tuple(shape) or got.dtype != exp_dt:
                ctx.fail(f'tensor {tid}: shape/dtype {tuple(got.shape)}/{got.dtype} instead of {shape}/{exp_dt}',
                         jcase, 'shape-dtype')
            elif not torch.equal(got.to(torch.float64), want.to(exp_dt).to(torch.float64)):
                ctx.fail(f'tensor {tid} on rank {rank}: value differs from the unbucketed allreduce over {g}',
                         jcase, 'value')
        # capacity clause, from the observed events only: whenever this rank issues the all-reduce of a bucket that holds
        # two or more of its tensors, their bytes fit the capacity (the implementation decides WHEN; the sizes are ours)
        open_b = {}
        for op, po in zip(rank_ops(case, rank), per_op):
            if op[0] == 'fl':
                open_b = {}
                continue
            if po is None:
                continue
            _, gi, tid, shape, dt, sym, avg = op
            if len(groups[gi]) == 1:
                continue
            nel = 1
            for d_ in shape:
                nel *= d_
            if sym and len(shape) == 2:
                nel = shape[0] * (shape[0] + 1) // 2
            issued_here = [e for e in po[1] if tuple(e[0]) == tuple(groups[gi])]
            if issued_here:
                cur = open_b.get(gi, [])
                if len(cur) >= 2 and sum(cur) > capb:
                    ctx.fail(f'rank {rank}: a bucket of {len(cur)} tensors with {sum(cur)} bytes was all-reduced although the '
                             f'capacity is {capb} bytes', jcase, 'capacity')
                open_b[gi] = [nel * ES[dt]]
            else:
                open_b.setdefault(gi, []).append(nel * ES[dt])
                if len(open_b[gi]) >= 2 and sum(open_b[gi]) > capb:
                    ctx.fail(f'rank {rank}: the open bucket of group {groups[gi]} holds {len(open_b[gi])} tensors with '
                             f'{sum(open_b[gi])} bytes, the capacity is {capb} bytes', jcase, 'capacity')
        # model line for this rank
        mops, impl = [], []
        for op, po in zip(rank_ops(case, rank), per_op):
            if op[0] == 'fl':
                mops.append('fl')
            elif po is None:
                continue
            else:
                _, gi, tid, shape, dt, sym, avg = op
                mops.append(f'rb:g={",".join(map(str, groups[gi]))}:tid={tid}:shape={",".join(map(str, shape))}'
                            f':es={ES[dt]}:dt={dt}:sym={int(sym)}')
            ret, evs = po
            impl.append((ret, evs))
        lines.append(f'comm cap={capb} ops=' + '|'.join(mops))
        pend.append((dict(jcase, rank=rank), impl))
    ntens = sum(1 for o in ops if o[0] == 'rb')
    ctx.case((world, tuple(groups), case['cap'], tuple(ops)), nontrivial=ntens >= 3,
             sample=jcase if len(ops) <= 6 else None)
    ctx.count(f'world{world}')
    ctx.count(f'groups{len(groups)}')
    ctx.count('cap-small' if case['cap'] < 64 else ('cap-huge' if case['cap'] > 10**6 else 'cap-mid'))


def compare_events(ctx, pend, outs):
    for (case, impl), mo in zip(pend, outs):
        if mo is None:
            continue
        parts = mo.split(' ')
        mres = parts[:-1]
        pending = parts[-1]
        # model: "ret/ar:g:tids:elems,ar:..." per op ; impl: (ret, [(group, numel)])
        m_norm = []
        for p in mres:
            ret, evs = p.split('/')
            el = []
            for e in (evs.split(',ar:') if evs else []):
                e = e[3:] if e.startswith('ar:') else e
                g, tids, elems = e.split(':')
                el.append((tuple(int(x) for x in g.split(',')), int(elems)))
            m_norm.append((ret, el))
        i_norm = [(r, [(tuple(g), n) for g, n in evs]) for r, evs in impl]
        ok = m_norm == i_norm and pending == 'pending='
        ctx.compare('comm-events', case, 'match' if ok else f'model={m_norm} pending={pending}',
                    'match' if ok else f'impl={i_norm}')


def run(ctx):
    rng = ctx.rng
    lines, pend = [], []
    corpus = [
        # D4 witness: distinct groups of equal size sharing a rank through one communicator
        {'world': 3, 'groups': [(0, 1, 2), (0, 1), (0, 2), (1, 2)], 'cap': 10**9,
         'ops': [('rb', 1, 0, (2,), 0, False, False), ('rb', 2, 1, (2,), 0, False, False),
                 ('rb', 3, 2, (2,), 0, False, True), ('fl',)]},
        # F4 witness: mixed dtypes in what used to be one bucket
        {'world': 2, 'groups': [(0, 1)], 'cap': 10**9,
         'ops': [('rb', 0, 0, (3,), 2, False, False), ('rb', 0, 1, (3,), 0, False, True),
                 ('rb', 0, 2, (2, 2), 1, True, True), ('fl',)]},
        # three pairwise groups forming a cycle over three ranks, each rank using its two groups in its own order: the
        # all-reduces of one flush are all launched before any of them is waited for
        *[{'world': 3, 'groups': [(0, 1, 2), (0, 1), (1, 2), (0, 2)], 'cap': 10**9, 'rankorder': 101 + j,
           'ops': [('rb', 1, 0, (2,), 0, False, False), ('rb', 2, 1, (3,), 0, False, True), ('rb', 3, 2, (2, 2), 0, True, False),
                   ('rb', 1, 3, (1,), 0, False, False), ('fl',), ('rb', 3, 4, (2,), 0, False, False), ('rb', 2, 5, (2,), 0, False, False),
                   ('rb', 1, 6, (2,), 0, False, True), ('fl',)]} for j in range(12)],
        # broadcast views (storage of one row, logical size rows x cols) arriving at a partly filled bucket: the capacity rule
        # counts the logical bytes that will be communicated
        {'world': 2, 'groups': [(0, 1)], 'cap': 100, 'expand': True,
         'ops': [('rb', 0, 0, (17,), 0, False, False), ('rb', 0, 1, (6, 6), 0, False, False), ('fl',),
                 ('rb', 0, 2, (3,), 0, False, True), ('rb', 0, 3, (6, 6), 0, False, True), ('rb', 0, 4, (2, 3), 0, False, False), ('fl',)]},
        {'world': 3, 'groups': [(0, 1, 2)], 'cap': 256, 'expand': True,
         'ops': [('rb', 0, 0, (17,), 0, False, False), ('rb', 0, 1, (6, 6), 0, False, True), ('rb', 0, 2, (6, 6), 0, False, False), ('fl',)]},
        # zero-element tensors alone in a bucket
        {'world': 2, 'groups': [(0, 1)], 'cap': 16,
         'ops': [('rb', 0, 0, (0, 3), 0, False, False), ('rb', 0, 1, (17,), 0, False, False),
                 ('rb', 0, 2, (0,), 0, False, True), ('fl',)]},
    ]
    n = ctx.budget(160, 2000)
    for i in range(n):
        case = corpus[i] if i < len(corpus) else gen_case(rng, ctx.thorough())
        check_case(ctx, case, seed=ctx.seed * 100003 + i, lines=lines, pend=pend)
        if i < len(corpus):
            ctx.count('corpus')
    compare_events(ctx, pend, ctx.model.ask(lines))
    value_stream(ctx)
    half_equiv_stream(ctx)


def value_stream(ctx):
    """values through the real bucketed path vs the Lean value model KV.CommV (split / flatten / elementwise sum /
    unflatten): one group, plain (non-symmetric, non-averaged) requests with integer payloads of mixed dtypes and sizes
    incl. empty and over-capacity tensors, every member's result for every tensor compared exactly"""
    from kfac.distributed import TorchDistributedCommunicator
    rng = ctx.rng
    lines, pend = [], []
    for trial in range(ctx.budget(25, 250)):
        world = rng.choice([2, 3, 4, 5])
        members = sorted(rng.sample(range(world), rng.randrange(2, world + 1)))
        cap = rng.choice([4, 8, 16, 24, 40, 64, 100, 10**6])
        nt = rng.randrange(1, 9)
        if trial < 4:
            cap, nt = 10**6, rng.randrange(3, 9)       # directed: one bucket for everything, repeated tensor objects
        one = rng.choice([0, 0, 1, 2]) if rng.random() < 0.7 else None      # one dtype for all requests (model + oracle) or mixed (oracle)
        reqs = [(one if one is not None else rng.choice([0, 0, 0, 2]), rng.choice([0, 1, 1, 2, 3, 5, 9])) for _ in range(nt)]   # (dtype tag, numel)
        # the SAME tensor object submitted again (e.g. sum and mean of one tensor, a tied factor): a request of its own.
        # Only with a capacity that keeps both requests in one bucket: a tensor alone in its bucket is reduced in place
        # (flattening a single tensor is a view), exactly as the per-tensor all-reduce does, so what a second submission
        # of the same object contributes would depend on timing in both.
        src = list(range(nt))
        for tid in range(1, nt):
            if cap == 10**6 and (rng.random() < 0.35 or (trial < 4 and tid == 1)):
                reqs[tid] = reqs[tid - 1]
                src[tid] = src[tid - 1]

        def data(rank, tid, n, src=src):
            tid = src[tid]
            return [(tid + 1) * 10 + (rank + 1) * 3 + e for e in range(n)]      # sums stay below 2048: exact in float16

        def prog(rank, members=members, cap=cap, reqs=reqs, src=src):
            import torch.distributed as dist
            g = dist.new_group(members)
            if rank not in members:
                return None
            tdc = TorchDistributedCommunicator(bucket_cap_mb=(cap + 0.5) / 1e6)
            futs = []
            made = {}
            for tid, (dt, n) in enumerate(reqs):
                if src[tid] not in made:
                    made[src[tid]] = torch.tensor(data(rank, tid, n), dtype=torch.float64).to(DT[dt]).reshape(n)
                futs.append(tdc.allreduce_bucketed(made[src[tid]], group=g))
            tdc.flush_allreduce_buckets()
            return [[int(v) for v in (f.wait() if not isinstance(f, torch.Tensor) else f).to(torch.float64).tolist()] for f in futs]

        wd, res = simdist.run_world(world, prog, seed=ctx.seed * 523 + trial, stickiness=rng.choice([0.0, 0.5, 0.9]))
        case = {'world': world, 'group': members, 'cap_bytes': cap, 'requests(dtype,numel)': reqs, 'same_tensor_as': src, 'schedule_seed': ctx.seed * 523 + trial}
        if wd.exceptions or wd.stalled or wd.errors:
            ctx.fail(f'run failed: exc={wd.exceptions} stalled={wd.stalled} errors={wd.errors[:2]}', case, 'value-run')
            continue
        # the model takes ONE element size: requests of the 2-byte dtype count as half an element of the 4-byte one, so
        # use cases in which all requests share the element size of their dtype tag (0: 4 bytes, 2: 2 bytes → scale)
        if len({DT[dt] for dt, _ in reqs}) > 1:
            ctx.count('value-mixed-dtypes(oracle only)')
            mline = None
        else:
            es = torch.tensor([], dtype=DT[reqs[0][0]]).element_size()
            mline = f'commv cap={cap} es={es} members=' + '|'.join(
                ';'.join(f'{tid}:{dt}:' + (','.join(map(str, data(r, tid, n))) if n else '-') for tid, (dt, n) in enumerate(reqs))
                for r in members)
        for mi, r in enumerate(members):
            want = [[sum(data(q, tid, n)[e] for q in members) for e in range(n)] for tid, (dt, n) in enumerate(reqs)]
            if res[r] != want:
                ctx.fail(f'rank {r}: bucketed all-reduce results differ from the per-tensor sums over {members}', case, 'value-oracle')
                break
            if mline is not None:
                lines.append(mline + f' m={mi}')
                pend.append((dict(case, rank=r), ';'.join(f'{tid}=' + (','.join(map(str, v)) if v else '-') for tid, v in enumerate(res[r]))))
        ctx.evaluations += 1
        ctx.case(('value', world, tuple(members), cap, tuple(reqs)), nontrivial=nt >= 3)
        ctx.count('value-stream')
    for (case, il), mo in zip(pend, ctx.model.ask(lines)):
        ctx.compare('bucket-values', case, mo, il)


def half_equiv_stream(ctx):
    """half-precision tensors with ordinary random values on 3–5 ranks: sums over the group are NOT exactly representable, so
    the result depends on the precision the reduction runs in — the bucketed path (fused buffer) and the per-tensor path
    give bit-identical results, element by element"""
    from kfac.distributed import TorchDistributedCommunicator
    rng = ctx.rng
    for trial in range(ctx.budget(12, 100)):
        world = rng.choice([3, 4, 5])
        dtype = rng.choice([torch.float16, torch.bfloat16])
        nt = rng.randrange(1, 5)
        sizes = [rng.choice([3, 8, 17, 33]) for _ in range(nt)]
        cap = rng.choice([1, 10**6])           # every tensor alone in its bucket / all fused
        avg = rng.random() < 0.5
        seed = rng.randrange(10**6)
        case = {'stream': 'half-equivalence', 'world': world, 'dtype': str(dtype), 'sizes': sizes, 'cap_bytes': cap, 'average': avg, 'seed': seed}

        def prog(rank, dtype=dtype, sizes=sizes, cap=cap, avg=avg, seed=seed):
            tdc = TorchDistributedCommunicator(bucket_cap_mb=(cap + 0.5) / 1e6)
            g = torch.Generator().manual_seed(seed * 31 + rank)
            ts = [(torch.randn(n, generator=g) * 3).to(dtype) for n in sizes]
            fb = [tdc.allreduce_bucketed(t.clone(), average=avg) for t in ts]
            tdc.flush_allreduce_buckets()
            rb = [f.wait() if not isinstance(f, torch.Tensor) else f for f in fb]
            rp = []
            for t in ts:
                f = tdc.allreduce(t.clone(), average=avg)
                rp.append(f.wait() if not isinstance(f, torch.Tensor) else f)
            return rb, rp
        wd, res = simdist.run_world(world, prog, seed=ctx.seed * 811 + trial, stickiness=rng.choice([0.0, 0.5, 0.9]))
        if wd.exceptions or wd.stalled or wd.errors:
            ctx.fail(f'run failed: exc={wd.exceptions} stalled={wd.stalled} errors={wd.errors[:2]}', case, 'half-run')
            continue
        for rank in range(world):
            rb, rp = res[rank]
            bad = [i for i, (a, b) in enumerate(zip(rb, rp)) if a.dtype != b.dtype or a.shape != b.shape or not torch.equal(a, b)]
            if bad:
                i = bad[0]
                ctx.fail(f'rank {rank}: the bucketed all-reduce of {dtype} tensor {i} differs from the per-tensor all-reduce '
                         f'(max abs difference {(rb[i].float() - rp[i].float()).abs().max().item():.3g}, dtypes {rb[i].dtype}/{rp[i].dtype})', case, 'half-equivalence')
                break
        ctx.evaluations += 1
        ctx.case(('half-equiv', world, str(dtype), tuple(sizes), cap, avg, seed), nontrivial=True)
        ctx.count('half-equivalence')


def search(ctx):
    """More schedules and more cases with the value oracle only."""
    rng = ctx.rng
    lines, pend = [], []
    for i in range(1500):
        check_case(ctx, gen_case(rng, True), seed=777 + i, lines=lines, pend=pend)
        if ctx.failures:
            return


def replay(ctx, payload):
    c = payload.get('case', {})
    if 'ops' in c:
        case = {'world': c['world'], 'groups': [tuple(g) for g in c['groups']], 'cap': c['cap'], 'raw': c.get('raw', False),
                'rankorder': c.get('rankorder', 0),
                'ops': [tuple(tuple(x) if isinstance(x, list) else x for x in o) for o in c['ops']]}
        check_case(ctx, case, c.get('schedule_seed', 0), [], [])
    for f in ctx.failures[:5]:
        print('replay:', f['what'])
    return bool(ctx.failures)
