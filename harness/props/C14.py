"""C14 — triangular packing of symmetric matrices is lossless."""
from __future__ import annotations

import torch

import simdist

RULE = ('every n in 1..N with position-revealing symmetric integer matrices in float16/32/64, '
        'contiguous / transposed / strided-window inputs through the real get_triu/fill_triu and the '
        'symmetric allreduce/broadcast paths under simdist; malformed (non-square, non-2-D) shapes through '
        'the three communicator entry points; non-trivial = n ≥ 2; distinct = (n, dtype, layout) or shape'
        '; bit-exact round trips of extreme entries (max/min normal, subnormal, ±0, ±inf) in four dtypes; n = 1023…2049 (3000 thorough) and 5793 (packed length just above 2^24); several symmetric tensors in flight through the bucketed path at capacities around one packed tensor; sub-groups whose group-local ranks differ from the global ones; ranks handing in differently laid-out (row-major, column-major, strided) tensors to one symmetric collective; round trips interleaved with get_triu on wide matrices in one process; torch.use_deterministic_algorithms(True)')
TRUSTED = [
    'Lean 4.33 kernel; axioms audited ⊆ {propext, Classical.choice, Quot.sound}',
    'hand-written model KV.Comm.getTriu/fillTriu/checkShape tied to kfac/distributed.py by this correspondence',
    'torch.triu_indices / advanced indexing have row-major upper-triangle semantics (exercised, not proved)',
    'simdist (in-process torch.distributed simulator) for the communicator paths',
]
ASSUMPTIONS = ['float payloads are exactly representable integers, so equality is exact']
PARTIAL = []


def sym_matrix(n, dtype, bound):
    i = torch.arange(n).view(-1, 1)
    j = torch.arange(n).view(1, -1)
    m = (torch.minimum(i, j) * n + torch.maximum(i, j)) % bound
    return m.to(dtype)


def layouts(A):
    n = A.shape[0]
    yield 'contig', A.contiguous()
    yield 'transposed', A.t()  # same values (symmetric) but column-major strides
    big = torch.zeros(n + 3, 2 * n + 1, dtype=A.dtype)
    big[1:n + 1, 2:2 * n + 2:2] = A
    yield 'window', big[1:n + 1, 2:2 * n + 2:2]


def ints(t):
    return [int(x) if x == x and abs(x) != float('inf') else x for x in t.reshape(-1).tolist()]


def mat_str(t):
    # (non-finite entries — only a broken implementation produces them from integer payloads — are rendered as such, so that
    # the comparison with the model fails instead of the harness)
    return ';'.join(','.join(str(int(x)) if x == x and abs(x) != float('inf') else repr(x) for x in row) for row in t.tolist())


def run(ctx):
    from kfac.distributed import fill_triu, get_triu
    rng = ctx.rng
    lines, pend = [], []
    nmax = ctx.budget(64, 160)
    for n in range(1, nmax + 1):
        for dtype, bound in ((torch.float64, 2**40), (torch.float32, 2**24), (torch.float16, 2048)):
            if dtype != torch.float64 and n > 40 and n % 7:
                continue
            A = sym_matrix(n, dtype, bound)
            for lname, B in layouts(A):
                case = {'n': n, 'dtype': str(dtype), 'layout': lname}
                try:
                    v = get_triu(B)
                    M = fill_triu(B.shape, v)
                except Exception as e:  # noqa: BLE001
                    ctx.fail(f'get_triu/fill_triu raised {type(e).__name__}: {e}', case, 'raised')
                    continue
                # oracle: the statement itself
                if v.numel() != n * (n + 1) // 2:
                    ctx.fail(f'packed length {v.numel()} != n(n+1)/2', case, 'length')
                if not torch.equal(M, A) or M.dtype != A.dtype:
                    ctx.fail('fill_triu(get_triu(A)) != A for symmetric A', case, 'roundtrip')
                lines.append(f'triu n={n} mat={mat_str(A)}')
                pend.append((case, f'get={",".join(map(str, ints(v)))} fill={mat_str(M)} sym=1'))
                ctx.case((n, str(dtype), lname), nontrivial=n >= 2,
                         sample=case if n in (3, 17) and lname != 'contig' else None)
                ctx.count(lname)
    ctx.exhaustive = True
    ctx.notes.append(f'n = 1..{nmax} enumerated completely for float64 (float32/16 on a sub-grid above 40)')
    # arbitrary packed vectors: fill then get is the identity, result symmetric
    for _ in range(ctx.budget(150, 1500)):
        n = rng.randrange(1, 24)
        v = torch.tensor([rng.randrange(-999, 999) for _ in range(n * (n + 1) // 2)], dtype=torch.float64)
        M = fill_triu((n, n), v)
        case = {'n': n, 'v': ints(v)}
        if not torch.equal(M, M.t()):
            ctx.fail('fill_triu result not symmetric', case, 'fill-sym')
        if not torch.equal(get_triu(M), v):
            ctx.fail('get_triu(fill_triu(v)) != v', case, 'get-fill')
        lines.append(f'fill n={n} v={",".join(map(str, ints(v)))}')
        pend.append((case, f'fill={mat_str(M)} get={",".join(map(str, ints(get_triu(M))))}'))
        ctx.case(('fill', n, tuple(ints(v))[:6]), nontrivial=n >= 2)
        ctx.count('fill-random')
    for (case, il), mo in zip(pend, ctx.model.ask(lines)):
        ctx.compare('triu', case, mo, il)
    extreme_stream(ctx)
    large_stream(ctx)
    comm_stream(ctx)
    pipeline_stream(ctx)
    layout_stream(ctx)
    history_stream(ctx)
    subgroup_stream(ctx)
    reject_stream(ctx)


def extreme_stream(ctx):
    """'exactly' means bit for bit for EVERY representable entry: largest/smallest finite magnitudes, subnormals,
    signed zeros, infinities — packing and unpacking only move entries, they never compute with them"""
    from kfac.distributed import fill_triu, get_triu
    rng = ctx.rng
    for _ in range(ctx.budget(120, 1200)):
        dtype = rng.choice([torch.float16, torch.bfloat16, torch.float32, torch.float64])
        fi = torch.finfo(dtype)
        pool = [fi.max, -fi.max, fi.max * 0.75, -fi.max * 0.625, fi.tiny, -fi.tiny, fi.tiny / 4, fi.eps, 0.0, -0.0,
                1.0, -3.0, float('inf'), float('-inf')]
        n = rng.randrange(1, 9)
        v = torch.tensor([rng.choice(pool) for _ in range(n * (n + 1) // 2)], dtype=torch.float64).to(dtype)
        case = {'n': n, 'dtype': str(dtype), 'packed': [float(x) for x in v.tolist()]}
        try:
            M = fill_triu((n, n), v)
            back = get_triu(M)
            M2 = fill_triu((n, n), get_triu(M))
        except Exception as e:  # noqa: BLE001
            ctx.fail(f'get_triu/fill_triu raised {type(e).__name__}: {e}', case, 'raised')
            continue
        bits = {torch.float16: torch.int16, torch.bfloat16: torch.int16, torch.float32: torch.int32, torch.float64: torch.int64}[dtype]
        iu = torch.triu_indices(n, n)
        ok = (M.dtype == dtype and torch.equal(back.view(bits), v.view(bits)) and torch.equal(M2.view(bits), M.view(bits))
              and torch.equal(M[iu[0], iu[1]].view(bits), v.view(bits)) and torch.equal(M.t().contiguous().view(bits), M.contiguous().view(bits)))
        if not ok:
            ctx.fail('pack/unpack of extreme finite (or infinite / signed-zero) entries is not bit-exact', case, 'roundtrip-extreme')
        ctx.evaluations += 1
        ctx.case(('extreme', n, str(dtype), tuple(case['packed'][:5])), nontrivial=n >= 2)
        ctx.count('extreme-' + str(dtype).split('.')[-1])


def large_stream(ctx):
    """'every size n': sizes beyond any internal blocking of the index computation (oracle only: the statement itself)"""
    from kfac.distributed import fill_triu, get_triu
    rng = ctx.rng
    sizes = [1023, 1024, 1025, rng.randrange(1026, 1600)] + ([2047, 2049, 3000] if ctx.thorough() else [rng.choice([2047, 2049])])
    # n(n+1)/2 first exceeds 2^24 (the integers a float32 index computation can hold exactly) at n = 5793
    sizes += [5792, 5793, 6000] if ctx.thorough() else [5793]
    for n in sizes:
        dtype = rng.choice([torch.float32, torch.float64])
        i = torch.arange(n).view(-1, 1)
        j = torch.arange(n).view(1, -1)
        if n > 4000:
            dtype = torch.float32
        A = ((torch.minimum(i, j) * 31 + torch.maximum(i, j) * 7) % 8191).to(dtype)     # symmetric, position revealing
        case = {'n': n, 'dtype': str(dtype), 'stream': 'large'}
        try:
            v = get_triu(A)
            M = fill_triu(A.shape, v)
        except Exception as e:  # noqa: BLE001
            ctx.fail(f'get_triu/fill_triu raised {type(e).__name__}: {e}', case, 'raised')
            continue
        if v.numel() != n * (n + 1) // 2 or M.dtype != dtype or not torch.equal(M, A):
            bad = (M != A).nonzero()
            ctx.fail(f'fill_triu(get_triu(A)) != A for symmetric A of size {n} (first differing entry {bad[0].tolist() if len(bad) else None})',
                     case, 'roundtrip-large')
        ctx.evaluations += 1
        ctx.case(('large', n, str(dtype)), nontrivial=True)
        ctx.count('large-n')


def subgroup_stream(ctx):
    """symmetric broadcast / allreduce inside process groups whose members' group-local ranks differ from their global
    ranks (e.g. group [2, 3] with source 3): the symmetric result equals the dense one on every member"""
    from kfac.distributed import TorchDistributedCommunicator
    rng = ctx.rng
    for trial in range(ctx.budget(20, 200)):
        world = rng.choice([3, 4, 4, 5, 6])
        gsize = rng.randrange(2, world + 1)
        members = sorted(rng.sample(range(world), gsize))
        src = rng.choice(members)
        n = rng.choice([1, 2, 3, 5])
        dtype = rng.choice([torch.float32, torch.float64])
        entry = rng.choice(['broadcast', 'broadcast', 'allreduce', 'allreduce_bucketed'])
        avg = entry != 'broadcast' and rng.random() < 0.5
        if trial % 3 == 0:
            # directed: averaged symmetric all-reduce over a group whose size is not a power of two, enough entries for
            # the rounding of (1/n) * sum to matter
            world = rng.choice([3, 5, 6])
            members = sorted(rng.sample(range(world), rng.choice([3, world])))
            src, n, avg = members[0], rng.choice([7, 9, 12]), True
            entry = rng.choice(['allreduce', 'allreduce_bucketed'])
        case = {'world': world, 'group': members, 'src': src, 'n': n, 'dtype': str(dtype), 'entry': entry, 'average': avg}

        def prog(rank, members=members, src=src, n=n, dtype=dtype, entry=entry, avg=avg):
            import torch.distributed as dist
            g = dist.new_group(members)
            if rank not in members:
                return None
            tdc = TorchDistributedCommunicator(bucket_cap_mb=25.0)
            out = {}
            for symflag in (True, False):
                t = sym_matrix(n, dtype, 2**20) * (rank + 1) + 3      # (NOT a multiple of the group size: the average rounds)
                if entry == 'broadcast':
                    f = tdc.broadcast(t, src=src, group=g, symmetric=symflag)
                elif entry == 'allreduce':
                    f = tdc.allreduce(t, group=g, symmetric=symflag, average=avg)
                else:
                    f = tdc.allreduce_bucketed(t, group=g, symmetric=symflag, average=avg)
                    tdc.flush_allreduce_buckets()
                out[symflag] = f.wait() if not isinstance(f, torch.Tensor) else f
            return out

        wd, res = simdist.run_world(world, prog, seed=ctx.seed * 331 + trial)
        if wd.exceptions or wd.stalled or wd.errors:
            ctx.fail(f'run failed: exc={wd.exceptions} stalled={wd.stalled} errors={wd.errors[:2]}', case, 'subgroup-run')
            continue
        for r in members:
            want = sym_matrix(n, dtype, 2**20) * (src + 1) + 3 if entry == 'broadcast' else \
                sum(sym_matrix(n, dtype, 2**20) * (m + 1) + 3 for m in members)
            if avg:
                want = (1 / len(members)) * want          # the dense path's own rounding: (1/n) * (exact sum)
            o = res[r]
            if not torch.equal(o[True], o[False]) or not torch.equal(o[False], want):
                ctx.fail(f'rank {r} of group {members}: symmetric {entry} (source {src}) differs from the dense one / the expected tensor',
                         dict(case, schedule_seed=ctx.seed * 331 + trial), 'subgroup-value')
                break
        ctx.evaluations += 1
        ctx.case(('subgroup', world, tuple(members), src, n, entry, avg), nontrivial=members.index(src) != src)
        ctx.count('subgroup-' + ('local!=global' if members.index(src) != src else 'local==global'))


def reject_stream(ctx):
    """a malformed symmetric tensor is rejected before ANYTHING is communicated — also when a bucket of the same group
    already holds pending tensors that its arrival would otherwise flush (capacity overflow or dtype switch)"""
    from kfac.distributed import NonSquareTensorError, TorchDistributedCommunicator
    rng = ctx.rng
    for trial in range(ctx.budget(12, 80)):
        world = rng.choice([2, 3])
        bad = rng.choice([(20, 30), (8, 8, 8), (2, 3), (4,), (3, 1)])
        bad_dt = rng.choice([torch.float32, torch.float64])
        cap = rng.choice([64, 200, 10**6])
        case = {'world': world, 'bad_shape': list(bad), 'bad_dtype': str(bad_dt), 'cap_bytes': cap}

        def prog(rank, bad=bad, bad_dt=bad_dt, cap=cap):
            tdc = TorchDistributedCommunicator(bucket_cap_mb=(cap + 0.5) / 1e6)
            w = simdist._tls.world
            f1 = tdc.allreduce_bucketed(torch.full((2, 2), float(rank + 1)), symmetric=rng_sym)     # pending, float32
            before = len([e for e in w.trace[rank] if e[0] == 'issue'])
            try:
                tdc.allreduce_bucketed(torch.ones(bad, dtype=bad_dt), symmetric=True)
                out = 'accepted'
            except NonSquareTensorError:
                out = 'NonSquare'
            issued = len([e for e in w.trace[rank] if e[0] == 'issue']) - before
            tdc.flush_allreduce_buckets()
            v = f1.wait() if not isinstance(f1, torch.Tensor) else f1
            return out, issued, v

        rng_sym = rng.random() < 0.5
        wd, res = simdist.run_world(world, prog, seed=ctx.seed * 97 + trial)
        if wd.exceptions or wd.stalled or wd.errors:
            ctx.fail(f'run failed: exc={wd.exceptions} stalled={wd.stalled} errors={wd.errors[:2]}', case, 'reject-run')
            continue
        tot = float(sum(range(1, world + 1)))
        for r in range(world):
            out, issued, v = res[r]
            if out != 'NonSquare':
                ctx.fail(f'shape {bad} with symmetric=True was {out}', case, 'nonsquare-accepted')
            elif issued != 0:
                ctx.fail(f'{issued} collective(s) were started before the malformed tensor was rejected (a pending bucket was flushed)',
                         case, 'comm-before-reject')
            elif not torch.equal(v, torch.full((2, 2), tot)):
                ctx.fail('the pending tensor was not reduced correctly after the rejection', case, 'reject-value')
        ctx.evaluations += 1
        ctx.case(('reject', world, bad, str(bad_dt), cap), nontrivial=True)
        ctx.count('reject-after-pending')


def pipeline_stream(ctx):
    """several symmetric tensors of the same size in flight at once through the bucketed path (no wait in between,
    ranks progressing at different speeds, capacities for which a packed tensor sits alone in its bucket):
    every result equals the dense allreduce"""
    from kfac.distributed import TorchDistributedCommunicator
    rng = ctx.rng
    for trial in range(ctx.budget(30, 300)):
        world = rng.choice([2, 2, 3, 4])
        n = rng.choice([3, 5, 7])
        dtype = rng.choice([torch.float32, torch.float64])
        es = 4 if dtype == torch.float32 else 8
        packed = n * (n + 1) // 2 * es
        cap = rng.choice([packed, packed + es, 2 * packed - es, 2 * packed, 3 * packed + 1, packed // 2, 10**8])
        count = rng.randrange(2, 6)
        # tensors of one size, or of interleaved sizes (3, 5, 3, …) sharing a bucket
        ns = [n] * count if rng.random() < 0.5 else [rng.choice([3, 5, 2, 7]) for _ in range(count)]
        avg = rng.random() < 0.5
        case = {'world': world, 'n': n, 'dtype': str(dtype), 'cap_bytes': cap, 'tensors': count, 'average': avg, 'sizes': ns}

        def prog(rank, n=n, dtype=dtype, cap=cap, count=count, avg=avg, world=world, ns=ns):
            tdc = TorchDistributedCommunicator(bucket_cap_mb=(cap + 0.5) / 1e6)
            assert tdc.bucket_cap_bytes == cap, tdc.bucket_cap_bytes
            futs = []
            for i in range(count):
                t = (sym_matrix(ns[i], dtype, 97) + i * 100) * (rank + 1) * world
                futs.append(tdc.allreduce_bucketed(t, symmetric=True, average=avg))
            tdc.flush_allreduce_buckets()
            return [f.wait() if not isinstance(f, torch.Tensor) else f for f in futs]

        wd, res = simdist.run_world(world, prog, seed=ctx.seed * 7717 + trial, stickiness=rng.choice([0.0, 0.5, 0.9]))
        if wd.exceptions or wd.stalled or wd.errors:
            ctx.fail(f'run failed: exc={wd.exceptions} stalled={wd.stalled} errors={wd.errors[:2]}', case, 'pipeline-run')
            continue
        tot = sum((r + 1) * world for r in range(world))
        for i in range(count):
            want = (sym_matrix(ns[i], torch.float64, 97) + i * 100) * tot / (world if avg else 1)
            for rank in range(world):
                got = res[rank][i]
                if tuple(got.shape) != (ns[i], ns[i]) or got.dtype != dtype or not torch.equal(got.to(torch.float64), want):
                    ctx.fail(f'tensor {i} on rank {rank}: the symmetric bucketed allreduce differs from the dense result',
                             dict(case, schedule_seed=ctx.seed * 7717 + trial), 'pipeline-value')
                    break
        ctx.evaluations += 1
        ctx.case(('pipeline', world, n, str(dtype), cap, count, avg), nontrivial=True)
        ctx.count('pipeline-alone-in-bucket' if packed <= cap < 2 * packed else 'pipeline-other')


def layout_stream(ctx):
    """ranks hand in the same symmetric matrix in different memory layouts (row-major buffer on the receivers, column-major
    on the source — what torch.linalg.inv / eigh return —, a transposed view, a strided window): what travels is the
    triangle of the MATRIX, so the result is the dense result whatever the strides on any rank"""
    from kfac.distributed import TorchDistributedCommunicator
    rng = ctx.rng
    kinds = ['contig', 'colmajor', 'window']
    for trial in range(ctx.budget(40, 300)):
        world = rng.choice([2, 3, 3, 4])
        n = rng.choice([3, 4, 5, 7, 8])
        dtype = rng.choice([torch.float32, torch.float64, torch.float16, torch.bfloat16])
        bound = 97 if dtype in (torch.float32, torch.float64) else 20      # (sums stay exactly representable in the half types)
        entry = rng.choice(['broadcast', 'allreduce', 'allreduce_bucketed'])
        lay = [rng.choice(kinds) for _ in range(world)]
        if len(set(lay)) == 1:
            lay[rng.randrange(world)] = 'colmajor' if lay[0] != 'colmajor' else 'contig'
        src = rng.randrange(world)
        case = {'stream': 'layout', 'world': world, 'n': n, 'dtype': str(dtype), 'entry': entry, 'layouts': lay, 'src': src}

        def put(A, kind):
            if kind == 'contig':
                return A.contiguous()
            if kind == 'colmajor':
                return A.t().contiguous().t()
            big = torch.zeros(A.shape[0] + 2, 2 * A.shape[0] + 1, dtype=A.dtype)
            big[1:A.shape[0] + 1, 1:2 * A.shape[0] + 1:2] = A
            return big[1:A.shape[0] + 1, 1:2 * A.shape[0] + 1:2]

        def prog(rank, n=n, dtype=dtype, entry=entry, lay=lay, src=src, put=put, bound=bound):
            tdc = TorchDistributedCommunicator(bucket_cap_mb=25.0)
            A = sym_matrix(n, dtype, bound) * (rank + 1)
            if entry == 'broadcast':
                t = put(A if rank == src else torch.zeros_like(A), lay[rank])
                out = tdc.broadcast(t, src=src, symmetric=True)
            elif entry == 'allreduce':
                out = tdc.allreduce(put(A, lay[rank]), symmetric=True)
            else:
                out = tdc.allreduce_bucketed(put(A, lay[rank]), symmetric=True)
                tdc.flush_allreduce_buckets()
            return out.wait() if not isinstance(out, torch.Tensor) else out

        wd, res = simdist.run_world(world, prog, seed=ctx.seed * 6007 + trial, stickiness=rng.choice([0.0, 0.5, 0.9]))
        if wd.exceptions or wd.stalled or wd.errors:
            ctx.fail(f'run failed: exc={wd.exceptions} stalled={wd.stalled} errors={wd.errors[:2]}', case, 'layout-run')
            continue
        mult = (src + 1) if entry == 'broadcast' else sum(r + 1 for r in range(world))
        want = sym_matrix(n, torch.float64, bound) * mult
        for rank in range(world):
            got = res[rank]
            if tuple(got.shape) != (n, n) or got.dtype != dtype or not torch.equal(got.to(torch.float64), want):
                ctx.fail(f'{entry} of a symmetric matrix: rank {rank} ({lay[rank]} input) got a result different from the dense one',
                         dict(case, got=got.tolist(), want=want.tolist()), 'layout-value')
                break
        ctx.evaluations += 1
        ctx.case(('layout', world, n, str(dtype), entry, tuple(lay), src), nontrivial=True, sample=case if trial < 3 else None)
        ctx.count('layout-' + entry)


def history_stream(ctx):
    """packing is a function of its argument: round trips of square matrices interleaved with get_triu on wide matrices
    (fewer rows than columns, which the function accepts) of the same column count, in one process, in any order; and the same round
    trips and symmetric collectives with torch.use_deterministic_algorithms(True), which a reproducibility-minded training
    script sets globally"""
    from kfac.distributed import TorchDistributedCommunicator, fill_triu, get_triu
    rng = ctx.rng
    for trial in range(ctx.budget(30, 200)):
        n = rng.choice([2, 3, 5, 7, 8])
        dtype = rng.choice([torch.float32, torch.float64])
        case = {'stream': 'history', 'n': n, 'dtype': str(dtype), 'calls': []}
        try:
            for _ in range(rng.randrange(1, 5)):
                r, c = rng.choice([(rng.randrange(1, n), n), (rng.randrange(1, n), n), (n, n), (rng.randrange(1, n + 3), rng.randrange(1, n + 3))])
                if r > c:
                    r, c = c, r         # (more rows than columns is rejected by get_triu)
                case['calls'].append((r, c))
                M = torch.arange(r * c, dtype=dtype).reshape(r, c) + 1
                v = get_triu(M)
                want = torch.stack([M[i, j] for i in range(r) for j in range(c) if j >= i]) if any(j >= i for i in range(r) for j in range(c)) else M.new_zeros(0)
                if v.shape != want.shape or not torch.equal(v, want):
                    ctx.fail(f'get_triu of a {r}x{c} matrix is not its row-major upper triangle', case, 'history-triu')
                    break
            A = sym_matrix(n, dtype, 97)
            v = get_triu(A)
            B = fill_triu((n, n), v)
            if v.numel() != n * (n + 1) // 2 or not torch.equal(B, A):
                ctx.fail(f'round trip of a symmetric {n}x{n} matrix fails after the calls {case["calls"]}', case, 'history-roundtrip')
        except Exception as e:  # noqa: BLE001
            ctx.fail(f'packing raised {type(e).__name__}: {e}', case, 'history-raised')
        ctx.evaluations += 1
        ctx.case(('history', n, str(dtype), tuple(case['calls'])), nontrivial=True)
        ctx.count('history')
    # deterministic-algorithms mode
    was = torch.are_deterministic_algorithms_enabled()
    try:
        torch.use_deterministic_algorithms(True)
        for n in (1, 2, 3, 7, 16):
            for dtype in (torch.float32, torch.float64):
                case = {'stream': 'deterministic', 'n': n, 'dtype': str(dtype)}
                try:
                    A = sym_matrix(n, dtype, 97)
                    if not torch.equal(fill_triu((n, n), get_triu(A)), A):
                        ctx.fail('round trip differs with deterministic algorithms enabled', case, 'deterministic-roundtrip')
                except Exception as e:  # noqa: BLE001
                    ctx.fail(f'round trip raised {type(e).__name__} with torch.use_deterministic_algorithms(True): {str(e)[:160]}', case, 'deterministic-raised')
                ctx.evaluations += 1
        for entry in ('allreduce', 'broadcast', 'allreduce_bucketed'):
            n, world = 5, 2

            def prog(rank, entry=entry, n=n):
                tdc = TorchDistributedCommunicator(bucket_cap_mb=25.0)
                A = sym_matrix(n, torch.float64, 97) * (rank + 1)
                if entry == 'broadcast':
                    out = tdc.broadcast(A if rank == 0 else torch.zeros_like(A), src=0, symmetric=True)
                elif entry == 'allreduce':
                    out = tdc.allreduce(A, symmetric=True)
                else:
                    out = tdc.allreduce_bucketed(A, symmetric=True)
                    tdc.flush_allreduce_buckets()
                return out.wait() if not isinstance(out, torch.Tensor) else out
            wd, res = simdist.run_world(world, prog, seed=ctx.seed + 5)
            case = {'stream': 'deterministic', 'entry': entry}
            want = sym_matrix(n, torch.float64, 97) * (1 if entry == 'broadcast' else 3)
            if wd.exceptions or wd.stalled or wd.errors or any(r is None or not torch.equal(r, want) for r in res):
                ctx.fail(f'symmetric {entry} with deterministic algorithms enabled: exc={wd.exceptions} stalled={wd.stalled} '
                         f'errors={wd.errors[:1]} or a result different from the dense one', case, 'deterministic-comm')
            ctx.evaluations += 1
            ctx.count('deterministic-comm')
    finally:
        torch.use_deterministic_algorithms(was)


def comm_stream(ctx):
    """symmetric allreduce/broadcast/allreduce_bucketed == dense; malformed shapes rejected first."""
    from kfac.distributed import NonSquareTensorError, TorchDistributedCommunicator
    rng = ctx.rng
    lines, pend = [], []
    shapes_bad = [(2, 3), (3, 2), (4,), (2, 2, 2), (1, 5), (5, 1), (2, 4), (3, 5), (4, 100), (100, 4), (0, 3)]
    shapes_ok = [(1, 1), (2, 2), (3, 3), (7, 7)]
    for trial in range(ctx.budget(12, 60)):
        world = rng.choice([2, 3, 4])
        shapes = [rng.choice(shapes_bad) for _ in range(3)] + [rng.choice(shapes_ok) for _ in range(3)]
        rng.shuffle(shapes)
        entry = rng.choice(['allreduce', 'broadcast', 'allreduce_bucketed'])
        dtype = rng.choice([torch.float32, torch.float64])

        def prog(rank, shapes=shapes, entry=entry, dtype=dtype):
            tdc = TorchDistributedCommunicator(bucket_cap_mb=rng_cap)
            w = simdist._tls.world
            outs = []
            for sh in shapes:
                n = sh[0] if len(sh) else 1
                if len(sh) == 2 and sh[0] == sh[1]:
                    t = sym_matrix(sh[0], dtype, 2**20) * (rank + 1)
                else:
                    t = torch.ones(sh, dtype=dtype) * (rank + 1)
                before = len(w.trace[rank])
                res = {}
                for symflag in (True, False):
                    try:
                        if entry == 'broadcast':
                            f = tdc.broadcast(t.clone(), src=0, symmetric=symflag)
                        elif entry == 'allreduce':
                            f = tdc.allreduce(t.clone(), symmetric=symflag)
                        else:
                            f = tdc.allreduce_bucketed(t.clone(), symmetric=symflag)
                            tdc.flush_allreduce_buckets()
                        val = f.wait() if not isinstance(f, torch.Tensor) else f
                        res[symflag] = ('ok', val)
                    except NonSquareTensorError:
                        issued = [e for e in w.trace[rank][before:] if e[0].startswith('issue')]
                        res[symflag] = ('NonSquare', len(issued))
                    except Exception as e:  # noqa: BLE001
                        res[symflag] = ('other:' + type(e).__name__, str(e))
                    before = len(w.trace[rank])
                outs.append(res)
            return outs

        rng_cap = rng.choice([0.000001, 0.001, 25.0])
        wd, res = simdist.run_world(world, prog, seed=ctx.seed * 1000 + trial)
        case0 = {'world': world, 'entry': entry, 'shapes': shapes, 'dtype': str(dtype)}
        if wd.exceptions or wd.stalled or wd.errors:
            ctx.fail(f'run failed: exc={wd.exceptions} stalled={wd.stalled} errors={wd.errors[:2]}', case0, 'comm-run')
            continue
        for si, sh in enumerate(shapes):
            square = len(sh) == 2 and sh[0] == sh[1]
            case = dict(case0, shape=list(sh))
            for rank in range(world):
                r = res[rank][si]
                if square:
                    if r[True][0] != 'ok' or r[False][0] != 'ok':
                        ctx.fail(f'square tensor not communicated: {r[True][0]}', case, 'square-rejected')
                    elif not torch.equal(r[True][1], r[False][1]) or r[True][1].dtype != r[False][1].dtype:
                        ctx.fail('symmetric result differs from dense result', case, 'sym-neq-dense')
                else:
                    if r[True][0] != 'NonSquare':
                        ctx.fail(f'non-square shape {sh} with symmetric=True gave {r[True][0]}', case, 'nonsquare-accepted')
                    elif r[True][1] != 0:
                        ctx.fail('communication started before the shape was rejected', case, 'comm-before-reject')
            op = {'allreduce': 'r', 'broadcast': 'bc', 'allreduce_bucketed': 'rb'}[entry]
            g = ','.join(map(str, range(world)))
            extra = ':src=0' if op == 'bc' else (':es=4:dt=0' if op == 'rb' else '')
            lines.append(f'comm cap=100000000 ops={op}:g={g}:tid=0:shape={",".join(map(str, sh))}{extra}:sym=1')
            r0 = res[0][si][True]
            pend.append((case, 'NonSquare' if r0[0] == 'NonSquare' else ('future' if r0[0] == 'ok' else r0[0])))
            ctx.case(('comm', entry, tuple(sh), world), nontrivial=True,
                     sample=case if len(ctx.samples) < 6 else None)
            ctx.count('shape-square' if square else 'shape-bad')
    for (case, il), mo in zip(pend, ctx.model.ask(lines)):
        if mo is not None:
            mo = mo.split('/')[0]
        ctx.compare('comm-shape', case, mo, il)


def search(ctx):
    from kfac.distributed import fill_triu, get_triu
    for n in range(1, 200):
        A = sym_matrix(n, torch.float64, 2**40)
        for lname, B in layouts(A):
            try:
                if not torch.equal(fill_triu(B.shape, get_triu(B)), A):
                    ctx.fail('fill_triu(get_triu(A)) != A', {'n': n, 'layout': lname, 'dtype': 'torch.float64'}, 'roundtrip')
                    return
            except Exception as e:  # noqa: BLE001
                ctx.fail(f'raised {e}', {'n': n, 'layout': lname, 'dtype': 'torch.float64'}, 'raised')
                return


def replay(ctx, payload):
    from kfac.distributed import fill_triu, get_triu
    c = payload.get('case', {})
    if 'layout' in c:
        dt = {'torch.float64': torch.float64, 'torch.float32': torch.float32, 'torch.float16': torch.float16}[c['dtype']]
        A = sym_matrix(c['n'], dt, {torch.float64: 2**40, torch.float32: 2**24, torch.float16: 2048}[dt])
        B = dict(layouts(A))[c['layout']]
        try:
            if not torch.equal(fill_triu(B.shape, get_triu(B)), A):
                ctx.fail('roundtrip', c, 'roundtrip')
        except Exception as e:  # noqa: BLE001
            ctx.fail(f'raised {e}', c, 'raised')
    else:
        comm_stream(ctx)
    for f in ctx.failures:
        print('replay:', f['what'])
    return bool(ctx.failures)
