"""C09 — checkpoints round-trip and resuming is equivalent to never stopping."""
from __future__ import annotations

import copy
from fractions import Fraction

import kfacsim

RULE = ('histories with a state_dict → freshly constructed preconditioner → load_state_dict round trip inserted at '
        'PRNG-chosen step boundaries, on 1–6 ranks under every strategy, both methods, all interval settings, with '
        'and without factors in the state, compute_inverses on/off (loads whose documented precondition fails are '
        'replaced by full loads); state before/after compared exactly on every rank; gradients after the load compared '
        'with the model\'s value terms and with the reference state machine that implements the statement\'s two cases; '
        'malformed stream: states with a wrong number of layers; non-trivial = ≥1 step before and ≥1 step after a load'
        '; states kept in memory and rolled back to; checkpoints after a forward-only training pass (one factor only); nested names, float32 inverses/factors')
TRUSTED = [
    'Lean 4.33 kernel; axioms audited ⊆ {propext, Classical.choice, Quot.sound}',
    'hand-written model KV.Precond (saveState/saveLoad) tied to state_dict/load_state_dict by this correspondence',
    'value terms evaluated numerically by the harness; tolerance 2e-3 relative on gradients, exact on restored state',
]
ASSUMPTIONS = ['callable hyper-parameters are not part of the state (as documented); the fresh object is constructed '
               'with the same callables']
PARTIAL = []
STREAMS = ('grads', 'steps', 'factors', 'trace', 'holds')


def oracle_roundtrip(ctx, cfg, rr):
    if kfacsim.run_failed(rr):
        r = kfacsim.run_failed(rr)
        # any exception in load_state_dict on a valid state is a failing input by itself
        if any(o[0] == 'l' for o in cfg.ops):
            ctx.fail(f'run with a checkpoint round trip failed: {r}', cfg.describe(), 'load-failed')
        return
    for r in range(cfg.world):
        for rec in rr.res[r]['ops']:
            if rec['op'][0] in ('l', 'R') and not rec.get('roundtrip_ok', True):
                return ctx.fail(f'rank {r}: state after load differs from the saved state (steps, hyper-parameters or factors)',
                                cfg.describe(), 'roundtrip')


def gen_cfgs(ctx, n):
    rng = ctx.rng
    cfgs = []
    # corpus: D2 witness — HYBRID, load with compute_inverses
    c = kfacsim.Config(rng, world=4, k=2, colocate=True, method='eigen', prediv=False, cap_mb=0.0, accum=1, hook=True)
    c.ops = ['f1', 's', 'f1', 's', 'l11', 'f1', 's', 'f1', 's']
    cfgs.append(c)
    # corpus: damping changed by a scheduler before the checkpoint, load at a non-refresh step
    c = kfacsim.Config(rng, world=2, k=1, colocate=True, method='inverse', prediv=False, cap_mb=0.0, accum=1, hook=True)
    c.hyper.update({'inv_update_steps': 4, 'factor_update_steps': 1, 'damping': Fraction(1, 4)})
    c.hyper_changes = [{'damping': Fraction(1, 64)}]
    c.ops = ['f1', 's', 'f1', 's', 'h:0', 'f1', 's', 'l11', 'f1', 's', 'f1', 's']
    cfgs.append(c)
    # checkpoints whose layers hold ONE factor only: a forward-only training pass (sanity forward) has folded a batch
    # into A while G does not exist yet (oracle-only histories: the Lean state machine has no forward-only op)
    for _ in range(max(4, n // 12)):
        cfg = kfacsim.Config(rng, world=rng.choice([1, 2, 4]))
        cfg.hyper_changes = []
        it = ['f1'] * cfg.accum + ['s']
        pre = rng.choice([[], it])
        cfg.ops = pre + ['F', rng.choice(['l11', 'l11', 'l10'])] + it * rng.randrange(1, 4)
        # the batch must already be folded into A when the state is taken (hook mode) and must not sit in an open
        # bucket (a state_dict() while a factor is still queued in a bucket waits for a flush that only step() or
        # memory_usage() perform — outside "at step boundaries", see DESIGN §5 C03)
        cfg.hook = True
        cfg.cap_mb = 0.0
        cfgs.append(cfg)
    # directed: a mix of callable and constant hyper-parameters, constants changed by a scheduler before the checkpoint,
    # loaded into a preconditioner constructed with other constants
    for _ in range(3):
        cfg = kfacsim.Config(rng, world=rng.choice([1, 2]))
        names = ['damping', 'factor_decay', 'kl_clip', 'lr']
        rng.shuffle(names)
        cfg.hyper['damping'] = Fraction(1, 4)
        cfg.hyper['factor_decay'] = Fraction(3, 4)
        cfg.hyper['kl_clip'] = Fraction(1, 100)
        cfg.hyper['lr'] = Fraction(1, 10)
        lists = {'damping': [Fraction(1, 4), Fraction(1, 8), Fraction(1, 2)], 'factor_decay': [Fraction(1, 2), Fraction(3, 4), Fraction(7, 8)],
                 'kl_clip': [Fraction(1, 100), None, Fraction(1, 10)], 'lr': [Fraction(1, 10), Fraction(1, 2)]}
        for nm in names[:2]:
            cfg.hyper[nm] = lists[nm]                       # callable
        const = names[2]
        cfg.hyper_changes = [{const: {'damping': Fraction(1, 64), 'factor_decay': Fraction(9, 10), 'kl_clip': Fraction(1, 500),
                                      'lr': Fraction(1, 3)}[const]}]
        cfg.perturb_ctor = 'callable' if len(cfgs) % 2 else True
        it = ['f1'] * cfg.accum + ['s']
        cfg.ops = it + ['h:0'] + it + ['v1', 'l11'] + it * 2
        cfgs.append(cfg)
    # directed: the initial checkpoint (step boundary 0, no factor yet) loaded with the default compute_inverses=True on
    # several ranks under every strategy — a valid state is never rejected, nothing is communicated for data that does not exist
    for world, k in ((2, 2), (2, 1), (4, 2), (4, 4)):
        cfg = kfacsim.Config(rng, world=world, k=k, colocate=True)
        cfg.hyper_changes = []
        it = ['f1'] * cfg.accum + ['s']
        cfg.ops = ['l11'] + it * 2 + ['v1']
        cfgs.append(cfg)
    # directed: a learning rate of exactly 0 (constructor argument, or annealed to 0 by a scheduler) is a valid state
    for world in (1, 2):
        cfg = kfacsim.Config(rng, world=world)
        cfg.hyper['lr'] = Fraction(0)
        cfg.hyper['kl_clip'] = Fraction(1, 100)
        cfg.hyper_changes = []
        it = ['f1'] * cfg.accum + ['s']
        cfg.ops = it + ['l11'] + it * 2
        cfgs.append(cfg)
    # directed: an interval scheduled with a non-integral factor (x3/2 per tick: 3 -> 4 -> 6 -> 9, truncated at every tick),
    # checkpoint between the ticks: the resumed run's intervals are those of the uninterrupted one
    for world in (1, 2):
        cfg = kfacsim.Config(rng, world=world)
        cfg.hyper['inv_update_steps'], cfg.hyper['factor_update_steps'] = 3, 1
        cfg.hyper_changes = [{'inv_update_steps': 4}, {'inv_update_steps': 6}, {'inv_update_steps': 9}]
        cfg.hyper_factors = [{'inv_update_steps': Fraction(3, 2)}] * 3
        it = ['f1'] * cfg.accum + ['s']
        cfg.ops = (it + ['h:0', 'l11'] + it + ['h:1'] + it + ['h:2'] + it * 10) if world == 1 else (it + ['h:0'] + it + ['h:1'] + it + ['h:2'] + it * 3 + ['l11'] + it * 8)
        cfgs.append(cfg)
    # directed: a state kept in memory (not copied) while several factor updates go by, then rolled back to
    for world in (1, 2, 4):
        cfg = kfacsim.Config(rng, world=world)
        cfg.hyper_changes = []
        cfg.hyper['factor_update_steps'] = 1
        it = ['f1'] * cfg.accum + ['s']
        cfg.ops = it + ['k'] + it * rng.randrange(2, 4) + [rng.choice(['R11', 'R10'])] + it * 2
        cfgs.append(cfg)
    while len(cfgs) < n:
        cfg = kfacsim.Config(rng, world=rng.choice([1, 2, 2, 3, 4, 4, 6]))
        cfg.hyper_changes = []
        ops = []
        nit = rng.randrange(2, ctx.budget(7, 16))
        for i in range(nit):
            ops += ['f1'] * cfg.accum + ['s']
            r = rng.random()
            if r < 0.45:
                ops.append(rng.choice(['l11', 'l11', 'l11', 'l10', 'l01', 'l00']))
            elif r < 0.55:
                ops.append('v1')
            elif r < 0.6:
                ops.append('f0')
        if rng.random() < 0.35:
            # roll back: keep a state in memory, go on training, load it later into a fresh object
            ss = [i + 1 for i, o in enumerate(ops) if o == 's']
            if len(ss) >= 2:
                a = rng.randrange(0, len(ss) - 1)
                b = rng.randrange(a + 1, len(ss))
                ops.insert(ss[b], rng.choice(['R11', 'R11', 'R10']))
                ops.insert(ss[a], 'k')
        if rng.random() < 0.35 and not isinstance(cfg.hyper['damping'], list):
            cfg.hyper_changes = [{'damping': rng.choice([Fraction(1, 64), Fraction(1, 2), Fraction(2)])}]
            idx = [i + 1 for i, o in enumerate(ops) if o == 's']
            ops.insert(rng.choice(idx[:max(1, len(idx) // 2)]), 'h:0')
        cfg.ops = ops
        cfgs.append(cfg)
    return cfgs


def malformed(ctx):
    """a state with a different number of layers is rejected (ValueError)"""
    import torch
    from kfac.preconditioner import KFACPreconditioner
    rng = ctx.rng
    for _ in range(ctx.budget(10, 60)):
        n1, n2 = rng.sample([0, 0, 1, 2, 3, 4], 2)
        if n1 == n2:
            n2 = n1 + 1

        def mk(n):
            # (n = 0: a preconditioner that registered no layer at all — everything skipped or frozen)
            m = torch.nn.Sequential(*([torch.nn.Linear(2, 2) for _ in range(n)] or [torch.nn.Tanh()]))
            p = KFACPreconditioner(m)
            if n:
                m(torch.ones(3, 2)).sum().backward()
            p.step()
            return p
        p1, p2 = mk(n1), mk(n2)
        try:
            p2.load_state_dict(copy.deepcopy(p1.state_dict()))
            ctx.fail(f'state with {n1} layers accepted by a preconditioner with {n2} layers',
                     {'n_saved': n1, 'n_target': n2}, 'wrong-layer-count-accepted')
        except ValueError:
            pass
        ctx.evaluations += 1
        ctx.count('malformed-layer-count')


def run(ctx):
    kfacsim.run_batch(ctx, gen_cfgs(ctx, ctx.budget(70, 700)), STREAMS,
                      oracles=(kfacsim.oracle_reference, oracle_roundtrip, kfacsim.oracle_state_keys), whole_only_oracles=False)
    malformed(ctx)


def search(ctx):
    cfgs = gen_cfgs(ctx, 200)
    for i, cfg in enumerate(cfgs):
        kfacsim.fix_loads(cfg)
        cfg.sched_seed = 555 + i
        rr = kfacsim.run_real(cfg, sched_seed=555 + i)
        kfacsim.oracle_reference(ctx, cfg, rr)
        oracle_roundtrip(ctx, cfg, rr)
        if ctx.failures:
            return


def replay(ctx, payload):
    if 'n_saved' in payload.get('case', {}):
        malformed(ctx)
        return bool(ctx.failures)
    return kfacsim.replay_case(ctx, payload, STREAMS, oracles=(kfacsim.oracle_reference, oracle_roundtrip))
