"""C19 — hyper-parameter schedulers apply multiplicative factors deterministically."""
from __future__ import annotations

from fractions import Fraction

RULE = ('random subsets of the six schedulable parameters, affine dyadic factor functions f(s)=a+b*s that '
        'encode their argument, random call sequences mixing explicit and implicit steps on the real '
        'LambdaParamScheduler attached to a real preconditioner whose step count is advanced between calls; '
        'all values dyadic so float products are exact; constructor stream over every (scheduled, callable) '
        'pair; exp_decay over k=0..K and dyadic caps; non-trivial = ≥1 scheduled parameter and ≥2 calls'
        '; decimal (non-dyadic) factors with truncation just below an integer; unscheduled parameters held as callables of the step count, one function object shared by several parameters; real-valued parameters given as Python ints; public properties read before and after scheduler.step(); the decay schedule object asked again in a non-monotone order; histories cut where exact products leave the 53-bit significand')
TRUSTED = [
    'Lean 4.33 kernel; axioms audited ⊆ {propext, Classical.choice, Quot.sound}',
    'hand-written model KV.Sched tied to kfac/scheduler.py and kfac/hyperparams.py by this correspondence',
    'float arithmetic on the generated dyadic values is exact (values chosen with few bits); '
    'exp_decay compared with the correctly rounded double of the model rational within 2 ulp',
]
ASSUMPTIONS = ['Python int() truncates toward zero']
PARTIAL = []

NAMES = ['factor_update_steps', 'inv_update_steps', 'damping', 'factor_decay', 'kl_clip', 'lr']


def rat(x):
    f = Fraction(x)
    return str(f.numerator) if f.denominator == 1 else f'{f.numerator}/{f.denominator}'


def make_precond(vals, callables):
    import torch
    from kfac.preconditioner import KFACPreconditioner
    m = torch.nn.Linear(2, 2)
    kw = {}
    for n, v, c in zip(NAMES, vals, callables):
        kw[n] = (lambda s, v=v: v) if c else v
    return KFACPreconditioner(m, **kw)


def gen_lambda(rng):
    a = Fraction(rng.choice([1, 1, 2, 3, 1, 5]), rng.choice([1, 2, 4]))
    b = Fraction(rng.choice([0, 1, 1, 3]), rng.choice([1, 2, 4, 8]))
    return a, b


def run(ctx):
    from kfac.scheduler import LambdaParamScheduler
    rng = ctx.rng
    lines, pend = [], []
    for _ in range(ctx.budget(300, 3000)):
        vals = [rng.choice([1, 2, 3, 10, 37]), rng.choice([1, 2, 5, 8, 100]),
                float(Fraction(rng.choice([1, 3, 5]), 2 ** rng.randrange(1, 8))),
                float(Fraction(rng.choice([1, 3, 7]), 8)), float(Fraction(1, 2 ** rng.randrange(1, 10))),
                float(Fraction(rng.choice([1, 3]), 2 ** rng.randrange(0, 5)))]
        if rng.random() < 0.3:
            # real-valued hyper-parameters given as Python ints (lr=1, damping=1, ...): still multiplied, never truncated
            for j, pool in ((2, [1, 2]), (3, [1]), (4, [1, 3]), (5, [1, 2, 5])):
                if rng.random() < 0.6:
                    vals[j] = rng.choice(pool)
            ctx.count('int-valued-real-parameters')
        sched = [rng.random() < 0.5 for _ in NAMES]
        lams = [gen_lambda(rng) if s else None for s in sched]
        p = make_precond(vals, [False] * 6)
        logs = {n: [] for n in NAMES}

        def mk(n, ab):
            a, b = ab
            return lambda s: (logs[n].append(s), float(a + b * s))[1]
        kw = {n + '_lambda': mk(n, ab) for n, ab in zip(NAMES, lams) if ab is not None}
        s = LambdaParamScheduler(p, **kw)
        ncalls = rng.randrange(1, ctx.budget(6, 12))
        calls, steps, impl = [], [], []
        exact = [Fraction(v) for v in vals]
        ok = True
        external = rng.random() < 0.25      # a checkpoint is loaded after the scheduler was constructed (resume / roll-back)
        writes = {}
        for _c in range(ncalls):
            p._steps += rng.choice([0, 1, 1, 2, 5])
            if external and rng.random() < 0.4:
                j = rng.choice([2, 3, 4, 5])
                v = Fraction(rng.choice([1, 3, 5]), 2 ** rng.randrange(1, 6))
                p.load_state_dict({'steps': p._steps, NAMES[j]: float(v)}, compute_inverses=False)
                exact[j] = v
                writes.setdefault(_c, []).append((j, v))
            arg = rng.choice([None, None, rng.randrange(0, 9)])
            calls.append(arg)
            steps.append(p._steps)
            if rng.random() < 0.5:
                # logging the hyper-parameters between preconditioner.step() and scheduler.step() changes nothing
                _ = (p.factor_update_steps, p.inv_update_steps, p.damping, p.factor_decay, p.kl_clip, p.lr)
            try:
                s.step(arg) if arg is not None else s.step()
            except OverflowError:
                ok = False
                break
            if p.steps != steps[-1]:
                ctx.fail(f'scheduler.step({arg}) changed the preconditioner\'s step count from {steps[-1]} to {p.steps}',
                         {'vals': vals, 'calls': calls, 'steps': steps}, 'steps-clobbered')
                p._steps = steps[-1]
            # what the preconditioner will use: the public properties
            cur = [p.factor_update_steps, p.inv_update_steps, p.damping, p.factor_decay, p.kl_clip, p.lr]
            # values must still be exactly representable for the exact comparison to be meaningful
            if any(abs(float(x)) > 2**40 or (x != 0 and abs(float(x)) < 2**-300) for x in cur):
                ok = False
                break
            # ... and the exact products must fit a double's 53-bit significand (longer histories overflow it; the
            # statement is about the real-number recurrence, rounding is not the scheduler's doing): stop the history
            # at the last exactly representable call
            w_ = arg if arg is not None else p._steps
            nxt = list(exact)
            for j, ab in enumerate(lams):
                if ab is not None:
                    v = nxt[j] * (ab[0] + ab[1] * w_)
                    nxt[j] = Fraction(int(v)) if j < 2 else v
            if any(Fraction(float(e)) != e for e in nxt):
                break
            exact = nxt
            if not isinstance(cur[0], int) or not isinstance(cur[1], int):
                ctx.fail('interval parameter is not an int after a scheduler step',
                         {'vals': vals, 'calls': calls}, 'interval-not-int')
            impl.append(','.join(rat(x) for x in cur))
        if not ok or not impl:
            continue
        case = {'vals': [rat(v) for v in vals], 'lams': [None if l is None else [rat(l[0]), rat(l[1])] for l in lams],
                'calls': calls, 'steps': steps}
        # oracle: each lambda saw exactly the documented argument sequence
        want = [a if a is not None else st for a, st in zip(calls, steps)]
        for n, ab in zip(NAMES, lams):
            if ab is not None and logs[n] != want[:len(logs[n])]:
                ctx.fail(f'{n}_lambda was called with {logs[n]} instead of {want}', case, 'wrong-step-arg')
        # oracle: recompute in Fractions, independent of the model
        cur = [Fraction(v) for v in vals]
        for i, w in enumerate(want[:len(impl)]):
            for j_, v_ in writes.get(i, []):
                cur[j_] = v_          # what load_state_dict restored is what the next scheduler step multiplies
            for j, ab in enumerate(lams):
                if ab is None:
                    continue
                v = cur[j] * (ab[0] + ab[1] * w)
                if j < 2:
                    v = Fraction(int(v))
                cur[j] = v
            if ','.join(rat(x) for x in cur) != impl[i]:
                ctx.fail(f'call {i}: parameters {impl[i]} differ from the fold {",".join(rat(x) for x in cur)}',
                         case, 'fold-mismatch')
                break
        if writes:
            ctx.count('external-writes (oracle only)')
            ctx.case(('ext', str(case), str(writes)), nontrivial=True)
            continue
        lines.append('sched p=' + ','.join(rat(v) for v in vals) + ' lam='
                     + '|'.join('-' if l is None else f'{rat(l[0])}:{rat(l[1])}' for l in lams)
                     + ' calls=' + ','.join('-' if c is None else str(c) for c in calls[:len(impl)])
                     + ' steps=' + ','.join(map(str, steps[:len(impl)])))
        pend.append((case, '|'.join(impl)))
        ctx.case(lines[-1], nontrivial=any(sched) and len(impl) >= 2, sample=case)
        ctx.count(f'scheduled{sum(sched)}')
        ctx.count('explicit' if any(c is not None for c in calls) else 'implicit-only')
    for (case, il), mo in zip(pend, ctx.model.ask(lines)):
        ctx.compare('sched', case, mo, il)

    unscheduled_stream(ctx)
    decimal_stream(ctx)
    step_type_stream(ctx)
    falsy_callable_stream(ctx)

    # constructor: every (scheduled, callable) pattern --------------------------------------
    lines, pend = [], []
    import itertools
    pats = list(itertools.product([0, 1], repeat=6))
    chosen = [(s, c) for s in pats for c in pats] if ctx.thorough() else \
        [(rng.choice(pats), rng.choice(pats)) for _ in range(400)] + \
        [(s, c) for s in pats for c in pats if sum(s) <= 2 and sum(c) == 1]
    vals = [2, 4, 0.5, 0.75, 0.25, 0.5]
    precs = {}
    for s, c in chosen:
        if c not in precs:
            precs[c] = make_precond(vals, list(c))
        kw = {n + '_lambda': (lambda st: 1.0) for n, si in zip(NAMES, s) if si}
        try:
            LambdaParamScheduler(precs[c], **kw)
            got = 'ok'
        except ValueError:
            got = 'ValueError'
        except Exception as e:  # noqa: BLE001
            got = type(e).__name__
        want = 'ValueError' if any(a and b for a, b in zip(s, c)) else 'ok'
        case = {'scheduled': s, 'callable': c}
        if got != want:
            ctx.fail(f'constructor gave {got}, statement says {want}', case, 'ctor')
        lines.append('schedctor scheduled=' + ''.join(map(str, s)) + ' callable=' + ''.join(map(str, c)))
        pend.append((case, got))
        ctx.case(('ctor', s, c), nontrivial=sum(s) > 0)
        ctx.count('ctor-' + got)
    for (case, il), mo in zip(pend, ctx.model.ask(lines)):
        ctx.compare('sched-ctor', case, mo, il)

    # callables of every kind are refused when scheduled: functools.partial, bound methods, objects with __call__, and
    # the library's own exp_decay_factor_averaging() schedule
    import functools
    from kfac.hyperparams import exp_decay_factor_averaging as _eda

    class _Sched:
        def __call__(self, st):
            return 0.5

        def method(self, st):
            return 0.5
    kinds = {'partial': lambda: functools.partial(lambda a, st: 0.5, 1), 'bound-method': lambda: _Sched().method,
             'callable-object': lambda: _Sched(), 'exp_decay': lambda: _eda(0.95), 'builtin': lambda: abs}
    import torch as _t
    from kfac.preconditioner import KFACPreconditioner as _KP
    for kind, mk_ in kinds.items():
        for j, n in enumerate(NAMES):
            if kind == 'exp_decay' and n != 'factor_decay':
                continue
            base = dict(zip(NAMES, [2, 4, 0.5, 0.75, 0.25, 0.5]))
            base[n] = mk_()
            case = {'stream': 'ctor-callable-kinds', 'kind': kind, 'parameter': n}
            try:
                pc = _KP(_t.nn.Linear(2, 2), **base)
            except Exception as e:  # noqa: BLE001  (the preconditioner itself may refuse a kind: nothing to check then)
                ctx.count('ctor-kind-not-constructible')
                continue
            try:
                LambdaParamScheduler(pc, **{n + '_lambda': (lambda st: 1.0)})
                got = 'ok'
            except ValueError:
                got = 'ValueError'
            except Exception as e:  # noqa: BLE001
                got = type(e).__name__
            if got != 'ValueError':
                ctx.fail(f'scheduling {n}, which the preconditioner holds as a {kind}, gave {got} at construction; the statement says it is refused', case, 'ctor-callable-kind')
            ctx.evaluations += 1
            ctx.count('ctor-kind-' + kind)

    # exp_decay_factor_averaging ------------------------------------------------------------
    from kfac.hyperparams import exp_decay_factor_averaging
    kmax = ctx.budget(600, 4096)
    lines, pend = [], []
    for cap in [Fraction(19, 20), Fraction(1, 2), Fraction(1), Fraction(3, 4), Fraction(1, 1024), Fraction(5, 4),
                Fraction(0), Fraction(-1, 2)]:
        try:
            f = exp_decay_factor_averaging(float(cap))
        except ValueError:
            lines.append(f'expdecay cap={rat(cap)} ks=0')
            pend.append(({'cap': rat(cap)}, 'ValueError', None))
            continue
        ks = list(range(kmax))
        vals = [f(k) for k in ks]
        case = {'cap': rat(cap)}
        for a, b in zip(vals, vals[1:]):
            if b < a:
                ctx.fail('exp_decay schedule decreases', case, 'expdecay-monotone')
                break
        if any(v < 0 or v > float(cap) for v in vals):
            ctx.fail('exp_decay schedule leaves [0, cap]', case, 'expdecay-range')
        # the statement itself: min(1 - 1/max(k, 1), cap), also for caps above 1 (where the cap never binds)
        badk = next((k for k, v in zip(ks, vals) if abs(v - min(1 - 1 / max(k, 1), float(cap))) > 1e-15), None)
        if badk is not None:
            ctx.fail(f'exp_decay_factor_averaging({float(cap)})({badk}) = {vals[badk]}, the statement says {min(1 - 1 / max(badk, 1), float(cap))}',
                     dict(case, step=badk), 'expdecay-value')
        try:
            f(-1)
            ctx.fail('negative step accepted', case, 'expdecay-negative')
        except ValueError:
            pass
        lines.append(f'expdecay cap={rat(cap)} ks=' + ','.join(map(str, ks)))
        pend.append((case, None, vals))
        # the schedule is a function of the step alone: the SAME object asked again in a non-monotone order (roll-back to
        # an earlier checkpoint, one schedule shared by two preconditioners) answers the same
        ks2 = [rng.randrange(kmax) for _ in range(200)] + [0, 1, 2, kmax - 1, 1, 0]
        vals2 = [f(k) for k in ks2]
        lines.append(f'expdecay cap={rat(cap)} ks=' + ','.join(map(str, ks2)))
        pend.append((dict(case, order='non-monotone'), None, vals2))
        if any(v2 != vals[k] for k, v2 in zip(ks2, vals2)):
            k_bad = next(k for k, v2 in zip(ks2, vals2) if v2 != vals[k])
            ctx.fail(f'exp_decay schedule with cap {cap} answers {f(k_bad)} at step {k_bad} after having been asked about later '
                     f'steps, {vals[k_bad]} before: not a function of the step', dict(case, step=k_bad), 'expdecay-history')
        ctx.evaluations += len(ks)
        ctx.keys.add(('expdecay', rat(cap)))
    for (case, err, vals), mo in zip(pend, ctx.model.ask(lines)):
        if mo is None:
            continue
        if err is not None or mo == 'ValueError':
            ctx.compare('expdecay', case, mo, err)
            continue
        ms = [Fraction(x) for x in mo.split(',')]
        bad = [(k, v, float(m)) for k, (v, m) in enumerate(zip(vals, ms)) if abs(Fraction(v) - m) > Fraction(1, 2**51)]
        ctx.compare('expdecay', dict(case, first_bad=bad[:3]), 'match' if not bad else 'differs', 'match')


def unscheduled_stream(ctx):
    """(a) parameters WITHOUT a lambda that the preconditioner holds as callables of its step count (factor_decay =
    exp_decay_factor_averaging(), a step-dependent lr): scheduler steps leave them untouched — they go on following the
    step count, before and after every call; (b) ONE function object handed in as the lambda of several parameters: each
    of them is multiplied by it at every call.  Oracle in Fractions, from the statement."""
    import torch
    from kfac.preconditioner import KFACPreconditioner
    from kfac.scheduler import LambdaParamScheduler
    rng = ctx.rng
    for _ in range(ctx.budget(150, 1200)):
        vals = [rng.choice([1, 2, 3, 10]), rng.choice([1, 2, 5, 8]), float(Fraction(rng.choice([1, 3, 5]), 2 ** rng.randrange(1, 8))),
                float(Fraction(rng.choice([1, 3, 7]), 8)), float(Fraction(1, 2 ** rng.randrange(1, 10))),
                float(Fraction(rng.choice([1, 3]), 2 ** rng.randrange(0, 5)))]
        sched = [rng.random() < 0.45 for _ in NAMES]
        # unscheduled parameters: some are callables v*(1+s) (intervals: v+s) of the preconditioner's step count
        call_ = [(not sc) and rng.random() < 0.6 for sc in sched]

        def hyper(j, v):
            if j < 2:
                return lambda st: v + st
            return lambda st: v * (1 + st)
        kw0 = {n: (hyper(j, v) if c else v) for j, (n, v, c) in enumerate(zip(NAMES, vals, call_))}
        p = KFACPreconditioner(torch.nn.Linear(2, 2), **kw0)
        # scheduled ones: distinct functions, or one shared function object for all of them
        shared = rng.random() < 0.4 and sum(sched) >= 2
        ab_shared = gen_lambda(rng)
        f_shared = (lambda st, ab=ab_shared: float(ab[0] + ab[1] * st))
        lams, kw = [], {}
        for n, sc in zip(NAMES, sched):
            if not sc:
                lams.append(None)
                continue
            ab = ab_shared if shared else gen_lambda(rng)
            lams.append(ab)
            kw[n + '_lambda'] = f_shared if shared else (lambda st, ab=ab: float(ab[0] + ab[1] * st))
        case = {'stream': 'unscheduled/shared', 'vals': [rat(v) for v in vals], 'scheduled': sched, 'callable_unscheduled': call_,
                'shared_function': shared, 'lams': [None if l is None else [rat(l[0]), rat(l[1])] for l in lams]}
        try:
            s_ = LambdaParamScheduler(p, **kw)
        except Exception as e:  # noqa: BLE001
            ctx.fail(f'constructor raised {type(e).__name__}: {e} although no scheduled parameter is callable', case, 'unsched-ctor')
            continue
        exact = [Fraction(v) for v in vals]
        calls = []
        bad = None
        for _c in range(rng.randrange(1, 6)):
            p._steps += rng.choice([0, 1, 1, 2, 5])
            arg = rng.choice([None, None, rng.randrange(0, 9)])
            calls.append((p._steps, arg))
            try:
                s_.step(arg) if arg is not None else s_.step()
            except Exception as e:  # noqa: BLE001
                bad = f'scheduler.step raised {type(e).__name__}: {e}'
                break
            w_ = arg if arg is not None else p._steps
            for j, ab in enumerate(lams):
                if ab is not None:
                    v = exact[j] * (ab[0] + ab[1] * w_)
                    exact[j] = Fraction(int(v)) if j < 2 else v
            if any(Fraction(float(e)) != e or abs(e) > 2**40 for e in exact):
                break
            # read now, and again after the training loop advanced the step count
            for bump in (0, rng.choice([1, 3])):
                p._steps += bump
                cur = [p.factor_update_steps, p.inv_update_steps, p.damping, p.factor_decay, p.kl_clip, p.lr]
                for j, n in enumerate(NAMES):
                    if lams[j] is not None:
                        want = exact[j]
                    elif call_[j]:
                        want = Fraction(vals[j]) + p._steps if j < 2 else Fraction(vals[j]) * (1 + p._steps)
                    else:
                        want = Fraction(vals[j])
                    if Fraction(cur[j]) != want and bad is None:
                        bad = (f'after calls {calls} at step count {p._steps}: {n} = {cur[j]}, expected {rat(want)} '
                               f'({"scheduled" if lams[j] is not None else "unscheduled callable" if call_[j] else "unscheduled constant"})')
            if bad:
                break
        if bad:
            ctx.fail(bad, dict(case, calls=calls), 'unscheduled-or-shared')
        ctx.evaluations += 1
        ctx.case(str(case) + str(calls), nontrivial=any(sched) and (any(call_) or shared))
        ctx.count('shared-function' if shared else 'distinct-functions')
        ctx.count('callable-unscheduled' if any(call_) else 'constant-unscheduled')


def step_type_stream(ctx):
    """the explicitly supplied step is what the factor functions receive, whatever integer-valued type it has: a numpy
    integer (`for epoch in np.arange(n)`), a float epoch, a 0-dim tensor"""
    import torch
    from kfac.preconditioner import KFACPreconditioner
    from kfac.scheduler import LambdaParamScheduler
    rng = ctx.rng
    try:
        import numpy as np
    except Exception:  # noqa: BLE001
        np = None
    for _ in range(ctx.budget(60, 400)):
        p = KFACPreconditioner(torch.nn.Linear(2, 2), damping=0.5, lr=0.25, kl_clip=0.125, factor_decay=0.5)
        p._steps = rng.choice([7, 14, 3])
        k = rng.randrange(0, 6)
        kinds = {'int': k, 'float': float(k), 'tensor': torch.tensor(k)}
        if np is not None:
            kinds['np.int64'] = np.int64(k)
            kinds['np.int32'] = np.int32(k)
        kind = rng.choice(sorted(kinds))
        s_ = LambdaParamScheduler(p, damping_lambda=lambda st: 1.0 + 0.25 * float(st), lr_lambda=lambda st: 2.0 ** (-float(st)))
        case = {'stream': 'step-types', 'explicit_step': k, 'type': kind, 'preconditioner_steps': p._steps}
        try:
            s_.step(kinds[kind])
        except Exception as e:  # noqa: BLE001
            ctx.fail(f'scheduler.step({kind} {k}) raised {type(e).__name__}: {e}', case, 'step-type-raised')
            continue
        want = (0.5 * (1.0 + 0.25 * k), 0.25 * 2.0 ** (-k))
        if (p.damping, p.lr) != want:
            ctx.fail(f'scheduler.step({kind}({k})) with preconditioner.steps = {p._steps}: damping, lr = {(p.damping, p.lr)}, expected {want} '
                     '(factors of the supplied step)', case, 'step-type-ignored')
        ctx.evaluations += 1
        ctx.count('step-type-' + kind)


def falsy_callable_stream(ctx):
    """a factor function is any callable — also one whose truth value is False (an empty lookup table with `__call__`, an
    object with `__len__` == 0 or `__bool__` False): it is applied like every other function (C19-mutU tested truthiness
    instead of `is not None`)"""
    import torch
    from kfac.preconditioner import KFACPreconditioner
    from kfac.scheduler import LambdaParamScheduler
    rng = ctx.rng

    class Table(dict):
        def __init__(self, default):
            super().__init__()
            self.default = default

        def __call__(self, st):
            return self.get(st, self.default)

    class Sized:
        def __init__(self, default):
            self.default = default

        def __len__(self):
            return 0

        def __call__(self, st):
            return self.default

    class Falsy:
        def __init__(self, default):
            self.default = default

        def __bool__(self):
            return False

        def __call__(self, st):
            return self.default
    kinds = {'empty-table': Table, 'len0': Sized, 'bool-false': Falsy}
    names = ['factor_update_steps', 'inv_update_steps', 'damping', 'factor_decay', 'kl_clip', 'lr']
    for _ in range(ctx.budget(36, 200)):
        kind = rng.choice(sorted(kinds))
        n = rng.choice(names)
        p = KFACPreconditioner(torch.nn.Linear(2, 2), factor_update_steps=8, inv_update_steps=64, damping=0.5, lr=0.25, kl_clip=0.125,
                               factor_decay=0.5)
        f = rng.choice([0.5, 0.25, 2.0]) if n not in ('factor_decay',) else 0.5
        s_ = LambdaParamScheduler(p, **{n + '_lambda': kinds[kind](f)})
        before = getattr(p, n)
        k = rng.randrange(1, 4)
        case = {'stream': 'falsy-callables', 'kind': kind, 'parameter': n, 'factor': f, 'steps': k}
        try:
            for _i in range(k):
                s_.step()
        except Exception as e:  # noqa: BLE001
            ctx.fail(f'scheduler.step() with a {kind} factor function for {n} raised {type(e).__name__}: {e}', case, 'falsy-callable-raised')
            continue
        want = before
        for _i in range(k):
            want = int(want * f) if n.endswith('_steps') else want * f
        if getattr(p, n) != want:
            ctx.fail(f'{n} scheduled by a callable whose truth value is False ({kind}) with factor {f}: after {k} scheduler steps it is '
                     f'{getattr(p, n)}, expected {want} (multiplied by f(step) on every step)', case, 'falsy-callable-ignored')
        ctx.evaluations += 1
        ctx.count('falsy-callable-' + kind)


def decimal_stream(ctx):
    """decimal (non-dyadic) factors: the interval parameters are TRUNCATED products — 100 x 0.29 is 28.999999999999996 in
    floating point and becomes 28, never 29 — and the real-valued ones are the plain float products.  Oracle: the same fold
    in Python floats (int() for the two intervals), call by call."""
    import torch
    from kfac.preconditioner import KFACPreconditioner
    from kfac.scheduler import LambdaParamScheduler
    rng = ctx.rng
    facs = [0.29, 0.57, 0.58, 1.15, 0.07, 0.1, 0.3, 0.7, 1.1, 2.3, 0.9, 0.99, 1.01, 0.35, 0.55, 1.45]
    for _ in range(ctx.budget(200, 1500)):
        vals = [rng.choice([100, 50, 10, 7, 200, 1000]), rng.choice([100, 20, 300, 9, 70]), rng.choice([0.003, 0.1, 0.03]),
                rng.choice([0.95, 0.9, 0.5]), rng.choice([0.001, 0.01]), rng.choice([0.1, 0.01, 0.3])]
        p = KFACPreconditioner(torch.nn.Linear(2, 2), **dict(zip(NAMES, vals)))
        sched = [rng.random() < (0.8 if j < 2 else 0.4) for j in range(6)]
        tabs = [[rng.choice(facs) for _ in range(12)] if sc else None for sc in sched]
        kw = {n + '_lambda': (lambda st, t=t: t[st % len(t)]) for n, t in zip(NAMES, tabs) if t is not None}
        s_ = LambdaParamScheduler(p, **kw)
        want = list(vals)
        calls = []
        bad = None
        for _c in range(rng.randrange(1, 5)):
            p._steps += rng.choice([0, 1, 2])
            arg = rng.choice([None, None, rng.randrange(0, 12)])
            w_ = arg if arg is not None else p._steps
            calls.append((p._steps, arg))
            s_.step(arg) if arg is not None else s_.step()
            for j, t in enumerate(tabs):
                if t is not None:
                    want[j] = int(want[j] * t[w_ % len(t)]) if j < 2 else want[j] * t[w_ % len(t)]
            cur = [p.factor_update_steps, p.inv_update_steps, p.damping, p.factor_decay, p.kl_clip, p.lr]
            for j, n in enumerate(NAMES):
                if cur[j] != want[j] or (j < 2 and not isinstance(cur[j], int)):
                    bad = f'after calls {calls}: {n} = {cur[j]!r}, expected {want[j]!r} (start {vals[j]!r}, factors {tabs[j]})'
                    break
            if bad or want[0] < 1 or want[1] < 1:
                break
        if bad:
            ctx.fail(bad, {'stream': 'decimal', 'vals': vals, 'tables': tabs, 'calls': calls}, 'decimal-factors')
        ctx.evaluations += 1
        ctx.case(('decimal', str(vals), str(tabs), str(calls)), nontrivial=any(sched[:2]))
        ctx.count('decimal-factors')


def search(ctx):
    pass  # run() already evaluates the independent Fraction oracle on every case


def replay(ctx, payload):
    run(ctx)
    for f in ctx.failures[:5]:
        print('replay:', f['what'])
    return bool(ctx.failures)
