"""C12 — GPT-NeoX assignment consistent across the 3-D topology."""
from __future__ import annotations

import os
import sys
from unittest import mock

import gen

RULE = ('every (pipe, data, model) with pipe*data*model ≤ N, every local rank, random cost dictionaries with ties: '
        'one real GPTNeoXAssignment per rank on the stub DeepSpeed topology with a recording dist.new_group; every '
        'public query and the new_group sequence compared with the Lean model; non-trivial = at least two axes > 1 '
        'and ≥ 2 layers'
        '; stages without any registered layer; several assignments built in one process')
TRUSTED = [
    'Lean 4.33 kernel; axioms audited ⊆ {propext, Classical.choice, Quot.sound}',
    'hand-written model KV.Neox tied to kfac/gpt_neox/assignment.py and mpu.get_group_with_rank by this correspondence',
    'DeepSpeed is NOT installed: PipeModelDataParallelTopology is a 60-line stub written from DeepSpeed\'s '
    'ProcessTopology semantics (harness/stubs/deepspeed); all C12 statements are relative to it',
]
ASSUMPTIONS = ['all ranks of a pipeline stage are given the same cost dictionary (they hold the same layers)']
PARTIAL = ['partial only in that the DeepSpeed topology class is a stub']
STUBS = os.path.join(os.path.dirname(os.path.dirname(os.path.abspath(__file__))), 'stubs')


def build(topo, loc, work):
    from kfac.gpt_neox.assignment import GPTNeoXAssignment
    calls = []

    def fake_new_group(ranks=None, *a, **k):
        calls.append(tuple(ranks))
        return ('created', tuple(ranks))
    with mock.patch('torch.distributed.new_group', fake_new_group):
        a = GPTNeoXAssignment(work, local_rank=loc, topology=topo,
                              data_parallel_group='DATA', model_parallel_group='MODEL')
    return a, calls


def impl_line(a, loc, work, calls):
    layers = list(work)
    pg = a.pipe_parallel_peer_group
    peer = 'model' if pg == 'MODEL' else ('data' if pg == 'DATA' else 'created:' + gen.nats(pg[1]))

    def per(f):
        return ';'.join(f'{l}={f(l)}' for l in layers)
    return ('inv=' + per(lambda l: a.inv_worker(l, 'A'))
            + ' fw=' + per(lambda l: a.factor_worker(l, 'A'))
            + ' gw=' + per(lambda l: int(a.is_grad_worker(l)))
            + ' src=' + per(lambda l: a.src_grad_worker(l))
            + ' peer=' + peer
            + ' newgroups=' + gen.natlists(calls, '|')
            + ' dpeers=' + gen.nats(a.data_parallel_peers) + ' mpeers=' + gen.nats(a.model_parallel_peers)
            + ' stage=' + gen.nats(a.pipe_parallel_peers))


def oracle(ctx, pp, dp, mp, works, objs, callseqs, topo):
    """The statement evaluated on the real objects of all ranks (coordinates from the topology)."""
    case = {'pp': pp, 'dp': dp, 'mp': mp, 'works': works}
    world = pp * dp * mp
    co = [topo.get_coord(r) for r in range(world)]
    if any(c != callseqs[0] for c in callseqs):
        return ctx.fail('dist.new_group call sequences differ between ranks', case, 'new_group-order')
    for c in callseqs[0]:
        pass
    for r in range(world):
        a = objs[r]
        work = works[co[r].pipe]
        stage = [q for q in range(world) if co[q].pipe == co[r].pipe]
        pg = a.pipe_parallel_peer_group
        members = {'MODEL': [q for q in range(world) if co[q].pipe == co[r].pipe and co[q].data == co[r].data],
                   'DATA': [q for q in range(world) if co[q].pipe == co[r].pipe and co[q].model == co[r].model]
                   }.get(pg, None) if isinstance(pg, str) else list(pg[1])
        if sorted(members) != stage:
            return ctx.fail(f'rank {r}: peer group {sorted(members)} is not its stage {stage}', case, 'peer-group')
        for l in work:
            inv = a.inv_worker(l, 'A')
            if any(a.inv_worker(l, f) != inv for f in work[l]):
                return ctx.fail('factors of one layer on different workers', case, 'inv-split')
            if inv not in stage:
                return ctx.fail(f'inverse worker {inv} of {l} outside stage {stage}', case, 'inv-outside-stage')
            for q in stage:
                if objs[q].inv_worker(l, 'A') != inv:
                    return ctx.fail(f'ranks {r} and {q} of one stage disagree on the inverse worker of {l}', case, 'stage-disagree')
            fw = a.factor_worker(l, 'A')
            if not (co[fw].pipe == co[r].pipe and co[fw].data == co[r].data          # own model-parallel group
                    and co[fw].pipe == co[inv].pipe and co[fw].model == co[inv].model):  # inv's data-parallel group
                return ctx.fail(f'rank {r}: factor worker {fw} of {l} not in own mp group ∩ dp group of {inv}', case, 'factor-worker')
            s = a.src_grad_worker(l)
            if not (co[s].pipe == co[r].pipe and co[s].model == co[r].model and co[s].data == co[inv].data):
                return ctx.fail(f'rank {r}: gradient source {s} of {l} not in own dp group with the same shard', case, 'src')
            gw = a.is_grad_worker(l)
            if gw != (co[r].pipe == co[inv].pipe and co[r].data == co[inv].data):
                return ctx.fail(f'rank {r}: is_grad_worker({l})={gw} but inverse worker is {inv}', case, 'grad-worker')
        # least-loaded greedy: replay
        loads = [0] * len(stage)
        big = 0
        for l, c in sorted(((l, sum(fs.values())) for l, fs in work.items()), key=lambda x: (x[1], x[0]), reverse=True):
            i = loads.index(min(loads))
            if a.inv_worker(l, 'A') != stage[i]:
                return ctx.fail(f'{l} not placed on the first least-loaded stage rank', case, 'greedy')
            loads[i] += c
            big = max(big, c)
            if max(loads) - min(loads) > big:
                return ctx.fail('stage loads differ by more than the largest layer', case, 'balance')
    return None


def run_topo(ctx, lines, pend, pp, dp, mp, rng, ranks=None):
    from deepspeed.runtime.pipe.topology import PipeModelDataParallelTopology
    topo = PipeModelDataParallelTopology(num_pp=pp, num_mp=mp, num_dp=dp)
    world = pp * dp * mp
    works = [gen.gen_work(rng, nlayers=rng.choice([1, 2, 3, 5, 9])) for _ in range(pp)]
    if pp > 1 and rng.random() < 0.35:
        # a pipeline stage without any registered layer (embedding / norm only, or everything skipped): its ranks still
        # take part in the collective creation of the peer groups
        works[rng.randrange(pp)] = {}
    for w in works:
        for l in list(w):
            if 'A' not in w[l]:
                w[l]['A'] = 1
    objs, callseqs = [], []
    case = {'pp': pp, 'dp': dp, 'mp': mp, 'works': works}
    # costs are floats in the library's signature: with prob. 0.3 the real objects get dyadic fractions c/8 (many below 1)
    # while the model keeps the integers c — order, ties and sums are preserved exactly
    scale = 8.0 if rng.random() < 0.3 else None
    if scale:
        case['cost_scale'] = '1/8'
    try:
        for loc in range(world):
            work = works[topo.get_coord(loc).pipe]
            rwork = work if not scale else {l: {f: c / scale for f, c in fs.items()} for l, fs in work.items()}
            a, calls = build(topo, loc, rwork)
            objs.append(a)
            callseqs.append(calls)
            if ranks is None or loc in ranks:
                lines.append(f'neox pp={pp} dp={dp} mp={mp} loc={loc} work={gen.work_str(work)}')
                pend.append((dict(case, loc=loc), impl_line(a, loc, work, calls)))
    except Exception as e:  # noqa: BLE001
        ctx.fail(f'construction/query raised {type(e).__name__}: {e}', case, 'raised')
        return
    try:
        oracle(ctx, pp, dp, mp, works, objs, callseqs, topo)
    except Exception as e:  # noqa: BLE001  (e.g. a worker rank outside the topology)
        ctx.fail(f'the assignment\'s answers are not even well-formed for this topology: {type(e).__name__}: {e}', case, 'ill-formed')
    naxes = sum(1 for x in (pp, dp, mp) if x > 1)
    ctx.case((pp, dp, mp, tuple(gen.work_str(w) for w in works)), nontrivial=naxes >= 2, sample=case if world <= 8 else None)
    ctx.count(f'axes>1:{naxes}')


def run(ctx):
    if STUBS not in sys.path:
        sys.path.insert(0, STUBS)
    rng = ctx.rng
    lines, pend = [], []
    N = ctx.budget(24, 64)
    for pp in range(1, N + 1):
        for dp in range(1, N // pp + 1):
            for mp in range(1, N // (pp * dp) + 1):
                world = pp * dp * mp
                ranks = None if world <= 12 else set(rng.sample(range(world), 5))
                run_topo(ctx, lines, pend, pp, dp, mp, rng, ranks)
    ctx.exhaustive = True
    ctx.notes.append(f'every (pipe,data,model) with product ≤ {N} enumerated; cost dictionaries random')
    for (case, il), mo in zip(pend, ctx.model.ask(lines)):
        ctx.compare('neox-queries', case, mo, il)


def search(ctx):
    pass


def replay(ctx, payload):
    if STUBS not in sys.path:
        sys.path.insert(0, STUBS)
    from deepspeed.runtime.pipe.topology import PipeModelDataParallelTopology
    c = payload.get('case', {})
    pp, dp, mp, works = c['pp'], c['dp'], c['mp'], c['works']
    topo = PipeModelDataParallelTopology(num_pp=pp, num_mp=mp, num_dp=dp)
    objs, calls = [], []
    try:
        for loc in range(pp * dp * mp):
            a, cs = build(topo, loc, works[topo.get_coord(loc).pipe])
            objs.append(a)
            calls.append(cs)
        oracle(ctx, pp, dp, mp, works, objs, calls, topo)
    except Exception as e:  # noqa: BLE001
        ctx.fail(f'raised {e}', c, 'raised')
    for f in ctx.failures[:5]:
        print('replay:', f['what'])
    return bool(ctx.failures)
