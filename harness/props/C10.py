"""C10 — a step touches nothing but the gradients of registered layers."""
from __future__ import annotations

import copy
import sys
import os

import torch

RULE = ('random runnable models mixing registered Linear/Conv2d layers with unsupported parametrised layers (LayerNorm, '
        'BatchNorm with buffers, Embedding-free heads), skipped layers (regex), frozen and partially frozen layers; '
        'parameter dtypes float32/float64/bfloat16, factor/inverse dtypes, both methods, loss scaler on/off, accumulation: '
        'bit-exact snapshots of every parameter, buffer and gradient (value, shape, dtype, device, contiguity, storage '
        'identity for unregistered ones) before/after step(); K-FAC state before/after eval-mode passes; outputs and '
        'autograd gradients of a deep-copied model without K-FAC; the set of gradients that changed is compared with the '
        'write set predicted by the Lean registration model; non-trivial = ≥1 registered and ≥1 unregistered parametrised module'
        '; inputs cloned and compared (aliasing), 1x1 / single-channel / channels_last convolutions, an empty-batch iteration, float16 factors with large activations, attribute names containing wrapper prefixes; the registered set is compared with the eligible set computed from the statement; autograd gradients compared up to rounding; a Linear subclass owning a sub-layer (not a leaf), 3-d inputs with a transposition after a registered layer (non-contiguous output gradients); rank-deficient factors far larger than the damping with explicit inverses; pure float16 runs whose KL-clip statistic overflows to NaN while every gradient stays in range; float32 gradients of bfloat16/float16 weights (Tensor.grad_dtype)')
TRUSTED = [
    'Lean 4.33 kernel; axioms audited ⊆ {propext, Classical.choice, Quot.sound}',
    'hand-written models: KV.Reg (which modules are registered = the write set) and KV.Precond/KV.Spec (eval passes are no-ops)',
    'in-place aliasing inside PyTorch (views, .data, transpose_) cannot be exhibited by the model, only observed by snapshots',
]
ASSUMPTIONS = ['gradients produced by autograd are contiguous; finiteness is up to floating-point overflow']
PARTIAL = ['aliasing/view behaviour of the PyTorch runtime is observed, not modelled']


class Linear(torch.nn.Module):
    """NOT torch.nn.Linear: a user-defined layer that merely shares the class name (equalised learning rate etc.)"""

    def __init__(self, i, o):
        super().__init__()
        self.weight = torch.nn.Parameter(torch.randn(o, i) / 2)
        self.bias = torch.nn.Parameter(torch.zeros(o))

    def forward(self, x):
        return torch.nn.functional.linear(x, self.weight * 0.5, self.bias)


class GatedLinear(torch.nn.Linear):
    """a torch.nn.Linear subclass that is NOT a leaf: it owns a sub-layer (only the sub-layer is eligible)"""

    def __init__(self, i, o):
        super().__init__(i, o)
        self.gate = torch.nn.Linear(i, o)

    def forward(self, x):
        return torch.nn.functional.linear(x, self.weight, self.bias) * torch.sigmoid(self.gate(x))


class PrunedLinear(torch.nn.Linear):
    """a leaf Linear with a fixed (frozen) pruning mask besides weight and bias: not all of its parameters require grad"""

    def __init__(self, i, o):
        super().__init__(i, o)
        self.mask = torch.nn.Parameter((torch.rand(o, i) > 0.3).to(torch.get_default_dtype()), requires_grad=False)

    def forward(self, x):
        return torch.nn.functional.linear(x, self.weight * self.mask, self.bias)


class Swap(torch.nn.Module):
    """sequence-first <-> batch-first: the layer before it receives a transposed (non-contiguous) output gradient"""

    def forward(self, x):
        return x.transpose(0, 1)


def gen_model(rng, dt):
    nn = torch.nn
    conv = rng.random() < 0.35
    mods = {}
    cin = rng.choice([1, 2])
    if conv:
        # incl. the shapes for which the patch unfolding is a no-op view of the live activation:
        # 1x1 unpadded bias-free kernels, a single input channel, channels_last inputs
        k = rng.choice([1, 2])
        pad = rng.choice([0, 0, 1])
        cout = rng.choice([1, 3])       # a single output channel: reshaping the output gradient is a view, not a copy
        big_map = rng.random() < 0.15
        if big_map:
            cout = 1                    # (keeps the following Linear layer's A factor small enough to decompose quickly)
        mods['conv'] = nn.Conv2d(cin, cout, k, padding=pad, bias=rng.random() < 0.5)
        mods['bn'] = nn.BatchNorm2d(cout)
        if rng.random() < 0.5:
            mods['conv2'] = nn.Conv2d(cout, cout, 1, bias=False)
        mods['act0'] = nn.ReLU()
        mods['flat'] = nn.Flatten()
        # sometimes a feature map with more than 1024 output positions (any sub-sampling / chunking threshold)
        side = 34 if big_map else 4
        feat = cout * (side + 2 * pad - k + 1) ** 2
    else:
        feat = 4
    mods['fc1'] = nn.Linear(feat, 5, bias=rng.random() < 0.7)
    seq = (not conv) and rng.random() < 0.35
    if seq:
        mods['swap'] = Swap()
    mods['norm'] = nn.LayerNorm(5)
    mods['act1'] = nn.Tanh()
    mods['drop'] = nn.Dropout(0.3)      # consumes the global RNG in training mode: K-FAC's hooks must not shift that stream
    mods['skipme'] = nn.Linear(5, 5)
    # a skipped sub-tree whose attribute name contains a model-wrapper prefix ('module.') without being a wrapper
    adapter = nn.Sequential()
    adapter.add_module('fc', nn.Linear(5, 5))
    mods['adapter_module'] = adapter
    mods['frozen'] = nn.Linear(5, 5)
    mods['partly'] = nn.Linear(5, 4)
    if rng.random() < 0.4:
        mods['eqlr'] = Linear(4, 4)        # unsupported module named like a supported one
    if rng.random() < 0.4:
        mods['pruned'] = PrunedLinear(4, 4)  # partially frozen through an extra parameter: outside the write set
    if rng.random() < 0.4:
        mods['gated'] = GatedLinear(4, 4)  # supported type, but not a leaf: its own weight/bias are outside the write set
    mods['head'] = nn.Linear(4, 3, bias=rng.random() < 0.7)
    order = list(mods)
    m = nn.Sequential()
    for k in order:
        m.add_module(k, mods[k])
    for p in m.frozen.parameters():
        p.requires_grad_(False)
    m.partly.bias.requires_grad_(False)
    m = m.to(dt)
    x = torch.randn(6, cin, side, side) if conv else (torch.randn(6, 3, 4) if seq else torch.randn(6, 4))
    if conv and rng.random() < 0.4:
        x = x.contiguous(memory_format=torch.channels_last)
    return m, x.to(dt), ['skip', rng.choice([r'adapter_module', r'^adapter_module\.fc$', r'_module\.'])]


def snap_model(m):
    out = {}
    for n, p in m.named_parameters():
        out[('param', n)] = p.detach().clone()
        out[('grad', n)] = None if p.grad is None else (p.grad.detach().clone(), p.grad.dtype, tuple(p.grad.shape),
                                                         p.grad.device, p.grad.is_contiguous(), p.grad.data_ptr())
    for n, b in m.named_buffers():
        out[('buffer', n)] = b.detach().clone()
    return out


def kfac_state(p):
    st = {'steps': p.steps, 'mini': dict(p._mini_steps)}
    for name, l in p._layers.values():
        for k, v in vars(l).items():
            if isinstance(v, torch.Tensor):
                st[(name, k)] = v.detach().clone()
            elif k in ('_a_count', '_g_count') or v is None:
                st[(name, k)] = v
    return st


def same_state(a, b):
    if a.keys() != b.keys():
        return False
    for k in a:
        x, y = a[k], b[k]
        if isinstance(x, torch.Tensor):
            if not isinstance(y, torch.Tensor) or x.dtype != y.dtype or x.shape != y.shape or not torch.equal(x, y):
                return False
        elif x != y:
            return False
    return True


def run(ctx):
    sys.path.insert(0, os.path.dirname(os.path.abspath(__file__)))
    import C16 as reg
    from kfac.preconditioner import KFACPreconditioner
    rng = ctx.rng
    lines, pend = [], []
    for it in range(ctx.budget(60, 600)):
        dt = rng.choice([torch.float32, torch.float32, torch.float64, torch.bfloat16])
        torch.manual_seed(rng.randrange(10**6))
        m, x, skip = gen_model(rng, dt)
        twin = copy.deepcopy(m)
        method = rng.choice(['eigen', 'inverse'])
        scaler = rng.choice([None, None, 1024.0])
        accum = rng.choice([1, 1, 2])
        fdt = rng.choice([None, torch.float32, torch.float64])
        conv_model = x.dim() == 4
        big = (not conv_model) and dt == torch.float32 and rng.random() < 0.3
        if big:
            # large but finite activations with half-precision factors: the second moment a^T (a / rows) is
            # representable although the un-normalised sum a^T a is not
            fdt = torch.float16
            x = torch.where(x >= 0, torch.ones_like(x), -torch.ones_like(x)) * 150.0
        empty_first = (not conv_model) and rng.random() < 0.3
        no_clip = rng.random() < 0.3
        case = {'dtype': str(dt), 'method': method, 'scaler': scaler, 'accum': accum, 'factor_dtype': str(fdt),
                'large_activations_fp16_factors': big, 'empty_batch_first': empty_first, 'kl_clip_none': no_clip,
                'channels_last': bool(conv_model and not x.is_contiguous()),
                'modules': [type(c).__name__ for c in m], 'bias': [getattr(c, 'bias', None) is not None for c in m]}
        try:
            p = KFACPreconditioner(m, skip_layers=skip, compute_method=method, accumulation_steps=accum,
                                   grad_scaler=(None if scaler is None else (lambda s=scaler: s)), factor_dtype=fdt,
                                   compute_eigenvalue_outer_product=(method == 'eigen' and rng.random() < 0.5),
                                   damping=0.05, inv_dtype=rng.choice([torch.float32, torch.float64]),
                                   **({'kl_clip': None} if no_clip else {}))
            registered = {n for n, _ in p._layers.values()}
            # the layers the statement allows a step to touch, computed from the statement (not from the implementation)
            eligible = {n for n, _ in reg.independent_walk(m, skip, False)}
            if registered != eligible:
                ctx.fail(f'registered layers {sorted(registered)} differ from the eligible ones {sorted(eligible)} '
                         f'(skip patterns {skip}): step() will rewrite gradients outside / leave gradients inside the registered set',
                         case, 'write-set-statement')
            if empty_first:
                # an iteration in which the layers see no samples at all (e.g. an expert that got no tokens):
                # all inputs are (vacuously) finite, the gradients are zero
                for mb in range(accum):
                    m(x[:0]).float().sum().backward()
                p.step()
                m.zero_grad()
                for q in m.parameters():
                    if q.grad is not None and not torch.isfinite(q.grad.float()).all():
                        ctx.fail('gradient not finite after an empty-batch iteration', case, 'grad-nonfinite')
            # ---- registering K-FAC does not change outputs or autograd gradients
            for mb in range(accum):
                x1, x2 = x.clone(memory_format=torch.preserve_format), x.clone(memory_format=torch.preserve_format)
                fw_seed = rng.randrange(10**6)
                torch.manual_seed(fw_seed)
                y1 = m(x1)
                torch.manual_seed(fw_seed)
                y2 = twin(x2)
                if not torch.equal(x1, x):
                    ctx.fail('the forward hook changed the input of the model in place', case, 'input-changed')
                if not torch.equal(y1, y2):
                    ctx.fail('model output changed by registering K-FAC', case, 'output-changed')
                sc = 1.0 if scaler is None else scaler
                (y1.float().pow(2).mean() * sc).backward()
                (y2.float().pow(2).mean() * sc).backward()
            # (a registered full backward hook may hand the layer its output gradient in another memory format, so the
            # summation order inside PyTorch's kernels — not the value — may change: compare up to rounding)
            gtol = {torch.float64: 1e-11, torch.float32: 1e-4, torch.bfloat16: 0.2}[dt]

            # relative to the largest gradient entry of the model: gradients that are mathematically zero (a bias in front
            # of a normalisation layer) consist of rounding noise only
            gscale = max([q.grad.float().abs().max().item() for q in twin.parameters() if q.grad is not None and q.grad.numel()] + [1e-30])

            def close(a, b):
                return a.shape == b.shape and a.dtype == b.dtype and \
                    (a.float() - b.float()).abs().max().item() <= gtol * gscale
            for (n1, p1), (n2, p2) in zip(m.named_parameters(), twin.named_parameters()):
                if (p1.grad is None) != (p2.grad is None) or (p1.grad is not None and not close(p1.grad, p2.grad)):
                    ctx.fail(f'autograd gradient of {n1} changed by registering K-FAC', case, 'autograd-changed')
                    break
            # ---- the step
            before = snap_model(m)
            p.step()
            after = snap_model(m)
            changed = set()
            for k in before:
                kind, name = k
                b, a = before[k], after[k]
                if kind in ('param', 'buffer'):
                    if not torch.equal(b, a) or b.dtype != a.dtype:
                        ctx.fail(f'step() changed {kind} {name}', case, 'param-or-buffer-changed')
                else:
                    mod = name.rsplit('.', 1)[0]
                    if b is None or a is None:
                        if (b is None) != (a is None):
                            ctx.fail(f'step() created/removed the gradient of {name}', case, 'grad-created')
                        continue
                    if mod in registered:
                        if a[1] != b[1] or a[2] != b[2] or a[3] != b[3] or not a[4]:
                            ctx.fail(f'registered gradient {name}: dtype/shape/device/contiguity {a[1:5]} vs {b[1:5]}', case, 'grad-meta')
                        if not torch.isfinite(a[0].float()).all():
                            ctx.fail(f'registered gradient {name} is not finite', case, 'grad-nonfinite')
                        if not torch.equal(a[0], b[0]):
                            changed.add(mod)
                    else:
                        if not torch.equal(a[0], b[0]) or a[5] != b[5] or a[1] != b[1]:
                            ctx.fail(f'step() touched the gradient of unregistered {name}', case, 'unregistered-grad-changed')
            # ---- eval-mode passes leave all K-FAC state unchanged
            st0 = kfac_state(p)
            m.eval()
            for _ in range(rng.randrange(1, 4)):
                m(x).float().pow(2).mean().backward()
            m.train()
            if not same_state(st0, kfac_state(p)):
                ctx.fail('eval-mode forward/backward changed K-FAC state', case, 'eval-changed-state')
            # ---- write set vs the Lean registration model
            tree, ids, names, clsnames = reg.encode(m)
            lines.append(f'register neox=0 tree={tree} tbl={reg.tbl_str(names | clsnames, skip)}')
            pend.append((case, sorted(registered), sorted(changed)))
        except Exception as e:  # noqa: BLE001
            ctx.fail(f'run raised {type(e).__name__}: {e}', case, 'raised')
            continue
        ctx.case(str(case) + str(it), nontrivial=True, sample=case)
        ctx.count(str(dt).split('.')[-1])
        ctx.count(method)
    overflow_stream(ctx)
    rank_deficient_stream(ctx)
    grad_dtype_stream(ctx)
    receiver_stream(ctx)
    for (case, registered, changed), mo in zip(pend, ctx.model.ask(lines)):
        if mo is None:
            continue
        regm = sorted(x.split(':')[0] for x in mo.split(' ')[0][4:].split(',') if x)
        ctx.compare('write-set', case, str(regm), str(registered))
        # every gradient that changed belongs to the predicted write set
        ctx.compare('write-set-changed', case, 'subset', 'subset' if set(changed) <= set(regm) else f'changed {changed}')


def overflow_stream(ctx):
    """pure float16 models with stale second-order data and a loss spike: the raw and the preconditioned gradients stay far
    inside the float16 range while the element-wise products entering the KL-clip statistic overflow with both signs (the
    statistic is NaN).  Finite inputs must give finite gradients (the statement's last clause on registered gradients)."""
    from kfac.preconditioner import KFACPreconditioner
    rng = ctx.rng
    hit = 0
    for it in range(ctx.budget(12, 80)):
        seed = rng.randrange(10**6)
        torch.manual_seed(seed)
        hid = rng.choice([6, 8, 10])
        m = torch.nn.Sequential(torch.nn.Linear(6, hid), torch.nn.Tanh(), torch.nn.Linear(hid, 4)).half()
        spike = rng.choice([300.0, 1000.0, 1000.0, 3000.0])
        method = rng.choice(['eigen', 'eigen', 'inverse'])
        case = {'stream': 'overflow', 'seed': seed, 'hidden': hid, 'spike': spike, 'method': method}
        try:
            p = KFACPreconditioner(m, factor_update_steps=5, inv_update_steps=5, factor_decay=0.05, damping=0.001, kl_clip=0.001,
                                   lr=0.1, factor_dtype=torch.float32, compute_method=method)
            for step, ls in enumerate([1.0, spike]):
                base = torch.randn(16, 1)
                x = (base + 0.05 * torch.randn(16, 6)).half()
                y = torch.randn(16, 4).half()
                m.zero_grad()
                (((m(x) - y) ** 2).mean() * ls).backward()
                raw = [q.grad.detach().clone() for q in m.parameters()]
                fin_in = all(torch.isfinite(g).all().item() for g in raw)
                vmax, nan_stat = 0.0, False
                if step == 1:
                    # the unclipped preconditioned gradients with the (stale) second-order data of step 0
                    for _, lay in p._layers.values():
                        lay.preconditioned_grad(damping=p.damping)
                        v = lay.grad
                        vmax = max(vmax, v.abs().max().item())
                        prod = v * lay.module.get_grad()
                        nan_stat = nan_stat or bool(torch.isinf(prod).any().item())
                        lay.grad = None
                p.step()
                if step == 1:
                    hit += int(nan_stat)
                    ctx.count('overflowing-statistic' if nan_stat else 'ordinary-statistic')
                    if fin_in and vmax < 30000.0:
                        for n_, q in m.named_parameters():
                            if not torch.isfinite(q.grad).all().item():
                                ctx.fail(f'gradient of {n_} is not finite after step() although the raw gradients (max {max(g.abs().max().item() for g in raw):.4g}) '
                                         f'and the unclipped preconditioned gradients (max {vmax:.4g}) are finite and inside the float16 range',
                                         case, 'fp16-nonfinite')
                                break
                        ctx.evaluations += 1
        except Exception as e:  # noqa: BLE001
            ctx.fail(f'float16 run raised {type(e).__name__}: {e}', case, 'fp16-raised')
            continue
        ctx.case(str(case), nontrivial=True, sample=case)
    ctx.count(f'overflow-cases-with-NaN-statistic={hit}')


def rank_deficient_stream(ctx):
    """explicit inverses of rank-deficient factors that are huge next to the damping (raw 0..255 features, a batch smaller
    than the layer width, the library's own exp_decay_factor_averaging() schedule, which starts at 0): finite inputs, so
    the step completes and the registered gradients are finite"""
    from kfac.hyperparams import exp_decay_factor_averaging
    from kfac.preconditioner import KFACPreconditioner
    rng = ctx.rng
    for it in range(ctx.budget(8, 60)):
        seed = rng.randrange(10**6)
        torch.manual_seed(seed)
        width = rng.choice([12, 16, 24])
        batch = rng.choice([2, 4, 6])
        method = rng.choice(['inverse', 'inverse', 'eigen'])
        case = {'stream': 'rank-deficient', 'seed': seed, 'width': width, 'batch': batch, 'method': method}
        try:
            m = torch.nn.Sequential(torch.nn.Linear(width, width), torch.nn.ReLU(), torch.nn.Linear(width, 3))
            p = KFACPreconditioner(m, compute_method=method, factor_decay=exp_decay_factor_averaging(), damping=0.001, kl_clip=0.001, lr=0.1)
            for step in range(3):
                x = torch.randint(0, 256, (batch, width)).float()
                m.zero_grad()
                m(x).pow(2).mean().backward()
                fin = all(torch.isfinite(q.grad).all().item() for q in m.parameters())
                p.step()
                if fin and not all(torch.isfinite(q.grad).all().item() for q in m.parameters()):
                    ctx.fail(f'step {step}: a registered gradient is not finite although the inputs were', case, 'rank-deficient-nonfinite')
                    break
            ctx.evaluations += 1
        except Exception as e:  # noqa: BLE001
            # a damped factor that is singular to working precision cannot be inverted by anybody: the step may give up on it.
            # It is a failure only if the plain inverse of every damped factor (float32, as the library computes it) exists.
            invertible = True
            try:
                for _, lay in p._layers.values():
                    for f_ in (lay.a_factor, lay.g_factor):
                        if f_ is not None:
                            torch.linalg.inv(f_.to(torch.float32) + 0.001 * torch.eye(f_.shape[0]))
            except Exception:  # noqa: BLE001
                invertible = False
            if invertible:
                ctx.fail(f'step on finite inputs raised {type(e).__name__}: {str(e).splitlines()[0][:200]} although every damped factor has a '
                         'float32 inverse', case, 'rank-deficient-raised')
            else:
                ctx.count('rank-deficient-singular-to-working-precision')
            continue
        ctx.case(str(case), nontrivial=True, sample=case)
        ctx.count('rank-deficient-' + method)


def grad_dtype_stream(ctx):
    """gradient dtype different from the parameter dtype (Tensor.grad_dtype: bfloat16/float16 weights with float32 gradients,
    either produced by autograd or installed by the training loop as `main' gradients): the written gradient keeps the dtype
    of the gradient that was there, unregistered gradients are untouched"""
    from kfac.preconditioner import KFACPreconditioner
    if not hasattr(torch.Tensor, 'grad_dtype'):
        ctx.count('grad_dtype-unsupported-by-this-torch')
        return
    rng = ctx.rng
    for it in range(ctx.budget(12, 80)):
        seed = rng.randrange(10**6)
        torch.manual_seed(seed)
        pdt = rng.choice([torch.bfloat16, torch.bfloat16, torch.float16])
        variant = rng.choice(['autograd', 'installed'])
        method = rng.choice(['eigen', 'inverse'])
        kl = rng.choice([0.001, None])
        case = {'stream': 'grad_dtype', 'seed': seed, 'param_dtype': str(pdt), 'variant': variant, 'method': method, 'kl_clip': kl}
        try:
            hid = rng.choice([4, 8])
            m = torch.nn.Sequential(torch.nn.Linear(6, hid, bias=rng.random() < 0.7), torch.nn.Tanh(),
                                    torch.nn.Linear(hid, 4, bias=rng.random() < 0.5), torch.nn.LayerNorm(4)).to(pdt)
            for q in m.parameters():
                q.grad_dtype = torch.float32 if variant == 'autograd' else None
            p = KFACPreconditioner(m, compute_method=method, factor_dtype=torch.float32, inv_dtype=torch.float32, kl_clip=kl)
            x = torch.randn(16, 6).to(pdt)
            y = torch.randn(16, 4).to(pdt)
            ((m(x) - y) ** 2).mean().backward()
            if variant == 'installed':
                for q in m.parameters():
                    q.grad = q.grad.to(torch.float32)
            before = {n_: q.grad.detach().clone() for n_, q in m.named_parameters()}
            weights = {n_: q.detach().clone() for n_, q in m.named_parameters()}
            registered = {f'{name}.{pn}' for module, (name, _) in p._layers.items() for pn, _ in module.named_parameters()}
            p.step()
            for n_, q in m.named_parameters():
                g = q.grad
                if not torch.equal(q.detach(), weights[n_]):
                    ctx.fail(f'parameter {n_} changed', case, 'gd-param-changed')
                if n_ not in registered:
                    if g.dtype != before[n_].dtype or not torch.equal(g, before[n_]):
                        ctx.fail(f'unregistered gradient {n_} was touched', case, 'gd-unregistered')
                    continue
                if g.dtype != before[n_].dtype or g.shape != before[n_].shape or not g.is_contiguous() or g.device != before[n_].device:
                    ctx.fail(f'gradient of {n_}: dtype/shape/contiguity {before[n_].dtype}{tuple(before[n_].shape)} -> {g.dtype}{tuple(g.shape)}'
                             f' contiguous={g.is_contiguous()}', case, 'gd-meta')
                if not torch.isfinite(g).all().item():
                    ctx.fail(f'gradient of {n_} is not finite', case, 'gd-nonfinite')
            ctx.evaluations += 1
        except Exception as e:  # noqa: BLE001
            ctx.fail(f'step with float32 gradients of {pdt} weights raised {type(e).__name__}: {str(e).splitlines()[0][:200]}', case, 'gd-raised')
            continue
        ctx.case(str(case), nontrivial=True, sample=case)
        ctx.count('grad_dtype-' + variant)


def receiver_stream(ctx):
    """several ranks, MEM-OPT / HYBRID-OPT: on a rank that only RECEIVES a layer's preconditioned gradient the step still
    touches nothing but the registered gradients, and those keep dtype, shape, device and contiguity — also when the
    parameter dtype differs from inv_dtype (float64 / bfloat16 model with float32 inverses; C10-mutU allocated the receive
    buffer in inv_dtype)"""
    import simdist
    from kfac.preconditioner import KFACPreconditioner
    rng = ctx.rng
    for trial in range(ctx.budget(6, 30)):
        world = rng.choice([2, 3, 4])
        frac = rng.choice([0.0] + ([0.5] if world == 4 else []))
        pdt = rng.choice([torch.float64, torch.bfloat16, torch.float32])
        idt = rng.choice([torch.float32, torch.float64]) if pdt is not torch.float32 else torch.float64
        method = rng.choice(['eigen', 'inverse'])
        bias = rng.random() < 0.7
        seed = ctx.seed * 733 + trial
        case = {'stream': 'receiver', 'world': world, 'grad_worker_fraction': frac, 'param_dtype': str(pdt), 'inv_dtype': str(idt),
                'method': method, 'bias': bias, 'seed': seed}

        def prog(rank, pdt=pdt, idt=idt, frac=frac, method=method, bias=bias, seed=seed):
            torch.manual_seed(seed)
            m = torch.nn.Sequential(torch.nn.Linear(4, 3, bias=bias), torch.nn.Tanh(), torch.nn.Linear(3, 2, bias=bias)).to(pdt)
            extra = torch.nn.Parameter(torch.ones(2, dtype=pdt))
            p = KFACPreconditioner(m, compute_method=method, grad_worker_fraction=frac, inv_dtype=idt, factor_dtype=torch.float32,
                                   kl_clip=rng_kl, damping=0.05, lr=0.1)
            out = []
            for it in range(2):
                for q in list(m.parameters()) + [extra]:
                    q.grad = None
                torch.manual_seed(seed + 17 * it + rank)
                x = torch.randn(5, 4).to(pdt)
                ((m(x).float() ** 2).sum() + (extra.float() ** 2).sum()).backward()
                before = {n_: (q.grad.dtype, tuple(q.grad.shape), q.grad.device, q.data.clone()) for n_, q in m.named_parameters()}
                eb = extra.grad.clone()
                try:
                    p.step()
                except Exception as e:  # noqa: BLE001
                    out.append(f'step raised {type(e).__name__}: {str(e)[:120]}')
                    raise
                for n_, q in m.named_parameters():
                    g = q.grad
                    if g is None or (g.dtype, tuple(g.shape), g.device) != before[n_][:3] or not g.is_contiguous():
                        out.append(f'iteration {it}: gradient of {n_} {before[n_][:2]} -> {None if g is None else (g.dtype, tuple(g.shape), g.is_contiguous())}')
                    if not torch.equal(q.data, before[n_][3]):
                        out.append(f'iteration {it}: parameter {n_} changed')
                if not torch.equal(extra.grad, eb):
                    out.append(f'iteration {it}: gradient of an unregistered parameter changed')
            return out
        rng_kl = rng.choice([None, 0.001])
        wd, res = simdist.run_world(world, prog, seed=seed, stickiness=rng.choice([0.0, 0.5, 0.9]))
        if wd.stalled or wd.errors or wd.exceptions:
            ctx.fail(f'step on {world} ranks with grad_worker_fraction={frac}, {pdt} parameters and {idt} inverses failed: stalled={wd.stalled} '
                     f'errors={wd.errors[:1]} exceptions={dict(list(wd.exceptions.items())[:1])}', case, 'receiver-run')
            continue
        for rank in range(world):
            if res[rank]:
                ctx.fail(f'rank {rank} of {world} (grad_worker_fraction={frac}): {res[rank][0]}', case, 'receiver-frame')
                break
        ctx.evaluations += 1
        ctx.case(('receiver', world, frac, str(pdt), str(idt), method, bias), nontrivial=True)
        ctx.count('receiver-' + str(pdt).split('.')[-1])


def search(ctx):
    pass


def replay(ctx, payload):
    run(ctx)
    for f in ctx.failures[:5]:
        print('replay:', f['what'])
    return bool(ctx.failures)
