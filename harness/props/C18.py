"""C18 — GPT-NeoX checkpoints gather and restore every layer factor."""
from __future__ import annotations

import os
import shutil

import torch

import neoxsim

RULE = ('random (pipe, data, model) topologies with product ≤ 12, 1–2 blocks per stage, checkpoint after a PRNG-chosen '
        'iteration, in-memory and directory mode, compute_inverses on/off: on every rank the saved state is compared '
        'with the factors held by each layer\'s inverse worker; after load the holders (factor workers) and their '
        'second-order data are checked; files on disk are listed and read back; the trace matcher checks that all ranks '
        'take part in the same collectives; every rank\'s issued collectives (training, steps, object gather and barriers of save/load) are compared exactly with the projection of the Lean script KV.NeoxS; continued gradients are compared with the unsharded reference implementing '
        'the C09 load semantics (model-parallel degree 1; degree > 1 is known finding F2); non-trivial = ≥2 ranks'
        '; float32 inverses with float64 factors; in-place roll-back histories (checkpoint, train, checkpoint, load the first into the same object, train, checkpoint at the same step count) with the truth recomputed per checkpoint; checkpoints right after a step that refreshed factors but not eigendecompositions; uneven pipeline splits (18 and 2 layers per stage); several inverse workers saving into one directory with file-system calls as scheduling points')
TRUSTED = [
    'Lean 4.33 kernel; axioms audited ⊆ {propext, Classical.choice, Quot.sound}',
    'hand-written models KV.NeoxCkpt (gather/merge/restore bookkeeping) and KV.Neox (assignment, C12)',
    'DeepSpeed topology/PipelineModule stub (layers registered under their global index), mock parallel linears, simdist',
]
ASSUMPTIONS = ['torch.save/torch.load round-trip tensors exactly']
PARTIAL = ['resume equivalence is checked/proved for model-parallel degree 1; for degree > 1 replicated factors are '
           'restored only on factor workers (finding F2)', 'stub topology']
TOL = 5e-3
SCRIPT_PEND = []


def check_case(ctx, cfg, seed):
    case = dict(cfg.describe(), sched_seed=seed)
    if cfg.ckpt_dir:
        shutil.rmtree(cfg.ckpt_dir, ignore_errors=True)
    rr = neoxsim.run_real(cfg, seed)
    f = neoxsim.run_failed(rr)
    if f:
        ctx.fail(f'run with a checkpoint failed: {f}', case, 'neox-ckpt-run-failed')
        return
    import kfacsim

    class W:
        pass
    wcfg = W()
    wcfg.world = cfg.world
    wcfg.describe = lambda: case
    kfacsim.oracle_trace(ctx, wcfg, rr, key_prefix='neox-ckpt-trace')
    line = neoxsim.script_line(cfg, rr)
    if line is not None:
        SCRIPT_PEND.append((case, line, [neoxsim.impl_issues(rr, r) for r in range(cfg.world)]))
    W_ = cfg.world
    # who holds what: the truth is each layer's factors on its inverse worker at save time
    ci = next(i for i, o in enumerate(cfg.ops) if o in ('v', 'l1', 'l0'))
    truth = {}
    for r in range(W_):
        res = rr.res[r]
        last_s = max(i for i, o in enumerate(cfg.ops[:ci]) if o == 's')
        for l, (name, iw) in enumerate(zip(res['names'], res['inv'])):
            if iw == r:
                truth[name] = res['ops'][last_s]['factors'][l]
    nlayers_world = sum(2 * neoxsim.blocks_of(cfg, q) for q in range(cfg.pp) if q != getattr(cfg, 'empty_stage', None))
    if len(truth) != nlayers_world:
        ctx.fail(f'{len(truth)} layers have an inverse worker, expected {nlayers_world}', case, 'neox-inv-workers')
        return
    for r in range(W_):
        rec = rr.res[r]['ops'][ci]
        if cfg.ckpt_dir is None:
            got = rec['state_layers']
            if got is None or sorted(got) != sorted(truth):
                ctx.fail(f'rank {r}: saved state holds layers {None if got is None else sorted(got)}, the world has {sorted(truth)}',
                         case, 'neox-gather-incomplete')
                return
            for name, (A, G) in got.items():
                if not (torch.equal(A, truth[name][0]) and torch.equal(G, truth[name][1])):
                    ctx.fail(f'rank {r}: saved factors of layer {name} differ from those held by its inverse worker', case, 'neox-gather-wrong')
                    return
        else:
            if 'layers' in rec['state_keys']:
                ctx.fail('directory mode: factors also placed in the returned state', case, 'neox-dir-state')
            files = sorted(os.listdir(cfg.ckpt_dir)) if os.path.isdir(cfg.ckpt_dir) else []
            if files != sorted(truth):
                ctx.fail(f'directory mode: files {files} but layers {sorted(truth)}', case, 'neox-dir-files')
                return
    if cfg.ckpt_dir is not None and not any(o in ('v', 'l1', 'l0') for o in cfg.ops[ci + 1:]):
        # (read back after the run: only meaningful when no later checkpoint rewrote the files; that case is checked below)
        for name, (A, G) in truth.items():
            sd = torch.load(os.path.join(cfg.ckpt_dir, name))
            if not (isinstance(sd.get('A'), torch.Tensor) and isinstance(sd.get('G'), torch.Tensor) and torch.equal(sd['A'], A) and torch.equal(sd['G'], G)):
                ctx.fail(f'directory mode: file of layer {name} differs from the inverse worker\'s factors', case, 'neox-dir-content')
    # a later checkpoint into the same directory replaces the files: after the LAST save they hold what the inverse workers
    # held at that moment (not what an earlier checkpoint wrote)
    vs = [i for i, o in enumerate(cfg.ops) if o == 'v']
    if cfg.ckpt_dir is not None and len(vs) >= 2 and all(o in ('f1', 's', 'v') for o in cfg.ops):
        li_ = vs[-1]
        last_s2 = max(i for i, o in enumerate(cfg.ops[:li_]) if o == 's')
        for r in range(W_):
            res = rr.res[r]
            for l, (name, iw) in enumerate(zip(res['names'], res['inv'])):
                if iw == r:
                    A, G = res['ops'][last_s2]['factors'][l]
                    try:
                        sd = torch.load(os.path.join(cfg.ckpt_dir, name))
                        okf = torch.equal(sd['A'], A) and torch.equal(sd['G'], G)
                    except Exception:  # noqa: BLE001
                        okf = False
                    if not okf:
                        ctx.fail(f'after the second checkpoint into the directory the file of layer {name} does not hold the factors its inverse '
                                 'worker held at that moment (stale or missing)', case, 'neox-dir-stale')
                        return
    # restore: factor workers hold the saved factors (+ second-order data when asked)
    if cfg.ops[ci] in ('l1', 'l0'):
        for r in range(W_):
            fb = rr.res[r]['ops'][ci].get('file_backed')
            if fb:
                ctx.fail(f'rank {r}: after the load the factors of layers {sorted(set(fb))} are memory-mapped views of the checkpoint files; '
                         'the next save into the directory rewrites those files under the preconditioner', case, 'neox-restore-file-backed')
                return
        for r in range(W_):
            res = rr.res[r]
            rec = res['ops'][ci]
            for l, (name, fw) in enumerate(zip(res['names'], res['fw'])):
                A, G, so = rec['held'][l]
                if fw == r:
                    if not (isinstance(A, torch.Tensor) and A.dtype == truth[name][0].dtype and G.dtype == truth[name][1].dtype
                            and torch.equal(A, truth[name][0]) and torch.equal(G, truth[name][1])):
                        ctx.fail(f'factor worker {r} of layer {name} does not hold the saved factors after load', case, 'neox-restore')
                        return
                    if (cfg.ops[ci] == 'l1') != so:
                        ctx.fail(f'factor worker {r} of layer {name}: second-order data {"missing" if not so else "computed"} '
                                 f'with compute_inverses={cfg.ops[ci] == "l1"}', case, 'neox-restore-inverses')
                        return
        # resume as in C09
        ref = neoxsim.reference(cfg)
        bad = None
        for r in range(W_):
            res = rr.res[r]
            p, d, m = res['coord']
            si = 0
            for oi, rec in enumerate(res['ops']):
                if rec['op'] != 's':
                    continue
                facs, V, D = ref[p][si]
                si += 1
                if oi < ci:
                    continue
                for l, (kind, (wg, bg)) in enumerate(zip(res['kinds'], rec['grads'])):
                    ws, bs = neoxsim.shard_of(cfg, kind, bg is not None, V[l], m)
                    e = neoxsim.relerr(wg, ws)
                    if e > TOL and bad is None:
                        bad = (r, l, e)
        if bad is not None:
            r, l, e = bad
            if cfg.mp > 1:
                ctx.fail(f'resumed run differs from the uninterrupted/recomputed reference (rank {r}, layer {l}, {e:.2e}) '
                         'with model-parallel degree > 1', case, 'neox-resume-mp>1')
            else:
                ctx.fail(f'resumed run differs from the reference (rank {r}, layer {l}, relerr {e:.2e})', case, 'neox-resume')
    # bookkeeping correspondence with the Lean checkpoint model (KV.NeoxL.merged/partition/restores)
    inv = {}
    for r in range(W_):
        for n_, iw in zip(rr.res[r]['names'], rr.res[r]['inv']):
            inv[n_] = iw
    line = (f'neoxckpt world={W_} dir={int(cfg.ckpt_dir is not None)} layers=' + ';'.join(','.join(rr.res[r]['names']) for r in range(W_))
            + ' inv=' + ','.join(f'{k}={v}' for k, v in inv.items())
            + ' fw=' + ';'.join(','.join(f'{n_}={f_}' for n_, f_ in zip(rr.res[r]['names'], rr.res[r]['fw'])) for r in range(W_)))
    mo = ctx.model.ask([line])[0]
    if mo is not None:
        rec0 = rr.res[0]['ops'][ci]
        keys = sorted(rec0['state_layers']) if rec0.get('state_layers') is not None else (sorted(os.listdir(cfg.ckpt_dir)) if cfg.ckpt_dir and os.path.isdir(cfg.ckpt_dir) else [])
        impl = 'merged=' + ','.join(keys)
        for r in range(W_):
            rec = rr.res[r]['ops'][ci]
            part = [n_ for n_, iw in zip(rr.res[r]['names'], rr.res[r]['inv']) if iw == r]
            if cfg.ops[ci] in ('l1', 'l0'):
                rest = [n_ for n_, h in zip(rr.res[r]['names'], rec['held']) if isinstance(h[0], torch.Tensor)]
            else:
                rest = [n_ for n_, f_ in zip(rr.res[r]['names'], rr.res[r]['fw']) if f_ == r]
            impl += f' r{r}:part={",".join(part)}:restores={",".join(rest)}'
        mo_cmp = mo.split(' save=')[0]
        ctx.compare('neox-ckpt-bookkeeping', case, mo_cmp, impl)
        # value level (KV.NeoxL.mergedVal / loadVal): whose value the state holds for every key, and what every (rank, layer)
        # holds after the load — provenance read off the real tensors (bitwise), "n@r" = what rank r held for n at the save
        if ' vals=' in mo and ' after=' in mo:
            mo_vals = mo.split(' vals=')[1].split(' after=')[0]
            mo_after = mo.split(' after=')[1]
            at_save = {}
            for r in range(W_):
                for l, n_ in enumerate(rr.res[r]['names']):
                    at_save[(r, n_)] = rr.res[r]['ops'][last_s]['factors'][l]

            def prov(n_, A, G):
                cands = [inv.get(n_)] + [r for r in range(W_) if r != inv.get(n_)]
                for r in cands:
                    h = at_save.get((r, n_))
                    if h is not None and isinstance(h[0], torch.Tensor) and isinstance(A, torch.Tensor) and h[0].shape == A.shape \
                            and torch.equal(h[0], A) and torch.equal(h[1], G):
                        return f'{n_}@{r}'
                return f'{n_}@?'
            if rec0.get('state_layers') is not None:
                for r in range(W_):
                    got = rr.res[r]['ops'][ci]['state_layers'] or {}
                    ctx.compare('neox-ckpt-values', dict(case, rank=r), mo_vals, ','.join(prov(k, *got[k]) for k in sorted(got)))
            elif cfg.ckpt_dir is not None and not any(o in ('v', 'l1', 'l0') for o in cfg.ops[ci + 1:]) and os.path.isdir(cfg.ckpt_dir):
                # directory mode: one file per layer, written by the layer's inverse worker — the same data flow with the
                # directory in the place of the gathered dict (read back after the run; no later checkpoint rewrote the files)
                got = {}
                for k in sorted(os.listdir(cfg.ckpt_dir)):
                    try:
                        sd = torch.load(os.path.join(cfg.ckpt_dir, k))
                        got[k] = (sd['A'], sd['G'])
                    except Exception:  # noqa: BLE001
                        got[k] = (None, None)
                ctx.compare('neox-ckpt-values', dict(case, mode='directory'), mo_vals, ','.join(prov(k, *got[k]) for k in sorted(got)))
            if cfg.ops[ci] in ('l1', 'l0'):
                rows = []
                for r in range(W_):
                    rec = rr.res[r]['ops'][ci]
                    rows.append(','.join(f'{n_}@{r}~' if h[0] is None else prov(n_, h[0], h[1]) for n_, h in zip(rr.res[r]['names'], rec['held'])))
                ctx.compare('neox-ckpt-after-load', case, mo_after, ';'.join(rows))
    ctx.case(str(case), nontrivial=cfg.world >= 2, sample=case if cfg.world <= 4 else None)
    ctx.count(f'mp{cfg.mp}')
    ctx.count('dir' if cfg.ckpt_dir else 'memory')
    ctx.count(cfg.ops[ci])


def check_rollback(ctx, cfg, seed):
    """in-process roll-back: checkpoint, train on, checkpoint, load the first checkpoint into the SAME object, train on
    with other batches, checkpoint again at the same step count — every checkpoint holds what the inverse workers hold
    at that moment"""
    case = dict(cfg.describe(), sched_seed=seed, stream='rollback')
    rr = neoxsim.run_real(cfg, seed)
    f = neoxsim.run_failed(rr)
    if f:
        if cfg.mp > 1:
            return ctx.fail(f'roll-back run failed with model-parallel degree > 1: {f}', case, 'neox-resume-mp>1')
        return ctx.fail(f'roll-back run failed: {f}', case, 'neox-rollback-run-failed')
    line = neoxsim.script_line(cfg, rr)
    if line is not None:
        SCRIPT_PEND.append((case, line, [neoxsim.impl_issues(rr, r) for r in range(cfg.world)]))
    W_ = cfg.world
    for i, op in enumerate(cfg.ops):
        if op in ('b', 'B'):
            for r in range(W_):
                for name, e in rr.res[r]['ops'][i].get('eig_vs_factor', []):
                    # (the library decomposes in float32 whatever the factor / inverse dtypes: accuracy ~1e-6…1e-5; a stale
                    # decomposition belongs to a factor that differs by a whole running-average update)
                    if e > (1e-3 if getattr(cfg, 'inv32', False) else 1e-4):
                        return ctx.fail(f'rank {r}: after rolling back to the kept checkpoint the eigendecomposition of layer {name} '
                                        f'does not belong to the restored A factor (Q diag(d) Q^T off by {e:.2e})', case, 'neox-stale-eig')
                for name, ok in rr.res[r]['ops'][i].get('held_vs_kept', []):
                    if not ok:
                        return ctx.fail(f'rank {r}: after loading the kept checkpoint (op {i}, the {cfg.ops[:i + 1].count("b") + cfg.ops[:i + 1].count("B")}. load '
                                        f'of it) factor worker of layer {name} does not hold the factors that were saved', case, 'neox-reload')
        if op != 'v':
            continue
        last_s = max(j for j, o in enumerate(cfg.ops[:i]) if o == 's')
        truth = {}
        for r in range(W_):
            res = rr.res[r]
            for l, (name, iw) in enumerate(zip(res['names'], res['inv'])):
                if iw == r:
                    truth[name] = res['ops'][last_s]['factors'][l]
        for r in range(W_):
            got = rr.res[r]['ops'][i]['state_layers']
            if got is None or sorted(got) != sorted(truth):
                return ctx.fail(f'rank {r}: checkpoint #{i} holds layers {None if got is None else sorted(got)}', case, 'neox-gather-incomplete')
            for name, (A, G) in got.items():
                if not (torch.equal(A, truth[name][0]) and torch.equal(G, truth[name][1])):
                    return ctx.fail(f'rank {r}: checkpoint taken at op {i} (after a roll-back: {"b" in cfg.ops[:i]}) does not hold the '
                                    f'factors of layer {name} its inverse worker holds at that moment', case, 'neox-gather-stale')
    ctx.case(str(case), nontrivial=True)
    ctx.count('rollback')


def run(ctx):
    from common import OUT
    rng = ctx.rng
    n = ctx.budget(36, 360)
    corpus = [
        # F2 witness: dp=1, mp=2, save → fresh → load → continue
        dict(pp=1, dp=1, mp=2, blocks=1, fus=1, ius=1, ops=['f1', 's', 'l1', 'f1', 's'], cap_mb=0.0, lead=()),
        # mp=2 with one layer pair per stage: some model coordinate hosts no inverse worker
        dict(pp=2, dp=1, mp=2, blocks=1, ops=['f1', 's', 'l1', 'f1', 's']),
        dict(pp=1, dp=2, mp=2, blocks=1, ops=['f1', 's', 'l0', 'f1', 's'], ius=1),
        # more model coordinates than layers: two model coordinates host no inverse worker at all, in memory
        dict(pp=1, dp=1, mp=4, blocks=1, ops=['f1', 's', 'l1', 'f1', 's'], ckpt_dir=None),
        dict(pp=1, dp=2, mp=4, blocks=1, ops=['f1', 's', 'v', 'f1', 's'], ckpt_dir=None),
        # three stages of two blocks: layer names such as '2' and '12' (one a suffix of the other), in memory
        dict(pp=3, dp=1, mp=1, blocks=2, ops=['f1', 's', 'l1', 'f1', 's'], ckpt_dir=None, empty_stage=None),
        dict(pp=3, dp=2, mp=1, blocks=2, ops=['f1', 's', 'l1', 'f1', 's'], ckpt_dir=None, empty_stage=None),
        # checkpoint right after a step that refreshed the factors but not the eigendecompositions (inverse interval 2, 3): the
        # inverse workers hold the factors as completed futures of the factor all-reduce; in memory and into a fresh directory
        dict(pp=1, dp=2, mp=1, blocks=1, fus=1, ius=2, hook=True, accum=1, ops=['f1', 's', 'f1', 's', 'v', 'f1', 's'], ckpt_dir=None),
        dict(pp=2, dp=2, mp=1, blocks=1, fus=1, ius=3, ops=['f1', 's', 'f1', 's', 'l1', 'f1', 's'], ckpt_dir=None, empty_stage=None),
        dict(pp=1, dp=2, mp=2, blocks=1, fus=1, ius=2, ops=['f1', 's', 'f1', 's', 'v'], ckpt_dir='DIR'),
        dict(pp=2, dp=2, mp=1, blocks=2, fus=1, ius=2, ops=['f1', 's', 'f1', 's', 'l1', 'f1', 's'], ckpt_dir='DIR', empty_stage=None),
        # two checkpoints into one directory with factor updates in between that are not aligned with the factor interval
        dict(pp=1, dp=2, mp=1, blocks=1, fus=3, ius=1, hook=True, accum=1, ops=['f1', 's'] * 3 + ['v'] + ['f1', 's'] + ['v'], ckpt_dir='DIR'),
        dict(pp=2, dp=1, mp=1, blocks=1, fus=2, ius=2, accum=1, ops=['f1', 's'] * 2 + ['v'] + ['f1', 's'] + ['v'], ckpt_dir='DIR', empty_stage=None),
        # an uneven split of a deep model over the pipeline: 18 layers on one stage, 2 on the other (any per-stage chunking of the
        # gather must still be one world-wide sequence)
        dict(pp=2, dp=1, mp=1, stage_blocks=[9, 1], ops=['f1', 's', 'v'], ckpt_dir=None, empty_stage=None, fus=1, ius=1),
        dict(pp=2, dp=2, mp=1, stage_blocks=[1, 9], ops=['f1', 's', 'l1', 'f1', 's'], ckpt_dir=None, empty_stage=None, fus=1, ius=1),
        # several inverse workers writing into one directory at once (file-system calls are scheduling points; every rank of
        # the simulated job has LOCAL_RANK 0, as on nodes with one process each)
        dict(pp=1, dp=3, mp=1, blocks=2, ops=['f1', 's', 'v'], ckpt_dir='DIR'),
        dict(pp=2, dp=2, mp=1, blocks=2, ops=['f1', 's', 'v', 'f1', 's'], ckpt_dir='DIR', empty_stage=None),
    ]
    for i in range(n):
        if i < len(corpus):
            cfg = neoxsim.NCfg(rng, **corpus[i])
            if cfg.ckpt_dir == 'DIR':
                cfg.ckpt_dir = os.path.join(OUT, 'neox_ckpt', f'case{i}')
        else:
            while True:
                cfg = neoxsim.NCfg(rng)
                if cfg.world <= 12:
                    break
            before = rng.randrange(1, 3)
            after = rng.randrange(0, 3)
            mid = rng.choice(['l1', 'l1', 'l0', 'v'])
            if mid == 'l0':
                cfg.ius = 1      # documented precondition of compute_inverses=False
            cfg.ops = ['f1', 's'] * before + [mid] + ['f1', 's'] * after
            cfg.inv32 = rng.random() < 0.4
            if rng.random() < 0.3:
                cfg.ckpt_dir = os.path.join(OUT, 'neox_ckpt', f'case{i}')
        try:
            check_case(ctx, cfg, ctx.seed * 613 + i)
        except Exception as e:  # noqa: BLE001  (records not even of the expected form: missing factors, None where a tensor belongs)
            ctx.fail(f'checkpoint records are malformed ({type(e).__name__}: {str(e)[:160]})', dict(cfg.describe(), sched_seed=ctx.seed * 613 + i), 'neox-ckpt-malformed')
        if cfg.ckpt_dir:
            shutil.rmtree(cfg.ckpt_dir, ignore_errors=True)
    for i in range(ctx.budget(6, 40)):
        while True:
            cfg = neoxsim.NCfg(rng, mp=1)       # (mp > 1: loading is known finding F2)
            if cfg.world <= 8:
                break
        a, b = rng.randrange(1, 3), rng.randrange(1, 3)
        cfg.fus = 1
        cfg.prediv = False      # (the eigenvalues themselves are then kept and can be checked against the factors)
        if i % 2 == 0:
            cfg.ops = ['f1', 's'] * a + ['k'] + ['f1', 's'] * b + ['v', 'b'] + ['f1', 's'] * b + ['v']
        else:
            # the same checkpoint object used for two roll-backs with training in between
            cfg.ops = ['f1', 's'] * a + ['k'] + ['f1', 's'] * b + ['B'] + ['f1', 's'] * b + ['B'] + ['f1', 's', 'v']
        try:
            check_rollback(ctx, cfg, ctx.seed * 419 + i)
        except Exception as e:  # noqa: BLE001
            ctx.fail(f'roll-back records are malformed ({type(e).__name__}: {str(e)[:160]})', dict(cfg.describe(), sched_seed=ctx.seed * 419 + i), 'neox-ckpt-malformed')
    # every rank's collectives of the whole history, checkpoint calls included (object gather, barriers), against the
    # projection of the global script of M-NeoxScript
    neoxsim.compare_script(ctx, SCRIPT_PEND)
    del SCRIPT_PEND[:]


def search(ctx):
    pass


def replay(ctx, payload):
    run(ctx)
    for f in ctx.failures[:5]:
        print('replay:', f['what'])
    return any(f['key'] != 'neox-resume-mp>1' for f in ctx.failures)
