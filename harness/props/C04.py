"""C04 — Kronecker factors are decayed running averages of batch second moments."""
from __future__ import annotations

from fractions import Fraction

import torch

import kfacsim

RULE = ('random linear/conv models, batch sizes, decay values and schedules, accumulation 1–3, hook/no-hook, factor '
        'update intervals, eval passes and non-update steps interleaved, world sizes 1–8: every saved factor is compared '
        'with the model\'s symbolic value term evaluated on the second moments the harness\'s own hooks computed (1e-9) '
        'and with the reference recurrence; symmetric/PSD checked; separate streams for the stored dtype '
        '(float64/float32/bfloat16/float16/None) and for the loss-scale division; non-trivial = ≥2 factor updates'
        '; loss scales that change between the micro-batches of one accumulation window; ragged iterations with accumulation and update intervals > 1; half-precision factors with thousands of rows')
TRUSTED = [
    'Lean 4.33 kernel; axioms audited ⊆ {propext, Classical.choice, Quot.sound}',
    'hand-written models KV.Spec/KV.Precond (recurrence, accumulation, cross-rank mean) and KV.Alg (cov, ema) tied to '
    'kfac/layers/base.py, utils.py, modules.py by this correspondence and by C15\'s exact layout stream',
    'float64 rounding (tolerance 1e-9 relative on factors)',
]
ASSUMPTIONS = ['dtype is carried as a tag: values are compared in float64, the stored dtype separately']
PARTIAL = []
STREAMS = ('factors', 'steps')


def gen_cfgs(ctx, n):
    rng = ctx.rng
    cfgs = []
    # directed: micro-batches dropped with reset_batch() while pending (deferred updates / mid-window) leave no trace in M
    for hook, accum in ((False, 1), (False, 2), (True, 2)):
        cfg = kfacsim.Config(rng, world=rng.choice([1, 2]), hook=hook, accum=accum)
        cfg.cap_mb = 0.0
        cfg.hyper['factor_update_steps'] = 1
        it = ['f1'] * accum + ['s']
        cfg.ops = it + ['v1'] + ['f1'] * rng.randrange(1, accum + 1) + ['r'] + it + ['v1'] + it + ['v1']
        cfgs.append(cfg)
    # directed: factor_decay driven by the real LambdaParamScheduler (stepped after preconditioner.step(), the documented
    # order): the very next factor update uses the decay now in force
    for hook in (True, False):
        cfg = kfacsim.Config(rng, world=rng.choice([1, 2]), hook=hook)
        cfg.hyper['factor_decay'] = Fraction(9, 10)
        cfg.hyper['factor_update_steps'] = 1
        cfg.hyper_changes = [{'factor_decay': Fraction(18, 25)}, {'factor_decay': Fraction(9, 25)}]
        cfg.hyper_factors = [{'factor_decay': Fraction(4, 5)}, {'factor_decay': Fraction(1, 2)}]
        it = ['f1'] * cfg.accum + ['s']
        cfg.ops = it + ['v1', 'h:0'] + it + ['v1', 'h:1'] + it + ['v1'] + it + ['v1']
        cfgs.append(cfg)
    # directed: factors stored in float32 (the dtype the inverses / decompositions are computed in, so `.to(float32)` is the
    # factor itself) with explicit inverses and with eigendecompositions, inverse updates on steps that are not factor-update
    # steps: computing second-order data leaves the stored factor untouched
    for method, world in (('inverse', 1), ('inverse', 2), ('eigen', 2)):
        cfg = kfacsim.Config(rng, world=world, method=method, prediv=False)
        cfg.fac32, cfg.inv32 = True, False
        cfg.hyper['factor_update_steps'], cfg.hyper['inv_update_steps'] = 2, 1
        cfg.hyper['damping'] = Fraction(1, 4)
        it = ['f1'] * cfg.accum + ['s', 'v1']
        cfg.ops = it * 4
        cfgs.append(cfg)
    while len(cfgs) < n:
        cfg = kfacsim.Config(rng, world=rng.choice([1, 1, 2, 3, 4, 5, 8]))
        cfg.hyper['factor_decay'] = rng.choice([Fraction(1, 2), Fraction(3, 4), Fraction(15, 16), Fraction(1),
                                                [Fraction(1, 2), Fraction(3, 4), Fraction(7, 8), Fraction(19, 20)],
                                                # a schedule that is exactly 1 on some updates after the first: those updates
                                                # leave the factor unchanged AND consume their batches
                                                [Fraction(9, 10), Fraction(1), Fraction(1), Fraction(4, 5), Fraction(1), Fraction(1, 2)]])
        cfg.hyper['factor_update_steps'] = rng.choice([1, 1, 2, 3, [1, 2, 1, 3]])
        cfg.batch = rng.choice([1, 2, 3, 8])
        ops = []
        for _ in range(rng.randrange(2, ctx.budget(7, 14))):
            ops += ['f1'] * cfg.accum + ['s']
            r = rng.random()
            if r < 0.5:
                ops.append('v1')
            elif r < 0.65:
                ops.append('f0')
        ops.append('v1')
        if rng.random() < 0.25:
            # ragged iterations (epoch tails, skipped micro-batches) with accumulation and update intervals > 1: M is the
            # mean over exactly the micro-batches seen since the last factor update
            cfg.accum = rng.choice([2, 3])
            cfg.cap_mb = 0.0
            cfg.hyper['factor_update_steps'] = rng.choice([2, 2, 3, [1, 2, 2, 1, 3]])
            ops = ['f1'] * cfg.accum + ['s']
            for _ in range(rng.randrange(3, ctx.budget(8, 16))):
                ops += ['f1'] * rng.randrange(1, cfg.accum + 2) + ['s']
                if rng.random() < 0.4:
                    ops.append('v1')
            ops.append('v1')
        if rng.random() < 0.12:
            # a layer sees more training-mode forward passes than backward passes (a no_grad teacher / pseudo-label pass,
            # activation checkpointing) while the update is deferred: A and G are each the mean over THEIR OWN batches
            # (oracle-only histories: the Lean state machine has no forward-only op)
            cfg.hook = rng.random() < 0.4
            cfg.accum = 1 if not cfg.hook else rng.choice([2, 3])
            cfg.cap_mb = 0.0
            cfg.hyper['factor_update_steps'] = 1
            ops = []
            for _ in range(rng.randrange(2, 5)):
                w = ['f1'] * cfg.accum
                if cfg.hook:
                    # the window closes after `accum` forward passes; its last pass is a full one (the backward hook of
                    # the closing pass is what folds G)
                    w[rng.randrange(cfg.accum - 1)] = 'F'
                else:
                    w.insert(rng.randrange(len(w) + 1), 'F')
                ops += w + ['s', 'v1']
        cfg.ops = ops
        cfgs.append(cfg)
    return cfgs


def half_stream(ctx):
    """half-precision factors with many rows of large (finite) activations: the batch moment a^T (a / rows) is
    representable although the un-normalised sum a^T a is not; the factor must equal the float64 recurrence within
    half-precision rounding and stay finite / PSD"""
    from kfac.preconditioner import KFACPreconditioner
    rng = ctx.rng
    for _ in range(ctx.budget(6, 40)):
        fd = rng.choice([torch.float16, torch.float16, torch.bfloat16])
        rows = rng.choice([2048, 4096])
        mag = rng.choice([6.0, 12.0])
        lead = rng.choice([(), (4,)])
        torch.manual_seed(rng.randrange(10**6))
        m = torch.nn.Sequential(torch.nn.Linear(3, 2))
        case = {'factor_dtype': str(fd), 'rows': rows, 'magnitude': mag, 'lead': list(lead)}
        try:
            p = KFACPreconditioner(m, factor_dtype=fd, factor_decay=0.5, kl_clip=None, compute_method='inverse')
            x = torch.randn(*lead, rows // (lead[0] if lead else 1), 3) * mag
            m(x).pow(2).mean().backward()
            p.step()
            A = p.state_dict()['layers']['0']['A']
            a = torch.cat([x.reshape(-1, 3), torch.ones(rows, 1)], 1).double()
            want = 0.5 * torch.eye(4, dtype=torch.float64) + 0.5 * (a.t() @ a / rows)
            tol = 2e-2 if fd == torch.bfloat16 else 4e-3
            if A.dtype != fd or not torch.isfinite(A.float()).all() or kfacsim.relerr(A.double(), want) > tol:
                ctx.fail(f'half-precision A factor is not decay*I + (1-decay)*M (finite: {bool(torch.isfinite(A.float()).all())}, '
                         f'relerr {kfacsim.relerr(A.double(), want) if torch.isfinite(A.float()).all() else float("inf"):.2e})', case, 'half-factor')
        except Exception as e:  # noqa: BLE001
            ctx.fail(f'half-precision factor run raised {type(e).__name__}: {e}', case, 'half-factor-raised')
        ctx.evaluations += 1
        ctx.count('half-stream')


def dtype_stream(ctx):
    """factors are stored in the requested factor dtype (or the activation dtype when unset)"""
    from kfac.preconditioner import KFACPreconditioner
    rng = ctx.rng
    for fd, mdt in [(None, torch.float32), (torch.float64, torch.float32), (torch.bfloat16, torch.float32),
                    (torch.float16, torch.float32), (None, torch.float64), (torch.float32, torch.float64),
                    (None, torch.bfloat16)]:
        for method in ('eigen', 'inverse'):
            torch.manual_seed(rng.randrange(10**6))
            m = torch.nn.Sequential(torch.nn.Linear(3, 4), torch.nn.Tanh(), torch.nn.Linear(4, 2)).to(mdt)
            p = KFACPreconditioner(m, factor_dtype=fd, compute_method=method, kl_clip=None)
            want = fd if fd is not None else mdt
            case = {'factor_dtype': str(fd), 'model_dtype': str(mdt), 'method': method}
            try:
                for _ in range(3):
                    x = torch.randn(4, 3).to(mdt)
                    m(x).float().pow(2).sum().backward()
                    p.step()
                    m.zero_grad()
                sd = p.state_dict()
                for name, lay in sd['layers'].items():
                    for w in ('A', 'G'):
                        if lay[w].dtype != want:
                            ctx.fail(f'factor {w} of {name} stored as {lay[w].dtype}, requested {want}', case, 'factor-dtype')
                mu = p.memory_usage()
                esz = torch.tensor([], dtype=want).element_size()
                exp = sum(l_.module.a_factor_shape[0] ** 2 * esz for _, l_ in p._layers.values())
                if mu['a_factors'] != exp:
                    ctx.fail(f'a_factors memory {mu["a_factors"]} != {exp} for dtype {want}', case, 'factor-dtype-memory')
            except Exception as e:  # noqa: BLE001
                ctx.fail(f'run with factor_dtype={fd} raised {type(e).__name__}: {e}', case, 'factor-dtype-raised')
            ctx.evaluations += 1
            ctx.count('dtype-stream')


def bigbatch_stream(ctx):
    """batches of several hundred samples (beyond any internal chunk size, not a multiple of a power of two): the factors
    are second moments over ALL rows, each row weighted equally"""
    from kfac.preconditioner import KFACPreconditioner
    rng = ctx.rng
    for it_ in range(ctx.budget(8, 44)):
        B = rng.choice([257, 300, 513, 700, 1025])
        conv = rng.random() < 0.6
        # kernel / stride of the convolution: 2x2 stride 1 on 3x3 inputs, or a pointwise (1x1) convolution with a stride
        # (a down-sampling shortcut) on 4x5 inputs: only the visited pixels count, normalised by out_h*out_w
        ks, st, hw = rng.choice([((2, 2), (1, 1), (3, 3)), ((2, 2), (1, 1), (3, 3)), ((1, 1), (2, 2), (4, 5)), ((1, 1), (2, 1), (4, 5)),
                                 ((1, 1), (1, 3), (4, 5)), ((1, 1), (1, 1), (3, 3))])
        if it_ == 0:
            # more rows than any internal block size (2^16): tokens of a long-sequence batch
            B, conv = rng.choice([65537, 70001, 131073]), False
        elif it_ == 1:
            B, conv, ks, st, hw = 16385, True, (2, 2), (1, 1), (3, 3)      # 16385 * 4 positions = 65540 rows
        torch.manual_seed(rng.randrange(10**6))
        case = {'batch': B, 'layer': 'conv' if conv else 'linear', 'kernel': ks, 'stride': st, 'input_hw': hw}
        try:
            if conv:
                m = torch.nn.Sequential(torch.nn.Conv2d(1, 2, ks, stride=st, bias=True)).double()
                x = torch.randn(B, 1, *hw, dtype=torch.float64) * (1 + torch.arange(B, dtype=torch.float64).view(-1, 1, 1, 1) / B)
            else:
                m = torch.nn.Sequential(torch.nn.Linear(3, 2)).double()
                x = torch.randn(B, 3, dtype=torch.float64) * (1 + torch.arange(B, dtype=torch.float64).view(-1, 1) / B)
            p = KFACPreconditioner(m, factor_decay=0.5, kl_clip=None)
            y = m(x)
            y.retain_grad()
            y.pow(2).mean().backward()
            p.step()
            sd = p.state_dict()['layers']['0']
            if conv:
                kk = ks[0] * ks[1]
                L = y.shape[2] * y.shape[3]
                cols = torch.nn.functional.unfold(x, ks, stride=st).transpose(1, 2).reshape(-1, kk)     # (B*L, kk)
                a = torch.cat([cols, torch.ones(cols.shape[0], 1, dtype=torch.float64)], 1) / float(L)     # spatial normalisation
                wantA = 0.5 * torch.eye(kk + 1, dtype=torch.float64) + 0.5 * (a.t() @ a / a.shape[0])
                g = y.grad.permute(0, 2, 3, 1).reshape(-1, 2) / float(L)
                wantG = 0.5 * torch.eye(2, dtype=torch.float64) + 0.5 * (g.t() @ g / g.shape[0])
                eG = kfacsim.relerr(sd['G'].double(), wantG)
            else:
                a = torch.cat([x, torch.ones(B, 1, dtype=torch.float64)], 1)
                g = y.grad
                wantA = 0.5 * torch.eye(4, dtype=torch.float64) + 0.5 * (a.t() @ a / B)
                wantG = 0.5 * torch.eye(2, dtype=torch.float64) + 0.5 * (g.t() @ g / B)
                eG = kfacsim.relerr(sd['G'].double(), wantG)
            eA = kfacsim.relerr(sd['A'].double(), wantA)
            if eA > 1e-9 or eG > 1e-9:
                ctx.fail(f'batch of {B}: factor {"A" if eA > 1e-9 else "G"} is not the equally weighted second moment over all rows '
                         f'(relerr A {eA:.2e}, G {eG:.2e})', case, 'bigbatch-factor')
        except Exception as e:  # noqa: BLE001
            ctx.fail(f'large batch raised {type(e).__name__}: {e}', case, 'bigbatch-raised')
        ctx.evaluations += 1
        ctx.count('bigbatch')


def amp_stream(ctx):
    """the mixed-precision case loss scaling exists for: a half-precision model whose (scaled) output gradients are float16,
    factors kept in float32: G is the second moment of g/scale computed in the FACTOR dtype (small true gradients that
    would underflow in float16 survive)"""
    from kfac.preconditioner import KFACPreconditioner
    rng = ctx.rng
    for _ in range(ctx.budget(6, 40)):
        scale = float(2 ** rng.choice([12, 14, 16]))
        torch.manual_seed(rng.randrange(10**6))
        m = torch.nn.Sequential(torch.nn.Linear(4, 3)).half()
        case = {'loss_scale': scale, 'model_dtype': 'float16', 'factor_dtype': 'float32'}
        seen = {}
        m[0].register_full_backward_hook(lambda mod, gi, go: seen.__setitem__('g', go[0].detach().clone()))
        try:
            p = KFACPreconditioner(m, grad_scaler=lambda: scale, factor_dtype=torch.float32, factor_decay=0.5, kl_clip=None)
            x = (torch.randn(8, 4) * 0.5).half()
            # true gradients of magnitude ~1e-5: representable in float16 only after scaling
            (m(x).float().mean() * 2e-4 * scale).backward()
            p.step()
            G = p.state_dict()['layers']['0']['G']
            g = seen['g'].to(torch.float32) / scale
            want = 0.5 * torch.eye(3) + 0.5 * (g.t() @ g / g.shape[0])
            off = (G.float() - 0.5 * torch.eye(3)) - (want - 0.5 * torch.eye(3))
            ref = (want - 0.5 * torch.eye(3)).abs().max().item()
            if G.dtype != torch.float32 or not torch.isfinite(G).all() or off.abs().max().item() > 1e-3 * max(ref, 1e-30):
                ctx.fail(f'G factor of a float16 model with loss scale {scale:g} and float32 factors is not the second moment of '
                         f'g/scale taken in float32 (batch part off by {off.abs().max().item() / max(ref, 1e-30):.2e} relative)', case, 'amp-factor')
        except Exception as e:  # noqa: BLE001
            ctx.fail(f'AMP factor run raised {type(e).__name__}: {e}', case, 'amp-raised')
        ctx.evaluations += 1
        ctx.count('amp-stream')


def nd_stream(ctx):
    """Linear layers fed inputs of rank 1, 3 and 4 (sequence / image-like activations): both factors are second moments
    over ALL rows (every sample and position), i.e. the factors of the flattened (rows, features) view"""
    from kfac.preconditioner import KFACPreconditioner
    rng = ctx.rng
    for _ in range(ctx.budget(10, 80)):
        lead = rng.choice([(), (3,), (4, 5), (2, 3, 4), (6, 1)])
        bias = rng.random() < 0.6
        torch.manual_seed(rng.randrange(10**6))
        m = torch.nn.Sequential(torch.nn.Linear(3, 2, bias=bias)).double()
        case = {'input_shape': list(lead) + [3], 'bias': bias}
        try:
            p = KFACPreconditioner(m, factor_decay=0.5, kl_clip=None)
            x = torch.randn(*lead, 3, dtype=torch.float64)
            y = m(x)
            y.retain_grad()
            y.pow(2).sum().backward()
            p.step()
            sd = p.state_dict()['layers']['0']
            a = x.reshape(-1, 3)
            if bias:
                a = torch.cat([a, torch.ones(a.shape[0], 1, dtype=torch.float64)], 1)
            g = y.grad.reshape(-1, 2)
            wantA = 0.5 * torch.eye(a.shape[1], dtype=torch.float64) + 0.5 * (a.t() @ a / a.shape[0])
            wantG = 0.5 * torch.eye(2, dtype=torch.float64) + 0.5 * (g.t() @ g / g.shape[0])
            eA, eG = kfacsim.relerr(sd['A'].double(), wantA), kfacsim.relerr(sd['G'].double(), wantG)
            if eA > 1e-9 or eG > 1e-9:
                ctx.fail(f'Linear layer with input of shape {tuple(x.shape)}: factor {"A" if eA > 1e-9 else "G"} is not the second moment '
                         f'over all {a.shape[0]} rows (relerr A {eA:.2e}, G {eG:.2e})', case, 'nd-linear-factor')
        except Exception as e:  # noqa: BLE001
            ctx.fail(f'N-d linear input raised {type(e).__name__}: {e}', case, 'nd-linear-raised')
        ctx.evaluations += 1
        ctx.count('nd-linear-rank%d' % (len(lead) + 1))


def scaler_stream(ctx):
    """with a gradient scaler, G's batch moment is the mean over the accumulated micro-batches of
    cov(g_i / s_i), s_i the loss scale in force at micro-batch i (it may change between micro-batches:
    dynamic loss scaling, or any callable).  Oracle: the same model without scaler on unscaled losses."""
    from kfac.preconditioner import KFACPreconditioner
    rng = ctx.rng
    for _ in range(ctx.budget(16, 120)):
        accum = rng.choice([1, 2, 3])
        hook = rng.random() < 0.5
        vary = accum > 1 and rng.random() < 0.7
        s0 = rng.choice([2.0, 8.0, 1024.0, 0.5])
        scales = [rng.choice([2.0, 8.0, 1024.0, 0.5, 65536.0]) if vary else s0 for _ in range(accum)]
        torch.manual_seed(rng.randrange(10**6))
        m = torch.nn.Sequential(torch.nn.Linear(3, 2)).double()
        m2 = torch.nn.Sequential(torch.nn.Linear(3, 2)).double()
        m2.load_state_dict(m.state_dict())
        cell = [scales[0]]
        method = rng.choice(['eigen', 'inverse'])          # (the loss scale is undone by the layer, whatever the compute method)
        case = {'scales': scales, 'accumulation': accum, 'update_factors_in_hook': hook, 'method': method}
        try:
            p1 = KFACPreconditioner(m, grad_scaler=lambda: cell[0], factor_decay=0.5, kl_clip=None,
                                    accumulation_steps=accum, update_factors_in_hook=hook, compute_method=method)
            p2 = KFACPreconditioner(m2, factor_decay=0.5, kl_clip=None, accumulation_steps=accum,
                                    update_factors_in_hook=hook, compute_method=method)
            for _step in range(2):
                for sc in scales:
                    cell[0] = sc
                    x = torch.randn(4, 3, dtype=torch.float64)
                    (m(x).pow(2).sum() * sc).backward()     # scaled loss
                    m2(x).pow(2).sum().backward()
                p1.step()
                p2.step()
                g1 = p1.state_dict()['layers']['0']['G']
                g2 = p2.state_dict()['layers']['0']['G']
                a1 = p1.state_dict()['layers']['0']['A']
                a2 = p2.state_dict()['layers']['0']['A']
                if kfacsim.relerr(g1, g2) > 1e-12 or kfacsim.relerr(a1, a2) > 1e-12:
                    ctx.fail(f'G factor with loss scales {scales} (one per micro-batch) is not the factor of the unscaled gradients',
                             case, 'loss-scale')
                    break
        except Exception as e:  # noqa: BLE001
            ctx.fail(f'scaler stream raised {type(e).__name__}: {e}', case, 'loss-scale-raised')
        ctx.evaluations += 1
        ctx.count('scaler-stream-accum%d%s' % (accum, '-varying' if vary else ''))


def update_stream(ctx):
    """real KFACBaseLayer.save_layer_input/update_a_factor on integer data vs the Lean rational
    KV.Alg.linAFactor + updateFactor (mean of accumulated micro-batches, identity on first use)"""
    import os
    import sys
    from fractions import Fraction as Fr
    sys.path.insert(0, os.path.dirname(os.path.abspath(__file__)))
    import C15
    from kfac.distributed import TorchDistributedCommunicator
    from kfac.layers.eigen import KFACEigenLayer
    from kfac.layers.modules import LinearModuleHelper
    rng = ctx.rng
    lines, pend = [], []
    for _ in range(ctx.budget(60, 600)):
        fin, bias = rng.randrange(1, 4), rng.random() < 0.6
        n = fin + int(bias)
        m = torch.nn.Linear(fin, 2, bias=bias).double()
        lay = KFACEigenLayer(LinearModuleHelper(m), tdc=TorchDistributedCommunicator())
        alphas = [Fr(rng.choice([1, 1, 3, 15]), rng.choice([2, 4, 16])) for _ in range(rng.randrange(1, 4))]
        prev = 'none'
        for al in alphas:
            if al > 1:
                al = Fr(1, 2)
            nb = rng.randrange(1, 4)
            covs = []
            for _b in range(nb):
                rows = rng.choice([1, 2, 4])
                x = torch.randint(-3, 4, (rows, fin)).double()
                lay.save_layer_input([x])
                X = torch.cat([x, torch.ones(rows, 1, dtype=torch.float64)], 1) if bias else x
                covs.append((rows, x))
            lay.update_a_factor(alpha=float(al))
            got = lay.a_factor.clone()
            # model: batches via lina, then update
            blines = [f'alg f=lina rows={r} n={fin} bias={int(bias)} x={C15.mat_str(x)}' for r, x in covs]
            bouts = ctx.model.ask(blines)
            if any(b is None for b in bouts):
                return
            lines.append(f'alg f=update n={n} alpha={al.numerator}/{al.denominator} prev={prev} batches=' + '#'.join(bouts))
            mo = ctx.model.ask([lines[-1]])[0]
            ok = C15.exact(got, mo, Fr(1, 10**12))
            ctx.compare('factor-update-exact', {'fin': fin, 'bias': bias, 'alpha': str(al), 'micro_batches': nb,
                                                'first': prev == 'none'}, 'match' if ok else mo[:200], 'match')
            prev = mo
            ctx.evaluations += 1
            ctx.count('update-stream-accum%d' % nb)


def half_caps_stream(ctx):
    """factors stored in float16 / bfloat16 on 2–3 ranks: the averaged factor every rank holds is the same whether the
    all-reduce is per tensor (capacity 0) or bucketed — one average over the ranks, applied once"""
    import copy
    rng = ctx.rng
    for b in range(ctx.budget(4, 24)):
        base = kfacsim.Config(rng, world=rng.choice([2, 3]), nest=False, prediv=False)
        base.inv16, base.inv32, base.fac32, base.keepgrad = False, False, False, False
        base.fac16 = True if b % 2 else 'f16'
        base.hyper['factor_update_steps'] = 1
        base.hyper['kl_clip'] = None
        base.ops = (['f1'] * base.accum + ['s']) * 2 + ['v1']
        outs = []
        for cap in (0.0, 25.0):
            v = copy.copy(base)
            v.cap_mb = cap
            rr = kfacsim.run_real(v, sched_seed=ctx.seed * 83 + b)
            if kfacsim.run_failed(rr):
                ctx.fail(f'run failed: {kfacsim.run_failed(rr)}', v.describe(), 'half-caps-run')
                break
            outs.append([rr.res[r]['ops'][-1]['factors'] for r in range(v.world)])
        else:
            worst = 0.0
            for r in range(base.world):
                for (a0, g0), (a1, g1) in zip(outs[0][r], outs[1][r]):
                    worst = max(worst, kfacsim.relerr(a0, a1), kfacsim.relerr(g0, g1))
            if worst > 2e-2:
                ctx.fail(f'{"float16" if base.fac16 == "f16" else "bfloat16"} factors differ by {worst:.2e} between the per-tensor and the bucketed '
                         'all-reduce (the average over the ranks is applied once in both)', dict(base.describe(), caps=[0.0, 25.0]), 'half-caps-factor')
        ctx.evaluations += 1
        ctx.case(('half-caps', str(base.describe())), nontrivial=True)
        ctx.count('half-caps')


def run(ctx):
    update_stream(ctx)
    half_caps_stream(ctx)
    kfacsim.run_batch(ctx, gen_cfgs(ctx, ctx.budget(60, 600)), STREAMS,
                      oracles=(kfacsim.oracle_factors,), whole_only_oracles=False)
    dtype_stream(ctx)
    scaler_stream(ctx)
    half_stream(ctx)
    nd_stream(ctx)
    amp_stream(ctx)
    bigbatch_stream(ctx)


def search(ctx):
    pass


def replay(ctx, payload):
    c = payload.get('case', {})
    if 'rows' in c:
        half_stream(ctx)
    elif 'factor_dtype' in c:
        dtype_stream(ctx)
    elif 'scale' in c or 'scales' in c:
        scaler_stream(ctx)
    else:
        return kfacsim.replay_case(ctx, payload, STREAMS, oracles=(kfacsim.oracle_factors,))
    for f in ctx.failures[:5]:
        print('replay:', f['what'])
    return bool(ctx.failures)
