"""C01 — the preconditioned gradient solves the damped Kronecker-factored system."""
from __future__ import annotations

from fractions import Fraction

import torch

import kfacsim

RULE = ('(a) exact structural stream: real KFACEigenLayer / KFACInverseLayer on Linear and Conv2d modules (bias on/off) '
        'with torch.linalg.eigh / inv replaced by scripted exact decompositions (signed permutations, Householder '
        'reflections with ±1 vectors, dyadic eigenvalues incl. negative ones, damping making every denominator a power '
        'of two): compute_a_inv / compute_g_inv / preconditioned_grad / update_grad compared EXACTLY with the Lean '
        'rational formulas; (b) residual oracle: after a real step the float64 residual of the defining linear system, '
        'scaled by its conditioning, for float32/float64/bfloat16 parameters and inv dtypes; (c) multi-step runs '
        'through kfacsim vs the model\'s value terms and the reference solver; non-trivial = non-square layer (g ≠ a)'
        ' (incl. resume histories into a preconditioner constructed with other constants; directed symmetric-broadcast corners)')
TRUSTED = [
    'Lean 4.33 kernel + Mathlib; axioms audited ⊆ {propext, Classical.choice, Quot.sound}',
    'hand-written model KV.Alg (eigenPrecond, eigenPrecondPre, invPrecond, clamp0, getGrad/setGrad) tied to '
    'kfac/layers/eigen.py, inverse.py, base.py, modules.py by the exact stream',
    'torch.linalg.eigh returns (d, Q) with Q orthogonal and Q diag(d) Qᵀ = S, torch.linalg.inv returns S⁻¹, up to '
    'float32 rounding (contract stream measures it)',
    'IEEE rounding, overflow and NaN propagation are outside the model (identities are proved over fields)',
]
ASSUMPTIONS = ['factors are symmetric (every helper reports symmetric factors), so torch.linalg.eig is unreachable']
PARTIAL = ['floating point: the theorems are exact identities; the tolerance that "scales with the conditioning" is measured, not proved']


def rat(x):
    f = Fraction(float(x))
    return str(f.numerator) if f.denominator == 1 else f'{f.numerator}/{f.denominator}'


def mstr(t):
    return ';'.join(','.join(rat(v) for v in row) for row in t.tolist())


def vstr(t):
    return ','.join(rat(v) for v in t.tolist())


def orth(rng, n):
    """exact orthogonal matrices: signed permutation, optionally times a Householder reflection I - 2vv^T/4 (n=4)"""
    perm = list(range(n))
    rng.shuffle(perm)
    Q = torch.zeros(n, n, dtype=torch.float64)
    for i, j in enumerate(perm):
        Q[i, j] = rng.choice([1.0, -1.0])
    if n == 4 and rng.random() < 0.6:
        v = torch.tensor([rng.choice([1.0, -1.0]) for _ in range(4)], dtype=torch.float64)
        Hh = torch.eye(4, dtype=torch.float64) - 2 * torch.outer(v, v) / 4
        Q = Q @ Hh
    return Q


def matches(t, s):
    rows = s.split(';') if s else []
    tl = t.tolist()
    if len(rows) != len(tl):
        return False
    for r, tr in zip(rows, tl):
        vals = r.split(',')
        if len(vals) != len(tr) or any(x != x or x in (float('inf'), float('-inf')) for x in tr):
            return False        # (a non-finite entry matches no rational)
        if any(Fraction(v) != Fraction(float(x)) for v, x in zip(vals, tr)):
            return False
    return True


def exact_stream(ctx):
    from kfac.distributed import TorchDistributedCommunicator
    from kfac.layers.eigen import KFACEigenLayer
    from kfac.layers.inverse import KFACInverseLayer
    from kfac.layers.modules import Conv2dModuleHelper, LinearModuleHelper
    rng = ctx.rng
    lines, pend = [], []
    real_eigh, real_inv = torch.linalg.eigh, torch.linalg.inv
    for _ in range(ctx.budget(240, 2400)):
        bias = rng.random() < 0.6
        if rng.random() < 0.3:
            cin, cout = rng.choice([(1, 4), (2, 2), (1, 2), (3, 4)])
            kh, kw = rng.choice([(1, 1), (1, 2), (2, 1)]) if cin * 2 + bias <= 8 else (1, 1)
            mod = torch.nn.Conv2d(cin, cout, (kh, kw), bias=bias).double()
            hlp = Conv2dModuleHelper(mod)
        else:
            fin, fout = rng.choice([(3, 4), (4, 4), (4, 2), (2, 3), (1, 4), (7, 4)])
            mod = torch.nn.Linear(fin, fout, bias=bias).double()
            hlp = LinearModuleHelper(mod)
        a, g = hlp.a_factor_shape[0], hlp.g_factor_shape[0]
        mod.weight.grad = torch.tensor([[rng.randrange(-8, 9) / rng.choice([1, 2, 4]) for _ in range(mod.weight[0].numel())]
                                        for _ in range(g)], dtype=torch.float64).reshape(mod.weight.shape)
        if bias:
            mod.bias.grad = torch.tensor([float(rng.randrange(-8, 9)) for _ in range(g)], dtype=torch.float64)
        D = hlp.get_grad().clone()
        method = rng.choice(['eigen', 'eigenpre', 'inverse'])
        case = {'method': method, 'a': a, 'g': g, 'bias': bias, 'module': type(mod).__name__}
        tdc = TorchDistributedCommunicator()
        nu = rng.choice([None, 0.5, 0.25])
        try:
            if method == 'inverse':
                lay = KFACInverseLayer(hlp, tdc=tdc, inv_dtype=torch.float64)
                Ai = torch.tensor([[rng.randrange(-4, 5) / 2 for _ in range(a)] for _ in range(a)], dtype=torch.float64)
                Gi = torch.tensor([[rng.randrange(-4, 5) / 2 for _ in range(g)] for _ in range(g)], dtype=torch.float64)
                # compute_*_inv through a scripted torch.linalg.inv: checks `+ damping*I` and which factor goes where
                lay.a_factor = torch.eye(a, dtype=torch.float64) * 3
                lay.g_factor = torch.eye(g, dtype=torch.float64) * 7
                seen = []

                def fake_inv(M, Ai=Ai, Gi=Gi, a=a):
                    seen.append(M.clone())
                    return (Ai if len(seen) == 1 else Gi).to(M.dtype)
                torch.linalg.inv = fake_inv
                try:
                    lay.compute_a_inv(damping=1.0)
                    lay.compute_g_inv(damping=1.0)
                finally:
                    torch.linalg.inv = real_inv
                if not (torch.equal(seen[0].double(), torch.eye(a, dtype=torch.float64) * 4)
                        and torch.equal(seen[1].double(), torch.eye(g, dtype=torch.float64) * 8)):
                    ctx.fail('compute_*_inv does not invert factor + damping*I', case, 'inverse-argument')
                lay.preconditioned_grad(damping=1.0)
                line = f'alg f=inverse g={g} a={a} ainv={mstr(Ai)} ginv={mstr(Gi)} grad={mstr(D)}'
            else:
                prediv = method == 'eigenpre'
                lay = KFACEigenLayer(hlp, tdc=tdc, inv_dtype=torch.float64, prediv_eigenvalues=prediv)
                Qa, Qg = orth(rng, a), orth(rng, g)
                da = torch.tensor([float(rng.choice([0, 1, 1, -1, -2])) for _ in range(a)], dtype=torch.float64)
                dg = torch.tensor([float(rng.choice([0, 1, 3, 7, -1, -5])) for _ in range(g)], dtype=torch.float64)
                lay.a_factor = torch.eye(a, dtype=torch.float64)
                lay.g_factor = torch.eye(g, dtype=torch.float64)
                calls = []

                def fake_eigh(M, Qa=Qa, Qg=Qg, da=da, dg=dg):
                    calls.append(1)
                    return ((da, Qa) if len(calls) == 1 else (dg, Qg))
                torch.linalg.eigh = fake_eigh
                try:
                    lay.compute_a_inv(damping=1.0)
                    lay.compute_g_inv(damping=1.0)
                finally:
                    torch.linalg.eigh = real_eigh
                lay.preconditioned_grad(damping=1.0)
                f = 'eigenpre' if prediv else 'clampeigen'
                line = (f'alg f={f} g={g} a={a} qa={mstr(Qa)} da={vstr(da)} qg={mstr(Qg)} dg={vstr(dg)} lam=1 grad={mstr(D)}')
            V = lay.grad.clone()
            # write-back with the clip scale: update_grad(nu) then get_grad() returns nu * V, original layout
            wshape, wdt = mod.weight.grad.shape, mod.weight.grad.dtype
            lay.update_grad(scale=nu)
            back = hlp.get_grad()
            want = V if nu is None else nu * V
            if not torch.equal(back, want) or mod.weight.grad.shape != wshape or mod.weight.grad.dtype != wdt \
                    or not mod.weight.grad.is_contiguous():
                ctx.fail('gradient written back is not nu*V in the original layout/shape/dtype', case, 'writeback')
            if lay.grad is not None:
                ctx.fail('preconditioned gradient not cleared after update_grad', case, 'writeback-clear')
        except Exception as e:  # noqa: BLE001
            ctx.fail(f'layer raised {type(e).__name__}: {e}', case, 'raised')
            continue
        lines.append(line)
        pend.append((case, V))
        ctx.case(line, nontrivial=(a != g), sample=dict(case, line=line[:200]))
        ctx.count(method)
        ctx.count(type(mod).__name__ + ('+bias' if bias else ''))
    for (case, V), mo in zip(pend, ctx.model.ask(lines)):
        if mo is None:
            continue
        if mo.startswith('dgda='):
            mo = mo.split(' v=')[1]
        ctx.compare('precond-exact', case, 'match' if matches(V, mo) else mo[:300], 'match')


def residual_stream(ctx):
    """float64 residual of the defining system on the output of a real step (clipping off)"""
    from kfac.preconditioner import KFACPreconditioner
    rng = ctx.rng
    for _ in range(ctx.budget(40, 400)):
        pdt = rng.choice([torch.float32, torch.float32, torch.float64, torch.bfloat16])
        idt = rng.choice([torch.float32, torch.float64])
        method = rng.choice(['eigen', 'inverse'])
        prediv = method == 'eigen' and rng.random() < 0.5
        damping = rng.choice([0.5, 0.1, 0.03])
        conv = rng.random() < 0.4
        torch.manual_seed(rng.randrange(10**6))
        if conv:
            m = torch.nn.Sequential(torch.nn.Conv2d(2, 3, (2, 1), padding=(1, 0), bias=rng.random() < 0.5), torch.nn.Tanh(),
                                    torch.nn.Flatten(), torch.nn.Linear(3 * 5 * 4, 3)).to(pdt)
            x = torch.randn(6, 2, 4, 4).to(pdt)
        else:
            m = torch.nn.Sequential(torch.nn.Linear(5, 4, bias=rng.random() < 0.5), torch.nn.Tanh(), torch.nn.Linear(4, 3)).to(pdt)
            x = torch.randn(8, 5).to(pdt)
        case = {'param_dtype': str(pdt), 'inv_dtype': str(idt), 'method': method, 'prediv': prediv, 'damping': damping, 'conv': conv}
        try:
            p = KFACPreconditioner(m, compute_method=method, compute_eigenvalue_outer_product=prediv, damping=damping,
                                   kl_clip=None, inv_dtype=idt, factor_decay=0.5)
            for it in range(2):
                m.zero_grad()
                m(x).float().pow(2).mean().backward()
                layers = [l for _, l in p._layers.values()]
                D = [l.module.get_grad().detach().clone().double() for l in layers]
                p.step()
                sd = p.state_dict()
                for (name, l), d in zip(p._layers.values(), D):
                    A = sd['layers'][name]['A'].double()
                    G = sd['layers'][name]['G'].double()
                    V = l.module.get_grad().detach().double()
                    if not torch.isfinite(V).all():
                        ctx.fail('non-finite preconditioned gradient from finite inputs', case, 'non-finite')
                        continue
                    if method == 'inverse':
                        Ia = torch.eye(A.shape[0], dtype=torch.float64)
                        Ig = torch.eye(G.shape[0], dtype=torch.float64)
                        res = (G + damping * Ig) @ V @ (A + damping * Ia) - d
                    else:
                        res = G @ V @ A + damping * V - d
                    lam_max = torch.linalg.eigvalsh(A).max().item() * torch.linalg.eigvalsh(G).max().item()
                    cond = (max(lam_max, 0) + damping) / damping if method == 'eigen' else \
                        ((torch.linalg.eigvalsh(A).max().item() + damping) * (torch.linalg.eigvalsh(G).max().item() + damping)) / damping ** 2
                    eps = {torch.float32: 6e-8, torch.float64: 6e-8, torch.bfloat16: 4e-3}[pdt]  # decompositions run in float32
                    tol = 400 * eps * cond
                    rel = res.abs().max().item() / max(d.abs().max().item(), 1e-30)
                    if rel > tol:
                        ctx.fail(f'residual of the defining system {rel:.2e} exceeds {tol:.2e} (cond {cond:.1e})',
                                 dict(case, layer=name, step=it), 'residual')
        except Exception as e:  # noqa: BLE001
            ctx.fail(f'run raised {type(e).__name__}: {e}', case, 'raised')
        ctx.evaluations += 1
        ctx.keys.add(str(case))
        ctx.count('residual-' + str(pdt).split('.')[-1])


def zero_head_stream(ctx):
    """a registered layer whose gradient is exactly zero (an auxiliary head with loss weight 0) next to ordinary ones, with
    active clipping: every layer's gradient is nu*V with the one global nu (V from a twin run without clipping)"""
    import copy
    from kfac.preconditioner import KFACPreconditioner

    class TwoHead(torch.nn.Module):
        def __init__(self):
            super().__init__()
            self.body = torch.nn.Linear(3, 3)
            self.head = torch.nn.Linear(3, 2)
            self.aux = torch.nn.Linear(3, 2)

        def forward(self, x):
            h = torch.tanh(self.body(x))
            return self.head(h), self.aux(h)
    rng = ctx.rng
    for _ in range(ctx.budget(6, 40)):
        method = rng.choice(['eigen', 'inverse'])
        kl, lr = 10.0 ** -rng.randrange(3, 6), 0.1
        auxw = rng.choice([0.0, 0.0, 0.5])
        torch.manual_seed(rng.randrange(10**6))
        m = TwoHead().double()
        twin = copy.deepcopy(m)
        case = {'method': method, 'kl_clip': kl, 'aux_loss_weight': auxw}
        try:
            p1 = KFACPreconditioner(m, kl_clip=kl, lr=lr, compute_method=method, damping=0.01)
            p2 = KFACPreconditioner(twin, kl_clip=None, lr=lr, compute_method=method, damping=0.01)
            for step in range(2):
                x = torch.randn(8, 3, dtype=torch.float64)
                for mm in (m, twin):
                    mm.zero_grad()
                    a, b = mm(x)
                    (a.pow(2).mean() + auxw * b.pow(2).mean()).backward()
                D = [q.grad.clone() for q in m.parameters()]
                p1.step()
                p2.step()
                V = [q.grad for q in twin.parameters()]
                s_ = sum(float((v * d).sum()) for v, d in zip(V, D)) * lr ** 2
                nu = 1.0 if s_ == 0 else min(1.0, (kl / abs(s_)) ** 0.5)
                for (n_, q), v in zip(m.named_parameters(), V):
                    if (q.grad - nu * v).abs().max().item() > 1e-6 * max(1e-30, (nu * v).abs().max().item(), 1e-12):
                        ctx.fail(f'step {step}: gradient of {n_} is not nu*V with the global nu = {nu:.6g} '
                                 f'(aux head gradient exactly zero: {auxw == 0.0})', case, 'zero-head')
                        break
        except Exception as e:  # noqa: BLE001
            ctx.fail(f'zero-head run raised {type(e).__name__}: {e}', case, 'zero-head-raised')
        ctx.evaluations += 1
        ctx.count('zero-head')


def run(ctx):
    exact_stream(ctx)
    residual_stream(ctx)
    zero_head_stream(ctx)
    rng = ctx.rng
    cfgs = []
    for _ in range(ctx.budget(25, 250)):
        cfg = kfacsim.Config(rng, world=rng.choice([1, 1, 2, 4]))
        cfg.ops = []
        resume = rng.random() < 0.5
        for _i in range(rng.randrange(1, 5) + (2 if resume else 0)):
            cfg.ops += ['f1'] * cfg.accum + ['s']
            if resume and rng.random() < 0.4:
                # checkpoint → fresh preconditioner (constructed with other constants) → load: the gradient written
                # back afterwards still solves the system damped with the preconditioner's (restored) damping
                cfg.ops.append(rng.choice(['l11', 'l11', 'l10']))
                cfg.perturb_ctor = True
        kfacsim.fix_loads(cfg)
        cfgs.append(cfg)
    # directed corner: second-order data that is broadcast (COMM-/HYBRID-OPT) with symmetry-aware communication on —
    # eigenvector matrices are not symmetric, inverses are
    for method in ('eigen', 'eigen', 'inverse'):
        for world, k in ((2, 2), (4, 4), (4, 2)):
            cfg = kfacsim.Config(rng, world=world, k=k, method=method, sym=True, prediv=(method == 'eigen' and rng.random() < 0.5))
            cfg.ops = (['f1'] * cfg.accum + ['s']) * rng.randrange(1, 3)
            cfgs.append(cfg)
    # directed corner: resume on several ranks with inverse broadcast (COMM-/HYBRID-OPT): after the load every rank has
    # computed second-order data locally; the following refreshes must replace it on the ranks that only receive it
    for world, k, method in ((2, 2, 'eigen'), (4, 2, 'inverse'), (4, 4, 'eigen')):
        cfg = kfacsim.Config(rng, world=world, k=k, method=method, prediv=(method == 'eigen' and rng.random() < 0.5), sym=False)
        cfg.hyper['factor_update_steps'], cfg.hyper['inv_update_steps'] = 1, 1
        it = ['f1'] * cfg.accum + ['s']
        cfg.ops = it + ['l11'] + it * 3
        cfgs.append(cfg)
    # directed corner: layers without bias (their gradient is installed / read as a view of the weight gradient) on
    # gradient-receiver ranks (MEM-OPT / HYBRID-OPT) with active clipping: the gradient written back is nu*V on every rank
    from fractions import Fraction
    for world, k in ((2, 1), (4, 1), (4, 2)):
        cfg = kfacsim.Config(rng, world=world, k=k)
        cfg.arch = [tuple(list(a[:-1]) + [False]) if a[0] in ('lin', 'conv') else a for a in cfg.arch]
        cfg.hyper['kl_clip'] = Fraction(1, 10**5)
        cfg.hyper['lr'] = Fraction(1, 10)
        cfg.keepgrad = rng.random() < 0.5
        cfg.ops = (['f1'] * cfg.accum + ['s']) * rng.randrange(2, 4)
        cfgs.append(cfg)
    # directed corner: a clip schedule (callable of the step) that reaches exactly 0 — the gradient written back is nu*V
    # with nu = 0, not the unclipped V — and convolutions with several input channels and kernels larger than 1x1 whose
    # A factor has moved away from a multiple of the identity (unequal channel scales come with random weights after a
    # few iterations with a small decay)
    for world in (1, 2):
        cfg = kfacsim.Config(rng, world=world)
        cfg.hyper['kl_clip'] = [Fraction(1, 100), Fraction(0), Fraction(1, 1000), Fraction(0)]
        cfg.hyper['lr'] = Fraction(1, 2)
        cfg.ops = (['f1'] * cfg.accum + ['s']) * 4
        cfgs.append(cfg)
    for world in (1, 2):
        cfg = kfacsim.Config(rng, world=world, nest=False)
        cfg.arch = [('conv', 2, 3, (2, 2), (1, 1), (1, 0), True), ('flat', 3), ('lin', None, 2, True)]
        cfg.hyper['factor_decay'] = Fraction(1, 4)
        cfg.hyper['damping'] = Fraction(1, 100)
        cfg.hyper['factor_update_steps'], cfg.hyper['inv_update_steps'] = 1, 1
        cfg.ops = (['f1'] * cfg.accum + ['s']) * 5
        cfgs.append(cfg)
    # directed corner: pre-divided eigenvalue products with a tiny damping (1e-6) and nearly rank-deficient factors (batch
    # smaller than the width, quickly decaying identity): 1/(dg*da + damping) reaches ~1e6 — no bound other than the damping
    for world in (1, 2):
        cfg = kfacsim.Config(rng, world=world, k=world, method='eigen', colocate=True, prediv=True, nest=False, inv32=False, fac32=False, hook=True, accum=1)
        cfg.arch = [('lin', 5, 5, True), ('lin', 5, 3, True)]
        cfg.batch = 2
        cfg.hyper['damping'] = Fraction(1, 10**6)
        cfg.hyper['factor_decay'] = Fraction(1, 20)
        cfg.hyper['kl_clip'] = None
        cfg.hyper['factor_update_steps'], cfg.hyper['inv_update_steps'] = 1, 1
        cfg.ops = ['f1', 's'] * 4
        cfgs.append(cfg)
    kfacsim.run_batch(ctx, cfgs, ('grads',), oracles=(kfacsim.oracle_reference,), whole_only_oracles=False)


def search(ctx):
    residual_stream(ctx)


def replay(ctx, payload):
    c = payload.get('case', {})
    if 'world' in c:
        return kfacsim.replay_case(ctx, payload, ('grads',), oracles=(kfacsim.oracle_reference,))
    exact_stream(ctx)
    residual_stream(ctx)
    for f in ctx.failures[:5]:
        print('replay:', f['what'])
    return bool(ctx.failures)
