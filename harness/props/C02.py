"""C02 — distributed work placement is semantically transparent."""
from __future__ import annotations

import copy

import gen
import kfacsim

RULE = ('base cases (model, per-rank batches, hyper-parameters, history of whole iterations) × placement variants '
        '(every divisor k of the world, colocate on/off, COMPUTE/MEMORY heuristic, bucket caps 0/tiny/between/huge, '
        'symmetry on/off) on 1–8 simulated ranks under perturbed schedules: the gradients of every rank and every '
        'variant are compared with each other, with the model\'s value terms (which the Lean theorem shows do not '
        'depend on the placement) and with single-process K-FAC on the union of the per-rank batches; '
        'non-trivial = world>1 and ≥2 placement variants and ≥2 steps'
        ' (directed corners: pre-divided products with varying damping and interval > 1; explicit inverses of float32 factors; bfloat16 factors compared across placements and bucket capacities; resume histories with every rank a separately spawned interpreter with its own hash seed over real gloo)')
TRUSTED = [
    'Lean 4.33 kernel; axioms audited ⊆ {propext, Classical.choice, Quot.sound}',
    'hand-written model KV.Precond tied to the real preconditioner by this correspondence (value terms evaluated in float64)',
    'simdist collective semantics; T-confluence argument of DESIGN §3 for "every interleaving" (schedules are sampled, the '
    'theorem side covers all of them through C03)',
    'float non-associativity across placements is outside the model (tolerance 2e-3 relative)',
    'single-process equivalence uses mean-reduced loss on the union batch with grad_scaler=1/world to undo the loss-scale '
    'dependence of the G factor (K-FAC is not invariant to rescaling the loss)',
]
ASSUMPTIONS = ['gradients are averaged across ranks before step() (DDP contract)']
PARTIAL = ['float rounding differences between placements are outside the model']
STREAMS = ('grads', 'ranks', 'steps')


def variants(rng, base, n):
    W = base.world
    out = []
    ks = gen.divisors(W)
    for _ in range(n):
        v = copy.copy(base)
        v.k = rng.choice(ks)
        v.colocate = rng.random() < 0.5 or v.k == 1 or base.prediv
        v.strategy = rng.choice(['compute', 'memory'])
        v.cap_mb = rng.choice([0.0, 0.00002, 0.0005, 25.0])
        v.sym = rng.random() < 0.5
        v.prediv = base.prediv and v.colocate
        out.append(v)
    return out


def grads_of(rr):
    """list over 's' ops of list over ranks of list over layers"""
    out = []
    for i, rec in enumerate(rr.res[0]['ops']):
        if rec['op'] == 's':
            out.append([rr.res[r]['ops'][i]['grads'] for r in range(len(rr.res))])
    return out


def lowprec_stream(ctx):
    """second-order data in bfloat16: gradients are then accurate to ~1e-2 only, but they still must not depend on the
    placement — every strategy performs the same arithmetic in the same precision (placements compared with each other only)"""
    rng = ctx.rng
    for b in range(ctx.budget(3, 24)):
        base = kfacsim.Config(rng, world=rng.choice([2, 4]), method=rng.choice(['inverse', 'inverse', 'eigen']), prediv=False)
        base.inv16, base.cap_mb, base.fac32, base.keepgrad = True, 0.0, False, False
        base.hyper['kl_clip'] = None
        base.hyper['inv_update_steps'] = 1
        base.ops = (['f1'] * base.accum + ['s']) * rng.randrange(2, 4)
        vs = []
        for k in gen.divisors(base.world):
            v = copy.copy(base)
            v.k, v.colocate = k, True
            vs.append(v)
        runs = []
        for j, v in enumerate(vs):
            rr = kfacsim.run_real(v, sched_seed=ctx.seed * 77 + b * 10 + j)
            if kfacsim.run_failed(rr):
                ctx.fail(f'run failed: {kfacsim.run_failed(rr)}', v.describe(), 'run-failed')
                break
            runs.append((v, grads_of(rr)))
        else:
            g0 = runs[0][1]
            for v, g in runs:
                bad = [(si, r, l, kfacsim.relerr(g[si][r][l], g0[si][0][l])) for si in range(len(g0)) for r in range(v.world)
                       for l in range(len(g0[si][0])) if kfacsim.relerr(g[si][r][l], g0[si][0][l]) > 1e-6]
                if bad:
                    si, r, l, e = bad[0]
                    ctx.fail(f'bfloat16 second-order data: step {si}, layer {l}, rank {r} with {v.k} gradient workers differs by {e:.2e} '
                             f'from rank 0 with {vs[0].k}', dict(v.describe(), base_k=vs[0].k), 'placement-dependent-lowprec')
                    break
        ctx.evaluations += 1
        ctx.case(('lowprec', str(base.describe())), nontrivial=True)
        ctx.count('lowprec-placements')
    # factors kept in bfloat16 (factor_dtype): every placement AND every bucket capacity (per-tensor all-reduce, small and
    # large buckets) averages the same half-precision tensors over the same group, so the gradients agree
    for b in range(ctx.budget(3, 24)):
        base = kfacsim.Config(rng, world=rng.choice([2, 3, 4]), method=rng.choice(['inverse', 'eigen']), prediv=False)
        base.inv16, base.inv32, base.fac32, base.fac16, base.keepgrad = False, False, False, (True if b % 2 == 0 else 'f16'), False
        base.hyper['kl_clip'] = None
        base.hyper['inv_update_steps'] = 1
        base.hyper['factor_update_steps'] = 1
        base.ops = (['f1'] * base.accum + ['s']) * rng.randrange(2, 4)
        vs = []
        for k in gen.divisors(base.world):
            for cap in (0.0, 25.0, 0.0002):
                v = copy.copy(base)
                v.k, v.colocate, v.cap_mb = k, True, cap
                vs.append(v)
        rng.shuffle(vs)
        vs = vs[:4] if any(v.cap_mb == 0.0 for v in vs[:4]) and any(v.cap_mb > 0 for v in vs[:4]) else vs[:6]
        g0 = None
        for j, v in enumerate(vs):
            rr = kfacsim.run_real(v, sched_seed=ctx.seed * 79 + b * 10 + j)
            if kfacsim.run_failed(rr):
                ctx.fail(f'run failed: {kfacsim.run_failed(rr)}', v.describe(), 'run-failed')
                break
            g = grads_of(rr)
            if g0 is None:
                g0 = g
                continue
            bad = [(si, r, l, kfacsim.relerr(g[si][r][l], g0[si][0][l])) for si in range(len(g0)) for r in range(v.world)
                   for l in range(len(g0[si][0])) if kfacsim.relerr(g[si][r][l], g0[si][0][l]) > 1e-6]
            if bad:
                si, r, l, e = bad[0]
                ctx.fail(f'half-precision factors ({"float16" if v.fac16 == "f16" else "bfloat16"}): step {si}, layer {l}, rank {r} with {v.k} gradient workers and bucket cap {v.cap_mb} MB '
                         f'differs by {e:.2e} from rank 0 with {vs[0].k} workers and cap {vs[0].cap_mb} MB',
                         dict(v.describe(), base_k=vs[0].k, base_cap=vs[0].cap_mb), 'placement-dependent-halffactors')
                break
        ctx.evaluations += 1
        ctx.case(('halffactors', str(base.describe())), nontrivial=True)
        ctx.count('halffactor-placements')


def interpreter_stream(ctx):
    """ranks are separate Python interpreters in a real job (torchrun, mpirun), each with its own string-hash seed; a fork of
    this process or the in-process simulator shares one.  A few resume histories on equal-shaped layers are run over real
    gloo with every rank spawned as its own interpreter (PYTHONHASHSEED differs per rank) and compared, rank by rank, with
    the simulated run: collective sequence, gradients after every step, saved factors."""
    import gloo_crosscheck
    from fractions import Fraction
    rng = ctx.rng
    for i in range(ctx.budget(2, 10)):
        world = rng.choice([2, 2, 3])
        cfg = kfacsim.Config(rng, world=world, k=world if i % 2 == 0 else rng.choice(gen.divisors(world)), nest=False,
                             method=rng.choice(['eigen', 'inverse']), prediv=False, inv32=False, fac32=False, accum=1)
        cfg.arch = [('lin', 3, 3, True)] * rng.choice([4, 5, 6])
        cfg.hyper['inv_update_steps'] = 2
        cfg.hyper['factor_update_steps'] = 1
        cfg.ops = ['f1', 's', 'f1', 's', 'l11', 'f1', 's', 'f1', 's']
        kfacsim.fix_loads(cfg)
        seeds = [rng.randrange(1, 4000) for _ in range(world)]
        diffs = gloo_crosscheck.crosscheck(ctx, cfg, sched_seed=ctx.seed + i, hashseeds=seeds)
        case = dict(cfg.describe(), sched_seed=ctx.seed + i, hashseeds=seeds, stream='separate-interpreters')
        if diffs:
            ctx.fail(f'ranks started as separate interpreters (hash seeds {seeds}) differ from the single-interpreter run: {diffs[0]}',
                     dict(case, diffs=diffs[:3]), 'interpreter-dependent')
        ctx.case(str(case), nontrivial=True, sample=case)
        ctx.count('separate-interpreters')


def method_spelling_stream(ctx):
    """compute_method may be given as the enum or as a string ('eigen'): the placement constraints are the same for both.
    Pre-divided eigenvalue products need co-located factors; a configuration without them is either rejected (ValueError,
    as for the enum) or, if the constructor accepts it, yields the gradients of the co-located placement."""
    rng = ctx.rng
    for world, k in ((2, 2), (4, 2), (4, 4)):
        base = kfacsim.Config(rng, world=world, k=k, colocate=True, method='eigen', prediv=True, nest=False, inv32=False, fac32=False)
        base.arch = [('lin', 3, 3, True), ('lin', 3, 2, True), ('lin', 2, 2, False)]
        base.hyper['kl_clip'] = None
        base.ops = (['f1'] * base.accum + ['s']) * 2
        bad = copy.copy(base)
        bad.colocate = False                     # (kfacsim passes compute_method as the string 'eigen')
        r_bad = kfacsim.run_real(bad, sched_seed=ctx.seed + world)
        f = kfacsim.run_failed(r_bad)
        case = dict(bad.describe(), stream='compute_method-as-string')
        if f:
            if 'colocate_factors must be True' not in str(f):
                ctx.fail(f'non-co-located factors with pre-divided eigenvalues: {f}', case, 'method-string-run-failed')
            ctx.count('method-string-rejected')
        else:
            r_ok = kfacsim.run_real(base, sched_seed=ctx.seed + world)
            g0, g1 = grads_of(r_ok), grads_of(r_bad)
            worst = max(kfacsim.relerr(g1[si][r][l], g0[si][0][l]) for si in range(len(g0)) for r in range(world) for l in range(len(g0[si][0])))
            if worst > 1e-6:
                ctx.fail(f"compute_method='eigen' (string) with compute_eigenvalue_outer_product=True and colocate_factors=False is accepted by the "
                         f'constructor (the enum spelling raises ValueError) and gives gradients that differ by {worst:.2e} from the co-located placement',
                         case, 'method-string-bypasses-colocation-guard')
            ctx.count('method-string-accepted')
        ctx.evaluations += 1
        ctx.case(('method-spelling', world, k), nontrivial=True, sample=case)


def run(ctx):
    lowprec_stream(ctx)
    interpreter_stream(ctx)
    method_spelling_stream(ctx)
    rng = ctx.rng
    nbase = ctx.budget(14, 120)
    for b in range(nbase):
        base = kfacsim.Config(rng, world=rng.choice([2, 2, 3, 4, 4, 6, 8]))
        base.cap_mb = 0.0
        base.ops = []
        directed = b % 4 == 0
        if directed:
            # directed corner: pre-divided eigenvalue products (held by the inverse worker AND broadcast), damping that
            # changes between inverse updates, steps that are not inverse-update steps
            from fractions import Fraction
            base.method, base.colocate, base.prediv = 'eigen', True, True
            base.hyper['damping'] = [Fraction(1, 4), Fraction(1, 8), Fraction(1, 2), Fraction(1, 16), Fraction(1, 3)]
            base.hyper['inv_update_steps'] = rng.choice([2, 3])
            ks = [k for k in range(2, base.world + 1) if base.world % k == 0]
            base.k = rng.choice(ks)
        if b % 4 == 1:
            # directed corner: a factor interval that neither divides nor is divided by the inverse interval, different data
            # per rank: every factor update is all-reduced before the next decomposition uses it
            base.hyper['factor_update_steps'], base.hyper['inv_update_steps'] = rng.choice([(2, 3), (2, 5), (3, 4)])
            directed = True
        if b % 4 == 2:
            # directed corner: explicit inverses of float32 factors (the dtype the inversion runs in), refreshed every step
            base.method, base.prediv, base.fac32 = 'inverse', False, True
            base.hyper['inv_update_steps'] = 1
            directed = True
        if b % 4 == 3:
            # directed corner: gradients kept in place between steps (zero_grad(set_to_none=False)), layers without bias (the
            # written-back gradient is then the very tensor the layer handed over), a clip that does not bind in the first
            # steps (nu = 1 exactly) and binds afterwards, few gradient workers: receivers and workers still agree (C02-mutU
            # reused one receive buffer, which after an unclipped step IS the parameter's .grad)
            from fractions import Fraction
            base.keepgrad = True
            base.arch = [('lin', a_[1], a_[2], False) if a_[0] == 'lin' else a_ for a_ in base.arch]
            if not any(a_[0] == 'lin' for a_ in base.arch):
                d = [rng.choice([2, 3, 4]) for _ in range(4)]
                base.arch = [('lin', d[j], d[j + 1], False) for j in range(3)]
            base.hyper['kl_clip'] = [Fraction(10**6), Fraction(10**6), Fraction(1, 10**5), Fraction(1, 10**4)]
            base.hyper['lr'] = Fraction(1, 10)
            base.k = 1
            base.nest = False
            directed = True
        for _ in range(rng.randrange((7 if b % 4 == 1 else 4) if directed else 2, ctx.budget(9 if b % 4 == 1 else 6, 10))):
            base.ops += ['f1'] * base.accum + ['s']
            if rng.random() < 0.2:
                base.ops.append('f0')
        vs = [base] + variants(rng, base, ctx.budget(3, 5))
        kept = kfacsim.run_batch(ctx, vs, STREAMS, oracles=(kfacsim.oracle_reference,),
                                 seeds=[ctx.seed * 1000 + b * 10 + j for j in range(len(vs))])
        ok = [(c, rr) for c, rr in kept if not kfacsim.run_failed(rr)]
        if len(ok) != len(vs):
            for c, rr in kept:
                if kfacsim.run_failed(rr):
                    ctx.fail(f'run failed: {kfacsim.run_failed(rr)}', c.describe(), 'run-failed')
            continue
        g0 = grads_of(ok[0][1])
        for c, rr in ok:
            g = grads_of(rr)
            for si in range(len(g0)):
                for r in range(c.world):
                    for l in range(len(g0[si][0])):
                        e = kfacsim.relerr(g[si][r][l], g0[si][0][l])
                        if e > 2e-3:
                            ctx.fail(f'step {si}: gradient of layer {l} on rank {r} under placement '
                                     f'(k={c.k}, colocate={c.colocate}, {c.strategy}, cap={c.cap_mb}, sym={c.sym}) differs by '
                                     f'{e:.2e} from rank 0 under (k={base.k}, colocate={base.colocate})',
                                     dict(c.describe(), base_k=base.k, base_colocate=base.colocate), 'placement-dependent')
                            break
        # single process on the union of the per-rank batches
        u = copy.copy(base)
        u.union_of = base.world
        u.world, u.k, u.colocate = 1, 1, True
        rru = kfacsim.run_real(u, sched_seed=1)
        if kfacsim.run_failed(rru):
            ctx.fail(f'single-process run failed: {kfacsim.run_failed(rru)}', u.describe(), 'union-run-failed')
            continue
        gu = grads_of(rru)
        for si in range(len(g0)):
            for l in range(len(g0[si][0])):
                e = kfacsim.relerr(gu[si][0][l], g0[si][0][l])
                if e > 2e-3:
                    ctx.fail(f'step {si}: gradient of layer {l} differs by {e:.2e} from single-process K-FAC on the union batch',
                             base.describe(), 'differs-from-single-process')
                    break
        ctx.count('union-compared')


def search(ctx):
    pass  # run() already evaluates the metamorphic and reference oracles on every case


def replay(ctx, payload):
    return kfacsim.replay_case(ctx, payload, STREAMS, oracles=(kfacsim.oracle_reference,))
