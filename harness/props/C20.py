"""C20 — tracing is transparent and its statistics exact."""
from __future__ import annotations

from fractions import Fraction

RULE = ('random operation sequences over 1–5 traced functions (two sharing a __name__, some raising, '
        'assorted args/kwargs/return values compared by identity) with kfac.tracing.time replaced by a '
        'scripted dyadic clock, interleaved get_trace(average, max_history) queries and clear_trace(); '
        'every query result compared exactly with the Lean table model; non-trivial = ≥3 calls and ≥1 query '
        'with a window smaller than the history'
        "; re-entrant call chains (recursion through the same or other traced functions) sent to the model's clock/stack machine as they are; durations with ~31 significant bits (exact in a double, not in a float32); a single enormous sample followed by small ones with windows that exclude it; trace(sync=True) on 1–3 simulated ranks")
TRUSTED = [
    'Lean 4.33 kernel; axioms audited ⊆ {propext, Classical.choice, Quot.sound}',
    'hand-written model KV.Trace tied to kfac/tracing.py by this correspondence',
    'clock values are dyadic rationals so float sums/means over them are compared exactly '
    '(means over 3,5,6,7 samples are compared as correctly rounded doubles within 1 ulp)',
]
ASSUMPTIONS = ['time.time is the only clock the wrapper reads']
PARTIAL = ['stat_window is proved for max_history ≥ 1 (and unset); max_history ≤ 0 is known finding F3']


class Clock:
    def __init__(self):
        self.t = Fraction(0)
        self.script = []

    def time(self):
        if self.script:
            self.t += self.script.pop(0)
        return float(self.t)


def rat(x):
    f = Fraction(x)
    return str(f.numerator) if f.denominator == 1 else f'{f.numerator}/{f.denominator}'


class Boom(Exception):
    pass


def gen_ops(rng, n):
    ops = []
    names = ['f', 'g', 'h', 'f']  # index 3 is a distinct function sharing the name 'f'
    for _ in range(n):
        r = rng.random()
        if r < 0.62:
            dt = Fraction(rng.randrange(1, 64), 2 ** rng.randrange(0, 6))
            if rng.random() < 0.15:
                # a duration with ~31 significant bits (more than a float32 holds, far fewer than a double): long calls
                # timed to sub-millisecond resolution
                dt = Fraction(rng.randrange(2**25, 2**30) * 2 + 1, 2**12)
            elif rng.random() < 0.06:
                dt = Fraction(0)      # a call that takes no measurable time is a completed call like any other: one sample of 0
            elif rng.random() < 0.04:
                # one enormous sample (a call that blocked): sums over windows that do not contain it stay exact, any
                # running total that contains it has lost the small ones
                dt = Fraction(2**60)
            ops.append(('c', rng.randrange(len(names)), dt, rng.random() < 0.15))
        elif r < 0.70:
            # re-entrant call: traced function chain[0] calls chain[1] calls ... before returning (recursion when an
            # index repeats); clock increments: start of level 1..k, then end of level k..0
            k = rng.randrange(1, 4)
            chain = [rng.randrange(len(names)) for _ in range(k + 1)]
            if rng.random() < 0.5:
                chain = [chain[0]] * (k + 1)
            inner_raises = rng.random() < 0.3
            incs = [Fraction(rng.randrange(1, 64), 2 ** rng.randrange(0, 6)) for _ in range(2 * k + (0 if inner_raises else 1))]
            ops.append(('n', chain, incs, inner_raises))
        elif r < 0.93:
            mh = rng.choice([None, None, 1, 2, 3, 4, 8, 100, rng.randrange(1, 6)])
            if rng.random() < 0.12:
                mh = rng.choice([0, -1, -2, -7])
            ops.append(('q', rng.random() < 0.5, mh))
        else:
            ops.append(('x',))
    return ops, names


def flatten(ops):
    """nested calls as the equivalent sequence of plain calls in completion order: level m lasts from its own start
    reading to its own end reading"""
    out = []
    for op in ops:
        if op[0] != 'n':
            out.append(op)
            continue
        chain, incs = op[1], op[2]
        inner_raises = len(op) > 3 and op[3]
        k = len(chain) - 1
        starts, ends = incs[:k], incs[k:]          # s_1..s_k ; e_k..e_0
        if inner_raises:
            # the innermost call raises (its caller catches the exception and goes on): the wrapper reads the clock at its
            # start only, so there is no end increment for level k and it records nothing
            out.append(('c', chain[k], Fraction(0), True))
            for m in range(k - 1, -1, -1):
                out.append(('c', chain[m], sum(starts[m:], Fraction(0)) + sum(ends[:k - m], Fraction(0)), False))
            continue
        for m in range(k, -1, -1):
            dur = sum(starts[m:], Fraction(0)) + sum(ends[:k - m + 1], Fraction(0))
            out.append(('c', chain[m], dur, False))
    return out


def run_real(ops, names, ctx, case):
    """Runs ops on the real kfac.tracing. Returns list of query result strings."""
    import kfac.tracing as tr
    clock = Clock()
    orig_time = tr.time
    tr.time = clock
    outs = []
    try:
        tr.clear_trace()
        sentinel = [object() for _ in names]
        seen_args = {}

        class Holder:
            """traced callables may also be methods: decorated in the class body, called through an instance"""

        holder = Holder()

        def mk(i, nm):
            if i % 3 == 2:
                def meth(self_, *a, **k):
                    if self_ is not holder:
                        ctx.fail('a traced method was not bound to its instance', case, 'method-binding')
                    return plain(*a, **k)
                meth.__name__ = nm
                setattr(Holder, f'm{i}', tr.trace()(meth))

                def plain(*a, **k):
                    seen_args[i] = (a, k)
                    if k.get('boom'):
                        raise Boom(i)
                    ch = k.get('chain')
                    if ch:
                        try:
                            r = fns[ch[0]](*a, key=k.get('key'), boom=bool(k.get('inner_boom') and len(ch) == 1), chain=ch[1:],
                                           inner_boom=k.get('inner_boom'))
                            if r is not sentinel[ch[0]]:
                                ctx.fail('nested traced function returned a different object', case, 'return-changed')
                        except Boom:
                            if not (k.get('inner_boom') and len(ch) == 1):
                                raise
                    return sentinel[i]
                return lambda *a, **k: getattr(holder, f'm{i}')(*a, **k)

            def fn(*a, **k):
                seen_args[i] = (a, k)
                if k.get('boom'):
                    raise Boom(i)
                ch = k.get('chain')
                if ch:
                    try:
                        r = fns[ch[0]](*a, key=k.get('key'), boom=bool(k.get('inner_boom') and len(ch) == 1), chain=ch[1:],
                                       inner_boom=k.get('inner_boom'))
                        if r is not sentinel[ch[0]]:
                            ctx.fail('nested traced function returned a different object', case, 'return-changed')
                    except Boom:
                        if not (k.get('inner_boom') and len(ch) == 1):
                            raise
                return sentinel[i]
            fn.__name__ = nm
            return (shared_deco if shared_deco is not None else tr.trace())(fn)
        # one decorator object kept and applied to several functions (`timed = trace()`), or a fresh one per function
        shared_deco = tr.trace() if (len(ops) + sum(1 for o in ops if o[0] == 'c')) % 3 == 0 else None
        fns = [mk(i, nm) for i, nm in enumerate(names)]
        for op in ops:
            if op[0] == 'c':
                _, i, dt, raises = op
                clock.t = Fraction(0)   # (time.time() may jump between calls; only differences inside a call matter)
                clock.script = [Fraction(1, 8), dt]  # t0 read, then t1 = t0 + dt
                arg = object()
                try:
                    r = fns[i](arg, 7, key=arg, boom=raises, func=arg, sync=False, self=None if i % 3 == 2 else arg)
                    if raises:
                        ctx.fail('exception of the traced function was swallowed', case, 'swallowed')
                    if r is not sentinel[i]:
                        ctx.fail('traced function returned a different object', case, 'return-changed')
                except Boom as e:
                    if not raises or e.args != (i,):
                        ctx.fail('traced function raised something else', case, 'raise-changed')
                except Exception as e:  # noqa: BLE001
                    ctx.fail(f'calling the traced {"method" if i % 3 == 2 else "function"} raised {type(e).__name__}: {e} '
                             '(the undecorated one returns normally)', case, 'raise-changed')
                    clock.script = []
                    continue
                a, k = seen_args.get(i, ((), {}))
                if len(a) != 2 or a[0] is not arg or a[1] != 7 or k.get('key') is not arg or k.get('func') is not arg \
                        or k.get('sync') is not False:
                    ctx.fail('arguments were not passed through unchanged', case, 'args-changed')
            elif op[0] == 'n':
                chain, incs = op[1], op[2]
                clock.t = Fraction(0)
                clock.script = [Fraction(1, 8)] + list(incs)
                arg = object()
                try:
                    r = fns[chain[0]](arg, 7, key=arg, boom=False, chain=list(chain[1:]), inner_boom=(len(op) > 3 and op[3]))
                except Exception as e:  # noqa: BLE001
                    ctx.fail(f'a chain of traced calls raised {type(e).__name__}: {e}', case, 'raise-changed')
                    clock.script = []
                    continue
                if r is not sentinel[chain[0]]:
                    ctx.fail('traced function returned a different object', case, 'return-changed')
                if clock.script:
                    ctx.fail('the wrapper did not read the clock once at the start and once at the end of every call', case, 'clock-reads')
            elif op[0] == 'x':
                tr.clear_trace()
            else:
                _, avg, mh = op
                try:
                    d = tr.get_trace(average=avg, max_history=mh)
                    outs.append(d)
                except ZeroDivisionError:
                    outs.append('ZeroDivisionError')
    finally:
        tr.time = orig_time
        tr.clear_trace()
    return outs


def reference(ops, names):
    """Independent reference table written from the statement (window = last max_history samples)."""
    table = {}
    res = []
    for op in ops:
        if op[0] == 'c':
            if not op[3]:
                table.setdefault(names[op[1]], []).append(op[2])
        elif op[0] == 'x':
            table = {}
        else:
            _, avg, mh = op
            out = {}
            for n, l in table.items():
                w = l if mh is None else (l[len(l) - min(mh, len(l)):] if mh > 0 else [])
                out[n] = (sum(w) / len(w) if avg else sum(w)) if (w or not avg) else None
            res.append(out)
    return res


def run(ctx):
    rng = ctx.rng
    lines, pend = [], []
    corpus = [
        # F3 witness: a window of 0 reports all samples; a negative window drops a prefix
        ([('c', 0, Fraction(1), False), ('c', 0, Fraction(2), False), ('c', 0, Fraction(4), False),
          ('q', False, 0), ('q', True, 0), ('q', False, -1), ('q', True, 1), ('q', False, 2)], ['f', 'g', 'h', 'f']),
        # a long history: "all of them when unset" has no bound on the number of samples
        ([('c', 0, Fraction(1, 2), False)] * 6000 + [('c', 1, Fraction(1, 4), False)] + [('c', 0, Fraction(3, 2), False)] * 4050
         + [('q', False, None), ('q', True, None), ('q', False, 10020), ('q', False, 5), ('q', True, 10050)], ['f', 'g', 'h', 'f']),
    ]
    for it in range(ctx.budget(400, 4000)):
        if it < len(corpus):
            ops, names = corpus[it]
        else:
            ops, names = gen_ops(rng, rng.randrange(1, ctx.budget(25, 60)))
        case = {'ops': [[o[0]] + [rat(x) if isinstance(x, Fraction) else ([rat(y) if isinstance(y, Fraction) else y for y in x] if isinstance(x, list) else x)
                                  for x in o[1:]] for o in ops], 'names': names}
        outs = run_real(ops, names, ctx, case)
        nested = any(o[0] == 'n' for o in ops)
        orig_ops = ops
        ops = flatten(ops)
        ref = reference(ops, names)
        impl_strs = []
        qi = 0
        for op in ops:
            if op[0] != 'q':
                continue
            o, r = outs[qi], ref[qi]
            qi += 1
            mh = op[2]
            if o == 'ZeroDivisionError':
                impl_strs.append('[ZeroDivisionError]')
                if mh is None or mh >= 1:
                    ctx.fail('ZeroDivisionError for a window ≥ 1', case, 'zerodiv')
                else:
                    ctx.fail(f'get_trace(max_history={mh}) raises ZeroDivisionError', case, 'max_history<=0')
                continue
            # exact rational rendering of the floats; means may be rounded → compare via nearest double
            parts = []
            for n, v in o.items():
                parts.append((n, v))
            # oracle vs statement
            for n, v in o.items():
                want = r.get(n)
                if mh is not None and mh <= 0:
                    if want is None or abs(Fraction(v) - want) > 0:
                        ctx.fail(f'get_trace(max_history={mh}) reports the statistic of '
                                 f'{"all" if mh == 0 else "a suffix of the"} samples, not of the last {mh}',
                                 case, 'max_history<=0')
                    continue
                if want is None or abs(Fraction(v) - want) > abs(want) * Fraction(1, 2**50):
                    ctx.fail(f'statistic for {n}: got {v}, statement says {want}', case, 'stat')
            if list(o.keys()) != list(r.keys()):
                ctx.fail('reported names differ from the functions called since the last clear', case, 'names')
            impl_strs.append(('[', parts, ']'))
        lines.append('trace ops=' + '|'.join(
            (f'c:{names[o[1]]}:{rat(o[2])}:{int(o[3])}' if o[0] == 'c' else
             ('x' if o[0] == 'x' else
              # re-entrant chains go to the model's clock/stack machine as they are (KV.Trace.nrun)
              ('|'.join(f'c:{names[f[1]]}:{rat(f[2])}:{int(f[3])}' for f in flatten([o])) if o[0] == 'n' and len(o) > 3 and o[3] else
               (f'n:{">".join(names[i] for i in o[1])}:{",".join(rat(x) for x in o[2])}' if o[0] == 'n' else
                f'q:{int(o[1])}:{"-" if o[2] is None else o[2]}')))) for o in orig_ops))
        pend.append((case, impl_strs))
        ncalls = sum(1 for o in ops if o[0] == 'c')
        nq = sum(1 for o in ops if o[0] == 'q' and o[2] is not None)
        ctx.case(lines[-1], nontrivial=ncalls >= 3 and nq >= 1, sample=case if len(ops) < 8 else None)
        ctx.count(f'calls{min(ncalls // 5, 5)}x5')
        ctx.count('has-nested-calls' if nested else 'flat-calls-only')
        ctx.count('has-clear' if any(o[0] == 'x' for o in ops) else 'no-clear')
        ctx.count('has-raise' if any(o[0] == 'c' and o[3] for o in ops) else 'no-raise')
        ctx.count('has-nonpositive-window' if any(o[0] == 'q' and o[2] is not None and o[2] <= 0 for o in ops) else 'windows>=1')
    sync_stream(ctx)
    thread_stream(ctx)
    opaque_args_stream(ctx)
    for (case, impl_strs), mo in zip(pend, ctx.model.ask(lines)):
        if mo is None:
            continue
        ms = mo.split(' ') if mo else []
        ok = len(ms) == len(impl_strs)
        why = ''
        if ok:
            for m, i in zip(ms, impl_strs):
                if isinstance(i, str):
                    if m != i:
                        ok, why = False, f'{m} vs {i}'
                    continue
                body = m[1:-1]
                entries = [e.split('=') for e in body.split(',')] if body else []
                if [e[0] for e in entries] != [n for n, _ in i[1]]:
                    ok, why = False, f'names {m} vs {i[1]}'
                    break
                for (n, q), (_, v) in zip(entries, i[1]):
                    fq = Fraction(q)
                    if Fraction(v) != fq and abs(Fraction(v) - fq) > abs(fq) * Fraction(1, 2**51):
                        ok, why = False, f'{n}: model {q} impl {v!r}'
                        break
        ctx.compare('trace', dict(case, why=why), 'match' if ok else f'differs: {why} | model={mo}', 'match')


def sync_stream(ctx):
    """trace(sync=True): the call runs between two barriers on every rank and is otherwise as transparent as the unsynced
    wrapper — same return object, same arguments, same exception, one sample per completed call"""
    import simdist
    import kfac.tracing as tr
    rng = ctx.rng
    for trial in range(ctx.budget(6, 40)):
        world = rng.choice([1, 2, 3])
        ncalls = rng.randrange(1, 5)
        raises = [rng.random() < 0.25 for _ in range(ncalls)]
        case = {'stream': 'sync', 'world': world, 'calls': ncalls, 'raises': raises}
        tr.clear_trace()

        def prog(rank, ncalls=ncalls, raises=raises):
            out = []
            sentinel = object()

            def work(a, key=None, boom=False):
                if boom:
                    raise Boom(7)
                return (sentinel, a, key)
            work.__name__ = f'work{rank}'
            f = tr.trace(sync=True)(work)
            for i in range(ncalls):
                arg = object()
                try:
                    r = f(arg, key=arg, boom=raises[i])
                    out.append('ok' if (isinstance(r, tuple) and len(r) == 3 and r[0] is sentinel and r[1] is arg and r[2] is arg) else f'returned {r!r}')
                except Boom as e:
                    out.append('boom' if e.args == (7,) else 'other-boom')
                except Exception as e:  # noqa: BLE001
                    out.append(f'raised {type(e).__name__}')
            return out
        wd, res = simdist.run_world(world, prog, seed=ctx.seed * 409 + trial, stickiness=rng.choice([0.0, 0.5, 0.9]))
        if wd.stalled or wd.errors or wd.exceptions:
            # (a raising call skips the second barrier on every rank alike: still matching)
            ctx.fail(f'synced traced calls: stalled={wd.stalled} errors={wd.errors[:1]} exceptions={dict(list(wd.exceptions.items())[:1])}', case, 'sync-run')
            tr.clear_trace()
            continue
        want = ['boom' if b else 'ok' for b in raises]
        for rank in range(world):
            if res[rank] != want:
                ctx.fail(f'rank {rank}: trace(sync=True) is not transparent: {res[rank]} instead of {want}', case, 'sync-transparent')
                break
        got = tr.get_trace(average=False)
        names = sorted(got)
        exp_names = sorted(f'work{r}' for r in range(world)) if any(not b for b in raises) else []
        if names != exp_names:
            ctx.fail(f'synced calls recorded under {names}, expected {exp_names}', case, 'sync-samples')
        tr.clear_trace()
        ctx.evaluations += 1
        ctx.case(('sync', world, ncalls, tuple(raises)), nontrivial=world > 1)
        ctx.count('sync-calls')


def thread_stream(ctx):
    """calls of one traced name completing on several threads (a data-loader or logging thread next to the training loop),
    one at a time: the window is the last max_history COMPLETED calls in completion order, whichever thread made them"""
    import threading
    import kfac.tracing as tr
    rng = ctx.rng
    for trial in range(ctx.budget(6, 40)):
        tr.clear_trace()
        clock = Clock()
        old_time = tr.time
        tr.time = clock
        try:
            def work():
                return None
            work.__name__ = 'work'
            f = tr.trace()(work)
            durs = [Fraction(2 ** rng.randrange(0, 6)) for _ in range(rng.randrange(3, 8))]
            who = [rng.randrange(2) for _ in durs]

            def call(dt):
                clock.t = Fraction(0)
                clock.script = [Fraction(1, 8), dt]
                f()
            for dt, w_ in zip(durs, who):
                if w_ == 0:
                    call(dt)
                else:
                    th = threading.Thread(target=call, args=(dt,))
                    th.start()
                    th.join()
            case = {'stream': 'threads', 'durations': [rat(d) for d in durs], 'thread': who}
            for mh in (1, 2, 3, None):
                got = tr.get_trace(average=False, max_history=mh)
                want = sum(durs[-mh:] if mh else durs)
                if list(got) != ['work'] or Fraction(got['work']) != want:
                    ctx.fail(f'get_trace(max_history={mh}) = {got} after calls completing on two threads; the last {mh or len(durs)} completed '
                             f'calls sum to {rat(want)}', case, 'thread-window')
                    break
            ctx.evaluations += 1
            ctx.count('thread-histories')
        finally:
            tr.time = old_time
            tr.clear_trace()


def opaque_args_stream(ctx):
    """transparency towards the ARGUMENTS: the wrapper hands them to the function and does nothing else with them — it does
    not render, compare, hash, copy or iterate them (an object whose `__repr__`/`__str__`/`__eq__`/`__hash__`/`__iter__`/
    `__bool__`/`__len__` raises, e.g. a half-constructed `self` passed to a traced method from `__init__`, is an ordinary
    argument; C20-mutU built a DEBUG f-string of args/kwargs before the call)"""
    import logging
    import kfac.tracing as tr
    rng = ctx.rng

    class Opaque:
        touched = 0

        def _boom(self, *a, **k):
            Opaque.touched += 1
            raise AttributeError('half-constructed object observed')
        __repr__ = __str__ = __eq__ = __hash__ = __iter__ = __bool__ = __len__ = __format__ = _boom

    for i in range(ctx.budget(12, 60)):
        tr.clear_trace()
        Opaque.touched = 0
        level = rng.choice([logging.WARNING, logging.DEBUG, logging.INFO])
        logger = logging.getLogger('kfac.tracing')
        root_old, old = logging.getLogger().level, logger.level
        logger.setLevel(level)
        sync = False
        case = {'stream': 'opaque-arguments', 'log_level': level, 'i': i}
        try:
            o = Opaque()
            f = tr.trace(sync=sync)(lambda a, b=None: (a is o, b is o))
            try:
                got = f(o, b=o) if i % 2 else f(o)
            except Exception as e:  # noqa: BLE001
                ctx.fail(f'a traced call with an argument whose __repr__/__eq__/__hash__/… raise did not behave like the plain call: '
                         f'{type(e).__name__}: {e}', case, 'opaque-args-raised')
                continue
            want = (True, True) if i % 2 else (True, False)
            if got != want or Opaque.touched:
                ctx.fail(f'a traced call observed its arguments ({Opaque.touched} special-method calls) or returned {got} instead of {want}',
                         case, 'opaque-args-observed')
            elif len(tr.get_trace()) != 1:
                ctx.fail(f'after one traced call the report has {len(tr.get_trace())} functions', case, 'opaque-args-sample')
        finally:
            logger.setLevel(old)
            logging.getLogger().setLevel(root_old)
        ctx.evaluations += 1
        ctx.count('opaque-args')
    tr.clear_trace()


def search(ctx):
    pass  # the reference-table oracle already ran on every case


def replay(ctx, payload):
    c = payload.get('case', {})
    if 'ops' in c:
        ops = []
        for o in c['ops']:
            if o[0] == 'c':
                ops.append(('c', o[1], Fraction(o[2]), o[3]))
            elif o[0] == 'n':
                ops.append(('n', list(o[1]), [Fraction(x) for x in o[2]], bool(o[3]) if len(o) > 3 else False))
            elif o[0] == 'q':
                ops.append(('q', o[1], o[2]))
            else:
                ops.append(('x',))
        outs = run_real(ops, c['names'], ctx, c)
        ops = flatten(ops)
        ref = reference(ops, c['names'])
        qi = 0
        for op in ops:
            if op[0] != 'q':
                continue
            o, r = outs[qi], ref[qi]
            qi += 1
            if o == 'ZeroDivisionError':
                ctx.fail('ZeroDivisionError', c, 'zerodiv')
                continue
            for n, v in o.items():
                want = r.get(n)
                if want is None or abs(Fraction(v) - want) > abs(want) * Fraction(1, 2**50):
                    ctx.fail(f'statistic for {n}: got {v}, statement says {want}', c, 'stat')
    for f in ctx.failures[:5]:
        print('replay:', f['what'])
    return bool(ctx.failures)
