"""C13 — memory and communication placement follow the KAISA strategy."""
from __future__ import annotations

import kfacsim

RULE = ('random configurations (world 1–8, every divisor k, both methods, pre-division, symmetry-aware, buckets) × '
        'histories of construction followed by training iterations with memory queries; per rank: which layers hold '
        'second-order data, memory_usage() per category, and the (kind, group, element count) of every collective are '
        'compared exactly with the Lean state machine; oracles evaluate the iff, the traffic rules, n(n+1)/2 and an '
        'independent walk over all tensors directly on the real run; non-trivial = world>1 and ≥2 steps')
TRUSTED = [
    'Lean 4.33 kernel; axioms audited ⊆ {propext, Classical.choice, Quot.sound}',
    'hand-written model KV.Precond (holdings, memBytes, emitted script) tied to the real preconditioner by this correspondence',
    'simdist collective semantics; element sizes observed from the run (float64 model)',
]
ASSUMPTIONS = ['histories are construction + whole training iterations + memory queries (the statement\'s scope); '
               'checkpoint loads put second-order data on every rank and are outside C13']
PARTIAL = []
STREAMS = ('trace', 'holds', 'mem')


def oracle(ctx, cfg, rr):
    if kfacsim.run_failed(rr):
        return
    case = cfg.describe()
    W = cfg.world
    nsteps = sum(1 for o in cfg.ops if o == 's')
    dims = rr.res[0]['assign']['dims']
    if nsteps >= 1:
        for r in range(W):
            for l, (h, gw) in enumerate(zip(rr.res[r]['holds'], rr.res[r]['assign']['gw'])):
                if h != gw:
                    return ctx.fail(f'rank {r} {"holds" if h else "does not hold"} second-order data of layer {l} but '
                                    f'is{"" if gw else " not"} a gradient worker', case, 'holds-iff-worker')
    for r in range(W):
        for rec in rr.res[r]['ops']:
            if rec['op'] == 'm' and rec['mem']['total'] != rec['actual_total']:
                return ctx.fail(f'rank {r}: memory_usage() total {rec["mem"]["total"]} != {rec["actual_total"]} bytes held',
                                case, 'memory')
            if rec['op'] == 'm' and rec.get('communicator_extra', 0):
                return ctx.fail(f'rank {r}: the communicator keeps {rec["communicator_extra"]} bytes of tensors alive (buckets, fused buffers, '
                                f'futures) that memory_usage() = {rec["mem"]["total"]} does not report', case, 'memory-communicator')
    # nothing K-FAC keeps alive hides from memory_usage(): module-level state of the kfac package (caches, memo tables) holds
    # no tensors
    hidden = module_level_tensor_bytes()
    if hidden and any(rec['op'] == 'm' for rec in rr.res[0]['ops']):
        return ctx.fail(f'module-level state of the kfac package keeps {hidden} bytes of tensors alive that memory_usage() does not report',
                        case, 'memory-hidden')
    # traffic
    a0 = rr.res[0]['assign']
    workers = [sorted(r for r in range(W) if rr.res[r]['assign']['gw'][l]) for l in range(len(dims))]
    recvs = {tuple(rr.res[r]['assign']['recv']) for r in range(W)}
    fac_elems = set()
    for a, g in dims:
        for n in (a, g):
            fac_elems.add(n * (n + 1) // 2 if cfg.sym else n * n)
    fac_list = []
    for a, g in dims:
        for n_ in (a, g):
            fac_list.append(n_ * (n_ + 1) // 2 if cfg.sym else n_ * n_)
    bucket_sums = {0}
    for c_ in fac_list:
        bucket_sums |= {x + c_ for x in bucket_sums}
    for r in range(W):
        for e in rr.res[r]['trace']:
            if e[0] != 'issue':
                continue
            _, members, kind, shape, dtype, root = e
            if W == 1:
                return ctx.fail('communication in a world of one', case, 'comm-world1')
            if kind == 'all_reduce':
                if tuple(members) != tuple(range(W)):
                    return ctx.fail(f'factor all-reduce on {members}, not the whole world', case, 'factor-group')
                n = 1
                for s_ in shape:
                    n *= s_
                if cfg.cap_mb == 0 and n not in fac_elems:
                    return ctx.fail(f'factor all-reduce of {n} elements; expected one of {sorted(fac_elems)} '
                                    f'({"n(n+1)/2" if cfg.sym else "n*n"})', case, 'factor-elems')
                if cfg.cap_mb > 0 and n not in bucket_sums:
                    # a bucket carries whole factors, each packed as the symmetry setting says: its element count is the
                    # sum of a sub-multiset of the per-factor counts
                    return ctx.fail(f'bucketed factor all-reduce of {n} elements is not a sum of per-factor counts {sorted(fac_list)} '
                                    f'({"n(n+1)/2" if cfg.sym else "n*n"} each)', case, 'bucket-elems')
            elif kind == 'broadcast':
                m = tuple(members)
                is_worker_group = any(m == tuple(wg) for wg in workers)
                is_recv = m in recvs
                if not (is_worker_group or is_recv):
                    return ctx.fail(f'broadcast on {members}, neither a gradient-worker nor a receiver group', case, 'bcast-group')
                if cfg.k == 1 and is_worker_group and not is_recv:
                    return ctx.fail('inverse broadcast under MEM-OPT', case, 'inv-bcast-memopt')
                if cfg.method == 'inverse' and is_worker_group and not is_recv:
                    # explicit inverses are symmetric: n(n+1)/2 elements when symmetry-aware, n*n otherwise — A and G alike
                    n = 1
                    for s_ in shape:
                        n *= s_
                    if n not in fac_elems:
                        return ctx.fail(f'inverse broadcast of {n} elements on {members}; expected one of {sorted(fac_elems)} '
                                        f'({"n(n+1)/2" if cfg.sym else "n*n"})', case, 'inverse-elems')
                if cfg.k == W and len(m) > 1 and not is_worker_group:
                    return ctx.fail('gradient broadcast under COMM-OPT', case, 'grad-bcast-commopt')
    # each factor all-reduced exactly once per factor-update step (unbucketed: one all-reduce per factor)
    if cfg.cap_mb == 0 and W > 1 and not isinstance(cfg.hyper['factor_update_steps'], list):
        import ref_kfac
        if ref_kfac.is_whole_iterations(cfg.ops, cfg.accum) and not any(o[0] == 'l' or o == 'r' for o in cfg.ops):
            fus = cfg.hyper['factor_update_steps']
            upd = sum(1 for s_ in range(nsteps) if s_ % fus == 0)
            want = upd * 2 * len(dims)
            got = sum(1 for e in rr.res[0]['trace'] if e[0] == 'issue' and e[2] == 'all_reduce')
            if got != want:
                return ctx.fail(f'{got} factor all-reduces for {upd} factor-update steps × {2 * len(dims)} factors', case, 'factor-once')


def module_level_tensor_bytes():
    """bytes of torch tensors reachable (through containers, caches and memoising wrappers, a few levels deep) from the
    global namespaces of the kfac modules"""
    import gc
    import sys
    import types
    import torch
    seen, total = set(), 0
    skip = (types.ModuleType, type, types.FunctionType, types.BuiltinFunctionType, types.MethodType, str, bytes, int, float, bool, type(None))
    frontier = []
    for name, mod in list(sys.modules.items()):
        if mod is None or not (name == 'kfac' or name.startswith('kfac.')):
            continue
        for v in list(vars(mod).values()):
            if isinstance(v, torch.Tensor) or not isinstance(v, skip):
                frontier.append((v, 0))
    while frontier:
        o, d = frontier.pop()
        if id(o) in seen:
            continue
        seen.add(id(o))
        if isinstance(o, torch.Tensor):
            total += o.nelement() * o.element_size()
            continue
        if d >= 4 or isinstance(o, skip):
            continue
        if isinstance(o, (dict, list, tuple, set, frozenset)) or type(o).__name__ in ('_lru_cache_wrapper', 'partial', 'OrderedDict', 'defaultdict', 'deque'):
            for x in gc.get_referents(o):
                frontier.append((x, d + 1))
    return total


def gen_cfgs(ctx, n):
    rng = ctx.rng
    cfgs = []
    c = kfacsim.Config(rng, world=4, k=2, colocate=True, method='eigen', prediv=True, sym=True, cap_mb=0.0, accum=1, hook=True)
    c.ops = ['f1', 's', 'm', 'f1', 's', 'm']
    cfgs.append(c)
    # directed corner: COMM-OPT requested as a fraction a hair below one (0.1 added ten times = 0.9999999999999999), which the
    # assignment resolves to ALL ranks being gradient workers: nothing but factors is ever communicated (C13-mutW decided
    # `broadcast_gradients()` from the requested fraction instead of the resolved worker count)
    for w_ in (2, 4):
        c = kfacsim.Config(rng, world=w_, k=w_, colocate=True, cap_mb=0.0, accum=1, hook=True)
        c.frac_hair = True
        c.ops = ['f1', 's', 'm', 'f1', 's']
        cfgs.append(c)
    while len(cfgs) < n:
        cfg = kfacsim.Config(rng)
        ops = []
        for _ in range(rng.randrange(1, ctx.budget(6, 14))):
            ops += ['f1'] * cfg.accum + ['s']
            if rng.random() < 0.5:
                ops.append('m')
            if rng.random() < 0.15:
                ops.append('f0')
        cfg.ops = ops
        cfgs.append(cfg)
    return cfgs


def graph_stream(ctx):
    """backward passes that record a graph (loss.backward(create_graph=True): gradient penalties, meta-learning): what the
    layers keep are plain tensors — no autograd history whose saved tensors would stay alive, unreported, from step to step"""
    import torch
    from kfac.preconditioner import KFACPreconditioner
    rng = ctx.rng
    for hook in (True, False):
        for method in ('eigen', 'inverse'):
            torch.manual_seed(rng.randrange(10**6))
            m = torch.nn.Sequential(torch.nn.Linear(4, 3), torch.nn.Tanh(), torch.nn.Linear(3, 2))
            p = KFACPreconditioner(m, compute_method=method, update_factors_in_hook=hook)
            case = {'stream': 'create_graph', 'method': method, 'update_factors_in_hook': hook}
            try:
                for step in range(3):
                    m.zero_grad()
                    m(torch.randn(6, 4)).pow(2).mean().backward(create_graph=True)
                    bad = None
                    for name, l in p._layers.values():
                        for k_, v_ in vars(l).items():
                            if isinstance(v_, torch.Tensor) and (v_.grad_fn is not None or v_.requires_grad):
                                bad = (name, k_)
                    p.step()
                    for name, l in p._layers.values():
                        for k_, v_ in vars(l).items():
                            if isinstance(v_, torch.Tensor) and (v_.grad_fn is not None or v_.requires_grad):
                                bad = (name, k_)
                    if bad:
                        ctx.fail(f'step {step}: layer {bad[0]} holds {bad[1]} with autograd history (its graph and saved tensors stay alive, '
                                 'invisible to memory_usage())', case, 'memory-autograd-graph')
                        break
                    for q in m.parameters():
                        q.grad = q.grad.detach()
            except Exception as e:  # noqa: BLE001
                ctx.fail(f'create_graph iteration raised {type(e).__name__}: {e}', case, 'graph-raised')
            ctx.evaluations += 1
            ctx.count('create_graph')


def partial_eval_stream(ctx):
    """some layers stop updating their factors (sub-modules put in eval mode, frozen statistics) while others go on: what
    every layer object holds — counted by the STORAGE behind each tensor, so that a factor that is a view into a larger
    communication buffer counts that whole buffer — is what memory_usage() reports"""
    import simdist
    import torch
    from kfac.preconditioner import KFACPreconditioner
    rng = ctx.rng
    for method in ('eigen', 'inverse'):
        for sym in (False, True):
            seed = rng.randrange(10**6)

            def prog(rank, method=method, sym=sym, seed=seed):
                torch.manual_seed(seed)
                m = torch.nn.Sequential(torch.nn.Linear(4, 4), torch.nn.Tanh(), torch.nn.Linear(4, 3), torch.nn.Tanh(), torch.nn.Linear(3, 2))
                p = KFACPreconditioner(m, compute_method=method, symmetry_aware=sym)
                recs = []
                for step in range(5):
                    if step == 2:
                        m[0].eval()
                        m[2].eval()
                    g = torch.Generator().manual_seed(seed + 100 * rank + step)
                    m.zero_grad()
                    m(torch.randn(6, 4, generator=g)).pow(2).mean().backward()
                    p.step()
                    rep = p.memory_usage()['total']
                    seen, held = set(), 0
                    for _, l in p._layers.values():
                        for v_ in vars(l).values():
                            if isinstance(v_, (torch.futures.Future, torch._C.Future)):
                                v_ = v_.wait()
                            if isinstance(v_, torch.Tensor) and v_.nelement():
                                st = v_.untyped_storage()
                                if st.data_ptr() not in seen:
                                    seen.add(st.data_ptr())
                                    held += st.nbytes()
                    recs.append((rep, held))
                return recs
            wd, res = simdist.run_world(2, prog, seed=ctx.seed * 17 + seed % 1000)
            case = {'stream': 'partial-eval', 'method': method, 'symmetry_aware': sym, 'seed': seed}
            if wd.exceptions or wd.stalled or wd.errors:
                ctx.fail(f'run failed: exc={wd.exceptions} stalled={wd.stalled} errors={wd.errors[:1]}', case, 'partial-eval-run')
                continue
            for rank in range(2):
                bad = [(i, r_, h_) for i, (r_, h_) in enumerate(res[rank]) if r_ != h_]
                if bad:
                    i, r_, h_ = bad[0]
                    ctx.fail(f'rank {rank}, step {i}: memory_usage() reports {r_} bytes, the storages behind the tensors the layers hold amount to {h_} '
                             'bytes (a factor kept as a view pins a whole communication buffer)', case, 'memory-pinned-buffer')
                    break
            ctx.evaluations += 1
            ctx.count('partial-eval')


def run(ctx):
    graph_stream(ctx)
    partial_eval_stream(ctx)
    kfacsim.run_batch(ctx, gen_cfgs(ctx, ctx.budget(80, 800)), STREAMS, oracles=(oracle,))


def search(ctx):
    rng = ctx.rng
    for i in range(300):
        cfg = kfacsim.Config(rng)
        cfg.ops = (['f1'] * cfg.accum + ['s', 'm']) * rng.randrange(1, 4)
        rr = kfacsim.run_real(cfg, sched_seed=4242 + i)
        oracle(ctx, cfg, rr)
        if ctx.failures:
            ctx.failures[-1]['case']['sched_seed'] = 4242 + i
            return


def replay(ctx, payload):
    return kfacsim.replay_case(ctx, payload, STREAMS, oracles=(oracle,))
