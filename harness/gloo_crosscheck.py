"""Validates the simulator: runs the same K-FAC configurations in real forked processes over real gloo
(as the repo's own testing/distributed.py does) and compares, per rank, the sequence of collectives
(kind, members, element count, dtype, root), the new_group calls, the gradients after every step, the
saved factors and memory_usage() with what simdist produced."""
from __future__ import annotations

import multiprocessing
import os
import socket
import traceback

import torch
import torch.distributed as dist

import kfacsim
import simdist


import common  # noqa: E402
TMP = os.path.join(common.OUT, 'gloo_tmp')


class Shim:
    """what kfacsim's program touches of a simdist World"""

    def __init__(self, n):
        self.trace = [[] for _ in range(n)]
        self.muted = [False] * n
        self.partial = {}


def _free_port():
    s = socket.socket()
    s.bind(('127.0.0.1', 0))
    p = s.getsockname()[1]
    s.close()
    return p


def _worker(rank, world, port, cfg, q):
    try:
        os.environ.update(MASTER_ADDR='127.0.0.1', MASTER_PORT=str(port), RANK=str(rank), WORLD_SIZE=str(world))
        torch.set_num_threads(1)
        dist.init_process_group('gloo', rank=rank, world_size=world)
        shim = Shim(world)
        simdist._tls.world = None      # the real backend is used
        simdist._tls.rank = rank
        o_ar, o_bc, o_ng = dist.all_reduce, dist.broadcast, dist.new_group

        def members(group):
            return tuple(range(world)) if group is None else tuple(dist.get_process_group_ranks(group))

        def ar(tensor, op=dist.ReduceOp.SUM, group=None, async_op=False):
            if not shim.muted[rank]:
                shim.trace[rank].append(('issue', members(group), 'all_reduce', tuple(tensor.shape), str(tensor.dtype), -1))
            return o_ar(tensor, op=op, group=group, async_op=async_op)

        def bc(tensor, src, group=None, async_op=False):
            if not shim.muted[rank]:
                shim.trace[rank].append(('issue', members(group), 'broadcast', tuple(tensor.shape), str(tensor.dtype), src))
            return o_bc(tensor, src=src, group=group, async_op=async_op)

        def ng(ranks=None, *a, **k):
            shim.trace[rank].append(('new_group', tuple(ranks) if ranks is not None else tuple(range(world))))
            return o_ng(ranks, *a, **k)
        dist.all_reduce, dist.broadcast, dist.new_group = ar, bc, ng

        class TLS:
            pass
        # kfacsim's program reads simdist._tls.world for trace/muted bookkeeping
        simdist._tls.world = shim
        # but collectives must reach the real backend: simdist is not patched in this process
        out = kfacsim.make_prog(cfg)(rank)
        dist.barrier()
        path = os.path.join(TMP, f'rank{rank}_{os.getpid()}.pt')
        torch.save(out, path)
        q.put((rank, path, None))
    except BaseException as e:  # noqa: BLE001
        q.put((rank, None, ''.join(traceback.format_exception_only(type(e), e)).strip()))


def run_gloo(cfg, timeout=120, hashseeds=None):
    """hashseeds: start every rank as a separate interpreter (multiprocessing 'spawn', as torchrun/mpirun do) with its own
    string-hash seed instead of forking this process"""
    os.makedirs(TMP, exist_ok=True)
    ctx = multiprocessing.get_context('spawn' if hashseeds else 'fork')
    q = ctx.Queue()
    port = _free_port()
    procs = [ctx.Process(target=_worker, args=(r, cfg.world, port, cfg, q)) for r in range(cfg.world)]
    old_hs = os.environ.get('PYTHONHASHSEED')
    old_pp = os.environ.get('PYTHONPATH')
    for r, p in enumerate(procs):
        if hashseeds:
            os.environ['PYTHONHASHSEED'] = str(hashseeds[r])
            import sys
            os.environ['PYTHONPATH'] = os.pathsep.join(x for x in sys.path if x)
        p.start()
    if hashseeds:
        for k_, v_ in (('PYTHONHASHSEED', old_hs), ('PYTHONPATH', old_pp)):
            if v_ is None:
                os.environ.pop(k_, None)
            else:
                os.environ[k_] = v_
    res = [None] * cfg.world
    err = None
    try:
        for _ in range(cfg.world):
            rank, path, e = q.get(timeout=timeout)
            if e:
                err = f'rank {rank}: {e}'
            elif path:
                res[rank] = torch.load(path, weights_only=False)
                os.remove(path)
    except Exception:  # noqa: BLE001
        err = err or 'timeout (a rank hung)'
    for p in procs:
        p.join(5)
        if p.is_alive():
            p.terminate()
            p.join(5)
            if p.is_alive():
                p.kill()
    return res, err


def issues(trace):
    return [e for e in trace if e[0] in ('issue', 'new_group')]


def crosscheck(ctx, cfg, sched_seed=0, hashseeds=None):
    """returns list of differences between the real-gloo run and the simdist run of cfg"""
    rr = kfacsim.run_real(cfg, sched_seed=sched_seed)
    gres, gerr = run_gloo(cfg, timeout=(400 if hashseeds else 120), hashseeds=hashseeds)
    if gerr and 'timeout' in gerr and not kfacsim.run_failed(rr) and not hashseeds:
        # a wall-clock timeout on a loaded machine is not a hang: run the processes again with a long limit; only a
        # run that still does not finish is reported (a real deadlock the simulator does not exhibit)
        ctx.count('gloo-retry-after-timeout')
        gres, gerr = run_gloo(cfg, timeout=900)
    diffs = []
    sfail = kfacsim.run_failed(rr)
    if gerr or sfail:
        if bool(gerr) != bool(sfail):
            diffs.append(f'gloo: {gerr!r}  simdist: {sfail!r}')
        return diffs
    for r in range(cfg.world):
        a = issues(rr.res[r]['ctor_trace'] + rr.res[r]['trace'])
        b = issues(gres[r]['ctor_trace'] + gres[r]['trace'])
        # new_group member lists are requested in CPython set order in both; compare as sorted tuples
        na = [(e[0], tuple(sorted(e[1]))) + tuple(e[2:]) for e in a]
        nb = [(e[0], tuple(sorted(e[1]))) + tuple(e[2:]) for e in b]
        if na != nb:
            k = next((i for i, (x, y) in enumerate(zip(na, nb)) if x != y), min(len(na), len(nb)))
            diffs.append(f'rank {r}: collective #{k} differs: simdist {na[k] if k < len(na) else None} vs gloo {nb[k] if k < len(nb) else None}')
            continue
        for i, (x, y) in enumerate(zip(rr.res[r]['ops'], gres[r]['ops'])):
            if 'grads' in x:
                for l, (g1, g2) in enumerate(zip(x['grads'], y['grads'])):
                    if kfacsim.relerr(g1, g2) > 1e-4:   # kfac decomposes in float32; thread counts differ between the two runs
                        diffs.append(f'rank {r} op {i} layer {l}: gradients differ by {kfacsim.relerr(g1, g2):.2e}')
            if 'mem' in x and x['mem'] != y['mem']:
                diffs.append(f'rank {r} op {i}: memory_usage differs')
            if 'factors' in x:
                for l, (f1, f2) in enumerate(zip(x['factors'], y['factors'])):
                    for t1, t2 in zip(f1, f2):
                        if (t1 is None) != (t2 is None) or (t1 is not None and kfacsim.relerr(t1, t2) > (3e-6 if getattr(cfg, 'fac32', False) else 1e-10)):
                            diffs.append(f'rank {r} op {i} layer {l}: saved factors differ')
        if rr.res[r]['holds'] != gres[r]['holds']:
            diffs.append(f'rank {r}: holdings differ')
    return diffs
