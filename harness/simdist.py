"""In-process multi-rank simulator of the parts of torch.distributed kfac uses.

One Python thread per rank, but only the thread holding the *baton* runs; every
simulated API call and every Future.wait is a yield point at which a seeded PRNG
chooses the next runnable rank.  A schedule is therefore a deterministic function
of (program, seed) and can be replayed; a state in which no rank is runnable and
some rank is unfinished is reported as a stall (no timeouts involved).

Semantics mirrored from the gloo backend (cross-checked by gloo_crosscheck.py):
  * per-group FIFO matching of collectives; all_reduce = elementwise sum written
    in place on every member; broadcast copies the root's buffer;
  * new_group must be called by every rank, in the same order, with the same
    ranks; non-members receive a NON_MEMBER sentinel for which get_world_size is
    -1 and every collective warns and returns None (as torch does);
  * async ops return a Work whose get_future() resolves to [tensor].
  * torch.save / torch.load / os.replace / os.rename are scheduling points (file-system calls block).
Everything is recorded in World.trace (per rank) for the trace properties.
"""
from __future__ import annotations

import random
import threading
import traceback
from contextlib import contextmanager

import torch
import torch.distributed as dist

_tls = threading.local()


class SimStall(Exception):
    pass


class SimAbort(BaseException):
    pass


class _NonMember:
    def __repr__(self):
        return 'NON_MEMBER'


NON_MEMBER = _NonMember()


class SimGroup:
    def __init__(self, ranks, gid):
        self.ranks = tuple(ranks)
        self.gid = gid

    def __repr__(self):
        return f'SimGroup{self.ranks}'


class _Slot:
    """k-th collective on one group."""

    def __init__(self):
        self.joined = {}  # rank -> (desc, payload, future)
        self.done = False


class SimWork:
    def __init__(self, fut):
        self._fut = fut

    def get_future(self):
        return self._fut

    def wait(self):
        self._fut.wait()
        return True

    def is_completed(self):
        return self._fut.done()


class World:
    def __init__(self, n, seed=0, stickiness=0.5):
        self.n = n
        self.rng = random.Random(seed)
        self.stickiness = stickiness
        self.cv = threading.Condition()
        self.current = None
        self.finished = [False] * n
        self.blocked = [None] * n  # predicate or None (= runnable)
        self.stalled = False
        self.errors = []  # protocol mismatches, recorded not raised
        self.exceptions = {}  # rank -> formatted exception raised by the program
        self.exc_objs = {}
        self.trace = [[] for _ in range(n)]  # per rank: event tuples
        self.world_group = SimGroup(range(n), 0)
        self.groups = [self.world_group]  # global creation order
        self.newgroup_calls = [[] for _ in range(n)]
        self.slots = {}  # gid -> list[_Slot]
        self.issued = {}  # (gid, rank) -> count
        self.results = [None] * n
        self.switches = 0
        self.muted = [False] * n   # per rank: do not record into trace (harness-side collectives)

    # ------------------------------------------------------------ scheduling
    def _runnable(self, r):
        if self.finished[r]:
            return False
        p = self.blocked[r]
        return p is None or p()

    def _pick(self, me):
        ready = [r for r in range(self.n) if self._runnable(r)]
        if not ready:
            return None
        if me in ready and self.rng.random() < self.stickiness:
            return me
        return self.rng.choice(ready)

    def _handoff(self, me):
        """Called with cv held.  Chooses who runs next; returns when `me` may run."""
        nxt = self._pick(me)
        if nxt is None:
            if all(self.finished):
                self.current = None
                self.cv.notify_all()
                return
            self.stalled = True
            self.cv.notify_all()
            raise SimAbort()
        if nxt != me:
            self.switches += 1
        self.current = nxt
        self.cv.notify_all()
        if self.finished[me]:
            return
        while self.current != me and not self.stalled:
            self.cv.wait()
        if self.stalled:
            raise SimAbort()

    def yield_point(self, pred=None):
        me = _tls.rank
        with self.cv:
            self.blocked[me] = pred
            self._handoff(me)
            self.blocked[me] = None

    # ------------------------------------------------------------ running
    def _thread_main(self, r, fn, args):
        _tls.rank = r
        _tls.world = self
        try:
            with self.cv:
                while self.current != r and not self.stalled:
                    self.cv.wait()
                if self.stalled:
                    raise SimAbort()
            self.results[r] = fn(r, *args)
        except SimAbort:
            pass
        except BaseException as e:  # noqa: BLE001
            self.exceptions[r] = ''.join(traceback.format_exception_only(type(e), e)).strip()
            self.exc_objs[r] = e
        finally:
            with self.cv:
                self.finished[r] = True
                try:
                    if not self.stalled:
                        self._handoff(r)
                except SimAbort:
                    pass
            _tls.world = None

    def run(self, fn, *args):
        """Run fn(rank, *args) on every rank. Returns list of results."""
        threads = [
            threading.Thread(target=self._thread_main, args=(r, fn, args), daemon=True)
            for r in range(self.n)
        ]
        with patched():
            for t in threads:
                t.start()
            with self.cv:
                self.current = self.rng.randrange(self.n)
                self.cv.notify_all()
            for t in threads:
                t.join(timeout=600)
                if t.is_alive():
                    with self.cv:
                        self.stalled = True
                        self.cv.notify_all()
                    self.errors.append(('hang', 'thread did not finish within 600 s'))
        return self.results

    # ------------------------------------------------------------ collectives
    def _members(self, group):
        if group is None:
            return self.world_group
        return group

    def _check_contiguous(self, kind, tensors):
        # NCCL rejects non-contiguous tensors, gloo silently sends the underlying storage: either way the
        # caller broke the contract of the collective
        for t in tensors:
            if isinstance(t, torch.Tensor) and not t.is_contiguous():
                self.errors.append(('non-contiguous', _tls.rank, kind, tuple(t.shape), tuple(t.stride())))

    def _join(self, group, desc, payload, compute):
        """Join the next slot of `group`; returns the future of this rank."""
        me = _tls.rank
        g = self._members(group)
        fut = torch.futures.Future()
        if me not in g.ranks:
            self.errors.append(('foreign-group', me, g.ranks, desc))
            self.trace[me].append(('issue-foreign', g.ranks) + desc)
            return None
        k = self.issued.get((g.gid, me), 0)
        self.issued[(g.gid, me)] = k + 1
        slots = self.slots.setdefault(g.gid, [])
        while len(slots) <= k:
            slots.append(_Slot())
        slot = slots[k]
        if not self.muted[me]:
            self.trace[me].append(('issue', g.ranks) + desc)
        if slot.joined:
            first = next(iter(slot.joined.values()))[0]
            if first != desc:
                self.errors.append(('mismatch', g.ranks, k, first, desc, me))
        slot.joined[me] = (desc, payload, fut)
        if len(slot.joined) == len(g.ranks):
            descs = {v[0] for v in slot.joined.values()}
            if len(descs) == 1:
                compute(slot)
            else:
                # mismatched collective: real backends hang or corrupt; we resolve
                # with what each rank supplied so the run can finish and the error
                # (already recorded) is reported.
                pass
            slot.done = True
            for r, (_, pl, f) in slot.joined.items():
                f.set_result([pl] if not isinstance(pl, list) else pl)
        return fut

    def all_reduce(self, tensor, op=None, group=None, async_op=False):
        if group is NON_MEMBER:
            return self._nonmember('all_reduce')
        self.yield_point()
        self._check_contiguous('all_reduce', [tensor])
        desc = ('all_reduce', tuple(tensor.shape), str(tensor.dtype), -1)

        def compute(slot):
            ts = [v[1] for _, v in sorted(slot.joined.items())]
            total = ts[0].clone()
            for t in ts[1:]:
                total += t
            for t in ts:
                t.copy_(total)

        fut = self._join(group, desc, tensor, compute)
        return self._finish(fut, async_op)

    def broadcast(self, tensor, src, group=None, async_op=False):
        if group is NON_MEMBER:
            return self._nonmember('broadcast')
        self.yield_point()
        self._check_contiguous('broadcast', [tensor])
        g = self._members(group)
        if src not in g.ranks:
            self.errors.append(('root-not-member', _tls.rank, g.ranks, src))
        desc = ('broadcast', tuple(tensor.shape), str(tensor.dtype), src)

        def compute(slot):
            if src in slot.joined:
                root = slot.joined[src][1]
                for r, v in slot.joined.items():
                    if r != src:
                        v[1].copy_(root)

        fut = self._join(group, desc, tensor, compute)
        return self._finish(fut, async_op)

    def all_gather(self, tensor_list, tensor, group=None, async_op=False):
        if group is NON_MEMBER:
            return self._nonmember('all_gather')
        self.yield_point()
        g = self._members(group)
        self._check_contiguous('all_gather', [tensor] + list(tensor_list))
        desc = ('all_gather', tuple(tensor.shape), str(tensor.dtype), -1)

        def compute(slot):
            for r, v in slot.joined.items():
                out = v[1][0]
                for i, m in enumerate(g.ranks):
                    out[i].copy_(slot.joined[m][1][1])

        fut = self._join(group, desc, [tensor_list, tensor], compute)
        return self._finish(fut, async_op)

    def reduce_scatter(self, output, input_list, op=None, group=None, async_op=False):
        if group is NON_MEMBER:
            return self._nonmember('reduce_scatter')
        self.yield_point()
        g = self._members(group)
        self._check_contiguous('reduce_scatter', [output] + list(input_list))
        desc = ('reduce_scatter', tuple(output.shape), str(output.dtype), -1)

        def compute(slot):
            # read every input before writing any output (outputs may alias inputs)
            sums = []
            for i, m in enumerate(g.ranks):
                total = None
                for r2 in g.ranks:
                    t = slot.joined[r2][1][1][i]
                    total = t.clone() if total is None else total + t
                sums.append(total)
            for i, m in enumerate(g.ranks):
                slot.joined[m][1][0].copy_(sums[i])

        fut = self._join(group, desc, [output, list(input_list)], compute)
        return self._finish(fut, async_op)

    def all_gather_object(self, object_list, obj, group=None):
        if group is NON_MEMBER:
            return self._nonmember('all_gather_object')
        self.yield_point()
        g = self._members(group)
        desc = ('all_gather_object', (), 'object', -1)

        def compute(slot):
            import copy
            for r, v in slot.joined.items():
                out = v[1][0]
                for i, m in enumerate(g.ranks):
                    out[i] = copy.deepcopy(slot.joined[m][1][1])

        fut = self._join(group, desc, [object_list, obj], compute)
        return self._finish(fut, False)

    def barrier(self, group=None, async_op=False):
        if group is NON_MEMBER:
            return self._nonmember('barrier')
        self.yield_point()
        desc = ('barrier', (), 'none', -1)
        fut = self._join(group, desc, [], lambda slot: None)
        return self._finish(fut, async_op)

    def _nonmember(self, kind):
        me = _tls.rank
        self.errors.append(('nonmember-call', me, kind))
        self.trace[me].append(('issue-nonmember', kind))
        return None

    def _finish(self, fut, async_op):
        if fut is None:
            return None
        if async_op:
            return SimWork(fut)
        me = _tls.rank
        if not self.muted[me]:
            self.trace[me].append(('wait-sync',))
        self.yield_point(lambda: fut.done())
        return None

    def new_group(self, ranks=None, timeout=None, backend=None, pg_options=None, **kw):
        self.yield_point()
        me = _tls.rank
        ranks = tuple(range(self.n)) if ranks is None else tuple(ranks)
        calls = self.newgroup_calls[me]
        idx = len(calls)
        calls.append(ranks)
        self.trace[me].append(('new_group', ranks))
        # global creation list: index idx+1 (0 is the world)
        if len(self.groups) <= idx + 1:
            self.groups.append(SimGroup(sorted(ranks), idx + 1))
            self.groups[idx + 1].requested = ranks
        g = self.groups[idx + 1]
        if tuple(sorted(ranks)) != g.ranks:
            self.errors.append(('new_group-order', me, idx, ranks, g.ranks))
            # what a real backend does here is undefined (hang); give the rank a
            # private group so the run can continue and the error is reported
            return SimGroup(sorted(ranks), 10_000 + 100 * me + idx) if me in ranks else NON_MEMBER
        if me not in g.ranks:
            return NON_MEMBER
        return g


# ---------------------------------------------------------------- patching
# A multi-node launcher (torchrun, one process per node) exports LOCAL_RANK=0 on every process although the
# global ranks differ: nothing in the library may take the local rank for the rank (threads share os.environ,
# so only launcher variables that are equal on all processes of such a launch are set).
import os as _os
_os.environ.setdefault('LOCAL_RANK', '0')
_os.environ.setdefault('LOCAL_WORLD_SIZE', '1')

def _w():
    w = getattr(_tls, 'world', None)
    return w


def _sim_is_initialized():
    return _w() is not None or _ORIG['is_initialized']()


def _sim_get_rank(group=None):
    w = _w()
    if w is None:
        return _ORIG['get_rank'](group)
    if group is None:
        return _tls.rank
    if group is NON_MEMBER:
        return -1
    return group.ranks.index(_tls.rank) if _tls.rank in group.ranks else -1


def _sim_get_world_size(group=None):
    w = _w()
    if w is None:
        return _ORIG['get_world_size'](group)
    if group is None:
        return w.n
    if group is NON_MEMBER:
        return -1
    return len(group.ranks) if _tls.rank in group.ranks else -1


def _mk(name):
    def f(*a, **k):
        w = _w()
        if w is None:
            return _ORIG[name](*a, **k)
        return getattr(w, name)(*a, **k)
    f.__name__ = name
    return f


def _sim_get_process_group_ranks(group):
    w = _w()
    if w is None:
        return _ORIG['get_process_group_ranks'](group)
    return list(w._members(group).ranks)


_NAMES = ['all_reduce', 'broadcast', 'all_gather', 'reduce_scatter', 'all_gather_object',
          'barrier', 'new_group']
_ORIG = {}
_patch_depth = 0
_patch_lock = threading.Lock()


def _patched_wait(self):
    w = _w()
    if w is not None:
        me = _tls.rank
        if not w.muted[me]:
            w.trace[me].append(('wait',))
        if not self.done():
            w.yield_point(lambda: self.done())
    return _ORIG['future_wait'](self)


def _mk_fs(orig):
    def call(*a, **k):
        w = _w()
        if w is not None:
            w.yield_point()
        try:
            return orig(*a, **k)
        finally:
            if w is not None:
                w.yield_point()
    return call


@contextmanager
def patched():
    global _patch_depth
    with _patch_lock:
        if _patch_depth == 0:
            for nm in _NAMES + ['is_initialized', 'get_rank', 'get_world_size',
                                'get_process_group_ranks']:
                _ORIG[nm] = getattr(dist, nm)
            _ORIG['future_wait'] = torch._C.Future.wait
            for nm in _NAMES:
                setattr(dist, nm, _mk(nm))
            dist.is_initialized = _sim_is_initialized
            dist.get_rank = _sim_get_rank
            dist.get_world_size = _sim_get_world_size
            dist.get_process_group_ranks = _sim_get_process_group_ranks
            _ORIG['ProcessGroup'] = dist.ProcessGroup
            dist.ProcessGroup = SimGroup       # `isinstance(g, torch.distributed.ProcessGroup)` in kfac.gpt_neox
            torch._C.Future.wait = _patched_wait
            # file-system calls block in reality: they are scheduling points too (before and after the call), so that
            # two ranks writing / renaming in one directory interleave
            import os as _os
            for mod_, nm in ((torch, 'save'), (torch, 'load'), (_os, 'replace'), (_os, 'rename')):
                _ORIG['fs_' + nm] = getattr(mod_, nm)
                setattr(mod_, nm, _mk_fs(_ORIG['fs_' + nm]))
        _patch_depth += 1
    try:
        yield
    finally:
        with _patch_lock:
            _patch_depth -= 1
            if _patch_depth == 0:
                for nm in _NAMES + ['is_initialized', 'get_rank', 'get_world_size',
                                    'get_process_group_ranks']:
                    setattr(dist, nm, _ORIG[nm])
                dist.ProcessGroup = _ORIG['ProcessGroup']
                torch._C.Future.wait = _ORIG['future_wait']
                import os as _os
                for mod_, nm in ((torch, 'save'), (torch, 'load'), (_os, 'replace'), (_os, 'rename')):
                    setattr(mod_, nm, _ORIG['fs_' + nm])


def run_world(n, fn, *args, seed=0, stickiness=0.5):
    """Convenience: returns (world, results)."""
    w = World(n, seed=seed, stickiness=stickiness)
    res = w.run(fn, *args)
    return w, res
