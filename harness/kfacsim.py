"""Runs the real KFACPreconditioner on N simulated ranks through a history of operations, records
everything observable (per-rank collective traces, gradients, factors, memory, holdings), builds the
matching protocol line for the Lean state machine (KV.Precond) and compares.

Shared by C02 C03 C05 C09 C13 (and the numeric streams of C01 C04 C07).
"""
from __future__ import annotations

import re
from fractions import Fraction

import torch

import simdist

DT = torch.float64


def rat(x):
    f = Fraction(x).limit_denominator(10**12) if isinstance(x, float) else Fraction(x)
    return str(f.numerator) if f.denominator == 1 else f'{f.numerator}/{f.denominator}'


# --------------------------------------------------------------------------- configuration
class Config:
    """One experiment: model architecture, KFAC options, history."""

    def __init__(self, rng, world=None, **force):
        self.seed = rng.randrange(10**9)
        self.world = world if world is not None else rng.choice([1, 2, 3, 4, 4, 6, 8])
        ks = [k for k in range(1, self.world + 1) if self.world % k == 0]
        self.k = rng.choice(ks)
        self.colocate = rng.random() < 0.6
        self.strategy = rng.choice(['compute', 'memory'])
        self.method = rng.choice(['eigen', 'eigen', 'inverse'])
        self.prediv = self.method == 'eigen' and self.colocate and rng.random() < 0.5
        self.sym = rng.random() < 0.4
        self.cap_mb = rng.choice([0.0, 0.0, 0.00002, 0.0002, 0.001, 25.0])
        self.accum = rng.choice([1, 1, 1, 2, 3])
        self.hook = rng.random() < 0.6
        # architecture: list of ('lin', in, out, bias) / ('conv', cin, cout, k, stride, pad, bias)
        self.arch = gen_arch(rng)
        # hyper-parameters: value or list (callable table indexed by step)
        self.hyper = {
            'factor_update_steps': rng.choice([1, 1, 2, 3, [1, 2, 2, 1, 3, 1, 1, 2]]),
            'inv_update_steps': rng.choice([1, 1, 2, 3, 4, [1, 3, 2, 2, 1, 1, 4, 1]]),
            'damping': rng.choice([Fraction(1, 10), Fraction(1, 4), [Fraction(1, 4), Fraction(1, 8), Fraction(1, 2), Fraction(1, 16)]]),
            'factor_decay': rng.choice([Fraction(1, 2), Fraction(3, 4), Fraction(15, 16), Fraction(1), [Fraction(1, 2), Fraction(3, 4), Fraction(7, 8)]]),
            'kl_clip': rng.choice([Fraction(1, 1000), Fraction(1, 100), Fraction(10**6), None, [Fraction(1, 100), Fraction(1, 1000), None, Fraction(1, 10)]]),
            'lr': rng.choice([Fraction(1, 10), Fraction(1), [Fraction(1, 10), Fraction(1, 2), Fraction(1, 100)]]),
        }
        self.batch = rng.choice([2, 4, 8])
        # nested containers: registered names such as '0.2' and '2' (one a dotted suffix of the other)
        self.nest = rng.random() < 0.25
        if self.nest:
            d = [rng.choice([2, 3]) for _ in range(4)]
            self.arch = [('lin', d[i], d[i + 1], rng.random() < 0.7) for i in range(3)]
        if not self.nest and rng.random() < 0.12:
            d = [rng.choice([2, 3]) for _ in range(7)]
            self.arch = [('lin', d[i], d[i + 1], rng.random() < 0.7) for i in range(6)]
        # second-order data stored in a dtype different from the factors'
        self.inv32 = rng.random() < 0.25
        # training loop that keeps the .grad tensors alive between iterations (zero_grad(set_to_none=False))
        self.keepgrad = rng.random() < 0.3
        # factors stored in float32 (the dtype the decompositions run in: `.to(float32)` is then no copy)
        self.fac32 = rng.random() < 0.25
        # checkpoints are loaded into a preconditioner constructed with different constant hyper-parameters
        self.perturb_ctor = rng.random() < 0.5
        self.ops = []
        for k_, v in force.items():
            setattr(self, k_, v)
        if self.k == 1 and not self.colocate:
            self.colocate = True       # the constructor forces this (MEM-OPT)
        if not self.colocate:
            self.prediv = False

    def key(self):
        return (self.world, self.k, self.colocate, self.method, self.prediv, self.sym, self.cap_mb,
                self.accum, self.hook, str(self.arch), str(self.hyper), tuple(self.ops))

    def describe(self):
        return {'world': self.world, 'k': self.k, 'colocate': self.colocate, 'strategy': self.strategy,
                'method': self.method, 'prediv': self.prediv, 'sym': self.sym, 'cap_mb': self.cap_mb,
                'accum': self.accum, 'hook': self.hook, 'arch': self.arch, 'batch': self.batch,
                'nest': getattr(self, 'nest', False), 'inv32': getattr(self, 'inv32', False),
                'keepgrad': getattr(self, 'keepgrad', False), 'spike': getattr(self, 'spike', None),
                'inv16': getattr(self, 'inv16', False), 'fac32': getattr(self, 'fac32', False),
                'perturb_ctor': getattr(self, 'perturb_ctor', False), 'frac_hair': getattr(self, 'frac_hair', False), 'mixdt': getattr(self, 'mixdt', False), 'fac16': getattr(self, 'fac16', False),
                'hyper_factors': [{k: str(v) for k, v in d_.items()} for d_ in (getattr(self, 'hyper_factors', None) or [])],
                'hyper': {k: (str(v) if not isinstance(v, list) else [str(x) for x in v]) for k, v in self.hyper.items()},
                'ops': list(self.ops), 'seed': self.seed, 'sched_seed': getattr(self, 'sched_seed', None),
                'hyper_changes': [{k: (None if v is None else str(v)) for k, v in ch.items()}
                                  for ch in getattr(self, 'hyper_changes', [])]}


def gen_arch(rng):
    if rng.random() < 0.7:
        dims = [rng.choice([2, 3, 4])] + [rng.choice([2, 3, 5]) for _ in range(rng.choice([1, 2, 3]))]
        return [('lin', dims[i], dims[i + 1], rng.random() < 0.7) for i in range(len(dims) - 1)]
    c1 = rng.choice([1, 2])
    c2 = rng.choice([2, 3])
    k = rng.choice([(1, 1), (2, 2), (1, 3), (2, 1), (3, 2)])
    st = rng.choice([(1, 1), (1, 1), (2, 1), (1, 2)])
    pd = rng.choice([(0, 0), (1, 1), (0, 1), (1, 0), (2, 1)])
    return [('conv', c1, c2, k, st, pd, rng.random() < 0.7),
            ('flat', c2),
            ('lin', None, rng.choice([2, 3]), rng.random() < 0.7)]


def gen_history(rng, length, allow_io=True, whole_iterations=False, accum=1):
    ops = ['f1'] * accum + ['s']       # every history starts with one whole iteration
    for _ in range(length):
        r = rng.random()
        if whole_iterations:
            if r < 0.75:
                ops += ['f1'] * accum + ['s']
            elif r < 0.85:
                ops.append('f0')
            elif allow_io and r < 0.9:
                ops.append('m')
            elif allow_io and r < 0.95:
                ops.append(rng.choice(['v1', 'v0']))
            elif allow_io:
                ops.append(rng.choice(['l11', 'l11', 'l10', 'l01']))
        else:
            if r < 0.45:
                ops.append('f1')
            elif r < 0.75:
                ops.append('s')
            elif r < 0.82:
                ops.append('f0')
            elif r < 0.86:
                ops.append('r')
            elif allow_io and r < 0.91:
                ops.append('m')
            elif allow_io and r < 0.95:
                ops.append(rng.choice(['v1', 'v0']))
            elif allow_io:
                ops.append(rng.choice(['l11', 'l10']))
    return ops


def fix_loads(cfg):
    """Loading a state without factors / without recomputing inverses is documented to work only if the
    next step is a factor-update resp. inverse-update step; replace other such loads by full loads."""
    steps = 0
    kept_steps = None
    out = []

    def hv(name):
        v = cfg.hyper[name]
        return v[min(steps, len(v) - 1)] if isinstance(v, list) else v
    for op in cfg.ops:
        if op == 's':
            steps += 1
        elif op[0] == 'R':
            steps = kept_steps if kept_steps is not None else steps
            if op != 'R11' and steps % hv('inv_update_steps') != 0:
                op = 'R11'
        elif op == 'k':
            kept_steps = steps
        elif op[0] == 'l' and op != 'l11':
            need_f = op[1] == '0'
            ok = steps % hv('inv_update_steps') == 0 and (not need_f or steps % hv('factor_update_steps') == 0)
            if not ok:
                op = 'l11'
        out.append(op)
    cfg.ops = out


def build_model(cfg):
    torch.manual_seed(cfg.seed)
    mods = []
    sh_, sw_ = 4, 5
    for a in cfg.arch:
        if a[0] == 'lin':
            fin = a[1]
            if fin is None:
                fin = cfg._flat
            mods.append(torch.nn.Linear(fin, a[2], bias=a[3]))
            mods.append(torch.nn.Tanh())
        elif a[0] == 'conv':
            mods.append(torch.nn.Conv2d(a[1], a[2], a[3], stride=a[4], padding=a[5], bias=a[6]))
            mods.append(torch.nn.Tanh())
            sh_ = (sh_ + 2 * a[5][0] - a[3][0]) // a[4][0] + 1
            sw_ = (sw_ + 2 * a[5][1] - a[3][1]) // a[4][1] + 1
        elif a[0] == 'flat':
            mods.append(torch.nn.Flatten())
            cfg._flat = a[1] * sh_ * sw_
    if getattr(cfg, 'mixdt', False):
        # layers of two dtypes (float32 first, float64 after a cast: what autocast produces with half types), so consecutive
        # factors handed to the communicator differ in dtype; oracle-only configurations (the model has one factor dtype)
        class Cast(torch.nn.Module):
            def __init__(self, dt):
                super().__init__()
                self.dt = dt

            def forward(self, x):
                return x.to(self.dt)
        net = torch.nn.Sequential(Cast(torch.float32), *mods[:2], Cast(DT), *mods[2:]).to(DT)
        net[1].float()
        return net
    if getattr(cfg, 'nest', False) and len(mods) >= 5:
        return torch.nn.Sequential(torch.nn.Sequential(*mods[:3]), *mods[3:]).to(DT)
    return torch.nn.Sequential(*mods).to(DT)


def input_for(cfg, rank, pass_):
    union = getattr(cfg, 'union_of', None)
    if union is not None:
        # single process fed the union of the per-rank batches of a `union`-rank run
        sub_ = Config.__new__(Config)
        sub_.__dict__.update(cfg.__dict__)
        sub_.union_of = None
        return torch.cat([input_for(sub_, r, pass_) for r in range(union)], 0)
    g = torch.Generator().manual_seed(cfg.seed * 7919 + rank * 104729 + pass_ * 1299709)
    a0 = cfg.arch[0]
    if a0[0] == 'lin':
        return torch.randn(cfg.batch, a0[1], generator=g, dtype=DT)
    return torch.randn(cfg.batch, a0[1], 4, 5, generator=g, dtype=DT)


def hp_arg(v, log=None, name=None):
    if isinstance(v, list):
        tbl = [None if x is None else float(x) for x in v]
        if all(isinstance(x, int) for x in v):
            tbl = list(v)

        def f(s, tbl=tbl):
            if log is not None:
                log.append((name, s))
            return tbl[min(s, len(tbl) - 1)]
        return f
    if v is None:
        return None
    return v if isinstance(v, int) else float(v)


def hp_str(v, isint=False):
    if isinstance(v, list):
        return 'f:' + ','.join('none' if x is None else (str(x) if isint else rat(x)) for x in v)
    return 'c:' + ('none' if v is None else (str(v) if isint else rat(v)))


def hyper_str(h, sep='|'):
    s = sep.join([hp_str(h['factor_update_steps'], True), hp_str(h['inv_update_steps'], True),
                  hp_str(h['damping']), hp_str(h['factor_decay']), hp_str(h['kl_clip']), hp_str(h['lr'])])
    return s


# --------------------------------------------------------------------------- independent layer math
def ref_cov_a(mod, x):
    """second moment of bias-augmented (conv: unfolded, spatially normalised) inputs — written from
    the statement of C04, independent of kfac.layers.*"""
    x = x.detach().to(DT)
    if isinstance(mod, torch.nn.Conv2d):
        cols = torch.nn.functional.unfold(x, mod.kernel_size, padding=mod.padding, stride=mod.stride)
        n, f, L = cols.shape
        a = cols.transpose(1, 2).reshape(n * L, f)
        if mod.bias is not None:
            a = torch.cat([a, torch.ones(n * L, 1, dtype=DT)], 1)
        a = a / L
    else:
        a = x.reshape(-1, x.shape[-1])
        if mod.bias is not None:
            a = torch.cat([a, torch.ones(a.shape[0], 1, dtype=DT)], 1)
    return a.t() @ a / a.shape[0]


def ref_cov_g(mod, g):
    g = g.detach().to(DT)
    if isinstance(mod, torch.nn.Conv2d):
        n, c, h, w = g.shape
        gg = g.permute(0, 2, 3, 1).reshape(n * h * w, c) / (h * w)
    else:
        gg = g.reshape(-1, g.shape[-1])
    return gg.t() @ gg / gg.shape[0]


def combined_grad(mod):
    g = mod.weight.grad.detach().reshape(mod.weight.shape[0], -1)
    if mod.bias is not None:
        g = torch.cat([g, mod.bias.grad.detach().view(-1, 1)], 1)
    return g.clone().to(DT)


def copy_state(sd):
    import copy
    return copy.deepcopy(sd)


def same_state(a, b):
    ok = sorted(a) == sorted(b) and all(a[k] == b[k] for k in a if k != 'layers')
    if ok and 'layers' in a:
        ok = sorted(a['layers']) == sorted(b['layers'])
        for n in a['layers'] if ok else []:
            for w in ('A', 'G'):
                x, y = a['layers'][n][w], b['layers'][n][w]
                ok = ok and ((x is None and y is None) or (x is not None and y is not None and torch.equal(x, y)))
    return ok


# --------------------------------------------------------------------------- the run
class RunResult:
    pass


def make_prog(cfg):
    from kfac.preconditioner import KFACPreconditioner
    import torch.distributed as dist

    def prog(rank):
        w = simdist._tls.world
        model = build_model(cfg)
        layers = [m for m in model.modules() if isinstance(m, (torch.nn.Linear, torch.nn.Conv2d))]

        hplog = []

        def mk(fresh=False):
            def H(n):
                v = hp_arg(cfg.hyper[n], hplog, n)
                if fresh and getattr(cfg, 'perturb_ctor', False) == 'callable' and not callable(v) and n != 'kl_clip':
                    # … or with a SCHEDULE where the checkpoint holds a constant: the checkpointed constant is what counts
                    # after the load (C09-mutW kept the constructor's callable)
                    pv = (v + 1) if n in ('factor_update_steps', 'inv_update_steps') else (0.3 if n == 'factor_decay' else v * 3.0 + 0.01)
                    return lambda _step=None, _pv=pv: _pv
                if fresh and getattr(cfg, 'perturb_ctor', False) and not callable(v):
                    # the preconditioner a checkpoint is loaded into was constructed with OTHER constants (e.g. the
                    # run had changed them through a scheduler): load_state_dict() restores the checkpointed ones
                    if n in ('factor_update_steps', 'inv_update_steps'):
                        return v + 1
                    if n == 'kl_clip':
                        # (also flips "clipping enabled": number <-> None)
                        # (a value small enough to bind: a checkpoint saying "no clipping" must switch it off again)
                        return 1e-6 if v is None else (None if cfg.seed % 2 else v * 7.0)
                    if n == 'factor_decay':
                        return 0.3
                    return v * 3.0 + 0.01
                return v
            return KFACPreconditioner(
                model,
                factor_update_steps=H('factor_update_steps'), inv_update_steps=H('inv_update_steps'),
                damping=H('damping'), factor_decay=H('factor_decay'), kl_clip=H('kl_clip'), lr=H('lr'),
                accumulation_steps=cfg.accum, allreduce_bucket_cap_mb=cfg.cap_mb,
                assignment_strategy=cfg.strategy, colocate_factors=cfg.colocate,
                compute_eigenvalue_outer_product=cfg.prediv, compute_method=cfg.method,
                grad_worker_fraction=(sum([0.1] * 10) if getattr(cfg, 'frac_hair', False) and cfg.k == cfg.world and cfg.world > 1
                                      else cfg.k / cfg.world), symmetry_aware=cfg.sym,
                inv_dtype=(torch.bfloat16 if getattr(cfg, 'inv16', False) else (torch.float32 if getattr(cfg, 'inv32', False) else DT)),
                factor_dtype=(torch.float16 if getattr(cfg, 'fac16', False) == 'f16' else torch.bfloat16 if getattr(cfg, 'fac16', False) else torch.float32 if getattr(cfg, 'fac32', False) else None),
                update_factors_in_hook=cfg.hook,
                grad_scaler=(None if getattr(cfg, 'union_of', None) is None
                             else (lambda: 1.0 / cfg.union_of)))
        out = {'rank': rank, 'ops': [], 'cov': {}, 'raw': {}, 'exc': None}
        # harness-side capture hooks (independent of kfac's): registered BEFORE kfac so they also
        # see what kfac's hooks see
        state = {'pass': 0, 'train': True}

        def mk_fwd(li, mod):
            def h(m, inp):
                if m.training:
                    out['cov'][(li, 'A', state['pass'])] = ref_cov_a(m, inp[0])
            return h

        def mk_bwd(li, mod):
            def h(m, gin, gout):
                if m.training:
                    out['cov'][(li, 'G', state['pass'])] = ref_cov_g(m, gout[0])
            return h
        for li, m in enumerate(layers):
            m.register_forward_pre_hook(mk_fwd(li, m))
            m.register_full_backward_hook(mk_bwd(li, m))
        p = mk()
        names = [n for n, _ in p._layers.values()]
        asg = p._assignment
        out['assign'] = {
            'inva': [asg.inv_worker(n, 'A') for n in names], 'invg': [asg.inv_worker(n, 'G') for n in names],
            'gw': [asg.is_grad_worker(n) for n in names], 'src': [asg.src_grad_worker(n) for n in names],
            'recv': list(asg.grad_receiver_group(names[0]).ranks) if isinstance(asg.grad_receiver_group(names[0]), simdist.SimGroup) else (list(range(cfg.world)) if cfg.k == 1 and False else None),
            'bi': asg.broadcast_inverses(), 'bg': asg.broadcast_gradients(),
            'dims': [(l.module.a_factor_shape[0], l.module.g_factor_shape[0]) for _, l in p._layers.values()],
            'cap': p._tdc.bucket_cap_bytes, 'bucketed': cfg.cap_mb > 0,
            'strategy': p.distributed_strategy.name,
        }
        rg = asg.grad_receiver_group(names[0])
        if isinstance(rg, simdist.SimGroup):
            out['assign']['recv'] = list(rg.ranks)
        elif rg is not None and not isinstance(rg, simdist._NonMember) and dist.is_initialized() and cfg.world > 1:
            out['assign']['recv'] = list(dist.get_process_group_ranks(rg))     # real backend (gloo cross-check)
        else:
            out['assign']['recv'] = [rank]
        out['trace_start'] = len(w.trace[rank])
        hyper = dict(cfg.hyper)
        try:
            for op in cfg.ops:
                rec = {'op': op}
                if op in ('f1', 'f0'):
                    model.train(op == 'f1')
                    x = input_for(cfg, rank, state['pass'])
                    y = model(x)
                    loss = (y * y).sum() / y.shape[0]
                    if op == 'f1' and tuple(getattr(cfg, 'spike', None) or ()) == (rank, state['pass']):
                        # spike = (rank, pass): the (scaled) loss of that rank overflows in that pass, so its backward
                        # pass carries inf/nan gradients — on a strict subset of the ranks.  Which collectives are
                        # issued must not depend on tensor VALUES.
                        loss = loss * float('inf')
                    loss.backward()
                    state['pass'] += 1 if op == 'f1' else 0
                    model.train(True)
                elif op == 'F':
                    # forward-only pass in training mode (e.g. a sanity forward under no_grad): the forward hooks
                    # run, no backward hook does.  Oracle-only op: not part of the Lean state machine.
                    model.train(True)
                    with torch.no_grad():
                        model(input_for(cfg, rank, state['pass']))
                    state['pass'] += 1
                elif op == 's':
                    # DDP-style gradient averaging done by the harness, not recorded
                    w.muted[rank] = True
                    for prm in model.parameters():
                        if prm.grad is None:
                            prm.grad = torch.zeros_like(prm)
                        dist.all_reduce(prm.grad)
                        prm.grad /= cfg.world
                    w.muted[rank] = False
                    rec['raw'] = [combined_grad(m) for m in layers]
                    rec['steps_before'] = p.steps
                    del hplog[:]
                    p.step()
                    rec['hpcalls'] = list(hplog)
                    rec['grads'] = [combined_grad(m) for m in layers]
                    rec['steps'] = p.steps
                    model.zero_grad(set_to_none=not getattr(cfg, 'keepgrad', False))
                elif op == 'r':
                    p.reset_batch()
                elif op == 'X':
                    # hyper-parameter-only round trip on the LIVE preconditioner: state without factors, default
                    # compute_inverses=True (which the library turns off with a warning: nothing to compute from).  Steps and
                    # scalar hyper-parameters are restored to what they are; factors and second-order data stay untouched.
                    import warnings as _w
                    with _w.catch_warnings():
                        _w.simplefilter('ignore')
                        p.load_state_dict(p.state_dict(include_factors=False), compute_inverses=True)
                    rec['steps'] = p.steps
                elif op == 'm':
                    rec['mem'] = dict(p.memory_usage())
                    # independent walk: every tensor attribute of every layer object
                    tot = 0
                    for _, l in p._layers.values():
                        for k_, v_ in vars(l).items():
                            if isinstance(v_, torch.futures.Future) or type(v_).__name__ in ('SimFuture', 'Future'):
                                # a factor still held as the future of its all-reduce is held nevertheless (memory_usage()
                                # itself has resolved every future it looked at by now)
                                v_ = v_.wait()
                                if isinstance(v_, (list, tuple)):
                                    v_ = v_[0]
                            if isinstance(v_, torch.Tensor):
                                tot += v_.nelement() * v_.element_size()
                    # ... and whatever the preconditioner's communicator still holds (buckets kept after they were sent,
                    # their tensors, fused buffers and futures): storages not already counted above
                    seen_ptr = set()
                    for _, l in p._layers.values():
                        for v_ in vars(l).values():
                            if isinstance(v_, torch.Tensor):
                                seen_ptr.add(v_.untyped_storage().data_ptr())
                    extra, stack, seen_id = 0, [(getattr(p, '_tdc', None), 0)], set()
                    while stack:
                        o_, d_ = stack.pop()
                        if o_ is None or id(o_) in seen_id or d_ > 6:
                            continue
                        seen_id.add(id(o_))
                        if isinstance(o_, torch.Tensor):
                            ptr = o_.untyped_storage().data_ptr()
                            if ptr not in seen_ptr and o_.nelement():
                                seen_ptr.add(ptr)
                                extra += o_.untyped_storage().nbytes()
                            continue
                        if isinstance(o_, (torch.futures.Future, torch._C.Future)):
                            if o_.done():
                                try:
                                    stack.append((o_.value(), d_ + 1))
                                except Exception:  # noqa: BLE001
                                    pass
                            continue
                        if isinstance(o_, dict):
                            stack.extend((x_, d_ + 1) for x_ in list(o_.values()))
                        elif isinstance(o_, (list, tuple, set, frozenset)):
                            stack.extend((x_, d_ + 1) for x_ in list(o_))
                        elif hasattr(o_, '__dict__') and type(o_).__module__.startswith('kfac'):
                            stack.extend((x_, d_ + 1) for x_ in list(vars(o_).values()))
                    rec['actual_total'] = tot
                    rec['communicator_extra'] = extra
                elif op in ('v1', 'v0', 'Y'):
                    # 'Y': a full round trip on the LIVE preconditioner (state with factors taken and loaded straight back,
                    # compute_inverses=False): pending batch statistics, factors and second-order data all stay as they are
                    sd = p.state_dict(include_factors=(op != 'v0'))
                    rec['steps'] = sd['steps']
                    rec['keys'] = sorted(k for k in sd if k != 'layers')
                    if 'layers' in sd:
                        rec['factors'] = [(sd['layers'][n]['A'], sd['layers'][n]['G']) for n in names]
                        rec['factors'] = [(None if a is None else a.clone().to(DT), None if g is None else g.clone().to(DT))
                                          for a, g in rec['factors']]
                    if op == 'Y':
                        import warnings as _w
                        with _w.catch_warnings():
                            _w.simplefilter('ignore')
                            p.load_state_dict(sd, compute_inverses=False)
                elif op == 'k':
                    # keep the state in memory (NOT copied) while training goes on
                    state['kept'] = p.state_dict()
                    state['kept_ref'] = copy_state(state['kept'])
                elif op[0] == 'R':
                    for m in layers:
                        for d in (m._forward_pre_hooks, m._backward_hooks):
                            for k_ in list(d.keys())[1:]:
                                del d[k_]
                    p = mk(fresh=True)
                    p.load_state_dict(state['kept'], compute_inverses=(op[2] == '1'))
                    rec['steps'] = p.steps
                    sd2 = p.state_dict()
                    rec['roundtrip_ok'] = same_state(sd2, state['kept_ref'])
                elif op[0] == 'l':
                    sd = p.state_dict(include_factors=(op[1] == '1'))
                    import copy
                    sd = copy.deepcopy(sd)
                    # fresh object: drop kfac's hooks from the modules, keep the harness hooks (first ones)
                    for m in layers:
                        for d in (m._forward_pre_hooks, m._backward_hooks):
                            for k_ in list(d.keys())[1:]:
                                del d[k_]
                    p = mk(fresh=True)
                    import warnings
                    sd_before = copy.deepcopy(sd)
                    with warnings.catch_warnings():
                        warnings.simplefilter('ignore')
                        p.load_state_dict(sd, compute_inverses=(op[2] == '1'))
                    rec['steps'] = p.steps
                    sd2 = p.state_dict(include_factors=(op[1] == '1'))
                    ok = sorted(sd2) == sorted(sd_before) and all(
                        sd2[k_] == sd_before[k_] for k_ in sd2 if k_ != 'layers')
                    if ok and 'layers' in sd2:
                        for n_ in sd2['layers']:
                            for w_ in ('A', 'G'):
                                a_, b_ = sd2['layers'][n_][w_], sd_before['layers'][n_][w_]
                                ok = ok and ((a_ is None and b_ is None) or
                                             (a_ is not None and b_ is not None and torch.equal(a_, b_)))
                    rec['roundtrip_ok'] = ok
                elif op.startswith('h:'):
                    # scheduler-like change of the constant hyper-parameters between iterations
                    newh = cfg.hyper_changes[int(op[2:])]
                    facs = getattr(cfg, 'hyper_factors', None)
                    if facs and facs[int(op[2:])]:
                        # through the real LambdaParamScheduler: v <- v * f (intervals: int(v * f)); the resulting values
                        # (computed by the generator from this law) are what the model is told
                        from kfac.scheduler import LambdaParamScheduler
                        LambdaParamScheduler(p, **{k_ + '_lambda': (lambda s_, f_=float(f): f_)
                                                   for k_, f in facs[int(op[2:])].items()}).step()
                    else:
                        for k_, v in newh.items():
                            setattr(p, '_' + k_, hp_arg(v))
                out['ops'].append(rec)
        except BaseException as e:  # noqa: BLE001
            out['exc'] = f'{type(e).__name__}: {e}'
            w.partial[rank] = out
            raise
        finally:
            out['trace'] = list(w.trace[rank][out['trace_start']:])
            out['ctor_trace'] = list(w.trace[rank][:out['trace_start']])
            out['holds'] = []
            for _, l in p._layers.values():
                fields = ['_qa', '_da', '_qg', '_dg', '_dgda'] if cfg.method == 'eigen' else ['_a_inv', '_g_inv']
                out['holds'].append(any(getattr(l, f, None) is not None for f in fields))
        return out

    return prog


def run_real(cfg, sched_seed=0, stickiness=0.5):
    prog = make_prog(cfg)
    wd = simdist.World(cfg.world, seed=sched_seed, stickiness=stickiness)
    wd.partial = {}
    res = wd.run(prog)
    rr = RunResult()
    rr.world = wd
    rr.res = [res[r] if res[r] is not None else wd.partial.get(r) for r in range(cfg.world)]
    return rr


# --------------------------------------------------------------------------- model line
def model_line(cfg, rr):
    a0 = rr.res[0]['assign']
    W = cfg.world
    nl = len(a0['dims'])
    workers = [[r for r in range(W) if rr.res[r]['assign']['gw'][l]] for l in range(nl)]
    recv = [rr.res[r]['assign']['recv'] for r in range(W)]
    src = [rr.res[r]['assign']['src'] for r in range(W)]
    ops = []
    for op in cfg.ops:
        if op.startswith('h:'):
            h = dict(cfg.hyper)
            # cumulative changes
            for i in range(int(op[2:]) + 1):
                h.update(cfg.hyper_changes[i])
            ops.append('h:' + hyper_str(h, sep='/').replace('/', '%').replace('%c:', '/c:').replace('%f:', '/f:'))
        elif op == 'X':
            ops.append('f0')      # a no-op of the state machine, like an eval-mode pass
        elif op == 'Y':
            ops.append('v1')      # reads the factors (waits for their futures) like state_dict(); the load changes nothing
        else:
            ops.append(op)
    es = 8
    ies = 2 if getattr(cfg, 'inv16', False) else (4 if getattr(cfg, 'inv32', False) else 8)
    return (f'precond world={W} layers=' + ','.join(f'{a}x{g}' for a, g in a0['dims'])
            + ' inva=' + ','.join(map(str, a0['inva'])) + ' invg=' + ','.join(map(str, a0['invg']))
            + ' workers=' + ';'.join(','.join(map(str, x)) for x in workers)
            + ' recv=' + ';'.join(','.join(map(str, x)) for x in recv)
            + ' src=' + ';'.join(','.join(map(str, x)) for x in src)
            + f' bi={int(a0["bi"])} bg={int(a0["bg"])} method={cfg.method} prediv={int(cfg.prediv)}'
            + f' sym={int(cfg.sym)} bucketed={int(a0["bucketed"])} cap={a0["cap"]} fe={4 if getattr(cfg, "fac32", False) else es} ie={ies} ge={es}'
            + f' accum={cfg.accum} hook={int(cfg.hook)} hyper={hyper_str(cfg.hyper)} ops=' + '|'.join(ops))


def impl_trace(rr, r):
    """per-rank trace in the model's RAct vocabulary (ids dropped)"""
    out = []
    for e in rr.res[r]['trace']:
        if e[0] == 'issue':
            _, members, kind, shape, dtype, root = e
            n = 1
            for s_ in shape:
                n *= s_
            es = {'torch.float64': 8, 'torch.float32': 4, 'torch.float16': 2, 'torch.bfloat16': 2}.get(dtype, 0)
            out.append(f'i:{",".join(map(str, members))}:{"ar" if kind == "all_reduce" else "bc"}:{n}:{es}:{max(root, 0)}')
        elif e[0] == 'wait':
            out.append('w')
        elif e[0] == 'new_group':
            continue   # construction of a fresh object after a checkpoint load; compared separately
        else:
            out.append('?' + e[0])
    return out


def model_trace(sec, r):
    m = re.search(rf'(?:^| )r{r}=(\S*)', sec)
    toks = m.group(1).split(';') if m and m.group(1) else []
    out, stalls = [], []
    for t in toks:
        if t.startswith('i'):
            out.append('i:' + t.split(':', 1)[1])
        elif t.startswith('w'):
            out.append('w')
        elif t.startswith('x'):
            out.append('STALL')
            stalls.append(t)
    return out, toks


# --------------------------------------------------------------------------- term evaluation
class Terms:
    """hash-consed term store: every distinct subterm gets one integer id (linear-time evaluation)"""

    def __init__(self):
        self.ids = {}
        self.nodes = []

    def intern(self, node):
        i = self.ids.get(node)
        if i is None:
            i = len(self.nodes)
            self.ids[node] = i
            self.nodes.append(node)
        return i

    def parse(self, s):
        toks = s.replace('(', ' ( ').replace(')', ' ) ').split()
        pos = 0
        stack = [[]]
        for t in toks:
            if t == '(':
                stack.append([])
            elif t == ')':
                lst = stack.pop()
                stack[-1].append(self.intern(tuple(lst)))
            else:
                stack[-1].append(t if stack and len(stack) > 1 else self.intern((t,)))
        return stack[0][0]


def parse_sexpr(s):
    raise NotImplementedError('use Terms.parse')


class Evaluator:
    """Numeric interpretation of the model's value terms on the data the real run saw."""

    def __init__(self, cfg, rr, dims):
        self.cfg, self.rr, self.dims = cfg, rr, dims
        self.terms = Terms()
        self.memo = {}
        self.eigh = {}
        self.refmemo = {}
        self.cur_raw = None      # raw gradients of the step whose output is being evaluated

    def begin_step(self, raw):
        """(g l i) leaves always denote the raw gradient of the step being evaluated (step indices repeat
        after a roll-back), so nothing that may contain them is cached across steps"""
        self.cur_raw = raw
        self.memo = {}

    def ev_str(self, s):
        return self.ev(self.terms.parse(s))

    def ev(self, i):
        if i in self.memo:
            return self.memo[i]
        v = self._ev(self.terms.nodes[i])
        self.memo[i] = v
        return v

    def _ev(self, t):
        op = t[0]
        if op == '0':
            return 0.0
        if op in ('garbage', 'none'):
            raise ValueError('garbage value reached')
        F = lambda x: float(Fraction(x))  # noqa: E731
        if op == 'I':
            l = int(t[1])
            n = self.dims[l][0 if t[2] == 'A' else 1]
            return torch.eye(n, dtype=DT)
        if op == 'cov':
            return self.rr.res[int(t[3])]['cov'][(int(t[1]), t[2], int(t[4]))]
        if op == 'add':
            return self.ev(t[1]) + self.ev(t[2])
        if op == 'div':
            return self.ev(t[1]) / int(t[2])
        if op == 'ema':
            a = F(t[1])
            return a * self.ev(t[2]) + (1 - a) * self.ev(t[3])
        if op in ('eigQ', 'eigD'):
            if t[1] not in self.eigh:
                d, q = torch.linalg.eigh(self.ev(t[1]))
                self.eigh[t[1]] = (torch.clamp(d, min=0.0), q)
            d, q = self.eigh[t[1]]
            return q if op == 'eigQ' else d
        if op == 'outerInv':
            return 1.0 / (torch.outer(self.ev(t[1]), self.ev(t[2])) + F(t[3]))
        if op == 'inv':
            f = self.ev(t[1])
            return torch.linalg.inv(f + F(t[2]) * torch.eye(f.shape[0], dtype=DT))
        if op == 'g':
            return self.cur_raw[int(t[1])]
        if op == 'pcEig':
            qa, da, qg, dg, g = self.ev(t[1]), self.ev(t[2]), self.ev(t[3]), self.ev(t[4]), self.ev(t[6])
            v1 = qg.t() @ g @ qa
            return qg @ (v1 / (torch.outer(dg, da) + F(t[5]))) @ qa.t()
        if op == 'pcEigPre':
            qa, qg, dgda, g = self.ev(t[1]), self.ev(t[2]), self.ev(t[3]), self.ev(t[4])
            return qg @ ((qg.t() @ g @ qa) * dgda) @ qa.t()
        if op == 'pcInv':
            return self.ev(t[2]) @ self.ev(t[3]) @ self.ev(t[1])
        if op == 'inner':
            return float((self.ev(t[1]) * self.ev(t[2])).sum())
        if op == 'nu':
            s_ = self.ev(t[3]) * F(t[2]) ** 2
            if s_ == 0:
                return 1.0
            return min(1.0, (F(t[1]) / abs(s_)) ** 0.5)
        if op == 'scale':
            return self.ev(t[1]) * self.ev(t[2])
        if op == 'ref':
            k = int(t[1])
            if k not in self.refmemo:
                self.refmemo[k] = self.ev_str(self.defs[k])
            return self.refmemo[k]
        raise ValueError(f'unknown term {op}')


def relerr(a, b):
    if tuple(a.shape) != tuple(b.shape):
        return float('inf')
    if a.numel() == 0:
        return 0.0
    d = (a - b).abs().max().item()
    s = max(a.abs().max().item(), b.abs().max().item(), 1e-30)
    return d / s


# --------------------------------------------------------------------------- comparison
def compare(ctx, cfg, rr, mo, tol=2e-3, streams=('trace', 'grads', 'ranks', 'mem', 'holds', 'factors', 'steps')):
    """Compares one real run with the model's output line. Returns nothing; records via ctx."""
    case = cfg.describe()
    W = cfg.world
    outs_s, traces_s, holds_s, err_s, defs_s, info_s = mo.split(' ## ')
    err_s = err_s + ' ' + info_s.replace('wfinfo', '').strip()
    outs = outs_s.split(' | ')
    m_fail = not (err_s.startswith('err=none') and err_s.endswith('stall=0'))
    ms = re.search(r' spec=(\S+)', err_s)
    if ms and ms.group(1) == '0':
        ctx.compare('precond-refines-spec', dict(case, model_says=err_s), 'spec=1', 'M-Precond output differs from the Spec machine')
    ctx.count('spec-refinement-' + (ms.group(1) if ms else 'absent'))
    if not m_fail and ' wf=1 ' not in err_s + ' ':
        ctx.compare('precond-script-wf', dict(case, model_says=err_s), 'wf=1', 'model script not well-formed')
    i_fail = run_failed(rr)
    ctx.compare('precond-failure', dict(case, model_says=err_s, impl_says=i_fail),
                'fails' if m_fail else 'completes', 'fails' if i_fail else 'completes')
    if m_fail or i_fail:
        return
    ng = [[e for e in rr.res[r]['trace'] + rr.res[r]['ctor_trace'] if e[0] == 'new_group'] for r in range(W)]
    if any(x != ng[0] for x in ng):
        ctx.compare('precond-newgroup-order', case, 'same on all ranks', 'differs')
    dims = rr.res[0]['assign']['dims']
    ev = Evaluator(cfg, rr, dims)
    ev.defs = defs_s.split(';') if defs_s else []
    if 'trace' in streams:
        for r in range(W):
            mt, raw = model_trace(traces_s, r)
            it = impl_trace(rr, r)
            ctx.compare('precond-trace', dict(case, rank=r), ';'.join(mt), ';'.join(it))
    if 'holds' in streams:
        for r in range(W):
            m = re.search(rf'(?:^| )r{r}=(\S*)', holds_s)
            mh = m.group(1) if m else ''
            ih = ''.join('1' if h else '0' for h in rr.res[r]['holds'])
            ctx.compare('precond-holds', dict(case, rank=r), mh, ih)
    for i, (op, mout) in enumerate(zip(cfg.ops, outs)):
        op = 'v1' if op == 'Y' else op
        recs = [rr.res[r]['ops'][i] for r in range(W)]
        if op == 's' and mout.startswith('S '):
            m = re.match(r'S steps=(\d+) eq=(\d) g=(.*)$', mout)
            if 'steps' in streams:
                ctx.compare('precond-steps', dict(case, op_index=i), m.group(1), str(recs[0]['steps']))
            if 'ranks' in streams:
                worst = max(relerr(recs[r]['grads'][l], recs[0]['grads'][l]) for r in range(W) for l in range(len(dims)))
                # identical = bit for bit: every rank multiplies the same (broadcast, or identically recomputed) tensors
                exact = all(torch.equal(recs[r]['grads'][l], recs[0]['grads'][l]) for r in range(W) for l in range(len(dims)))
                ctx.compare('precond-ranks-equal', dict(case, op_index=i, worst=worst), m.group(2), '1' if exact else '0')
            if 'grads' in streams:
                terms = m.group(3).split(';')
                ev.begin_step(recs[0]['raw'])
                try:
                    for l, ts in enumerate(terms):
                        want = ev.ev_str(ts)
                        got = recs[0]['grads'][l]
                        e = relerr(want, got)
                        ctx.compare('precond-grad-value', dict(case, op_index=i, layer=l, relerr=e),
                                    'match', 'match' if e < tol else f'relerr={e:.3e}')
                except ValueError as ex:
                    ctx.compare('precond-grad-value', dict(case, op_index=i), 'evaluable', f'not evaluable: {ex}')
        elif op == 'm' and 'mem' in streams and mout.startswith('M '):
            for r, part in enumerate(mout[2:].split(';')):
                mm = dict(kv.split('=') for kv in part.split(','))
                im = {k: str(v) for k, v in recs[r]['mem'].items()}
                ctx.compare('precond-mem', dict(case, rank=r, op_index=i), str(sorted(mm.items())), str(sorted(im.items())))
        elif op in ('v1', 'v0') and mout.startswith('V '):
            m = re.match(r'V steps=(\d+) eq=(\d) f=(.*)$', mout)
            if 'steps' in streams:
                ctx.compare('precond-steps', dict(case, op_index=i), m.group(1), str(recs[0]['steps']))
            if op == 'v1' and 'factors' in streams and m.group(3):
                for l, pair in enumerate(m.group(3).split(';')):
                    ta, tg = split_top(pair)
                    for which, ts, idx in (('A', ta, 0), ('G', tg, 1)):
                        got = recs[0]['factors'][l][idx]
                        if ts == 'none':
                            ctx.compare('precond-factor', dict(case, op_index=i, layer=l, which=which), 'none',
                                        'none' if got is None else 'tensor')
                            continue
                        if got is None:
                            ctx.compare('precond-factor', dict(case, op_index=i, layer=l, which=which), 'tensor', 'none')
                            continue
                        e = relerr(ev.ev_str(ts), got)
                        ctx.compare('precond-factor', dict(case, op_index=i, layer=l, which=which, relerr=e),
                                    'match', 'match' if e < (3e-6 if getattr(cfg, 'fac32', False) else 1e-9) else f'relerr={e:.3e}')
                        # all ranks hold the same factor
                        for r in range(1, W):
                            g2 = recs[r]['factors'][l][idx]
                            if g2 is None or relerr(g2, got) > 1e-12:
                                ctx.compare('precond-factor-ranks', dict(case, op_index=i, layer=l, rank=r), 'equal', 'differs')


def split_top(s):
    """split 'A,G' at the top-level comma"""
    depth = 0
    for i, ch in enumerate(s):
        if ch == '(':
            depth += 1
        elif ch == ')':
            depth -= 1
        elif ch == ',' and depth == 0:
            return s[:i], s[i + 1:]
    return s, 'none'


def run_failed(rr):
    w = rr.world
    if w.stalled:
        return 'stall: no rank runnable while some rank is unfinished'
    if w.exceptions:
        r, e = next(iter(w.exceptions.items()))
        return f'rank {r} raised {e}'
    if w.errors:
        return f'protocol error {w.errors[0]}'
    return None


# --------------------------------------------------------------------------- independent oracles
def oracle_reference(ctx, cfg, rr, tol=5e-3, key='grad-vs-reference'):
    """gradients of every rank after every step vs the reference K-FAC state machine (statements of
    C01/C04/C05/C07/C09 in float64). Only for whole-iteration histories."""
    import ref_kfac
    if run_failed(rr):
        return
    dims = rr.res[0]['assign']['dims']
    ref = ref_kfac.reference_grads(cfg, rr, dims)
    if ref is None:
        return
    for i, want in ref.items():
        if isinstance(i, tuple):
            continue
        for r in range(cfg.world):
            got = rr.res[r]['ops'][i]['grads']
            for l in range(len(dims)):
                e = relerr(want[l], got[l])
                if e > tol:
                    ctx.fail(f'op {i} (step): gradient of layer {l} on rank {r} differs from the reference K-FAC '
                             f'state machine by {e:.3e} (relative)', dict(cfg.describe(), op_index=i, layer=l, rank=r), key)
                    return


def oracle_state_keys(ctx, cfg, rr):
    """a saved state carries the step count and exactly the scalar hyper-parameters that are not callables (those are
    what load_state_dict can restore)"""
    if run_failed(rr):
        return
    changed = set()
    want0 = {'steps'} | {n for n, v in cfg.hyper.items() if not isinstance(v, list)}
    for r in range(cfg.world):
        for rec in rr.res[r]['ops']:
            if rec['op'] in ('v1', 'v0') and 'keys' in rec and set(rec['keys']) != want0:
                return ctx.fail(f'rank {r}: state_dict() holds {sorted(rec["keys"])}, expected the step count and the non-callable '
                                f'hyper-parameters {sorted(want0)}', cfg.describe(), 'state-keys')


def oracle_trace(ctx, cfg, rr, key_prefix='trace'):
    """C03 evaluated directly on the recorded traces of all ranks."""
    case = cfg.describe()
    w = rr.world
    if w.stalled:
        return ctx.fail('a rank stalled: no rank runnable while some rank is unfinished', case, key_prefix + '-stall')
    if w.exceptions:
        r, e = next(iter(w.exceptions.items()))
        return ctx.fail(f'rank {r} raised {e}', case, key_prefix + '-exception')
    for e in w.errors:
        if e[0] == 'mismatch':
            return ctx.fail(f'members of group {e[1]} issued different collectives as their {e[2]}-th operation: '
                            f'{e[3]} vs {e[4]}', case, key_prefix + '-mismatch')
        if e[0] in ('foreign-group', 'nonmember-call'):
            return ctx.fail(f'rank {e[1]} communicated on a group it does not belong to: {e[2:]}', case, key_prefix + '-foreign')
        if e[0] == 'root-not-member':
            return ctx.fail(f'broadcast root {e[3]} is not a member of {e[2]}', case, key_prefix + '-root')
        if e[0] == 'non-contiguous':
            return ctx.fail(f'rank {e[1]} passed a non-contiguous tensor (shape {e[3]}, strides {e[4]}) to {e[2]}: '
                            'NCCL rejects it, gloo silently sends the underlying storage', case, key_prefix + '-noncontiguous')
        if e[0] == 'new_group-order':
            return ctx.fail(f'rank {e[1]} created group {e[3]} where others created {e[4]}', case, key_prefix + '-newgroup')
        return ctx.fail(f'protocol error {e}', case, key_prefix + '-protocol')
    # per group: every member issued the same sequence
    seqs = {}
    for r in range(cfg.world):
        for e in w.trace[r]:
            if e[0] == 'issue':
                seqs.setdefault((e[1], r), []).append(e[2:])
    groups = {g for g, _ in seqs}
    for g in groups:
        ref_seq = None
        for r in g:
            sq = seqs.get((g, r), [])
            if ref_seq is None:
                ref_seq = sq
            elif sq != ref_seq:
                return ctx.fail(f'members of group {g} issued different operation sequences', case, key_prefix + '-mismatch')
    return None


# --------------------------------------------------------------------------- batch runner
def io_at_step_boundaries(ops, accum=1):
    """no state_dict / load_state_dict / memory_usage call between a training pass and the step that consumes it, and
    no more training passes before a step than `accumulation_steps` announces"""
    pending = 0
    for o in ops:
        if o in ('f1', 'F'):
            pending += 1
            if pending > accum:
                return False
        elif o == 's':
            pending = 0
        elif o[0] in 'mvlkRbB' and pending:
            return False
    return True


def run_batch(ctx, cfgs, streams, oracles=(), tol=2e-3, seeds=None, whole_only_oracles=True):
    """cfgs: list of Config. Runs each on the real code, asks the model once, compares."""
    import ref_kfac
    lines, keep = [], []
    for i, cfg in enumerate(cfgs):
        fix_loads(cfg)
        seed = (seeds[i] if seeds else ctx.seed * 7919 + i)
        cfg.sched_seed = seed
        rr = run_real(cfg, sched_seed=seed, stickiness=[0.0, 0.5, 0.9][seed % 3])
        if any(x is None or 'assign' not in x for x in rr.res):
            ctx.fail(f'construction failed: {run_failed(rr)}', cfg.describe(), 'ctor-failed')
            continue
        whole = ref_kfac.is_whole_iterations(cfg.ops, cfg.accum)
        for o in oracles:
            if whole or not whole_only_oracles:
                o(ctx, cfg, rr)
            elif o is oracle_trace and not rr.world.exceptions and io_at_step_boundaries(cfg.ops, cfg.accum):
                # arbitrary histories may legitimately raise (misuse); with every checkpoint / memory call at a step
                # boundary (the statement's scope) a stall or a mismatch with no error raised anywhere is a violation
                o(ctx, cfg, rr)
        if 'F' in cfg.ops:
            ctx.count('oracle-only history (forward-only pass)')
        else:
            lines.append(model_line(cfg, rr))
            keep.append((cfg, rr))
        ctx.case(str(cfg.key()), nontrivial=(cfg.world > 1 and sum(1 for o in cfg.ops if o == 's') >= 2),
                 sample=dict(cfg.describe(), sched_seed=seed) if len(cfg.ops) <= 8 else None)
        ctx.count(f'world{cfg.world}')
        ctx.count('k=w' if cfg.k == cfg.world else ('k=1' if cfg.k == 1 else 'hybrid'))
        ctx.count(cfg.method + ('+prediv' if cfg.prediv else ''))
        ctx.count('hook' if cfg.hook else 'nohook')
        ctx.count('bucketed' if cfg.cap_mb > 0 else 'unbucketed')
        ctx.count('whole-iter' if whole else 'arbitrary-history')
        if run_failed(rr):
            ctx.count('real-run-failed(expected for misuse histories)')
    outs = ctx.model.ask(lines)
    for (cfg, rr), mo in zip(keep, outs):
        if mo is not None:
            try:
                compare(ctx, cfg, rr, mo, tol=tol, streams=streams)
            except Exception as e:  # noqa: BLE001  (the implementation's records are not even of the expected form)
                ctx.compare('well-formed-records', cfg.describe(), 'well-formed', f'comparison impossible: {type(e).__name__}: {e}'[:300])
    return keep


def replay_case(ctx, payload, streams, oracles=()):
    """re-run a recorded configuration (from a replay file)"""
    import random
    c = payload.get('case', {})
    cfg = Config(random.Random(0), world=c['world'])
    for k_ in ('k', 'colocate', 'strategy', 'method', 'prediv', 'sym', 'cap_mb', 'accum', 'hook', 'batch', 'seed'):
        setattr(cfg, k_, c[k_])
    cfg.nest = c.get('nest', False)
    cfg.inv32 = c.get('inv32', False)
    cfg.keepgrad = c.get('keepgrad', False)
    cfg.inv16 = c.get('inv16', False)
    cfg.fac32 = c.get('fac32', False)
    cfg.spike = tuple(c['spike']) if c.get('spike') else None
    cfg.perturb_ctor = c.get('perturb_ctor', False)
    cfg.frac_hair = c.get('frac_hair', False)
    cfg.mixdt = c.get('mixdt', False)
    cfg.fac16 = c.get('fac16', False)
    cfg.hyper_factors = [{k: Fraction(v) for k, v in d_.items()} for d_ in c.get('hyper_factors', [])] or None
    cfg.arch = [tuple(tuple(x) if isinstance(x, list) else x for x in a) for a in c['arch']]
    cfg.ops = list(c['ops'])

    def un(v):
        if isinstance(v, list):
            return [un(x) for x in v]
        if v in ('None', None):
            return None
        f = Fraction(v)
        return int(f) if f.denominator == 1 and '/' not in str(v) and c is not None and False else f
    hy = {}
    for k_, v in c['hyper'].items():
        val = un(v)
        if k_ in ('factor_update_steps', 'inv_update_steps'):
            val = [int(x) for x in val] if isinstance(val, list) else int(val)
        hy[k_] = val
    cfg.hyper = hy
    cfg.hyper_changes = []
    for ch in c.get('hyper_changes', []):
        d = {}
        for k_, v in ch.items():
            d[k_] = None if v is None else (int(v) if k_ in ('factor_update_steps', 'inv_update_steps') else Fraction(v))
        cfg.hyper_changes.append(d)
    if cfg.mixdt:
        # oracle-only configuration (no model line)
        fix_loads(cfg)
        cfg.sched_seed = c.get('sched_seed', 0)
        rr = run_real(cfg, sched_seed=cfg.sched_seed, stickiness=[0.0, 0.5, 0.9][cfg.sched_seed % 3])
        oracle_trace(ctx, cfg, rr, key_prefix='mixed-dtype-trace')
    else:
        run_batch(ctx, [cfg], streams, oracles, seeds=[c.get('sched_seed', 0)], whole_only_oracles=False)
    for f in ctx.failures[:5]:
        print('replay:', f['what'])
    for d in ctx.disagreements[:3]:
        print('replay: correspondence differs on stream', d['stream'])
    return bool(ctx.failures)


def oracle_factors(ctx, cfg, rr, tol=1e-9):
    """C04 on the real run: every saved factor equals the decayed running average of batch second moments
    (reference recurrence), is symmetric positive semi-definite and identical on all ranks."""
    import ref_kfac
    if run_failed(rr):
        return
    dims = rr.res[0]['assign']['dims']
    ref = ref_kfac.reference_grads(cfg, rr, dims)
    if ref is None:
        return
    case = cfg.describe()
    if getattr(cfg, 'fac32', False):
        tol = max(tol, 3e-6)        # factors stored in float32
    for key, val in ref.items():
        if not isinstance(key, tuple):
            continue
        RA, RG = val
        i = key[1]
        for r in range(cfg.world):
            facs = rr.res[r]['ops'][i].get('factors')
            if facs is None:
                continue
            for l in range(len(dims)):
                for which, want, got in (('A', RA[l], facs[l][0]), ('G', RG[l], facs[l][1])):
                    if want is None and got is None:
                        continue
                    if want is None or got is None:
                        return ctx.fail(f'factor {which} of layer {l} on rank {r}: present/absent mismatch', dict(case, op_index=i), 'factor-presence')
                    e = relerr(want, got)
                    if e > tol:
                        return ctx.fail(f'factor {which} of layer {l} on rank {r} differs from decay*previous+(1-decay)*M '
                                        f'by {e:.2e}', dict(case, op_index=i, layer=l, which=which), 'factor-recurrence')
                    if relerr(got, got.t()) > 1e-12:
                        return ctx.fail(f'factor {which} of layer {l} is not symmetric', dict(case, op_index=i), 'factor-symmetric')
                    if torch.linalg.eigvalsh((got + got.t()) / 2).min().item() < -1000 * tol * max(1.0, got.abs().max().item()):
                        return ctx.fail(f'factor {which} of layer {l} is not positive semi-definite', dict(case, op_index=i), 'factor-psd')
