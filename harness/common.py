"""Shared machinery of the checks: Lean build + audit, model driver, evidence,
verdicts.  Runs under /venv/bin/python (needs torch + the repo under test)."""
from __future__ import annotations

import hashlib
import json
import os
import random
import re
import subprocess
import sys
import time
import warnings

warnings.filterwarnings('ignore')

VERIF = os.path.dirname(os.path.dirname(os.path.abspath(__file__)))
LEAN = os.path.join(VERIF, 'lean')
# trial runs against a scratch worktree (tools/try_mutant.sh) redirect their outputs so that they never
# touch the evidence of the registered checks
OUT = os.environ.get('KFAC_VERIF_OUT') or os.path.join(VERIF, 'out')
EVID = os.environ.get('KFAC_VERIF_EVID') or os.path.join(VERIF, 'evidence')
REPO = os.environ.get('KFAC_REPO', '/repo')
MODEL_EXE = os.path.join(LEAN, '.lake', 'build', 'bin', 'kfacmodel')

FORBIDDEN = re.compile(
    r'\b(sorry|admit|native_decide|bv_decide|implemented_by|unsafe)\b|^\s*axiom\s|maxHeartbeats\s+0')
STD_AXIOMS = {'propext', 'Classical.choice', 'Quot.sound'}


def import_kfac():
    """Import kfac from the repo's current working tree (asserted)."""
    if REPO not in sys.path:
        sys.path.insert(0, REPO)
    import kfac  # noqa
    here = os.path.realpath(os.path.dirname(kfac.__file__))
    want = os.path.realpath(os.path.join(REPO, 'kfac'))
    if here != want:
        raise RuntimeError(f'kfac imported from {here}, expected {want}')
    return kfac


# --------------------------------------------------------------------- Lean
def lake_build(pid=None):
    """(ok, log). No-op when up to date. Builds the model driver and the property's theorem file."""
    t = time.time()
    targets = ['kfacmodel'] + ([f'KfacVerif.Props.{pid}'] if pid else ['KfacVerif'])
    p = subprocess.run(['lake', 'build'] + targets, cwd=LEAN, capture_output=True, text=True)
    log = (p.stdout + p.stderr)[-6000:]
    return p.returncode == 0 and os.path.exists(MODEL_EXE), log, time.time() - t


def strip_comments(src: str) -> str:
    src = re.sub(r'/-.*?-/', '', src, flags=re.S)
    src = re.sub(r'--.*', '', src)
    return src


def source_audit():
    """Forbidden tokens outside comments, in every Lean file of the project."""
    hits = []
    for root, _, files in os.walk(LEAN):
        if '.lake' in root or 'Staging' in root:
            continue   # Staging/: statements in progress, not imported by any claimed module
        for f in files:
            if f.endswith('.lean'):
                p = os.path.join(root, f)
                for i, line in enumerate(strip_comments(open(p).read()).splitlines()):
                    if FORBIDDEN.search(line):
                        hits.append(f'{os.path.relpath(p, LEAN)}:{i + 1}: {line.strip()[:120]}')
    return hits


def property_theorems(pid: str):
    """Names of the property theorems: every `theorem` in Props/<pid>.lean."""
    p = os.path.join(LEAN, 'KfacVerif', 'Props', f'{pid}.lean')
    if not os.path.exists(p):
        return []
    src = strip_comments(open(p).read())
    ns = re.findall(r'^namespace\s+(\S+)', src, flags=re.M)
    prefix = (ns[0] + '.') if ns else ''
    return [prefix + n for n in re.findall(r'^theorem\s+([^\s:({\[]+)', src, flags=re.M)]


def axiom_audit(pid: str):
    """Run `#print axioms` on every property theorem of pid.
    Returns (obligations, discharged, bad: list[str], raw)."""
    names = property_theorems(pid)
    if not names:
        return 0, 0, ['no property theorems found'], ''
    os.makedirs(OUT, exist_ok=True)
    f = os.path.join(OUT, f'audit_{pid}.lean')
    with open(f, 'w') as fh:
        fh.write(f'import KfacVerif.Props.{pid}\n')
        for n in names:
            fh.write(f'#print axioms {n}\n')
    p = subprocess.run(['lake', 'env', 'lean', f], cwd=LEAN, capture_output=True, text=True)
    raw = p.stdout + p.stderr
    bad = []
    ok = 0
    # output blocks: "'name' depends on axioms: [a, b]" or "'name' does not depend on any axioms"
    txt = re.sub(r'\s+', ' ', raw)
    for n in names:
        m = re.search(r"'" + re.escape(n) + r"' (does not depend on any axioms|depends on axioms: \[([^\]]*)\])", txt)
        if not m:
            bad.append(f'{n}: no axiom report')
            continue
        axs = set() if m.group(2) is None else {a.strip() for a in m.group(2).split(',') if a.strip()}
        if axs - STD_AXIOMS:
            bad.append(f'{n}: non-standard axioms {sorted(axs - STD_AXIOMS)}')
        else:
            ok += 1
    if p.returncode != 0 and not bad:
        bad.append('audit file failed to elaborate: ' + raw[-400:])
    return len(names), ok, bad, raw


def leanchecker(pid: str):
    mods = [f'KfacVerif.Props.{pid}']
    p = subprocess.run(['lake', 'env', 'leanchecker'] + mods, cwd=LEAN, capture_output=True, text=True)
    return p.returncode == 0, (p.stdout + p.stderr)[-2000:]


class Model:
    """Batch line-protocol client of the compiled Lean model."""

    def __init__(self):
        self.lines = 0

    def ask(self, lines):
        if not lines:
            return []
        for l in lines:
            if '\n' in l:
                raise ValueError('newline in protocol line')
        p = subprocess.run([MODEL_EXE], input='\n'.join(lines) + '\n', capture_output=True, text=True)
        if p.returncode != 0:
            raise RuntimeError('model driver failed: ' + p.stderr[-2000:])
        out = p.stdout.split('\n')
        if out and out[-1] == '':
            out.pop()
        if len(out) != len(lines):
            raise RuntimeError(f'model driver returned {len(out)} lines for {len(lines)} ops')
        self.lines += len(lines)
        return out


# --------------------------------------------------------------------- verdicts
class Ctx:
    def __init__(self, pid, tier, seed):
        self.pid = pid
        self.tier = tier
        self.seed = seed
        self.rng = random.Random(f'{pid}-{seed}')
        self.model = Model()
        self.evaluations = 0
        self.keys = set()           # distinct non-trivial case keys
        self.samples = []
        self.dist = {}              # input distribution counters
        self.disagreements = []     # (stream, case, model_out, impl_out)
        self.failures = []          # oracle failures: dict(case=…, what=…, key=…)
        self.traces = 0
        self.exhaustive = False
        self.notes = []

    def thorough(self):
        return self.tier == 'thorough'

    def budget(self, quick, thorough):
        return thorough if self.thorough() else quick

    def count(self, name, k=1):
        self.dist[name] = self.dist.get(name, 0) + k

    def case(self, key, nontrivial=True, sample=None):
        self.evaluations += 1
        if nontrivial:
            self.keys.add(key if isinstance(key, str) else json.dumps(key, sort_keys=True, default=str))
        if sample is not None and len(self.samples) < 6:
            self.samples.append(sample)

    def compare(self, stream, case, model_out, impl_out):
        """Record a correspondence comparison. Returns True when equal."""
        self.traces += 1
        if model_out != impl_out:
            if len(self.disagreements) < 50:
                self.disagreements.append(
                    {'stream': stream, 'case': case, 'model': model_out, 'impl': impl_out})
            return False
        return True

    def fail(self, what, case, key):
        """Record an oracle failure = the property fails on the real code for `case`."""
        # capped per kind of failure, so that many instances of one (possibly known) failure never crowd out another kind
        n_same = sum(1 for f in self.failures if f['key'] == key)
        if n_same < 50 and len(self.failures) < 400:
            self.failures.append({'what': what, 'case': case, 'key': key})


def load_known():
    p = os.path.join(VERIF, 'known_findings.json')
    if not os.path.exists(p):
        return {'findings': [], 'fixed': []}
    return json.load(open(p))


def write_replay(pid, payload):
    d = os.path.join(OUT, 'replay')
    os.makedirs(d, exist_ok=True)
    blob = json.dumps(payload, sort_keys=True, default=str, indent=1)
    h = hashlib.sha1(blob.encode()).hexdigest()[:10]
    path = os.path.join(d, f'{pid}-{h}.json')
    with open(path, 'w') as fh:
        fh.write(blob)
    return os.path.relpath(path, VERIF)


def write_evidence(ctx, obligations, discharged, wall, violations, trusted, assumptions, extra=None):
    os.makedirs(EVID, exist_ok=True)
    cov = {
        'obligations': obligations,
        'discharged': discharged,
        'checker_cmd': f'cd lean && lake build && lake env lean ../out/audit_{ctx.pid}.lean  '
                       f'(#print axioms of every theorem in KfacVerif/Props/{ctx.pid}.lean)',
        'trusted_base': trusted,
        'evaluations': ctx.evaluations,
        'distinct_nontrivial': len(ctx.keys),
        'rule': ctx.rule if hasattr(ctx, 'rule') else '',
        'samples': ctx.samples[:6] if ctx.samples else ['(no case generated)'],
        'traces_validated_against_impl': ctx.traces,
        'model_lines_evaluated': ctx.model.lines,
        'exhaustive': bool(ctx.exhaustive),
        'input_distribution': ctx.dist,
        'theorems': property_theorems(ctx.pid),
        'notes': ctx.notes,
    }
    if extra:
        cov.update(extra)
    ev = {
        'property_id': ctx.pid,
        'tier': ctx.tier,
        'seed': ctx.seed,
        'level': 'proof',
        'coverage': cov,
        'assumptions': assumptions,
        'wall_s': round(wall, 2),
        'violations': violations,
    }
    with open(os.path.join(EVID, f'{ctx.pid}.json'), 'w') as fh:
        json.dump(ev, fh, indent=1, default=str)
