import torch


class PipelineModule(torch.nn.Module):
    """Holds the layers of THIS rank's pipeline stage and the 3-D topology."""

    def __init__(self, layers, topology=None, num_stages=None, layer_offset=0):
        super().__init__()
        # DeepSpeed registers each layer of the stage under its GLOBAL index in the full layer list
        self.forward_funcs = list(layers)
        for i, layer in enumerate(self.forward_funcs):
            self.add_module(str(layer_offset + i), layer)
        self._topo = topology
        self.num_stages = num_stages if num_stages is not None else (
            topology.get_dim('pipe') if topology is not None else 1)

    def topology(self):
        return self._topo

    def forward(self, x):
        for f in self.forward_funcs:
            x = f(x)
        return x
