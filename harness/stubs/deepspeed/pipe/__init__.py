import torch


class PipelineModule(torch.nn.Module):
    """Holds the layers of THIS rank's pipeline stage and the 3-D topology."""

    def __init__(self, layers, topology=None, num_stages=None):
        super().__init__()
        self.forward_funcs = torch.nn.ModuleList(list(layers))
        self._topo = topology
        self.num_stages = num_stages if num_stages is not None else (
            topology.get_dim('pipe') if topology is not None else 1)

    def topology(self):
        return self._topo

    def forward(self, x):
        for f in self.forward_funcs:
            x = f(x)
        return x
