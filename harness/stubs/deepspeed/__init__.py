"""Minimal stand-in for DeepSpeed (not installed in this sandbox).

Only what kfac.gpt_neox touches: deepspeed.pipe.PipelineModule (.topology()) and
deepspeed.runtime.pipe.topology.PipeModelDataParallelTopology (axes pipe, data, model;
row-major rank enumeration; get_axis_comm_lists / get_coord / get_dim / world_size), written
from DeepSpeed's published ProcessTopology semantics. Everything the checks say about
C11, C12, C18 is relative to this stub (see DESIGN.md trusted base)."""
