from collections import namedtuple
from itertools import product as cartesian_product


class ProcessTopology:
    def __init__(self, axes, dims):
        self.axes = axes
        self.dims = dims
        self.ProcessCoord = namedtuple('ProcessCoord', axes)
        self.mapping = {}
        ranges = [range(d) for d in dims]
        for global_rank, coord in enumerate(cartesian_product(*ranges)):
            key = {axis: coord[self.axes.index(axis)] for axis in self.axes}
            key = self.ProcessCoord(**key)
            self.mapping[key] = global_rank

    def get_rank(self, **coord_kwargs):
        if len(coord_kwargs) != len(self.axes):
            raise ValueError('get_rank() does not support slices. Use filter_match())')
        key = self.ProcessCoord(**coord_kwargs)
        assert key in self.mapping, f'key {coord_kwargs} invalid'
        return self.mapping[key]

    def get_axis_names(self):
        return self.axes

    def get_dim(self, axis):
        if axis not in self.axes:
            return 0
        return self.dims[self.axes.index(axis)]

    def get_coord(self, rank):
        for coord, idx in self.mapping.items():
            if idx == rank:
                return coord
        raise ValueError(f'rank {rank} not found in topology.')

    def get_axis_comm_lists(self, axis):
        if axis not in self.axes:
            return []
        other_axes = [a for a in self.axes if a != axis]
        lists = []
        ranges = [range(self.get_dim(a)) for a in other_axes]
        for coord in cartesian_product(*ranges):
            other_keys = {a: coord[other_axes.index(a)] for a in other_axes}
            sub_list = []
            for axis_key in range(self.get_dim(axis)):
                key = self.ProcessCoord(**other_keys, **{axis: axis_key})
                sub_list.append(self.mapping[key])
            lists.append(sub_list)
        return lists

    def world_size(self):
        return len(self.mapping)


class PipeModelDataParallelTopology(ProcessTopology):
    def __init__(self, num_pp, num_mp, num_dp):
        super().__init__(axes=['pipe', 'data', 'model'], dims=[num_pp, num_dp, num_mp])
