"""Structured generators shared by the correspondence checks (one PRNG each)."""
from __future__ import annotations


def divisors(n):
    return [d for d in range(1, n + 1) if n % d == 0]


def gen_work(rng, nlayers=None, factors=('A', 'G'), maxcost=None):
    """Cost dictionary layer -> {factor: cost}; ties and zeros are frequent."""
    if nlayers is None:
        nlayers = rng.choice([0, 1, 2, 3, 4, 5, 8, 13, 21, 40])
    style = rng.choice(['ties', 'small', 'wide', 'zeros', 'cubic'])
    work = {}
    for i in range(nlayers):
        name = rng.choice(['l', 'layer', 'fc', 'conv', 'm.0', 'b']) + str(i)
        if style == 'ties':
            c = lambda: rng.choice([1, 2])  # noqa: E731
        elif style == 'small':
            c = lambda: rng.randrange(0, 6)  # noqa: E731
        elif style == 'wide':
            c = lambda: rng.choice([0, 1, 7, 100, 10**6, 3 * 10**9])  # noqa: E731
        elif style == 'zeros':
            c = lambda: rng.choice([0, 0, 0, 1])  # noqa: E731
        else:
            c = lambda: rng.randrange(1, 40) ** 3  # noqa: E731
        fs = list(factors)
        if rng.random() < 0.15:
            fs = fs[:1]
        if rng.random() < 0.1:
            fs = fs + ['B']
        if rng.random() < 0.3:
            rng.shuffle(fs)
        work[name] = {f: (c() if maxcost is None else min(c(), maxcost)) for f in fs}
    return work


def work_str(work):
    return ';'.join(
        name + ':' + ','.join(f'{f}={c}' for f, c in fs.items()) for name, fs in work.items())


def assign_str(assign):
    return ';'.join(
        name + ':' + ','.join(f'{f}={r}' for f, r in fs.items()) for name, fs in assign.items())


def nats(l):
    return ','.join(str(x) for x in l)


def natlists(ls, sep=';'):
    return sep.join(nats(l) for l in ls)
