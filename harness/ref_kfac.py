"""Reference K-FAC state machine written from the property statements (C01 C04 C05 C07 C09), in float64,
independent of the Lean model and of kfac's layer code.  Used as the failing-input oracle.

It consumes what the harness captured from the real run: per (layer, A/G, rank, pass) batch second
moments (computed by the harness's own hooks with its own formulas), the raw combined gradients
before every step, the hyper-parameters, and the history.  It is defined for histories made of whole
iterations (accum training passes, then step), which is where the statements are unambiguous.
"""
from __future__ import annotations

from fractions import Fraction

import torch

DT = torch.float64


def hp(v, steps):
    if isinstance(v, list):
        v = v[min(steps, len(v) - 1)]
    if v is None:
        return None
    return float(v) if isinstance(v, Fraction) else v


def solve_eigen(A, G, damping, D):
    """V with G V A + damping V = D, A and G taken positive semi-definite"""
    da, qa = torch.linalg.eigh(A)
    dg, qg = torch.linalg.eigh(G)
    da = da.clamp(min=0)
    dg = dg.clamp(min=0)
    return qg @ ((qg.t() @ D @ qa) / (torch.outer(dg, da) + damping)) @ qa.t()


def solve_inverse(A, G, damping, D):
    """V with (G + damping I) V (A + damping I) = D"""
    Ia = torch.eye(A.shape[0], dtype=DT)
    Ig = torch.eye(G.shape[0], dtype=DT)
    return torch.linalg.solve(G + damping * Ig, D) @ torch.linalg.inv(A + damping * Ia)


class Ref:
    def __init__(self, cfg, dims):
        self.cfg = cfg
        self.nl = len(dims)
        self.dims = dims
        self.hyper = dict(cfg.hyper)
        self.steps = 0
        self.passes = 0
        self.A = [None] * self.nl
        self.G = [None] * self.nl
        self.bA = [[] for _ in range(self.nl)]   # accumulated micro-batch moments (mean over ranks each)
        self.bG = [[] for _ in range(self.nl)]
        # second-order data = (A used, G used, damping baked in) per layer
        self.so = [None] * self.nl
        self.mini = 0

    def update_factors(self, decay):
        for l in range(self.nl):
            for F, b in ((self.A, self.bA), (self.G, self.bG)):
                if b[l]:
                    M = sum(b[l]) / len(b[l])
                    prev = F[l] if F[l] is not None else torch.eye(M.shape[0], dtype=DT)
                    F[l] = decay * prev + (1 - decay) * M
                    b[l].clear()

    def fwd_bwd(self, covs):
        """covs[(layer, which)] = mean over ranks of the batch second moment of this pass"""
        fus = hp(self.hyper['factor_update_steps'], self.steps)
        if self.steps % fus == 0:
            for l in range(self.nl):
                self.bA[l].append(covs[(l, 'A')])
                self.bG[l].append(covs[(l, 'G')])
            self.mini += 1
            # factors are refreshed once `accumulation_steps` micro-batches have been seen since the last
            # step (in the hook when update_factors_in_hook, else at the next step)
            if self.cfg.hook and self.mini % self.cfg.accum == 0:
                self.update_factors(hp(self.hyper['factor_decay'], self.steps))
        self.passes += 1

    def fwd_only(self, covs):
        """a training-mode forward pass without backward: only the input moments are saved"""
        fus = hp(self.hyper['factor_update_steps'], self.steps)
        if self.steps % fus == 0:
            for l in range(self.nl):
                self.bA[l].append(covs[(l, 'A')])
            self.mini += 1
            if self.cfg.hook and self.mini % self.cfg.accum == 0:
                self.update_factors(hp(self.hyper['factor_decay'], self.steps))
        self.passes += 1

    def step(self, raw):
        fus = hp(self.hyper['factor_update_steps'], self.steps)
        ius = hp(self.hyper['inv_update_steps'], self.steps)
        damping = hp(self.hyper['damping'], self.steps)
        decay = hp(self.hyper['factor_decay'], self.steps)
        kl = hp(self.hyper['kl_clip'], self.steps)
        lr = hp(self.hyper['lr'], self.steps)
        if not self.cfg.hook and self.steps % fus == 0:
            self.update_factors(decay)
        self.mini = 0
        if self.steps % ius == 0:
            for l in range(self.nl):
                self.so[l] = (self.A[l], self.G[l], damping)
        V = []
        for l in range(self.nl):
            A, G, dref = self.so[l]
            if self.cfg.method == 'inverse':
                V.append(solve_inverse(A, G, dref, raw[l]))
            elif self.cfg.prediv:
                V.append(solve_eigen(A, G, dref, raw[l]))      # damping baked in at refresh
            else:
                V.append(solve_eigen(A, G, damping, raw[l]))   # damping of the current step
        if kl is None:
            out = V
        else:
            s = sum(float((v * g).sum()) for v, g in zip(V, raw)) * lr ** 2
            nu = 1.0 if s == 0 else min(1.0, (kl / abs(s)) ** 0.5)
            out = [nu * v for v in V]
        self.steps += 1
        return out

    def reset_batch(self):
        for l in range(self.nl):
            self.bA[l].clear()
            self.bG[l].clear()

    def load(self, incl_factors, compute_inverses):
        """save → fresh object → load: what the statement of C09 says survives"""
        A, G = self.A, self.G
        self.bA = [[] for _ in range(self.nl)]
        self.bG = [[] for _ in range(self.nl)]
        self.so = [None] * self.nl
        self.mini = 0
        if not incl_factors:
            self.A = [None] * self.nl
            self.G = [None] * self.nl
            return
        if compute_inverses:
            damping = hp(self.hyper['damping'], self.steps)
            for l in range(self.nl):
                if A[l] is not None and G[l] is not None:
                    self.so[l] = (A[l], G[l], damping)


def is_whole_iterations(ops, accum):
    i = 0
    while i < len(ops):
        if ops[i] == 'f1':
            if ops[i:i + accum] != ['f1'] * accum or i + accum >= len(ops) or ops[i + accum] != 's':
                return False
            i += accum + 1
        elif ops[i] == 's':
            return False
        else:
            i += 1
    return True


def reference_grads(cfg, rr, dims):
    """Returns list (per 's' op index) of reference gradients, or None when the history is not made
    of whole iterations / hits a state the statements do not define (no factors, no inverses)."""
    ref = Ref(cfg, dims)
    W = cfg.world
    out = {}
    p = 0
    try:
        for i, op in enumerate(cfg.ops):
            if op == 'f1':
                covs = {}
                for l in range(len(dims)):
                    for which in ('A', 'G'):
                        covs[(l, which)] = sum(rr.res[r]['cov'][(l, which, p)] for r in range(W)) / W
                ref.fwd_bwd(covs)
                p += 1
            elif op == 'F':
                ref.fwd_only({(l, 'A'): sum(rr.res[r]['cov'][(l, 'A', p)] for r in range(W)) / W for l in range(len(dims))})
                p += 1
            elif op == 's':
                raw = rr.res[0]['ops'][i]['raw']
                out[i] = ref.step(raw)
            elif op == 'v1':
                out[('factors', i)] = ([None if a is None else a.clone() for a in ref.A],
                                       [None if g is None else g.clone() for g in ref.G])
            elif op == 'r':
                ref.reset_batch()
            elif op == 'k':
                kept = (list(ref.A), list(ref.G), ref.steps, dict(ref.hyper))
            elif op[0] == 'R':
                ref.A, ref.G, ref.steps = list(kept[0]), list(kept[1]), kept[2]
                # non-callable hyper-parameters travel in the state
                for k_, v in kept[3].items():
                    if not isinstance(v, list):
                        ref.hyper[k_] = v
                ref.load(True, op[2] == '1')
            elif op[0] == 'l':
                ref.load(op[1] == '1', op[2] == '1')
            elif op.startswith('h:'):
                ref.hyper.update(cfg.hyper_changes[int(op[2:])])
    except (TypeError, AttributeError):
        return None
    return out
