"""GPT-NeoX path of kfac on simulated ranks: 3-D (pipe, data, model) topology from the stub DeepSpeed,
mock Column/RowParallelLinear modules holding one shard each (Megatron forward/backward semantics done
with harness-side collectives that are not recorded), the real GPTNeoXKFACPreconditioner, and an
unsharded float64 reference.  Shared by C11 and C18."""
from __future__ import annotations

import copy
import os
import sys
from fractions import Fraction

import torch

import simdist
import ref_kfac

STUBS = os.path.join(os.path.dirname(os.path.abspath(__file__)), 'stubs')
DT = torch.float64


def stubs():
    if STUBS not in sys.path:
        sys.path.insert(0, STUBS)


class _Copy(torch.autograd.Function):
    """copy_to_model_parallel_region: identity forward, all-reduce backward"""
    @staticmethod
    def forward(ctx, x, group):
        ctx.group = group
        return x

    @staticmethod
    def backward(ctx, g):
        g = g.clone()
        _muted_allreduce(g, ctx.group)
        return g, None


class _Reduce(torch.autograd.Function):
    """reduce_from_model_parallel_region: all-reduce forward, identity backward"""
    @staticmethod
    def forward(ctx, x, group):
        x = x.clone()
        _muted_allreduce(x, group)
        return x

    @staticmethod
    def backward(ctx, g):
        return g, None


def _muted_allreduce(t, group):
    import torch.distributed as dist
    w = simdist._tls.world
    r = simdist._tls.rank
    if dist.get_world_size(group) == 1:
        return
    old = w.muted[r]
    w.muted[r] = True
    dist.all_reduce(t, group=group)
    w.muted[r] = old


class ColumnParallelLinear(torch.nn.Linear):
    """output-parallel: weight rows (and bias) sharded"""
    mp_group = None

    def forward(self, x):
        return torch.nn.functional.linear(_Copy.apply(x, self.mp_group), self.weight, self.bias)


class RowParallelLinear(torch.nn.Linear):
    """input-parallel: weight columns sharded, bias replicated"""
    mp_group = None

    def forward(self, z):
        y = _Reduce.apply(torch.nn.functional.linear(z, self.weight), self.mp_group)
        return y if self.bias is None else y + self.bias


class NCfg:
    def __init__(self, rng, **force):
        self.seed = rng.randrange(10**9)
        self.pp = rng.choice([1, 1, 2, 2, 3])        # (3 stages x 2 blocks: layer names '2' and '12', '5' and '15')
        self.dp = rng.choice([1, 2, 2, 3])
        self.mp = rng.choice([1, 2, 2, 4])
        self.blocks = rng.choice([1, 1, 2])          # [Column, Tanh, Row] blocks per stage
        self.din = rng.choice([2, 3])
        self.hidden = 4 * rng.choice([1, 2])          # divisible by every mp
        self.bias_col = rng.random() < 0.7
        self.bias_row = rng.random() < 0.7
        self.batch = rng.choice([2, 4])
        self.lead = rng.choice([(), (), (2,)])         # extra leading dims (3-d activations)
        self.cap_mb = rng.choice([0.0, 0.0002, 25.0])
        self.prediv = rng.random() < 0.3
        self.sym = rng.random() < 0.3
        self.kl = None
        self.lr = Fraction(1, 10)
        self.damping = rng.choice([Fraction(1, 4), Fraction(1, 10)])
        if rng.random() < 0.3:
            # damping schedule (callable of the step count), changing between inverse updates too
            self.damping = rng.choice([[Fraction(1, 4), Fraction(1, 8), Fraction(1, 2), Fraction(1, 16)],
                                       [Fraction(1, 10), Fraction(1, 2), Fraction(1, 4)]])
        self.decay = rng.choice([Fraction(1, 2), Fraction(3, 4)])
        self.fus = rng.choice([1, 1, 2])
        self.ius = rng.choice([1, 1, 2, 3])
        self.ops = ['f1', 's']
        self.ckpt_dir = None
        self.inv32 = False                           # second-order data in float32, factors in float64
        self.empty_stage = None                      # index of a pipeline stage without K-FAC layers (set after pp is known)
        self.loss_scale = rng.choice([1.0, 1.0, 1.0, 8.0, 1024.0])     # AMP loss scale handed to K-FAC as grad_scaler (no clipping)
        self.hook = rng.random() < 0.7               # update_factors_in_hook
        self.accum = rng.choice([1, 1, 2, 3])        # accumulation_steps: every 'f1' below stands for `accum` passes
        self._expanded = False
        for k, v in force.items():
            setattr(self, k, v)
        if self.pp > 1 and 'empty_stage' not in force and rng.random() < 0.15:
            self.empty_stage = rng.randrange(self.pp)

    @property
    def world(self):
        return self.pp * self.dp * self.mp

    def finalize(self):
        """a training iteration consists of `accum` forward/backward passes: expand the history once"""
        if not self._expanded:
            ops = []
            for o in self.ops:
                ops += ['f1'] * self.accum if o == 'f1' else [o]
            self.ops = ops
            self._expanded = True
        return self

    def describe(self):
        d = {k: (str(v) if isinstance(v, Fraction) else [str(x) for x in v] if isinstance(v, list) and v and isinstance(v[0], Fraction) else v)
             for k, v in self.__dict__.items()}
        d['lead'] = list(self.lead)
        return d


def peek(x):
    """value of a factor slot (tensor or future) without touching the slot"""
    if isinstance(x, (torch._C.Future, torch.futures.Future)):
        w = simdist._tls.world
        me = simdist._tls.rank
        was = w.muted[me]
        w.muted[me] = True
        try:
            return x.wait()
        finally:
            w.muted[me] = was
    return x


def backing_file(t):
    """path of the file whose mapping contains the tensor's storage (memory-mapped load), None for ordinary memory"""
    if not t.nelement():
        return None
    ptr = t.untyped_storage().data_ptr()
    try:
        with open('/proc/self/maps') as f:
            for line in f:
                parts = line.split(None, 5)
                lo, hi = (int(x, 16) for x in parts[0].split('-'))
                if lo <= ptr < hi:
                    path = parts[5].strip() if len(parts) > 5 else ''
                    return path if path.startswith('/') and parts[4] != '0' else None
    except OSError:
        return None
    return None


def blocks_of(cfg, stage):
    """[Column, Tanh, Row] blocks of a pipeline stage: `stage_blocks` (uneven split of the layers) or `blocks` everywhere"""
    sb = getattr(cfg, 'stage_blocks', None)
    return sb[stage] if sb else cfg.blocks


def damping_arg(v):
    if isinstance(v, list):
        tbl = [float(x) for x in v]
        return lambda step: tbl[min(step, len(tbl) - 1)]
    return float(v)


def full_layers(cfg, stage):
    """the unsharded layers of a pipeline stage (same on every rank): list of (kind, weight, bias)"""
    g = torch.Generator().manual_seed(cfg.seed * 31 + stage)
    layers = []
    if getattr(cfg, 'empty_stage', None) == stage:
        return layers              # a pipeline stage without any layer K-FAC registers (embedding / norm only)
    d = cfg.din
    for _ in range(blocks_of(cfg, stage)):
        wc = torch.randn(cfg.hidden, d, generator=g, dtype=DT) / 2
        bc = torch.randn(cfg.hidden, generator=g, dtype=DT) / 2 if cfg.bias_col else None
        wr = torch.randn(cfg.din, cfg.hidden, generator=g, dtype=DT) / 2
        br = torch.randn(cfg.din, generator=g, dtype=DT) / 2 if cfg.bias_row else None
        layers += [('col', wc, bc), ('row', wr, br)]
        d = cfg.din
    return layers


def stage_input(cfg, stage, d, pass_):
    g = torch.Generator().manual_seed(cfg.seed * 7919 + stage * 104729 + d * 1299709 + pass_ * 15485863)
    # `ragged`: micro-batches of different sizes inside one accumulation window (variable-length sequences, a short last
    # batch): every micro-batch's second moment still enters the factor with equal weight
    rows = cfg.batch + ([0, 3, 1][pass_ % 3] if getattr(cfg, 'ragged', False) else 0)
    return torch.randn(*cfg.lead, rows, cfg.din, generator=g, dtype=DT)


def run_real(cfg, sched_seed=0):
    stubs()
    cfg.finalize()
    import torch.distributed as dist
    from deepspeed.pipe import PipelineModule
    from deepspeed.runtime.pipe.topology import PipeModelDataParallelTopology
    from kfac.gpt_neox.preconditioner import GPTNeoXKFACPreconditioner
    topo = PipeModelDataParallelTopology(num_pp=cfg.pp, num_mp=cfg.mp, num_dp=cfg.dp)

    def prog(rank):
        w = simdist._tls.world
        co = topo.get_coord(rank)
        w.muted[rank] = True   # group construction is DeepSpeed's, not kfac's
        groups = {}
        for axis in ('data', 'model', 'pipe'):
            for g in topo.get_axis_comm_lists(axis):
                h = dist.new_group(g)
                if rank in g:
                    groups[axis] = h
        w.muted[rank] = False
        mods = []
        klist = []
        for kind, wt, b in full_layers(cfg, co.pipe):
            mp = cfg.mp
            if kind == 'col':
                n = wt.shape[0] // mp
                m = ColumnParallelLinear(wt.shape[1], n, bias=b is not None).to(DT)
                with torch.no_grad():
                    m.weight.copy_(wt[co.model * n:(co.model + 1) * n])
                    if b is not None:
                        m.bias.copy_(b[co.model * n:(co.model + 1) * n])
            else:
                n = wt.shape[1] // mp
                m = RowParallelLinear(n, wt.shape[0], bias=b is not None).to(DT)
                with torch.no_grad():
                    m.weight.copy_(wt[:, co.model * n:(co.model + 1) * n])
                    if b is not None:
                        m.bias.copy_(b)
            m.mp_group = groups['model']
            mods.append(m)
            klist.append(kind)
            if kind == 'col':
                mods.append(torch.nn.Tanh())
        if not mods:
            mods.append(torch.nn.Tanh())        # the stage still holds (unregistered) modules
        model = PipelineModule(layers=mods, topology=topo, layer_offset=sum(3 * blocks_of(cfg, q) for q in range(co.pipe)))
        S_ = float(getattr(cfg, 'loss_scale', 1.0) or 1.0) if cfg.kl is None else 1.0
        import warnings

        def mk():
            with warnings.catch_warnings():
                warnings.simplefilter('ignore')
                return GPTNeoXKFACPreconditioner(
                    model, factor_update_steps=cfg.fus, inv_update_steps=cfg.ius, damping=damping_arg(cfg.damping),
                    factor_decay=float(cfg.decay), kl_clip=(None if cfg.kl is None else float(cfg.kl)), lr=float(cfg.lr),
                    allreduce_bucket_cap_mb=cfg.cap_mb, compute_eigenvalue_outer_product=cfg.prediv,
                    accumulation_steps=cfg.accum, update_factors_in_hook=cfg.hook,
                    grad_scaler=((lambda: S_) if S_ != 1.0 else None),
                    symmetry_aware=cfg.sym, data_parallel_group=groups['data'], model_parallel_group=groups['model'],
                    pipeline_parallel_group=groups['pipe'], inv_dtype=(torch.float32 if getattr(cfg, 'inv32', False) else DT), factor_checkpoint_dir=cfg.ckpt_dir)
        p = mk()
        layers = [m for m in mods if isinstance(m, torch.nn.Linear)]
        names = [n for n, _ in p._layers.values()]
        asg = p._assignment
        out = {'rank': rank, 'coord': (co.pipe, co.data, co.model), 'ops': [], 'names': names, 'kinds': klist,
               'inv': [asg.inv_worker(n, 'A') for n in names], 'fw': [asg.factor_worker(n, 'A') for n in names],
               'src': [asg.src_grad_worker(n) for n in names], 'gw': [asg.is_grad_worker(n) for n in names]}
        w.partial[rank] = out
        out['trace_start'] = len(w.trace[rank])
        npass = 0
        for op in cfg.ops:
            rec = {'op': op}
            if op == 'f1':
                x = stage_input(cfg, co.pipe, co.data, npass)
                npass += 1
                if not any(True for _ in model.parameters()):
                    x.requires_grad_(True)      # a stage without parameters still runs forward/backward
                y = model(x)
                ((y * y).mean() * S_).backward()
            elif op == 's':
                w.muted[rank] = True
                for prm in model.parameters():
                    if prm.grad is not None:
                        dist.all_reduce(prm.grad, group=groups['data'])
                        prm.grad /= cfg.dp
                w.muted[rank] = False
                rec['raw'] = [(m.weight.grad.clone() / S_, None if m.bias is None else m.bias.grad.clone() / S_) for m in layers]
                p.step()
                # (with a loss scale S the gradients — raw and preconditioned — are S times the unscaled ones; K-FAC's factors
                # are unscaled by the preconditioner itself)
                rec['grads'] = [(m.weight.grad.clone() / S_, None if m.bias is None else m.bias.grad.clone() / S_) for m in layers]
                rec['factors'] = []
                for (n, l), iw in zip(p._layers.values(), out['inv']):
                    if iw == rank:
                        # (read without resolving: the property getter would replace a completed future by its tensor and so
                        # change what the layer holds at the next checkpoint)
                        rec['factors'].append((peek(l._a_factor).clone(), peek(l._g_factor).clone()))
                    else:
                        rec['factors'].append(None)
                model.zero_grad()
            elif op == 'k':
                # keep a checkpoint for later roll-backs of THIS preconditioner object; `kept_ref` is what it held
                kept_state = p.state_dict()
                kept_ref = copy.deepcopy(kept_state)
            elif op in ('b', 'B'):
                # 'b': load a deep copy; 'B': load the kept object itself (a shallow dict copy: load pops 'layers'), so
                # that the preconditioner and the checkpoint may end up sharing tensors
                with warnings.catch_warnings():
                    warnings.simplefilter('ignore')
                    p.load_state_dict(copy.deepcopy(kept_state) if op == 'b' else dict(kept_state), compute_inverses=True)
                rec['steps'] = p.steps
                # the second-order data the inverse workers hold now belongs to the restored factors: Q diag(d) Q^T = factor
                rec['eig_vs_factor'] = []
                for (n, l), iw in zip(p._layers.values(), out['inv']):
                    if iw == rank and getattr(l, 'qa', None) is not None and getattr(l, 'da', None) is not None and l.a_factor is not None:
                        A_ = l.a_factor.to(torch.float64)
                        R_ = (l.qa.to(torch.float64) * torch.clamp(l.da.to(torch.float64), min=0.0)) @ l.qa.to(torch.float64).t()
                        rec['eig_vs_factor'].append((n, relerr(R_, A_)))
                rec['held_vs_kept'] = []
                for (n, l), fw in zip(p._layers.values(), out['fw']):
                    if fw == rank and 'layers' in kept_ref:
                        a_, g_ = l.a_factor, l.g_factor
                        ka, kg = kept_ref['layers'][n]['A'], kept_ref['layers'][n]['G']
                        rec['held_vs_kept'].append((n, a_ is not None and g_ is not None and torch.equal(a_, ka) and torch.equal(g_, kg)))
            elif op in ('v', 'l1', 'l0'):
                sd = p.state_dict()
                rec['state_keys'] = sorted(sd.keys())
                rec['state_layers'] = None
                if 'layers' in sd:
                    rec['state_layers'] = {k: (v['A'].clone(), v['G'].clone()) for k, v in sd['layers'].items()}
                if cfg.ckpt_dir is not None:
                    rec['files'] = sorted(os.listdir(cfg.ckpt_dir)) if os.path.isdir(cfg.ckpt_dir) else []
                if op != 'v':
                    sd = copy.deepcopy(sd)
                    for m in layers:
                        for d_ in (m._forward_pre_hooks, m._backward_hooks):
                            d_.clear()
                    w.muted[rank] = True
                    p = mk()          # construction traffic of the fresh object is not part of save/load
                    w.muted[rank] = False
                    with warnings.catch_warnings():
                        warnings.simplefilter('ignore')
                        p.load_state_dict(sd, compute_inverses=(op == 'l1'))
                    rec['held'] = []
                    for (n, l) in p._layers.values():
                        rec['held'].append((None if l._a_factor is None else l._a_factor.clone() if isinstance(l._a_factor, torch.Tensor) else 'future',
                                            None if l._g_factor is None else l._g_factor.clone() if isinstance(l._g_factor, torch.Tensor) else 'future',
                                            l._qa is not None and l._qg is not None))
                    rec['steps'] = p.steps
                    # restored factors own their memory: a factor that is a memory-mapped view of its checkpoint file changes
                    # (or faults) when a later save rewrites that file
                    rec['file_backed'] = [n for (n, l) in p._layers.values() for t_ in (l._a_factor, l._g_factor)
                                          if isinstance(t_, torch.Tensor) and backing_file(t_)]
            out['ops'].append(rec)
        out['trace'] = list(w.trace[rank][out['trace_start']:])
        return out

    wd = simdist.World(cfg.world, seed=sched_seed, stickiness=[0.0, 0.5, 0.9][sched_seed % 3])
    wd.partial = {}
    res = wd.run(prog)

    class RR:
        pass
    rr = RR()
    rr.world = wd
    rr.res = [res[r] if res[r] is not None else wd.partial.get(r) for r in range(cfg.world)]
    rr.topo = topo
    return rr


def run_failed(rr):
    w = rr.world
    if w.stalled:
        return 'stall: no rank runnable while some rank is unfinished'
    if w.exceptions:
        r, e = next(iter(w.exceptions.items()))
        return f'rank {r} raised {e}'
    if w.errors:
        return f'protocol error {w.errors[0]}'
    return None


# ----------------------------------------------------------------------------- unsharded reference
def cov(a):
    a = a.reshape(-1, a.shape[-1])
    return a.t() @ a / a.shape[0]


def reference(cfg, loads=None):
    """Unsharded layers under plain data parallelism: per stage, per step: factors and preconditioned
    combined gradients (float64). Returns {stage: [per 's' op: ([(A,G)...], [V...], [D...])]}."""
    class C:
        pass
    cfg.finalize()
    out = {}
    for stage in range(cfg.pp):
        layers = [(k, w.clone().requires_grad_(True), None if b is None else b.clone().requires_grad_(True))
                  for k, w, b in full_layers(cfg, stage)]
        nl = len(layers)
        rc = C()
        # (GPTNeoXKFACPreconditioner stores compute_eigenvalue_outer_product but never forwards it to its layers: they always
        # divide by outer(dg, da) + the damping of the current step, which is what the unsharded reference does here)
        rc.method, rc.prediv, rc.hook, rc.accum = 'eigen', False, cfg.hook, cfg.accum
        rc.hyper = {'factor_update_steps': cfg.fus, 'inv_update_steps': cfg.ius, 'damping': cfg.damping,
                    'factor_decay': cfg.decay, 'kl_clip': cfg.kl, 'lr': cfg.lr}
        ref = ref_kfac.Ref(rc, [None] * nl)
        res = []
        npass = 0
        gsum = None
        for op in cfg.ops:
            if op == 'f1' and nl == 0:
                ref.fwd_bwd({})
                gsum = []
                npass += 1
            elif op == 'f1':
                covs = {}
                gacc = [None] * nl
                for d in range(cfg.dp):
                    x = stage_input(cfg, stage, d, npass)
                    acts, outs = [], []
                    h = x
                    for kind, wt, b in layers:
                        acts.append(h)
                        y = torch.nn.functional.linear(h, wt, b)
                        y.retain_grad()
                        outs.append(y)
                        h = torch.tanh(y) if kind == 'col' else y
                    for _, wt, b in layers:
                        wt.grad = None
                        if b is not None:
                            b.grad = None
                    (h * h).mean().backward()
                    for l, (kind, wt, b) in enumerate(layers):
                        a = acts[l].detach()
                        if b is not None:
                            a = torch.cat([a, torch.ones(*a.shape[:-1], 1, dtype=DT)], -1)
                        ca, cg = cov(a), cov(outs[l].grad.detach())
                        covs[(l, 'A')] = covs.get((l, 'A'), 0) + ca / cfg.dp
                        covs[(l, 'G')] = covs.get((l, 'G'), 0) + cg / cfg.dp
                        D = wt.grad.detach().clone()
                        if b is not None:
                            D = torch.cat([D, b.grad.detach().view(-1, 1)], 1)
                        gacc[l] = D / cfg.dp if gacc[l] is None else gacc[l] + D / cfg.dp
                ref.fwd_bwd(covs)
                gsum = gacc if gsum is None else [a + b for a, b in zip(gsum, gacc)]
                npass += 1
            elif op == 's':
                V = ref.step(gsum)
                res.append(([(a.clone(), g.clone()) for a, g in zip(ref.A, ref.G)], V, gsum))
                gsum = None
            elif op in ('l1', 'l0'):
                ref.load(True, op == 'l1')
        out[stage] = res
    return out


def shard_of(cfg, kind, has_bias, V, m):
    """rank with model coordinate m's shard (weight, bias) of the unsharded combined gradient V"""
    Wp = V[:, :-1] if has_bias else V
    bp = V[:, -1] if has_bias else None
    if kind == 'col':
        n = Wp.shape[0] // cfg.mp
        return Wp[m * n:(m + 1) * n], (None if bp is None else bp[m * n:(m + 1) * n])
    n = Wp.shape[1] // cfg.mp
    return Wp[:, m * n:(m + 1) * n], bp


def relerr(a, b):
    d = (a - b).abs().max().item()
    s = max(a.abs().max().item(), b.abs().max().item(), 1e-30)
    return d / s


# ----------------------------------------------------------------------------- M-NeoxScript correspondence
_KIND = {'all_reduce': 'ar', 'broadcast': 'bc', 'all_gather': 'ag', 'reduce_scatter': 'rs',
         'all_gather_object': 'ao', 'barrier': 'ba'}


def impl_issues(rr, r):
    """rank r's issued collectives (kind, members, element count, root) since construction, in order"""
    out = []
    for e in rr.res[r]['trace']:
        if e[0] != 'issue':
            continue
        _, members, kind, shape, dtype, root = e
        n = 1
        for s_ in shape:
            n *= s_
        out.append(f'{_KIND.get(kind, "?" + kind)}:{",".join(map(str, members))}:{n}:{max(root, 0)}')
    return out


def script_line(cfg, rr):
    """the `neoxs` model line: training passes, steps, checkpoints (state_dict in memory / into a directory, load into a
    fresh preconditioner, in-place roll-back)"""
    if any(o not in ('f1', 's', 'v', 'l1', 'l0', 'k', 'b', 'B') for o in cfg.ops):
        return None
    d_ = 'd' if cfg.ckpt_dir else 'm'
    if d_ == 'd' and any(o in ('b', 'B') for o in cfg.ops):
        return None
    tok = {'f1': ['f'], 's': ['s'], 'v': ['v' + d_], 'k': ['v' + d_], 'l1': ['v' + d_, 'l' + d_], 'l0': ['v' + d_, 'l' + d_],
           'b': ['bm'], 'B': ['bm']}
    stages = []
    for p in range(cfg.pp):
        r0 = next(r for r in range(cfg.world) if rr.res[r]['coord'][0] == p)
        names, kinds = rr.res[r0]['names'], rr.res[r0]['kinds']
        items = []
        for nm, k in zip(names, kinds):
            if k == 'col':
                items.append(f'{nm}:c:{cfg.din}:{cfg.hidden}:{int(cfg.bias_col)}')
            else:
                items.append(f'{nm}:r:{cfg.hidden}:{cfg.din}:{int(cfg.bias_row)}')
        stages.append(','.join(items))
    tokens = cfg.batch
    for x in cfg.lead:
        tokens *= x
    return (f'neoxs pp={cfg.pp} dp={cfg.dp} mp={cfg.mp} stages={"|".join(stages)} tokens={tokens} fus={cfg.fus} ius={cfg.ius} '
            f'bucketed={int(cfg.cap_mb > 0)} cap={int(cfg.cap_mb * 1000 * 1000)} es=8 sym={int(cfg.sym)} cube=1 '
            f'hook={int(cfg.hook)} accum={cfg.accum} '
            f'ops={",".join(t for o in cfg.ops for t in tok[o])}')


def compare_script(ctx, pend):
    """pend: list of (case, line, [per-rank impl issue list]); exact comparison with the model's projections"""
    import re
    lines = [l for _, l, _ in pend]
    for (case, line, impl), mo in zip(pend, ctx.model.ask(lines)):
        if mo is None:
            continue
        for r, tr in enumerate(impl):
            m = re.search(rf'(?:^| )r{r}=(\S*)', mo)
            want = m.group(1).split(';') if m and m.group(1) else []
            if want != tr:
                k = next((i for i, (a, b) in enumerate(zip(want, tr)) if a != b), min(len(want), len(tr)))
                ctx.compare('neox-script', dict(case, rank=r, index=k),
                            f'#{k}: {want[k] if k < len(want) else None} (of {len(want)})',
                            f'#{k}: {tr[k] if k < len(tr) else None} (of {len(tr)})')
                break
        else:
            ctx.compare('neox-script', case, 'same', 'same')
