import KfacVerif.Driver.All
import KfacVerif.Props.C06
import KfacVerif.Props.C08
import KfacVerif.Props.C14
import KfacVerif.Props.C16
import KfacVerif.Props.C17
import KfacVerif.Props.C19
import KfacVerif.Props.C20
