import KfacVerif.Driver.All
import KfacVerif.Props.C06
