import KfacVerif.Driver.All
import KfacVerif.Props.C06
import KfacVerif.Props.C14
import KfacVerif.Props.C17
