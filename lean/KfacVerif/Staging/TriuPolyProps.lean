/- STAGING (not audited, not claimed): the triangular packing moves entries, it never computes with
   them — stated for an arbitrary payload type; promoted to Props/C14.lean when proved.
   Definitions `getTriuP`, `fillTriuP`, `SquareP`, `SymmP` live in Lemmas/TriuPoly.lean. -/
import KfacVerif.Lemmas.TriuPoly

namespace KV.C14P
open KV KV.Comm

/-- the Int-valued executable model is the polymorphic packing at `α := Int` -/
theorem getTriu_is_poly (A : Mat) : getTriu A = getTriuP A := by
  sorry

theorem fillTriu_is_poly (n : Nat) (v : List Int) : fillTriu n v = fillTriuP (0 : Int) n v := by
  sorry

/-- **every dtype, every payload**: for ANY type of entries (floats of any width incl. infinities,
    NaN payloads and signed zeros, integers, …) packing the upper triangle of a symmetric `n × n`
    matrix and unpacking it gives back the very same entries -/
theorem fill_get_any_payload {α : Type} (d : α) {A : List (List α)} {n : Nat}
    (hA : SquareP A n) (hS : SymmP d A n) : fillTriuP d n (getTriuP A) = A := by
  sorry

theorem get_fill_any_payload {α : Type} (d : α) {n : Nat} {v : List α} (hv : v.length = n * (n + 1) / 2) :
    getTriuP (fillTriuP d n v) = v := by
  sorry

/-- packing commutes with any entrywise map (a dtype conversion, a scaling): it is natural in the
    payload type -/
theorem getTriu_map {α β : Type} (f : α → β) (A : List (List α)) :
    getTriuP (A.map (List.map f)) = (getTriuP A).map f := by
  sorry

theorem fillTriu_map {α β : Type} (f : α → β) (d : α) (n : Nat) (v : List α) (hv : v.length = n * (n + 1) / 2) :
    fillTriuP (f d) n (v.map f) = (fillTriuP d n v).map (List.map f) := by
  sorry

/-- non-vacuity with a payload type that has no arithmetic at all -/
example : fillTriuP "?" 3 (getTriuP [["a", "b", "c"], ["b", "d", "e"], ["c", "e", "f"]])
    = [["a", "b", "c"], ["b", "d", "e"], ["c", "e", "f"]] := by
  sorry

end KV.C14P
