/- STAGING (not audited, not claimed): statements about M-NeoxScript being proved; promoted to
   Props/C11.lean when done.  Helper lemmas go to Lemmas/NeoxScriptL.lean. -/
import KfacVerif.Model.NeoxScript
import KfacVerif.Lemmas.NeoxTopo
import KfacVerif.Props.C03
import KfacVerif.Lemmas.NeoxScriptL

namespace KV.C11S
open KV KV.Neox KV.NeoxS KV.C12

-- `NCfgOK`, `toG` are defined in Lemmas/NeoxScriptL.lean (moved verbatim, namespace KV.C11S)

/-- **the GPT-NeoX script is well formed** for every topology, every layer list, every bucket
    capacity and every history of training passes and steps: members are ranks of the world, no
    collective is entered by a single rank, every broadcast root is a member.  -/
theorem neox_script_wf (c : NeoxS.Cfg) (hc : NCfgOK c) (ops : List Op) :
    KV.Sched2.wf c.t.world ((run c ops).acts.map toG) = true := by
  exact run_wf c hc ops

/-- hence the per-rank programs (projections) satisfy the scheduler invariant: with the generic
    theorems of C03 (`no_deadlock`, `terminal_all_done`, `match_per_group`) no rank ever stalls on
    the GPT-NeoX path under any interleaving, and members of a group issue matching sequences -/
theorem neox_consistent (c : NeoxS.Cfg) (hc : NCfgOK c) (ops : List Op) :
    KV.Sched2.SInv (KV.Sched2.eventsOf ((run c ops).acts.map toG)) c.t.world
      (KV.Sched2.initOf ((run c ops).acts.map toG) c.t.world) :=
  KV.C03.script_consistent _ _ (neox_script_wf c hc ops)

/-- **group-specific communication**: every collective runs on a model-parallel group, on a
    data-parallel group or on the peers of one pipeline stage, and its kind fits the group:
    gathers/scatters only inside model-parallel groups, all-reduces (factors) only over
    data-parallel groups or stage peers, broadcasts inside a model-parallel group (replicated bias)
    or a data-parallel group (preconditioned gradient) -/
theorem neox_groups (c : NeoxS.Cfg) (hc : NCfgOK c) (ops : List Op) (a : NAct) (ha : a ∈ (run c ops).acts) :
    (∃ p d, p < c.t.pp ∧ d < c.t.dp ∧ a.members = modelGroup c p d ∧
        (a.kind = .allgather ∨ a.kind = .reducescatter ∨ a.kind = .broadcast)) ∨
    (∃ p m, p < c.t.pp ∧ m < c.t.mp ∧ a.members = dataGroup c p m ∧
        (a.kind = .allreduce ∨ a.kind = .broadcast)) ∨
    (∃ p, p < c.t.pp ∧ a.members = c.t.stagePeers p ∧ a.kind = .allreduce) := by
  exact run_groups c hc ops a ha

/-- **the sharded factor is reduced by exactly the ranks that gathered it**: the data-parallel
    group used by `fwdLayer`/`bwdLayer` for the sharded factor of a layer consists of the ranks of
    the stage that are their own factor worker (primary rank) for that layer, and it contains the
    inverse worker -/
theorem reduce_group_is_primaries (c : NeoxS.Cfg) (hc : NCfgOK c) {p : Nat} (hp : p < c.t.pp)
    (l : Layer) (hl : l ∈ c.stages.getD p []) (loc : Nat) (hloc : loc < c.t.world) (hs : c.t.pipeOf loc = p) :
    (loc ∈ dataGroup c p (c.t.modelOf (invOf c p l)) ↔ (asg c p).factorWorker loc l.name = some loc) ∧
    invOf c p l ∈ dataGroup c p (c.t.modelOf (invOf c p l)) := by
  exact reduce_group c hc.topo hp l hl loc hloc hs

/-- **roots agree with the assignment (C12)**: the gradient broadcast on data-parallel group
    `(p, m)` is rooted at what `src_grad_worker` answers on every member of that group, and the
    replicated-bias broadcast inside the inverse worker's model-parallel group is rooted at the
    inverse worker, which is the factor worker of every member of that group -/
theorem roots_agree (c : NeoxS.Cfg) (hc : NCfgOK c) {p : Nat} (hp : p < c.t.pp)
    (l : Layer) (hl : l ∈ c.stages.getD p []) (loc : Nat) (hloc : loc < c.t.world) (hs : c.t.pipeOf loc = p) :
    (asg c p).srcGradWorker loc l.name = some (c.t.rankOf p (c.t.dataOf (invOf c p l)) (c.t.modelOf loc)) ∧
    (loc ∈ modelGroup c p (c.t.dataOf (invOf c p l)) → (asg c p).factorWorker loc l.name = some (invOf c p l)) := by
  exact roots c hc.topo hp l hl loc hloc hs

/-- **nothing is left in a bucket after a step**: every factor submitted to the bucketed
    communicator has been sent when `step()` returns -/
theorem no_pending_after_step (c : NeoxS.Cfg) (s : St) :
    Comm.pending (stepOp c s).comm = [] := by
  exact stepOp_pending c s

/-- **iterations that are not factor-update iterations are silent in the hooks** -/
theorem silent_pass (c : NeoxS.Cfg) (s : St) (h : s.steps % c.fus ≠ 0) : trainPass c s = s := by
  exact trainPass_silent c s h

/-- non-vacuity: a 2×2×2 topology with one column/row block per stage meets `NCfgOK` and its script
    is not empty -/
def demoCfg : NeoxS.Cfg :=
  { t := ⟨2, 2, 2⟩,
    stages := [[⟨"0", .col, 2, 4, true⟩, ⟨"2", .row, 4, 2, true⟩], [⟨"3", .col, 2, 4, true⟩, ⟨"5", .row, 4, 2, false⟩]],
    tokens := 4, fus := 1, ius := 1, bucketed := true, cap := 200, esize := 8, sym := true, cube := true }

example : NCfgOK demoCfg ∧ (run demoCfg [.train, .step]).acts ≠ [] := by
  refine ⟨⟨⟨by decide, by decide, by decide⟩, by decide, ?_⟩, by decide +kernel⟩
  intro p hp
  have : p = 0 ∨ p = 1 := by change p < 2 at hp; omega
  rcases this with rfl | rfl <;> simp [demoCfg]

end KV.C11S
