def hello := "world"
