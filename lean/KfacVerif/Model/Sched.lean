/-
M-Sched: small-step semantics of ranks issuing asynchronous collectives and waiting on them.
Every collective is identified by its index in one global list `S` (`S[i]` = member ranks of
event `i`).  A rank may `issue i` at any time; `wait i` is enabled once every member of `S[i]` has
issued `i`.  A scheduler is any function choosing among enabled steps.  Import-free.
-/
import KfacVerif.Model.Precond

namespace KV.Sched2

inductive Act where
  | issue (i : Nat)
  | wait (i : Nat)
deriving Repr, DecidableEq

def issueIds : List Act → List Nat
  | [] => []
  | .issue i :: t => i :: issueIds t
  | .wait _ :: t => issueIds t

structure St where
  rem : Nat → List Act      -- remaining program per rank
  iss : Nat → List Nat      -- ids already issued per rank (in order)

abbrev Events := List (List Nat)   -- members of global event i

def complete (S : Events) (s : St) (i : Nat) : Prop :=
  ∀ r, r ∈ S.getD i [] → i ∈ s.iss r

inductive Step (S : Events) : St → St → Prop where
  | issue (s : St) (r i : Nat) (t : List Act) (h : s.rem r = .issue i :: t) :
      Step S s { rem := fun q => if q = r then t else s.rem q,
                 iss := fun q => if q = r then s.iss r ++ [i] else s.iss q }
  | wait (s : St) (r i : Nat) (t : List Act) (h : s.rem r = .wait i :: t)
      (hc : complete S s i) :
      Step S s { rem := fun q => if q = r then t else s.rem q, iss := s.iss }

/-- ids rank r must issue, in global order -/
def idsOf (S : Events) (r : Nat) : List Nat :=
  (List.range S.length).filter (fun i => decide (r ∈ S.getD i []))

/-- waits refer to ids already issued, or issued earlier in the remaining program -/
def waitsOK (done : List Nat) : List Act → Prop
  | [] => True
  | .issue i :: t => waitsOK (done ++ [i]) t
  | .wait i :: t => i ∈ done ∧ waitsOK done t

/-- `Consistent`: every rank issues exactly the events it is a member of, in the global order, and
    waits only for what it has issued itself -/
structure SInv (S : Events) (n : Nat) (s : St) : Prop where
  split : ∀ r, r < n → s.iss r ++ issueIds (s.rem r) = idsOf S r
  waits : ∀ r, r < n → waitsOK (s.iss r) (s.rem r)
  members : ∀ i r, r ∈ S.getD i [] → r < n
  idle : ∀ r, n ≤ r → s.rem r = []

/-! ### from a global script (KV.Precond.GAct) to per-rank programs -/
open KV.Precond in
def eventsOf : List GAct → Events
  | [] => []
  | .issue m _ :: t => m :: eventsOf t
  | _ :: t => eventsOf t

/-- a stalled getter is a wait for an event that does not exist (never completes) -/
def never : Nat := 1000000000

open KV.Precond in
def toActs (bad : Nat) : List RAct → List Act
  | [] => []
  | .issue id _ _ :: t => .issue id :: toActs bad t
  | .wait id :: t => .wait id :: toActs bad t
  | .stall _ :: t => .wait bad :: toActs bad t

open KV.Precond in
/-- rank r's program according to the script -/
def progOf (acts : List GAct) (r : Nat) : List Act := toActs (eventsOf acts).length (project r acts)

def initOf (acts : List KV.Precond.GAct) (n : Nat) : St :=
  { rem := fun r => if r < n then progOf acts r else [], iss := fun _ => [] }

/-! ### well-formedness of a script (decidable, checked by the driver on every run too) -/
open KV.Precond in
/-- scanning left to right with `k` = number of issues seen: every wait of rank r names an issue
    already seen of which r is a member; no stalls; members are ranks `< n`; groups have ≥ 2 members;
    broadcast roots are members -/
def wfAux (n : Nat) : List (List Nat) → List GAct → Bool
  | _, [] => true
  | seen, .issue m d :: t =>
    m.all (· < n) && decide (2 ≤ m.length) &&
      (match d.kind with | .broadcast => m.contains d.root | .allreduce => true) &&
      wfAux n (seen ++ [m]) t
  | seen, .wait r id :: t => decide (id < seen.length) && (seen.getD id []).contains r && wfAux n seen t
  | _, .stall _ _ :: _ => false

def wf (n : Nat) (acts : List KV.Precond.GAct) : Bool := wfAux n [] acts

end KV.Sched2
