/-
M-Comm: model of kfac/distributed.py — triangular packing (`get_triu`/`fill_triu`) and the
`TorchDistributedCommunicator` bucketing state machine.  Import-free, executable.
Matrices are `List (List Int)` (row major), payloads exact integers/rationals.
-/
import KfacVerif.Model.Basic

namespace KV.Comm

abbrev Mat := List (List Int)

def Mat.get (A : Mat) (i j : Nat) : Int := (A.getD i []).getD j 0

def isSquare (A : Mat) (n : Nat) : Bool := A.length == n && A.all (fun r => r.length == n)

/-- `get_triu`: row-major upper triangle (offset 0): row `i` contributes its entries `j ≥ i` -/
def getTriuAux : Nat → List (List Int) → List Int
  | _, [] => []
  | i, r :: t => r.drop i ++ getTriuAux (i + 1) t

def getTriu (A : Mat) : List Int := getTriuAux 0 A

/-- position of `(i, j)`, `i ≤ j < n`, in the row-major upper triangle of an `n × n` matrix -/
def triuPos (n i j : Nat) : Nat := i * n - i * (i - 1) / 2 + (j - i)

/-- `fill_triu`: write the packed vector into the upper triangle, mirror to the lower one -/
def fillTriu (n : Nat) (v : List Int) : Mat :=
  (List.range n).map fun i => (List.range n).map fun j =>
    if i ≤ j then v.getD (triuPos n i j) 0 else v.getD (triuPos n j i) 0

def matAdd (A B : Mat) : Mat := List.zipWith (List.zipWith (· + ·)) A B
def vecAdd (a b : List Int) : List Int := List.zipWith (· + ·) a b
def transposeSq (A : Mat) (n : Nat) : Mat :=
  (List.range n).map fun i => (List.range n).map fun j => A.get j i
def isSymm (A : Mat) (n : Nat) : Bool := A == transposeSq A n

/-! ### shape validation (`symmetric=True` requires a 2-D square tensor) -/

inductive CommErr where | nonSquare
deriving Repr, DecidableEq

def checkShape (shape : List Nat) (symmetric : Bool) : Except CommErr Unit :=
  if symmetric then
    match shape with
    | [a, b] => if a == b then .ok () else .error .nonSquare
    | _ => .error .nonSquare
  else .ok ()

def numel (shape : List Nat) : Nat := shape.foldl (· * ·) 1

/-- elements actually communicated for a tensor -/
def commElems (shape : List Nat) (symmetric : Bool) : Nat :=
  if symmetric then
    match shape with
    | [n, _] => n * (n + 1) / 2
    | _ => numel shape
  else numel shape

/-! ### the communicator as a state machine (one rank's view) -/

/-- one submitted tensor -/
structure Item where
  tid : Nat                 -- identity of the request (same on all ranks of the group)
  elems : Nat               -- elements communicated (after triangular packing)
  esize : Nat               -- bytes per element
  dtype : Nat               -- dtype tag
deriving Repr, DecidableEq

structure Bucket where
  items : List Item         -- in insertion order
deriving Repr

def Bucket.size (b : Bucket) : Nat := (b.items.map fun it => it.elems * it.esize).sum
def Bucket.dtype? (b : Bucket) : Option Nat := b.items.head?.map (·.dtype)

/-- group key = sorted member ranks (`group_ranks`); `legacyKey` = `range(size)` -/
abbrev Key := List Nat

structure CState where
  cap : Nat                                   -- bucket_cap_bytes
  buckets : List (Key × Option Bucket)        -- dict in insertion order
deriving Repr

inductive Event where
  /-- one `dist.all_reduce` on `group` carrying the listed requests (flattened, in order) -/
  | allreduce (group : Key) (tids : List Nat) (elems : Nat)
  | broadcast (group : Key) (tid : Nat) (elems : Nat) (src : Nat)
deriving Repr, DecidableEq

def lookupB (k : Key) : List (Key × Option Bucket) → Option (Option Bucket)
  | [] => none
  | (k', b) :: t => if k' == k then some b else lookupB k t

def setB (k : Key) (v : Option Bucket) : List (Key × Option Bucket) → List (Key × Option Bucket)
  | [] => [(k, v)]
  | (k', b) :: t => if k' == k then (k', v) :: t else (k', b) :: setB k v t

/-- `bucket.allreduce()`: an event iff the bucket holds something -/
def emit (g : Key) (b : Bucket) : List Event :=
  if b.items.isEmpty then [] else
    [.allreduce g (b.items.map (·.tid)) (b.items.map (·.elems)).sum]

/-- what a call returns to the caller -/
inductive Ret where
  | same                -- group of size 1: the input tensor itself, nothing communicated
  | future              -- a future resolving to the reduced tensor
  | err (e : CommErr)
deriving Repr, DecidableEq

/-- `allreduce_bucketed(tensor, group=g, symmetric=sym)` with `shape`, element size, dtype tag.
    `gsize` is `get_world_size(group)`. -/
def allreduceBucketed (s : CState) (g : Key) (tid : Nat) (shape : List Nat) (esize dtype : Nat)
    (sym : Bool) : CState × List Event × Ret :=
  if g.length == 1 then (s, [], .same) else
  match checkShape shape sym with
  | .error e => (s, [], .err e)
  | .ok () =>
    let it : Item := { tid := tid, elems := commElems shape sym, esize := esize, dtype := dtype }
    let tsz := it.elems * it.esize
    -- `_get_allreduce_bucket` (defaultdict access inserts the key), then `_new_…` if None
    let cur : Bucket := match lookupB g s.buckets with
      | some (some b) => b
      | _ => { items := [] }
    let flushNow := cur.size + tsz > s.cap ||
      (match cur.dtype? with | some d => d != dtype | none => false)
    if flushNow then
      ({ s with buckets := setB g (some { items := [it] }) s.buckets }, emit g cur, .future)
    else
      ({ s with buckets := setB g (some { items := cur.items ++ [it] }) s.buckets }, [], .future)

/-- `flush_allreduce_buckets()` -/
def flush (s : CState) : CState × List Event :=
  ({ s with buckets := s.buckets.map fun (k, _) => (k, none) },
   s.buckets.flatMap fun (k, b) => match b with | some b => emit k b | none => [])

/-- unbucketed `allreduce` -/
def allreduce (s : CState) (g : Key) (tid : Nat) (shape : List Nat) (sym : Bool) :
    CState × List Event × Ret :=
  if g.length == 1 then (s, [], .same) else
  match checkShape shape sym with
  | .error e => (s, [], .err e)
  | .ok () => (s, [.allreduce g [tid] (commElems shape sym)], .future)

def broadcast (s : CState) (g : Key) (tid : Nat) (shape : List Nat) (sym : Bool) (src : Nat) :
    CState × List Event × Ret :=
  if g.length == 1 then (s, [], .same) else
  match checkShape shape sym with
  | .error e => (s, [], .err e)
  | .ok () => (s, [.broadcast g tid (commElems shape sym) src], .future)

/-! ### operation sequences -/

inductive Op where
  | reduceB (g : Key) (tid : Nat) (shape : List Nat) (esize dtype : Nat) (sym : Bool)
  | reduce (g : Key) (tid : Nat) (shape : List Nat) (sym : Bool)
  | bcast (g : Key) (tid : Nat) (shape : List Nat) (sym : Bool) (src : Nat)
  | flush
deriving Repr

def step (s : CState) : Op → CState × List Event × Ret
  | .reduceB g tid shape es dt sym => allreduceBucketed s g tid shape es dt sym
  | .reduce g tid shape sym => allreduce s g tid shape sym
  | .bcast g tid shape sym src => broadcast s g tid shape sym src
  | .flush => let (s', ev) := flush s; (s', ev, .same)

def run : CState → List Op → CState × List Event
  | s, [] => (s, [])
  | s, op :: t =>
    let (s', ev, _) := step s op
    let (s'', evs) := run s' t
    (s'', ev ++ evs)

def pending (s : CState) : List Nat :=
  s.buckets.flatMap fun (_, b) => match b with | some b => b.items.map (·.tid) | none => []

/-! ### values: flatten / allreduce / unflatten on one bucket -/

def flatten (xs : List (List Int)) : List Int := xs.flatten

def unflatten : List Nat → List Int → List (List Int)
  | [], _ => []
  | n :: t, v => v.take n :: unflatten t (v.drop n)

/-- elementwise sum over ranks of equally long vectors -/
def sumRanks : List (List Int) → List Int
  | [] => []
  | [v] => v
  | v :: t => vecAdd v (sumRanks t)

end KV.Comm
