/-
Shared helpers of the executable model: parsing/printing for the line protocol
and a few total list utilities.  NO imports beyond core Lean (this file is below
the `kfacmodel` driver).
-/

namespace KV

/-- split on a character, keeping empty fields out when the whole string is empty -/
def splitOnC (s : String) (c : Char) : List String :=
  if s.isEmpty then [] else s.splitOn (String.singleton c)

def parseNat! (s : String) : Nat := s.toNat?.getD 0
def parseInt! (s : String) : Int := s.toInt?.getD 0

def parseNats (s : String) : List Nat := (splitOnC s ',').map parseNat!
def parseInts (s : String) : List Int := (splitOnC s ',').map parseInt!
def parseNatLists (s : String) : List (List Nat) := (splitOnC s ';').map parseNats

/-- "n/d" or "n" -/
def parseRat (s : String) : Rat :=
  match s.splitOn "/" with
  | [n] => (parseInt! n : Rat)
  | [n, d] => mkRat (parseInt! n) (parseNat! d)
  | _ => 0

def parseRats (s : String) : List Rat := (splitOnC s ',').map parseRat

def showRat (q : Rat) : String :=
  if q.den == 1 then toString q.num else toString q.num ++ "/" ++ toString q.den

def joinWith (sep : String) (l : List String) : String := sep.intercalate l

def showNats (l : List Nat) : String := joinWith "," (l.map toString)
def showInts (l : List Int) : String := joinWith "," (l.map toString)
def showRats (l : List Rat) : String := joinWith "," (l.map showRat)
def showBool (b : Bool) : String := if b then "1" else "0"

/-- `key=value` arguments of a protocol line (after the op name). -/
def argOf (args : List String) (key : String) : String :=
  match args.find? (fun a => a.startsWith (key ++ "=")) with
  | some a => (a.drop (key.length + 1)).toString
  | none => ""

def natArg (args : List String) (key : String) : Nat := parseNat! (argOf args key)
def boolArg (args : List String) (key : String) : Bool := argOf args key == "1"

/-- first index of the minimum of a list of naturals (Python: `l.index(min(l))`); 0 on `[]` -/
def argminIdx : List Nat → Nat
  | [] => 0
  | x :: xs =>
    match xs with
    | [] => 0
    | _ => let j := argminIdx xs
           if x ≤ xs.getD j 0 then 0 else j + 1

def listMin : List Nat → Nat
  | [] => 0
  | [x] => x
  | x :: xs => min x (listMin xs)

/-- insertion sort by a total preorder `le`; stable (equal keys keep input order). -/
def insertBy {α} (le : α → α → Bool) (a : α) : List α → List α
  | [] => [a]
  | b :: t => if le a b then a :: b :: t else b :: insertBy le a t

def sortBy {α} (le : α → α → Bool) : List α → List α
  | [] => []
  | a :: t => insertBy le a (sortBy le t)

/-- association-list update preserving position (Python dict assignment to an existing key) -/
def assocSet {β} (k : String) (v : β) : List (String × β) → List (String × β)
  | [] => [(k, v)]
  | (k', v') :: t => if k' == k then (k', v) :: t else (k', v') :: assocSet k v t

def assocGet? {β} (k : String) : List (String × β) → Option β
  | [] => none
  | (k', v') :: t => if k' == k then some v' else assocGet? k t

def listSet {α} (l : List α) (i : Nat) (v : α) : List α := l.set i v

end KV
