/-
M-Alg + M-Layout: executable exact-rational images of the tensor formulas in
kfac/layers/{utils,modules,eigen,inverse,base}.py and kfac/base_preconditioner.py:_compute_grad_scale.
Matrices are row-major `List (List Rat)`; every operation takes its dimensions explicitly so that it
is total and bridges to Mathlib's `Matrix (Fin m) (Fin n) ℚ` (Lemmas/AlgBridge.lean).  Import-free.
-/
import KfacVerif.Model.Basic

namespace KV.Alg

abbrev Mat := List (List Rat)

def ent (A : Mat) (i j : Nat) : Rat := (A.getD i []).getD j 0

def ofFn (m n : Nat) (f : Nat → Nat → Rat) : Mat :=
  (List.range m).map fun i => (List.range n).map fun j => f i j

def sumTo (n : Nat) (f : Nat → Rat) : Rat := ((List.range n).map f).foldl (· + ·) 0

/-- `A @ B`, A : m×k, B : k×n -/
def mul (m k n : Nat) (A B : Mat) : Mat := ofFn m n fun i j => sumTo k fun t => ent A i t * ent B t j
/-- `A.t()`, A : m×n -/
def tr (m n : Nat) (A : Mat) : Mat := ofFn n m fun i j => ent A j i
def add (m n : Nat) (A B : Mat) : Mat := ofFn m n fun i j => ent A i j + ent B i j
def smul (m n : Nat) (c : Rat) (A : Mat) : Mat := ofFn m n fun i j => c * ent A i j
def ident (n : Nat) : Mat := ofFn n n fun i j => if i == j then 1 else 0
/-- `torch.outer(u, v)` -/
def outer (u v : List Rat) : Mat := ofFn u.length v.length fun i j => u.getD i 0 * v.getD j 0
/-- entrywise `A / (B + lam)` -/
def divPlus (m n : Nat) (A B : Mat) (lam : Rat) : Mat := ofFn m n fun i j => ent A i j / (ent B i j + lam)
/-- entrywise product -/
def had (m n : Nat) (A B : Mat) : Mat := ofFn m n fun i j => ent A i j * ent B i j
/-- `torch.clamp(d, min=0)` -/
def clamp0 (d : List Rat) : List Rat := d.map fun x => if x < 0 then 0 else x

/-! ### factors (kfac/layers/utils.py, base.py) -/

/-- `get_cov(a)`: `a.t() @ (a / rows)`, then `(c + c.t()) / 2`; `a` has `rows` rows and `n` columns -/
def cov (rows n : Nat) (a : Mat) : Mat :=
  let c := mul n rows n (tr rows n a) (smul rows n (1 / (rows : Rat)) a)
  smul n n (1 / 2) (add n n c (tr n n c))

/-- `append_bias_ones` -/
def appendOnes (a : Mat) : Mat := a.map fun r => r ++ [1]

/-- `alpha * F + (1 - alpha) * M` -/
def ema (n : Nat) (alpha : Rat) (F M : Mat) : Mat := add n n (smul n n alpha F) (smul n n (1 - alpha) M)

/-- one `update_*_factor`: mean of the accumulated micro-batch moments, identity on first use -/
def updateFactor (n : Nat) (alpha : Rat) (F : Option Mat) (batches : List Mat) : Option Mat :=
  match batches with
  | [] => F
  | b :: bs =>
    let s := bs.foldl (add n n) b
    let M := if batches.length > 1 then smul n n (1 / (batches.length : Rat)) s else s
    some (ema n alpha (F.getD (ident n)) M)

/-! ### preconditioning (eigen.py / inverse.py) : grad is g×a -/

/-- `qg @ ((qg.t() @ grad @ qa) / (outer(dg, da) + damping)) @ qa.t()` -/
def eigenPrecond (g a : Nat) (qa : Mat) (da : List Rat) (qg : Mat) (dg : List Rat) (lam : Rat) (grad : Mat) : Mat :=
  let v1 := mul g a a (mul g g a (tr g g qg) grad) qa
  let v2 := divPlus g a v1 (outer dg da) lam
  mul g a a (mul g g a qg v2) (tr a a qa)

/-- `dgda = 1 / (outer(dg, da) + damping)` computed at refresh time -/
def dgdaOf (dg da : List Rat) (lam : Rat) : Mat :=
  ofFn dg.length da.length fun i j => 1 / (dg.getD i 0 * da.getD j 0 + lam)

/-- `qg @ ((qg.t() @ grad @ qa) * dgda) @ qa.t()` -/
def eigenPrecondPre (g a : Nat) (qa qg dgda grad : Mat) : Mat :=
  let v1 := mul g a a (mul g g a (tr g g qg) grad) qa
  mul g a a (mul g g a qg (had g a v1 dgda)) (tr a a qa)

/-- `g_inv @ grad @ a_inv` -/
def invPrecond (g a : Nat) (ainv ginv grad : Mat) : Mat := mul g a a (mul g g a ginv grad) ainv

/-! ### clip scale (base_preconditioner.py:_compute_grad_scale) -/

def inner (m n : Nat) (A B : Mat) : Rat := sumTo m fun i => sumTo n fun j => ent A i j * ent B i j

/-- `nu^2 = min(1, kl / |S|)` with `S = lr^2 * Σ <V_l, D_l>`; 1 when `S = 0` -/
def nuSq (kl lr : Rat) (sumInner : Rat) : Rat :=
  let s := sumInner * lr * lr
  if s == 0 then 1 else min 1 (kl / (if s < 0 then -s else s))

/-! ### layout (modules.py) -/

/-- `get_grad()` of a Linear/Conv2d: weight gradient viewed as (out, rest) row-major, bias last -/
def getGrad (wrows : Mat) (bias : Option (List Rat)) : Mat :=
  match bias with
  | none => wrows
  | some b => (List.zip wrows b).map fun (r, x) => r ++ [x]

/-- `set_grad(grad)`: split the combined matrix back into weight rows and bias -/
def setGrad (hasBias : Bool) (grad : Mat) : Mat × Option (List Rat) :=
  if hasBias then (grad.map fun r => r.dropLast, some (grad.map fun r => r.getLastD 0)) else (grad, none)

structure Conv where
  cin : Nat
  kh : Nat
  kw : Nat
  sh : Nat
  sw : Nat
  ph : Nat
  pw : Nat
deriving Repr, DecidableEq

def outDim (inp k s p : Nat) : Nat := (inp + 2 * p - k) / s + 1

/-- feature index of (channel c, kernel row i, kernel column j) in an unfolded patch -/
def featIdx (cv : Conv) (c i j : Nat) : Nat := c * (cv.kh * cv.kw) + i * cv.kw + j
def featC (cv : Conv) (f : Nat) : Nat := f / (cv.kh * cv.kw)
def featI (cv : Conv) (f : Nat) : Nat := (f % (cv.kh * cv.kw)) / cv.kw
def featJ (cv : Conv) (f : Nat) : Nat := f % cv.kw

/-- input `x[b][c][h][w]`, zero padded by `ph` rows / `pw` columns on each side -/
def padded (x : List (List (List (List Rat)))) (cv : Conv) (b c h w : Nat) : Rat :=
  if h < cv.ph || w < cv.pw then 0 else
    ((((x.getD b []).getD c []).getD (h - cv.ph) []).getD (w - cv.pw) 0)

/-- `_extract_patches(x)` flattened to rows `(b, oh, ow)` × features -/
def patches (cv : Conv) (H W : Nat) (x : List (List (List (List Rat)))) : Mat :=
  let oh := outDim H cv.kh cv.sh cv.ph
  let ow := outDim W cv.kw cv.sw cv.pw
  (List.range x.length).flatMap fun b => (List.range oh).flatMap fun y => (List.range ow).map fun z =>
    (List.range (cv.cin * cv.kh * cv.kw)).map fun f =>
      -- rows/columns beyond the input are zero padding too (`getD` default)
      padded x cv b (featC cv f) (y * cv.sh + featI cv f) (z * cv.sw + featJ cv f)

/-- `Conv2dModuleHelper.get_a_factor` -/
def convAFactor (cv : Conv) (H W : Nat) (hasBias : Bool) (x : List (List (List (List Rat)))) : Mat :=
  let oh := outDim H cv.kh cv.sh cv.ph
  let ow := outDim W cv.kw cv.sw cv.pw
  let p := patches cv H W x
  let p := if hasBias then appendOnes p else p
  let n := cv.cin * cv.kh * cv.kw + (if hasBias then 1 else 0)
  let rows := x.length * oh * ow
  cov rows n (smul rows n (1 / ((oh * ow : Nat) : Rat)) p)

/-- `Conv2dModuleHelper.get_g_factor`: `g[b][c][oh][ow]` → rows (b, oh, ow), divided by the spatial size -/
def convGFactor (cout oh ow : Nat) (g : List (List (List (List Rat)))) : Mat :=
  let rowsL : Mat := (List.range g.length).flatMap fun b => (List.range oh).flatMap fun y => (List.range ow).map fun z =>
    (List.range cout).map fun c => ((((g.getD b []).getD c []).getD y []).getD z 0)
  let rows := g.length * oh * ow
  cov rows cout (smul rows cout (1 / ((oh * ow : Nat) : Rat)) rowsL)

/-- `LinearModuleHelper.get_a_factor` on already flattened rows -/
def linAFactor (rows n : Nat) (hasBias : Bool) (a : Mat) : Mat :=
  if hasBias then cov rows (n + 1) (appendOnes a) else cov rows n a

end KV.Alg
