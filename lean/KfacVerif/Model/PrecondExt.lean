/-
Extension of M-Precond: loading a state that was saved EARLIER (kept in memory while training went
on) into a freshly constructed preconditioner — "roll back to the checkpoint".  Import-free.
-/
import KfacVerif.Model.Precond

namespace KV.Precond

/-- `fresh.load_state_dict(state, compute_inverses)` where `state` is what `state_dict()` returned
    in state `snap` (already read through the getters) and `cur` is the run at the moment of loading
    (only its script / counters continue). -/
def loadInto (c : Cfg) (cur snap : St) (inclF compInv : Bool) : St :=
  let fresh : St := { St.init c snap.hyper with
    steps := snap.steps, pass := cur.pass, nIssued := cur.nIssued, nextReq := cur.nextReq,
    script := cur.script, defs := cur.defs }
  if !inclF then fresh else
  let s2 := forRanks c fresh fun t r => (layerIdxs c).foldl (fun t l =>
    let old := getL snap r l
    let strip (o : Option Slot) : Option Slot := o.map fun x => { x with pend := .ready }
    setL t r l { getL t r l with aFactor := strip old.aFactor, gFactor := strip old.gFactor }) t
  if !compInv then s2 else
  let damping := s2.hyper.damping.val s2.steps
  (layerIdxs c).foldl (fun t l =>
    let t := forRanks c t fun t r => computeGInv c (computeAInv c t r l damping) r l damping
    if c.asg.bcastInv then broadcastGInv c (broadcastAInv c t l) l else t) s2

end KV.Precond

namespace KV.Precond

/-- does every rank hold both factors of layer `l`? (identical on all ranks in every reachable state) -/
def layerHasFactors (c : Cfg) (s : St) (l : Nat) : Bool :=
  (worldRanks c).all fun r => (getL s r l).aFactor.isSome && (getL s r l).gFactor.isSome

/-- `load_state_dict` after fix f317514: layers whose factors are `None` (state saved before the
    first factor update) are skipped by the inverse computation instead of raising.  Coincides with
    `loadInto` whenever every layer has its factors (`loadInto'_eq`, Props/C09), which is the case
    in which `loadInto`/`saveLoad` do not fail; the driver uses this definition. -/
def loadInto' (c : Cfg) (cur snap : St) (inclF compInv : Bool) : St :=
  let fresh : St := { St.init c snap.hyper with
    steps := snap.steps, pass := cur.pass, nIssued := cur.nIssued, nextReq := cur.nextReq,
    script := cur.script, defs := cur.defs }
  if !inclF then fresh else
  let s2 := forRanks c fresh fun t r => (layerIdxs c).foldl (fun t l =>
    let old := getL snap r l
    let strip (o : Option Slot) : Option Slot := o.map fun x => { x with pend := .ready }
    setL t r l { getL t r l with aFactor := strip old.aFactor, gFactor := strip old.gFactor }) t
  if !compInv then s2 else
  let damping := s2.hyper.damping.val s2.steps
  (layerIdxs c).foldl (fun t l =>
    if !layerHasFactors c t l then t else
    let t := forRanks c t fun t r => computeGInv c (computeAInv c t r l damping) r l damping
    if c.asg.bcastInv then broadcastGInv c (broadcastAInv c t l) l else t) s2

end KV.Precond
