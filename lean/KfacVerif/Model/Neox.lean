/-
M-Neox: model of kfac/gpt_neox/assignment.py (GPTNeoXAssignment) on DeepSpeed's
PipeModelDataParallelTopology (axes pipe, data, model; row-major ranks).
Import-free, executable.
-/
import KfacVerif.Model.Basic

namespace KV.Neox

structure Topo where
  pp : Nat
  dp : Nat
  mp : Nat
deriving Repr, DecidableEq

def Topo.world (t : Topo) : Nat := t.pp * t.dp * t.mp

/-- `topology.get_rank(pipe=p, data=d, model=m)` -/
def Topo.rankOf (t : Topo) (p d m : Nat) : Nat := p * (t.dp * t.mp) + d * t.mp + m

def Topo.pipeOf (t : Topo) (r : Nat) : Nat := r / (t.dp * t.mp)
def Topo.dataOf (t : Topo) (r : Nat) : Nat := (r / t.mp) % t.dp
def Topo.modelOf (t : Topo) (r : Nat) : Nat := r % t.mp

/-- `get_axis_comm_lists('data')`: for every (pipe, model) in product order, the ranks along data -/
def Topo.dataGroups (t : Topo) : List (List Nat) :=
  (List.range t.pp).flatMap fun p => (List.range t.mp).map fun m =>
    (List.range t.dp).map fun d => t.rankOf p d m

/-- `get_axis_comm_lists('model')`: for every (pipe, data), the ranks along model -/
def Topo.modelGroups (t : Topo) : List (List Nat) :=
  (List.range t.pp).flatMap fun p => (List.range t.dp).map fun d =>
    (List.range t.mp).map fun m => t.rankOf p d m

/-- `get_axis_comm_lists('pipe')`: for every (data, model), the ranks along pipe -/
def Topo.pipeGroups (t : Topo) : List (List Nat) :=
  (List.range t.dp).flatMap fun d => (List.range t.mp).map fun m =>
    (List.range t.pp).map fun p => t.rankOf p d m

/-- `get_group_with_rank`: first group containing the rank (`none` = ValueError) -/
def groupWithRank (r : Nat) (groups : List (List Nat)) : Option (List Nat) :=
  groups.find? (fun g => g.contains r)

/-- ranks with the same pipe coordinate, ascending -/
def Topo.stagePeers (t : Topo) (p : Nat) : List Nat :=
  (List.range t.world).filter fun r => t.pipeOf r == p

def sameSet (a b : List Nat) : Bool := a.all (b.contains ·) && b.all (a.contains ·)

abbrev Work := List (String × List (String × Nat))

def sumCosts (fs : List (String × Nat)) : Nat := (fs.map (·.2)).sum

/-- sort key `(cost, name)` descending -/
def layerLe (a b : String × Nat) : Bool :=
  a.2 > b.2 || (a.2 == b.2 && decide (a.1 ≥ b.1))

def sortedWork (work : Work) : List (String × Nat) :=
  sortBy layerLe (work.map fun l => (l.1, sumCosts l.2))

/-- greedy over the stage peers: each layer (in sorted order) goes to the first least-loaded
    index; returns final loads and `(layer, peer index)` in placement order -/
def place : List Nat → List (String × Nat) → List Nat × List (String × Nat)
  | loads, [] => (loads, [])
  | loads, (l, c) :: t =>
    let i := argminIdx loads
    let (loads', rest) := place (loads.set i (loads.getD i 0 + c)) t
    (loads', (l, i) :: rest)

structure Cfg where
  t : Topo
  work : Work        -- the layers of the local rank's pipeline stage
deriving Repr

/-- inverse worker of a layer as seen from a rank in pipeline stage `p` -/
def Cfg.invWorker (c : Cfg) (p : Nat) (layer : String) : Option Nat :=
  let peers := c.t.stagePeers p
  let pl := (place (List.replicate peers.length 0) (sortedWork c.work)).2
  (assocGet? layer pl).map fun i => peers.getD i 0

def Cfg.loads (c : Cfg) (p : Nat) : List Nat :=
  (place (List.replicate (c.t.stagePeers p).length 0) (sortedWork c.work)).1

def Cfg.dataPeers (c : Cfg) (loc : Nat) : List Nat := (groupWithRank loc c.t.dataGroups).getD []
def Cfg.modelPeers (c : Cfg) (loc : Nat) : List Nat := (groupWithRank loc c.t.modelGroups).getD []

/-- `factor_worker`: data-parallel group of the inverse worker ∩ own model-parallel peers -/
def Cfg.factorWorker (c : Cfg) (loc : Nat) (layer : String) : Option Nat :=
  match c.invWorker (c.t.pipeOf loc) layer with
  | none => none
  | some inv =>
    let dg := (groupWithRank inv c.t.dataGroups).getD []
    (c.modelPeers loc).find? (fun r => dg.contains r)

/-- `is_grad_worker`: the inverse worker is one of my model-parallel peers -/
def Cfg.isGradWorker (c : Cfg) (loc : Nat) (layer : String) : Bool :=
  match c.invWorker (c.t.pipeOf loc) layer with
  | none => false
  | some inv => (c.modelPeers loc).contains inv

/-- `src_grad_worker`: own data-parallel peers ∩ model-parallel group of the inverse worker -/
def Cfg.srcGradWorker (c : Cfg) (loc : Nat) (layer : String) : Option Nat :=
  match c.invWorker (c.t.pipeOf loc) layer with
  | none => none
  | some inv =>
    let mg := (groupWithRank inv c.t.modelGroups).getD []
    (c.dataPeers loc).find? (fun r => mg.contains r)

inductive PeerGroup where
  | modelGroup | dataGroup | created (members : List Nat)
deriving Repr, DecidableEq

/-- which handle becomes `pipe_parallel_peer_group` -/
def Cfg.peerGroup (c : Cfg) (loc : Nat) : PeerGroup :=
  let peers := c.t.stagePeers (c.t.pipeOf loc)
  if sameSet peers (c.modelPeers loc) then .modelGroup
  else if sameSet peers (c.dataPeers loc) then .dataGroup
  else .created peers

/-- the `dist.new_group` calls issued by a rank, in order (repaired code: every stage, in stage
    order, on every rank) -/
def Cfg.newGroupCalls (c : Cfg) (loc : Nat) : List (List Nat) :=
  match c.peerGroup loc with
  | .created _ => (List.range c.t.pp).map c.t.stagePeers
  | _ => []

/-- legacy (before fix d975dbf): only the own stage -/
def Cfg.newGroupCallsLegacy (c : Cfg) (loc : Nat) : List (List Nat) :=
  match c.peerGroup loc with
  | .created peers => [peers]
  | _ => []

end KV.Neox
