/-
M-Misc: module-tree walk and registration filter (kfac/layers/register.py and the GPT-NeoX
variant), `LambdaParamScheduler` + `exp_decay_factor_averaging` (kfac/scheduler.py,
kfac/hyperparams.py), the trace table (kfac/tracing.py).  Import-free, executable.
-/
import KfacVerif.Model.Basic

namespace KV.Reg

/-- a `torch.nn.Module` tree. `id` is object identity (a shared instance repeats its `id`);
    `cls`: 0 other, 1 Linear (or subclass), 2 Conv2d (or subclass); `params` lists
    `requires_grad` of the module's own parameters; a `none` child is a `None` entry of `_modules`. -/
inductive MTree where
  | node (id : Nat) (cls : Nat) (clsName : String) (params : List Bool)
      (children : List (String × Option MTree))
deriving Repr

def MTree.id : MTree → Nat | .node i _ _ _ _ => i
def MTree.cls : MTree → Nat | .node _ c _ _ _ => c
def MTree.clsName : MTree → String | .node _ _ n _ _ => n
def MTree.params : MTree → List Bool | .node _ _ _ p _ => p
def MTree.children : MTree → List (String × Option MTree) | .node _ _ _ _ c => c

/-- `len(list(module.children())) == 0` -/
def MTree.isLeaf (t : MTree) : Bool := t.children.all fun c => c.2.isNone

structure Visit where
  name : String
  id : Nat
  cls : Nat
  clsName : String
  params : List Bool
  leaf : Bool
deriving Repr

def qual (pre name : String) : String := if pre.isEmpty then name else pre ++ "." ++ name

mutual
/-- `named_modules()`: pre-order, first occurrence of an instance wins (memo set) -/
def walk (pre : String) (seen : List Nat) : MTree → List Nat × List Visit
  | .node i c cn ps ch =>
    if seen.contains i then (seen, [])
    else
      let v : Visit := { name := pre, id := i, cls := c, clsName := cn, params := ps,
                         leaf := ch.all fun x => x.2.isNone }
      let (seen', vs) := walkChildren pre (i :: seen) ch
      (seen', v :: vs)
def walkChildren (pre : String) (seen : List Nat) :
    List (String × Option MTree) → List Nat × List Visit
  | [] => (seen, [])
  | (_, none) :: t => walkChildren pre seen t
  | (n, some m) :: t =>
    let (seen', vs) := walk (qual pre n) seen m
    let (seen'', ws) := walkChildren pre seen' t
    (seen'', vs ++ ws)
end

def namedModules (t : MTree) : List Visit := (walk "" [] t).2

/-- truth table of `re.search` shipped by the harness: string ↦ one bit per pattern -/
abbrev MatchTbl := List (String × List Bool)

/-- `any_match(query, patterns)`; `none` when the table has no row for the query -/
def anyMatch (tbl : MatchTbl) (q : String) : Option Bool := (KV.assocGet? q tbl).map (·.any id)

def lower (s : String) : String := s.map Char.toLower

/-- `register_modules`: eligible leaves in walk order. `neox = true` is the GPT-NeoX variant
    (class name lower-cased, dispatch on the two parallel-linear class names). -/
def eligible (tbl : MatchTbl) (neox : Bool) (v : Visit) : Bool :=
  let cn := if neox then lower v.clsName else v.clsName
  v.leaf
  && (anyMatch tbl v.name).getD false == false
  && (anyMatch tbl cn).getD false == false
  && v.params.all id
  && (if neox then cn == "columnparallellinear" || cn == "rowparallellinear"
      else v.cls == 1 || v.cls == 2)

def registered (tbl : MatchTbl) (neox : Bool) (t : MTree) : List Visit :=
  (namedModules t).filter (eligible tbl neox)

/-- helper kind attached to a registered module -/
def helperOf (neox : Bool) (v : Visit) : String :=
  if neox then (if lower v.clsName == "columnparallellinear" then "output" else "input")
  else if v.cls == 1 then "linear" else "conv2d"

end KV.Reg

namespace KV.Sched

/-- the six schedulable parameters, in the order the scheduler visits them -/
structure Params where
  fus : Int      -- factor_update_steps
  ius : Int      -- inv_update_steps
  damping : Rat
  decay : Rat
  kl : Rat
  lr : Rat
deriving Repr, DecidableEq

/-- Python `int(x)`: truncation toward zero -/
def truncRat (q : Rat) : Int := Int.tdiv q.num q.den

/-- factor functions: one optional `Nat → Rat` per parameter -/
structure Lambdas where
  fus : Option (Nat → Rat)
  ius : Option (Nat → Rat)
  damping : Option (Nat → Rat)
  decay : Option (Nat → Rat)
  kl : Option (Nat → Rat)
  lr : Option (Nat → Rat)

/-- `LambdaParamScheduler.step(step)`; `steps` is the preconditioner's current step count -/
def schedStep (l : Lambdas) (p : Params) (steps : Nat) (arg : Option Nat) : Params :=
  let s := arg.getD steps
  { fus := match l.fus with | some f => truncRat ((p.fus : Rat) * f s) | none => p.fus
    ius := match l.ius with | some f => truncRat ((p.ius : Rat) * f s) | none => p.ius
    damping := match l.damping with | some f => p.damping * f s | none => p.damping
    decay := match l.decay with | some f => p.decay * f s | none => p.decay
    kl := match l.kl with | some f => p.kl * f s | none => p.kl
    lr := match l.lr with | some f => p.lr * f s | none => p.lr }

/-- a sequence of scheduler calls: `(preconditioner step count at the call, explicit step?)`;
    returns the parameters after every call -/
def schedTrace (l : Lambdas) : Params → List (Nat × Option Nat) → List Params
  | _, [] => []
  | p, (steps, arg) :: t => let p' := schedStep l p steps arg; p' :: schedTrace l p' t

def schedRun (l : Lambdas) (p : Params) (calls : List (Nat × Option Nat)) : Params :=
  calls.foldl (fun p c => schedStep l p c.1 c.2) p

/-- constructor check: a scheduled parameter must not already be callable.
    `callable` lists, per parameter, whether the preconditioner holds a function. -/
def ctorOk (scheduled callable : List Bool) : Bool :=
  (List.zip scheduled callable).all fun (s, c) => !(s && c)

/-- `exp_decay_factor_averaging(min_value)(step)` for `step ≥ 0` -/
def expDecay (cap : Rat) (k : Nat) : Rat := min (1 - 1 / (max k 1 : Nat)) cap

end KV.Sched

namespace KV.Trace

abbrev Table := List (String × List Rat)

/-- a completed call of a traced function appends one sample under the function's name -/
def record (t : Table) (name : String) (dt : Rat) : Table :=
  match KV.assocGet? name t with
  | some l => KV.assocSet name (l ++ [dt]) t
  | none => t ++ [(name, [dt])]

/-- Python `times[-m:]` applied only `if len(times) > m` -/
def window (mh : Option Int) (l : List Rat) : List Rat :=
  match mh with
  | none => l
  | some m =>
    if (l.length : Int) > m then
      if m > 0 then l.drop (l.length - m.toNat)
      else if m == 0 then l               -- `times[-0:]` is the whole list
      else l.drop (-m).toNat             -- `times[k:]` for negative max_history = -k
    else l

inductive Stat where
  | val (q : Rat)
  | zeroDiv
deriving Repr, DecidableEq

def stat (avg : Bool) (mh : Option Int) (l : List Rat) : Stat :=
  let w := window mh l
  let s := w.foldl (· + ·) 0
  if avg then (if w.isEmpty then .zeroDiv else .val (s / w.length)) else .val s

def getTrace (t : Table) (avg : Bool) (mh : Option Int) : List (String × Stat) :=
  t.map fun (n, l) => (n, stat avg mh l)

inductive Op where
  | call (name : String) (dt : Rat) (raises : Bool)
  | clear
deriving Repr

def step (t : Table) : Op → Table
  | .call n dt raises => if raises then t else record t n dt
  | .clear => []

def run (t : Table) (ops : List Op) : Table := ops.foldl step t

/-- outcome of the wrapped function -/
inductive Outcome (α ε : Type) where
  | ret (v : α)
  | raise (e : ε)
deriving Repr

/-- the `func_timer` wrapper: runs the function (outcome `o`, duration `dt`), records a sample
    only when it returned, and hands the outcome through unchanged -/
def tracedCall {α ε : Type} (t : Table) (name : String) (dt : Rat) (o : Outcome α ε) :
    Table × Outcome α ε :=
  match o with
  | .ret v => (record t name dt, .ret v)
  | .raise e => (t, .raise e)

/-! ### re-entrant calls: a traced function may be entered again before it returns (recursion,
    callbacks).  Every invocation of the wrapper reads the clock into ITS OWN local variable when it
    starts and subtracts it when the wrapped function returns. -/

inductive Ev where
  | enter (name : String)      -- a wrapper invocation starts: `t = time.time()`
  | leave                      -- the innermost active invocation returns: sample `time.time() - t`
  | tick (dt : Rat)            -- time passes
deriving Repr

/-- the implementation's view: an absolute clock and one start reading per active invocation -/
structure NState where
  now : Rat := 0
  stack : List (String × Rat) := []      -- active invocations, innermost first, with their start readings
  table : Table := []
deriving Repr

def nstep (s : NState) : Ev → NState
  | .enter n => { s with stack := (n, s.now) :: s.stack }
  | .leave =>
    match s.stack with
    | [] => s
    | (n, t0) :: rest => { s with stack := rest, table := record s.table n (s.now - t0) }
  | .tick dt => { s with now := s.now + dt }

def nrun (s : NState) (evs : List Ev) : NState := evs.foldl nstep s

/-- the specification's view: no clock at all; every active invocation accumulates the time that
    passes while it is active (its own and that of the calls nested inside it) -/
structure SState where
  stack : List (String × Rat) := []      -- active invocations with the time elapsed since they started
  table : Table := []
deriving Repr

def sstep (s : SState) : Ev → SState
  | .enter n => { s with stack := (n, 0) :: s.stack }
  | .leave =>
    match s.stack with
    | [] => s
    | (n, el) :: rest => { s with stack := rest, table := record s.table n el }
  | .tick dt => { s with stack := s.stack.map fun (n, el) => (n, el + dt) }

def srun (s : SState) (evs : List Ev) : SState := evs.foldl sstep s

/-- the events of a chain of nested calls `names[0]` → `names[1]` → … with the clock increments
    `starts` (before entering level 1, 2, …) and `ends` (before leaving the innermost level, …, level 0) -/
def chainEvents (names : List String) (starts ends : List Rat) : List Ev :=
  match names with
  | [] => []
  | n0 :: rest =>
    [Ev.enter n0] ++ (List.zip rest starts).flatMap (fun (n, dt) => [Ev.tick dt, Ev.enter n])
      ++ ends.flatMap (fun dt => [Ev.tick dt, Ev.leave])

end KV.Trace
