/-
M-SchedVal: M-Sched with data.  Every rank has a local state; `issue i f` contributes the payload
`f (local state)` to global event `i`; `wait i g` becomes enabled once every member of event `i`
has contributed and replaces the local state by `g state (combine i payloads)` (sum for an
all-reduce, the root's payload for a broadcast, …); `loc h` is local computation.  A scheduler is
any function choosing among enabled steps.  Used to show that what the ranks compute does not depend
on the interleaving (C02/C03 "every interleaving").  Import-free.
-/
namespace KV.SchedV

inductive Act (σ β : Type) where
  | issue (i : Nat) (f : σ → β)
  | wait (i : Nat) (g : σ → β → σ)
  | loc (h : σ → σ)

def issueIds {σ β : Type} : List (Act σ β) → List Nat
  | [] => []
  | .issue i _ :: t => i :: issueIds t
  | _ :: t => issueIds t

structure Sys (β : Type) where
  members : Nat → List Nat                       -- event ↦ member ranks
  combine : Nat → (Nat → Option β) → β           -- event ↦ payloads by rank ↦ result

structure St (σ β : Type) where
  rem : Nat → List (Act σ β)
  st : Nat → σ
  pay : Nat → Nat → Option β                     -- event ↦ rank ↦ payload

def complete {σ β : Type} (S : Sys β) (s : St σ β) (i : Nat) : Prop :=
  ∀ r, r ∈ S.members i → (s.pay i r).isSome = true

/-- payloads of the members only (what the collective actually combines) -/
def view {σ β : Type} (S : Sys β) (s : St σ β) (i : Nat) : Nat → Option β :=
  fun r => if r ∈ S.members i then s.pay i r else none

inductive Step {σ β : Type} (S : Sys β) : St σ β → St σ β → Prop where
  | issue (s : St σ β) (r i : Nat) (f : σ → β) (t : List (Act σ β)) (h : s.rem r = .issue i f :: t) :
      Step S s { s with rem := fun q => if q = r then t else s.rem q,
                        pay := fun j q => if j = i ∧ q = r then some (f (s.st r)) else s.pay j q }
  | wait (s : St σ β) (r i : Nat) (g : σ → β → σ) (t : List (Act σ β)) (h : s.rem r = .wait i g :: t)
      (hc : complete S s i) :
      Step S s { s with rem := fun q => if q = r then t else s.rem q,
                        st := fun q => if q = r then g (s.st r) (S.combine i (view S s i)) else s.st q }
  | loc (s : St σ β) (r : Nat) (hf : σ → σ) (t : List (Act σ β)) (h : s.rem r = .loc hf :: t) :
      Step S s { s with rem := fun q => if q = r then t else s.rem q,
                        st := fun q => if q = r then hf (s.st r) else s.st q }

inductive Reach {σ β : Type} (S : Sys β) : St σ β → St σ β → Prop where
  | refl (s : St σ β) : Reach S s s
  | tail {s t u : St σ β} : Reach S s t → Step S t u → Reach S s u

/-- the discipline M-Sched's invariant provides: only members contribute to an event, and nobody
    contributes twice (a rank's issue ids are duplicate-free and disjoint from what it has already
    contributed) -/
structure Disciplined {σ β : Type} (S : Sys β) (s : St σ β) : Prop where
  member : ∀ r i, i ∈ issueIds (s.rem r) → r ∈ S.members i
  nodup : ∀ r, (issueIds (s.rem r)).Nodup
  fresh : ∀ r i, i ∈ issueIds (s.rem r) → s.pay i r = none

def Terminal {σ β : Type} (S : Sys β) (s : St σ β) : Prop := ¬ ∃ s', Step S s s'

end KV.SchedV
