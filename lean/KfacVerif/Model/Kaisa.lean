/-
M-Kaisa: model of kfac/assignment.py (KAISAAssignment) and the strategy /
fraction handling of kfac/preconditioner.py.  Import-free, executable.

Python `dict` = association list in insertion order.  CPython set iteration
order is a PARAMETER (`gOrder`: the ordered list of ordered gradient-worker
groups the implementation iterated); theorems quantify over every order.
-/
import KfacVerif.Model.Basic

namespace KV.Kaisa

abbrev Work := List (String × List (String × Nat))      -- layer ↦ factor ↦ cost
abbrev Assign := List (String × List (String × Nat))    -- layer ↦ factor ↦ rank

/-- `partition_grad_workers`: columns `{i, i+p, …}` of the k×p grid, p = w / k -/
def cols (w k : Nat) : List (List Nat) :=
  let p := w / k
  (List.range p).map fun i => (List.range k).map fun j => i + j * p

/-- `partition_grad_receivers`: rows `{i·p, …, i·p+p-1}` -/
def rows (w k : Nat) : List (List Nat) :=
  let p := w / k
  (List.range k).map fun i => (List.range p).map fun j => i * p + j

def sumCosts (fs : List (String × Nat)) : Nat := (fs.map (·.2)).sum

def loadOf (loads : List Nat) (g : List Nat) : Nat := (g.map fun i => loads.getD i 0).sum

/-- layers in stable descending order of summed cost
    (`sorted(summed_work.items(), key=item[1], reverse=True)`) -/
def sortedLayers (work : Work) : List (String × List (String × Nat)) :=
  sortBy (fun a b => sumCosts a.2 ≥ sumCosts b.2) work

/-- factors by `(cost, name)` descending -/
def factorLe (a b : String × Nat) : Bool :=
  a.2 > b.2 || (a.2 == b.2 && decide (a.1 ≥ b.1))

def sortedFactors (fs : List (String × Nat)) : List (String × Nat) := sortBy factorLe fs

/-- least-loaded worker inside a group: `group[loads_in_group.index(min(...))]` -/
def minWorker (loads : List Nat) (g : List Nat) : Nat :=
  g.getD (argminIdx (g.map fun i => loads.getD i 0)) 0

def addLoad (loads : List Nat) (r c : Nat) : List Nat := loads.set r (loads.getD r 0 + c)

/-- one placement record: which layer went to which group index, and the
    (factor, worker, cost) placements made for it, together with the loads seen
    when the decision was taken -/
structure Placement where
  layer : String
  groupIdx : Nat
  loadsBefore : List Nat
  items : List (String × Nat × Nat)     -- factor, worker, cost (in placement order)
deriving Repr

/-- place the factors of one layer (non-colocated branch) -/
def placeFactors (g : List Nat) : List Nat → List (String × Nat) → List Nat × List (String × Nat × Nat)
  | loads, [] => (loads, [])
  | loads, (f, c) :: t =>
    let mw := minWorker loads g
    let (loads', rest) := placeFactors g (addLoad loads mw c) t
    (loads', (f, mw, c) :: rest)

/-- the body of the `for layer in sorted_groups` loop -/
def placeLayer (groups : List (List Nat)) (colocate : Bool) (loads : List Nat)
    (layer : String × List (String × Nat)) : List Nat × Placement :=
  let gl := groups.map (loadOf loads)
  let gi := argminIdx gl
  let g := groups.getD gi []
  if colocate then
    let mw := minWorker loads g
    let tot := sumCosts layer.2
    (addLoad loads mw tot,
      { layer := layer.1, groupIdx := gi, loadsBefore := loads,
        items := layer.2.map fun fc => (fc.1, mw, fc.2) })
  else
    let (loads', items) := placeFactors g loads (sortedFactors layer.2)
    (loads', { layer := layer.1, groupIdx := gi, loadsBefore := loads, items := items })

def placeAll (groups : List (List Nat)) (colocate : Bool) :
    List Nat → List (String × List (String × Nat)) → List Nat × List Placement
  | loads, [] => (loads, [])
  | loads, l :: t =>
    let (loads', p) := placeLayer groups colocate loads l
    let (loads'', ps) := placeAll groups colocate loads' t
    (loads'', p :: ps)

/-- rank given to `factor` of `layer` by the placement records (`none` = the `-1` of the code) -/
def lookupPlacement (ps : List Placement) (layer factor : String) : Option Nat :=
  match ps.find? (fun p => p.layer == layer) with
  | none => none
  | some p => (p.items.find? (fun it => it.1 == factor)).map (·.2.1)

/-- `KAISAAssignment.greedy_assignment`: same key structure as `work` -/
def greedy (work : Work) (groups : List (List Nat)) (world : Nat) (colocate : Bool) : Assign :=
  let ps := (placeAll groups colocate (List.replicate world 0) (sortedLayers work)).2
  work.map fun (layer, fs) =>
    (layer, fs.map fun (f, _) => (f, (lookupPlacement ps layer f).getD 0))

def placements (work : Work) (groups : List (List Nat)) (world : Nat) (colocate : Bool) :
    List Placement :=
  (placeAll groups colocate (List.replicate world 0) (sortedLayers work)).2

def finalLoads (work : Work) (groups : List (List Nat)) (world : Nat) (colocate : Bool) :
    List Nat :=
  (placeAll groups colocate (List.replicate world 0) (sortedLayers work)).1

/-! ### queries of a constructed assignment -/

structure Cfg where
  w : Nat
  k : Nat
  colocate : Bool
  gOrder : List (List Nat)        -- gradient-worker groups in the order iterated by the code
  work : Work
deriving Repr

def Cfg.assign (c : Cfg) : Assign := greedy c.work c.gOrder c.w c.colocate

/-- `inv_worker(layer, factor)` -/
def Cfg.invWorker (c : Cfg) (layer factor : String) : Option Nat :=
  (assocGet? layer c.assign).bind (assocGet? factor)

/-- the `inv_worker` used for group selection: `list(assignments[layer].values()).pop()` = last -/
def Cfg.layerWorker (c : Cfg) (layer : String) : Option Nat :=
  (assocGet? layer c.assign).bind fun fs => (fs.getLast?).map (·.2)

/-- the gradient-worker group of a layer: the column containing its inverse worker -/
def Cfg.workerGroup (c : Cfg) (layer : String) : List Nat :=
  match c.layerWorker layer with
  | none => []
  | some r => ((cols c.w c.k).find? (fun g => g.contains r)).getD []

/-- the receiver group of a rank: the row containing it -/
def Cfg.receiverGroup (c : Cfg) (loc : Nat) : List Nat :=
  ((rows c.w c.k).find? (fun g => g.contains loc)).getD []

def Cfg.isGradWorker (c : Cfg) (loc : Nat) (layer : String) : Bool :=
  (c.workerGroup layer).contains loc

/-- `src_grad_worker`: the element of worker group ∩ receiver group -/
def Cfg.srcGradWorker (c : Cfg) (loc : Nat) (layer : String) : Option Nat :=
  (c.receiverGroup loc).find? (fun r => (c.workerGroup layer).contains r)

def Cfg.broadcastGradients (c : Cfg) : Bool := c.k < c.w
def Cfg.broadcastInverses (c : Cfg) : Bool := 1 < c.k

/-- the set of groups handed to `group_func` (as sorted lists, duplicates between
    rows and columns removed as the Python set union does) -/
def Cfg.groupsCreated (c : Cfg) : List (List Nat) :=
  let cs := cols c.w c.k
  cs ++ (rows c.w c.k).filter (fun r => !cs.contains r)

/-! ### argument validation -/

inductive Verdict where
  | ok (gradWorkers : Nat)
  | valueError
deriving Repr, DecidableEq

/-- integer side of the validation: `k` is what `world_size * fraction` denotes
   (the harness passes fractions as exact rationals `num/den`). Mirrors, in order:
   fraction range, local_rank ≥ 0 (Nat), world ≥ 0 (Nat), integrality,
   local_rank < world, and the `world_size % grad_workers` test of the partition
   functions (`0 < world_size`). -/
def validate (w : Nat) (num den : Nat) (loc : Nat) : Verdict :=
  if den = 0 then .valueError
  else if num > den then .valueError                 -- fraction > 1
  else
    -- max(1, w * num/den) must be an integer
    let prod := w * num
    let gw := if prod < den then 1 else prod / den
    if den ≤ prod ∧ prod % den ≠ 0 then .valueError
    else if loc ≥ w then .valueError
    else if w = 0 then .valueError
    else if w % gw ≠ 0 then .valueError
    else .ok gw

/-- IEEE-double side of the validation, as executed by the repaired code:
    `gw = max(1, w*f)`; accept iff `|gw - round(gw)| ≤ 1e-6 * …` -- see `fracAcceptFloat`. -/
def fracProductFloat (w k : Nat) : Float := Float.ofNat w * (Float.ofNat k / Float.ofNat w)

/-- legacy test `grad_workers != int(grad_workers)` on the float product -/
def fracAcceptLegacy (w k : Nat) : Bool :=
  let x := fracProductFloat w k
  x == x.floor

/-! ### `KFACPreconditioner.__init__` strategy selection -/

inductive Strategy where | commOpt | memOpt | hybridOpt
deriving Repr, DecidableEq

/-- strategy selected for a gradient-worker count `k` in a world of `w`
   (fraction `k/w`; `k = 0` stands for fraction 0 which the code maps to `1/w`) -/
def strategyOf (w k : Nat) : Strategy :=
  if k = w then .commOpt else if k ≤ 1 then .memOpt else .hybridOpt

def Strategy.name : Strategy → String
  | .commOpt => "COMM_OPT" | .memOpt => "MEM_OPT" | .hybridOpt => "HYBRID_OPT"

/-- gradient-worker count the enum shortcuts stand for (HYBRID = fraction 0.5) -/
def enumWorkers (w : Nat) : Strategy → Option Nat
  | .commOpt => some w
  | .memOpt => some 1
  | .hybridOpt => if w % 2 = 0 then some (w / 2) else none

end KV.Kaisa
