/-
Spec: the reference K-FAC state machine — one view, no ranks' private state, no futures, no
collectives, no work assignment, no buckets.  It knows only: the world size (how many per-rank
batches are averaged), the layers, the method, the hyper-parameters, accumulation and whether
factors are folded in the hook or in `step`.  M-Precond refines it (C05 `refines`), which makes the
gradients independent of everything the Spec does not mention (C02) and gives checkpoint/resume
equivalence (C09).  Produces the same symbolic values `V` as M-Precond.  Import-free.
-/
import KfacVerif.Model.Precond

namespace KV.Spec
open KV.Precond

structure SCfg where
  world : Nat
  nLayers : Nat
  method : Method
  prediv : Bool
  accum : Nat
  hook : Bool
deriving Repr, DecidableEq

def ofCfg (c : Cfg) : SCfg :=
  { world := c.world, nLayers := c.layers.length, method := c.method, prediv := c.prediv,
    accum := c.accum, hook := c.hook }

/-- per-layer state: per-rank micro-batch accumulators, the (rank-independent) factors and the
    second-order data computed at the last refresh -/
structure SLayer where
  aBatch : Option (List V) := none      -- one accumulated term per rank
  aCount : Nat := 0
  gBatch : Option (List V) := none
  gCount : Nat := 0
  aFactor : Option V := none
  gFactor : Option V := none
  qa : Option V := none
  da : Option V := none
  qg : Option V := none
  dg : Option V := none
  dgda : Option V := none
  aInv : Option V := none
  gInv : Option V := none
deriving Repr, DecidableEq

structure SSt where
  steps : Nat := 0
  mini : List Nat
  pass : Nat := 0
  layers : List SLayer
  hyper : Hyper
  defs : List V := []
  out : List V := []                    -- gradients left by the last step (layer ↦ value), same on all ranks

def SSt.init (c : SCfg) (h : Hyper) : SSt :=
  { mini := List.replicate c.nLayers 0, layers := List.replicate c.nLayers {}, hyper := h }

def getS (s : SSt) (l : Nat) : SLayer := s.layers.getD l {}
def setS (s : SSt) (l : Nat) (x : SLayer) : SSt := { s with layers := s.layers.set l x }

def ranks (c : SCfg) : List Nat := List.range c.world
def idxs (c : SCfg) : List Nat := List.range c.nLayers
def revIdxs (c : SCfg) : List Nat := (idxs c).reverse

/-- every rank adds the second moment of its own micro-batch -/
def save (c : SCfg) (s : SSt) (l : Nat) (isA : Bool) : SSt :=
  let x := getS s l
  let leaves := (ranks c).map fun r => V.cov l isA r s.pass
  if isA then
    match x.aBatch with
    | none => setS s l { x with aBatch := some leaves, aCount := 1 }
    | some b => setS s l { x with aBatch := some (List.zipWith V.add b leaves), aCount := x.aCount + 1 }
  else
    match x.gBatch with
    | none => setS s l { x with gBatch := some leaves, gCount := 1 }
    | some b => setS s l { x with gBatch := some (List.zipWith V.add b leaves), gCount := x.gCount + 1 }

/-- fold the accumulated batch into the running average on every rank and average over ranks -/
def updateReduce (c : SCfg) (s : SSt) (l : Nat) (isA : Bool) (alpha : Rat) : SSt :=
  let x := getS s l
  let (batch, count, fac) := if isA then (x.aBatch, x.aCount, x.aFactor) else (x.gBatch, x.gCount, x.gFactor)
  -- per-rank values after `update_*_factor`
  let perRank : Option (List V) :=
    match batch with
    | none => fac.map fun f => (ranks c).map fun _ => f
    | some b =>
      let fv := fac.getD (.ident l isA)
      some (b.map fun br => V.ema alpha fv (if count > 1 then V.divN br count else br))
  match perRank with
  | none => s                                   -- (the real code raises: factor is None)
  | some vals =>
    let x := if isA then { x with aBatch := none } else { x with gBatch := none }
    if c.world == 1 then
      setS s l (if isA then { x with aFactor := vals.head? } else { x with gFactor := vals.head? })
    else
      let v := V.ref s.defs.length
      let s := { s with defs := s.defs ++ [avgOf vals] }
      setS s l (if isA then { x with aFactor := some v } else { x with gFactor := some v })

def fwdBwd (c : SCfg) (s : SSt) (train : Bool) : SSt :=
  if !train then s else
  let fus := s.hyper.fus.val s.steps
  if s.steps % fus != 0 then { s with pass := s.pass + 1 } else
  let alpha := s.hyper.decay.val s.steps
  let s := (idxs c).foldl (fun s l =>
    let s := save c s l true
    let m := s.mini.getD l 0 + 1
    let s := { s with mini := s.mini.set l m }
    if c.hook && m % c.accum == 0 then updateReduce c s l true alpha else s) s
  let s := (revIdxs c).foldl (fun s l =>
    let s := save c s l false
    let m := s.mini.getD l 0
    if c.hook && m % c.accum == 0 then updateReduce c s l false alpha else s) s
  { s with pass := s.pass + 1 }

/-- recompute the second-order data of one layer from its current factors -/
def refresh (c : SCfg) (s : SSt) (l : Nat) (damping : Rat) : SSt :=
  let x := getS s l
  let fa := x.aFactor.getD .zero
  let fg := x.gFactor.getD .zero
  match c.method with
  | .eigen =>
    if c.prediv then
      setS s l { x with qa := some (.eigQ fa), qg := some (.eigQ fg),
                        dgda := some (.outerInv (.eigD fg) (.eigD fa) damping), da := none, dg := none }
    else
      setS s l { x with qa := some (.eigQ fa), da := some (.eigD fa), qg := some (.eigQ fg), dg := some (.eigD fg) }
  | .inverse => setS s l { x with aInv := some (.inv fa damping), gInv := some (.inv fg damping) }

/-- the preconditioned gradient of one layer from the second-order data at hand -/
def precond (c : SCfg) (s : SSt) (l : Nat) (damping : Rat) : V :=
  let x := getS s l
  let g := V.rawGrad l s.steps
  let v (o : Option V) := o.getD .garbage
  match c.method with
  | .eigen => if c.prediv then .pcEigPre (v x.qa) (v x.qg) (v x.dgda) g
              else .pcEig (v x.qa) (v x.da) (v x.qg) (v x.dg) damping g
  | .inverse => .pcInv (v x.aInv) (v x.gInv) g

def step (c : SCfg) (s : SSt) : SSt :=
  let fus := s.hyper.fus.val s.steps
  let ius := s.hyper.ius.val s.steps
  let damping := s.hyper.damping.val s.steps
  let alpha := s.hyper.decay.val s.steps
  let s := if !c.hook && s.steps % fus == 0 then
      (revIdxs c).foldl (fun s l =>
        let s := { s with mini := s.mini.set l 0 }
        updateReduce c (updateReduce c s l true alpha) l false alpha) s
    else s
  let s := if s.steps % ius == 0 then (revIdxs c).foldl (fun s l => refresh c s l damping) s else s
  let vs := (idxs c).map fun l => precond c s l damping
  let out := match s.hyper.kl.val s.steps with
    | none => vs
    | some k =>
      let sum := (revIdxs c).foldl (fun acc l =>
        let t := V.inner (vs.getD l .garbage) (.rawGrad l s.steps)
        match acc with | none => some t | some a => some (V.add a t)) (none : Option V)
      let n := V.nu k (s.hyper.lr.val s.steps) (sum.getD .zero)
      vs.map fun v => V.scale n v
  { s with steps := s.steps + 1, mini := List.replicate c.nLayers 0, out := out }

def resetBatch (c : SCfg) (s : SSt) : SSt :=
  (idxs c).foldl (fun s l =>
    setS s l { getS s l with aBatch := none, aCount := 0, gBatch := none, gCount := 0 }) s

/-- save → fresh object → load -/
def saveLoad (c : SCfg) (s : SSt) (inclF compInv : Bool) : SSt :=
  let fresh : SSt := { SSt.init c s.hyper with steps := s.steps, pass := s.pass, defs := s.defs }
  if !inclF then fresh else
  let s2 := (idxs c).foldl (fun t l =>
    setS t l { getS t l with aFactor := (getS s l).aFactor, gFactor := (getS s l).gFactor }) fresh
  if !compInv then s2 else
  (idxs c).foldl (fun t l => refresh c t l (s2.hyper.damping.val s2.steps)) s2

def exec (c : SCfg) (s : SSt) : Op → SSt
  | .fwdBwd t => fwdBwd c s t
  | .step => step c s
  | .resetBatch => resetBatch c s
  | .memUsage => s
  | .save _ => s
  | .saveLoad f ci => saveLoad c s f ci
  | .setHyper h => { s with hyper := h }

def run (c : SCfg) (s : SSt) (ops : List Op) : SSt := ops.foldl (exec c) s

end KV.Spec
