/-
M-CommVal: VALUES through the bucketed all-reduce of kfac/distributed.py
(`TorchDistributedCommunicator.allreduce_bucketed` + `AllreduceTensorBucket`), for one process group.

Every member of the group submits a sequence of tensors (`Sub`: request id, dtype tag, flattened
payload — after triangular packing when symmetric).  A member cuts its sequence into buckets with the
capacity / dtype rule of `allreduce_bucketed` (the same rule as M-Comm's `allreduceBucketed`, plus the
final `flush_allreduce_buckets()`); a bucket is flattened (`torch._utils._flatten_dense_tensors`:
concatenation), the i-th buckets of all members are summed elementwise by one `dist.all_reduce`, and
every member unflattens the result with the sizes of its own tensors.  Payloads are exact integers.
Import-free, executable.
-/
import KfacVerif.Model.Comm

namespace KV.CommV
open KV

structure Sub where
  tid : Nat
  dtype : Nat
  data : List Int
deriving Repr, DecidableEq

def Sub.bytes (esize : Nat) (s : Sub) : Nat := s.data.length * esize

def bucketBytes (esize : Nat) (b : List Sub) : Nat := (b.map (Sub.bytes esize)).sum

/-- `bucket.size + tensor_size > cap or (bucket.dtype is not None and bucket.dtype != tensor.dtype)` -/
def flushNow (cap esize : Nat) (cur : List Sub) (s : Sub) : Bool :=
  bucketBytes esize cur + s.bytes esize > cap ||
    (match cur.head? with | some h => h.dtype != s.dtype | none => false)

/-- `bucket.allreduce()` does nothing for an empty bucket -/
def emit (cur : List Sub) : List (List Sub) := if cur.isEmpty then [] else [cur]

/-- the buckets one member communicates, in order: `cur` is the open bucket; the sequence ends with
    `flush_allreduce_buckets()` -/
def split (cap esize : Nat) : List Sub → List Sub → List (List Sub)
  | [], cur => emit cur
  | s :: t, cur =>
    if flushNow cap esize cur s then emit cur ++ split cap esize t [s]
    else split cap esize t (cur ++ [s])

/-- `_flatten_dense_tensors` -/
def flatten (b : List Sub) : List Int := b.flatMap (·.data)

/-- elementwise sum of equally long vectors (`dist.all_reduce`, SUM); the shortest length wins, as
    for `zipWith` (a length mismatch between members is what gloo reports as an error) -/
def vsum : List (List Int) → List Int
  | [] => []
  | [v] => v
  | v :: rest => List.zipWith (· + ·) v (vsum rest)

/-- `_unflatten_dense_tensors(flat, tensors)`: cut `flat` into pieces of the members' own tensor sizes -/
def unflatten : List Sub → List Int → List (Nat × List Int)
  | [], _ => []
  | s :: t, flat => (s.tid, flat.take s.data.length) :: unflatten t (flat.drop s.data.length)

/-- what member `m` (index into `members`) gets back for each of its tensors, in submission order -/
def results (cap esize : Nat) (members : List (List Sub)) (m : Nat) : List (Nat × List Int) :=
  let bs := members.map fun subs => split cap esize subs []
  let mine := bs.getD m []
  (List.range mine.length).flatMap fun i =>
    unflatten (mine.getD i []) (vsum (bs.map fun b => flatten (b.getD i [])))

/-- the per-tensor all-reduce: request `j` of every member summed elementwise -/
def perTensor (members : List (List Sub)) (m : Nat) : List (Nat × List Int) :=
  let mine := members.getD m []
  (List.range mine.length).map fun j =>
    ((mine.getD j ⟨0, 0, []⟩).tid, vsum (members.map fun subs => (subs.getD j ⟨0, 0, []⟩).data))

/-- SPMD: all members submit the same requests (ids, dtypes, sizes); only the payloads differ -/
def sameShape (a b : List Sub) : Bool :=
  a.length == b.length &&
    (List.zip a b).all fun (x, y) => x.tid == y.tid && x.dtype == y.dtype && x.data.length == y.data.length

end KV.CommV
