/-
M-NeoxLayer: the model-parallel data movement of kfac/gpt_neox/layer.py + mpu.py + modules.py:
gather along the sharded dimension to the primary rank, precondition there, split, scatter back
(reduce_scatter with zeros from the non-primary ranks), broadcast of a replicated bias; advertised
factor shapes; which group reduces which factor.  And the checkpoint bookkeeping of
kfac/gpt_neox/preconditioner.py (state_dict / load_state_dict).  Import-free, executable.
-/
import KfacVerif.Model.Basic

namespace KV.NeoxL

abbrev Mat := List (List Rat)

inductive Par where
  | col    -- ColumnParallelLinear, parallelism = 'output': weight rows and bias sharded
  | row    -- RowParallelLinear, parallelism = 'input': weight columns sharded, bias replicated
deriving Repr, DecidableEq

/-- `torch.cat(parts, dim=0)` -/
def gatherRows (parts : List Mat) : Mat := parts.flatten

/-- `torch.cat(parts, dim=-1)` of matrices with the same number of rows `rows` -/
def gatherCols (rows : Nat) (parts : List Mat) : Mat :=
  (List.range rows).map fun i => (parts.map fun p => p.getD i []).flatten

/-- `split_tensor_along_dim(A, mp, dim=0)`: `mp` blocks of `n / mp` rows -/
def splitRows (mp : Nat) (A : Mat) : List Mat :=
  let k := A.length / mp
  (List.range mp).map fun i => (A.drop (i * k)).take k

/-- `split_tensor_along_dim(A, mp, dim=-1)` for a matrix with `cols` columns -/
def splitCols (mp cols : Nat) (A : Mat) : List Mat :=
  let k := cols / mp
  (List.range mp).map fun i => A.map fun r => (r.drop (i * k)).take k

def matAdd (A B : Mat) : Mat := List.zipWith (List.zipWith (· + ·)) A B
def zerosLike (A : Mat) : Mat := A.map fun r => r.map fun _ => 0

/-- `reduce_scatter(out, inputs_r)` on member `i`: the sum over the group's ranks of their i-th input -/
def reduceScatter (inputs : List (List Mat)) (i : Nat) : Mat :=
  match inputs.map (fun l => l.getD i []) with
  | [] => []
  | x :: t => t.foldl matAdd x

/-- the emulated scatter: the primary contributes the shards, everyone else zeros of its own shard's shape -/
def scatterFrom (mp primary : Nat) (shards : List Mat) (i : Nat) : Mat :=
  reduceScatter ((List.range mp).map fun r =>
    if r == primary then shards else shards.map zerosLike) i

/-- combined gradient on the primary: gathered weight (rows for col-parallel, columns for
    row-parallel) with the bias column appended (gathered for col-parallel, the primary's own copy
    for row-parallel) -/
def gatherCombined (par : Par) (rows : Nat) (w : List Mat) (b : Option (List (List Rat))) (primary : Nat) : Mat :=
  let W := match par with | .col => gatherRows w | .row => gatherCols rows w
  match b with
  | none => W
  | some bs =>
    let bias : List Rat := match par with | .col => bs.flatten | .row => bs.getD primary []
    (List.zip W bias).map fun (r, x) => r ++ [x]

/-- what member `i` of the model-parallel group ends with: its weight shard and its bias (its shard
    for col-parallel, the full replicated bias for row-parallel) of the preconditioned matrix `V` -/
def shardOf (par : Par) (mp : Nat) (hasBias : Bool) (wcols : Nat) (V : Mat) (i : Nat) : Mat × Option (List Rat) :=
  let W : Mat := if hasBias then V.map (·.dropLast) else V
  let bias : List Rat := V.map (·.getLastD 0)
  match par with
  | .col => ((splitRows mp W).getD i [],
             if hasBias then some ((bias.drop (i * (bias.length / mp))).take (bias.length / mp)) else none)
  | .row => ((splitCols mp wcols W).getD i [], if hasBias then some bias else none)

/-- `preconditioned_grad` end to end on member `i` for a preconditioning map `P` applied on the primary -/
def neoxPrecond (par : Par) (mp primary rows wcols : Nat) (w : List Mat) (b : Option (List (List Rat)))
    (P : Mat → Mat) (i : Nat) : Mat × Option (List Rat) :=
  let V := P (gatherCombined par rows w b primary)
  let W : Mat := if b.isSome then V.map (·.dropLast) else V
  let shards := match par with | .col => splitRows mp W | .row => splitCols mp wcols W
  let wi := if mp == 1 then shards.getD 0 [] else scatterFrom mp primary shards i
  let bias : List Rat := V.map (·.getLastD 0)
  let bi : Option (List Rat) := match b with
    | none => none
    | some _ =>
      match par with
      | .col =>
        let k := bias.length / mp
        let bshards : List Mat := (List.range mp).map fun j => [(bias.drop (j * k)).take k]
        some ((if mp == 1 then bshards.getD 0 [] else scatterFrom mp primary bshards i).getD 0 [])
      | .row => some bias            -- broadcast from the primary
  (wi, bi)

/-- `GPTNeoXLinearModuleHelper.a_factor_shape[0]` / `g_factor_shape[0]` from the SHARD's weight shape -/
def aDim (par : Par) (mp shardIn : Nat) (hasBias : Bool) : Nat :=
  (match par with | .row => shardIn * mp | .col => shardIn) + (if hasBias then 1 else 0)
def gDim (par : Par) (mp shardOut : Nat) : Nat :=
  match par with | .col => shardOut * mp | .row => shardOut

/-- which group averages a factor: the sharded one is gathered to the primary and reduced over the
    data-parallel group by primaries only; the replicated one is reduced over all stage peers -/
inductive RGroup where | dataParallelOnPrimary | stagePeers
deriving Repr, DecidableEq
def reduceGroup (par : Par) (isA : Bool) : RGroup :=
  match par, isA with
  | .row, true => .dataParallelOnPrimary     -- A of row-parallel: inputs are sharded
  | .row, false => .stagePeers
  | .col, true => .stagePeers
  | .col, false => .dataParallelOnPrimary    -- G of col-parallel: outputs are sharded

/-! ### checkpoints (kfac/gpt_neox/preconditioner.py) -/

/-- the partition a rank contributes to `all_gather_object`: the layers it is inverse worker of -/
def partition (layersOf : Nat → List String) (inv : String → Nat) (r : Nat) : List String :=
  (layersOf r).filter fun n => inv n == r

/-- keys of the merged `layers` dict (insertion order, later partitions overwrite equal keys) -/
def merged (world : Nat) (layersOf : Nat → List String) (inv : String → Nat) : List String :=
  ((List.range world).flatMap (partition layersOf inv)).eraseDups

/-- who restores a layer on load -/
def restores (layersOf : Nat → List String) (factorWorker : Nat → String → Nat) (r : Nat) : List String :=
  (layersOf r).filter fun n => factorWorker r n == r

/-! ### checkpoints, value level: what the merged state holds and what a load leaves on every rank.
    `held r n` is what rank `r` holds for layer `n` when `state_dict()` is called (both factors as one value). -/

/-- the `(name, layer_state_dict)` pairs a rank puts into `all_gather_object` -/
def contribVals {α : Type} (layersOf : Nat → List String) (inv : String → Nat) (held : Nat → String → α)
    (r : Nat) : List (String × α) :=
  (partition layersOf inv r).map fun n => (n, held r n)

/-- every write `layers[name] = layer_state_dict`, in the order in which `state_dict()` walks the gathered partitions -/
def gathered {α : Type} (world : Nat) (layersOf : Nat → List String) (inv : String → Nat)
    (held : Nat → String → α) : List (String × α) :=
  (List.range world).flatMap (contribVals layersOf inv held)

/-- Python `d[k] = v` over a list of writes: the dict ends with the LAST value written to a key -/
def lastWrite {α : Type} (n : String) : List (String × α) → Option α
  | [] => none
  | (k, v) :: t =>
    match lastWrite n t with
    | some w => some w
    | none => if k == n then some v else none

/-- `state_dict()['layers'][n]` on every rank -/
def mergedVal {α : Type} (world : Nat) (layersOf : Nat → List String) (inv : String → Nat)
    (held : Nat → String → α) (n : String) : Option α :=
  lastWrite n (gathered world layersOf inv held)

/-- `load_state_dict(state)`: the factor worker of a layer found in the state takes the saved value, every
    other (rank, layer) keeps what it has (`old`) -/
def loadVal {α : Type} (layersOf : Nat → List String) (fw : Nat → String → Nat) (state : String → Option α)
    (old : Nat → String → α) (r : Nat) (n : String) : α :=
  if (restores layersOf fw r).contains n then (state n).getD (old r n) else old r n

inductive Coll where | newGroupGloo | allGatherObject | barrier
deriving Repr, DecidableEq

/-- collectives every rank takes part in while saving / loading (same list on every rank) -/
def saveColls (includeFactors dirMode : Bool) : List Coll :=
  if !includeFactors then [] else if dirMode then [.barrier] else [.newGroupGloo, .allGatherObject, .barrier]
def loadColls (hasLayers dirMode : Bool) : List Coll :=
  if dirMode then [] else if hasLayers then [.barrier] else []

end KV.NeoxL
