/-
M-NeoxScript: the collectives issued by one GPT-NeoX K-FAC run, as ONE global script.

Model of the communication skeleton of kfac/gpt_neox/layer.py (GPTNeoXKFACEigenLayer:
save_layer_input / save_layer_grad_output / reduce_a_factor / reduce_g_factor /
preconditioned_grad), kfac/gpt_neox/mpu.py (gather_from_model_parallel_region = all_gather
over the model-parallel group, bypassed for a group of one), the hook and step() skeleton of
kfac/base_preconditioner.py with GPTNeoXAssignment (broadcast_inverses = False,
broadcast_gradients = True over the data-parallel group) and the bucketing communicator
(M-Comm, reused verbatim) on DeepSpeed's 3-D topology (M-Neox).

All ranks run the same history in lock step; a collective appears ONCE, with its member list,
and rank r's program is the sub-sequence of the collectives it is a member of.  Scope: training
passes and steps (`f1`, `s`), checkpoints (`state_dict()` in memory or into a directory, load into a
fresh or into the running preconditioner), factors updated in the hooks or in `step()`
(`update_factors_in_hook`), any `accumulation_steps` (every layer sees every pass: one counter of
micro-batches).  Import-free, executable.
-/
import KfacVerif.Model.Neox
import KfacVerif.Model.Comm

namespace KV.NeoxS
open KV KV.Neox

inductive Kind where | allreduce | broadcast | allgather | reducescatter | gatherobj | barrier
deriving Repr, DecidableEq

/-- one collective: every member enters it; `elems` = element count of the tensor each member
    hands in (flattened bucket for a bucketed all-reduce) -/
structure NAct where
  members : List Nat
  kind : Kind
  elems : Nat
  root : Nat                 -- broadcast root (0 otherwise)
deriving Repr, DecidableEq

/-- `parallelism`: 'output' (column-parallel: output features sharded) / 'input' (row-parallel) -/
inductive Par where | col | row
deriving Repr, DecidableEq

structure Layer where
  name : String              -- registered name (global layer index of the PipelineModule)
  par : Par
  inF : Nat                  -- features of the UNSHARDED layer
  outF : Nat
  bias : Bool
deriving Repr

def Layer.aDim (l : Layer) : Nat := l.inF + (if l.bias then 1 else 0)
def Layer.gDim (l : Layer) : Nat := l.outF

structure Cfg where
  t : Topo
  stages : List (List Layer)   -- per pipeline stage, in module order
  tokens : Nat                 -- rows of an activation: product of all leading dimensions
  fus : Nat                    -- factor_update_steps
  ius : Nat                    -- inv_update_steps
  bucketed : Bool
  cap : Nat                    -- bucket_cap_bytes
  esize : Nat
  sym : Bool                   -- symmetry_aware
  cube : Bool                  -- AssignmentStrategy.COMPUTE (n³) / MEMORY (n²)
  hook : Bool := true          -- update_factors_in_hook
  accum : Nat := 1             -- accumulation_steps
deriving Repr

def cost (c : Cfg) (n : Nat) : Nat := if c.cube then n * n * n else n * n

/-- the `work` dictionary GPTNeoXKFACPreconditioner builds for stage `p` -/
def workOf (c : Cfg) (p : Nat) : Work :=
  (c.stages.getD p []).map fun l => (l.name, [("A", cost c l.aDim), ("G", cost c l.gDim)])

def asg (c : Cfg) (p : Nat) : Neox.Cfg := { t := c.t, work := workOf c p }

/-- inverse worker of a layer of stage `p` (0 if unknown: never for registered layers) -/
def invOf (c : Cfg) (p : Nat) (l : Layer) : Nat := ((asg c p).invWorker p l.name).getD 0

def modelGroup (c : Cfg) (p d : Nat) : List Nat := (List.range c.t.mp).map fun m => c.t.rankOf p d m
def dataGroup (c : Cfg) (p m : Nat) : List Nat := (List.range c.t.dp).map fun d => c.t.rankOf p d m

structure St where
  steps : Nat := 0
  mini : Nat := 0            -- `_mini_steps` (the same for every layer: every layer sees every pass)
  tid : Nat := 0
  kept : Nat := 0            -- step count recorded by the last `state_dict()`
  comm : Comm.CState
  acts : List NAct := []
deriving Repr

def St.init (c : Cfg) : St := { comm := { cap := c.cap, buckets := [] } }

def ofEvent : Comm.Event → NAct
  | .allreduce g _ e => { members := g, kind := .allreduce, elems := e, root := 0 }
  | .broadcast g _ e src => { members := g, kind := .broadcast, elems := e, root := src }

/-- a collective entered by every member of `g` unless the group has a single member
    (`get_world_size(group) == 1` short-circuits in mpu.py, layer.py and distributed.py) -/
def emitIf (s : St) (g : List Nat) (k : Kind) (elems root : Nat) : St :=
  if g.length ≤ 1 then s else { s with acts := s.acts ++ [{ members := g, kind := k, elems := elems, root := root }] }

/-- `reduce_*_factor` of an `n × n` factor over group `g` (bucketed or not, symmetric or not) -/
def reduceFactor (c : Cfg) (s : St) (g : List Nat) (n : Nat) : St :=
  let r := if c.bucketed then Comm.allreduceBucketed s.comm g s.tid [n, n] c.esize 0 c.sym
           else Comm.allreduce s.comm g s.tid [n, n] c.sym
  { s with comm := r.1, tid := s.tid + 1, acts := s.acts ++ r.2.1.map ofEvent }

def flush (s : St) : St :=
  let r := Comm.flush s.comm
  { s with comm := r.1, acts := s.acts ++ r.2.map ofEvent }

/-- `reduce_a_factor` of one layer: replicated input (column-parallel) → all peers of the stage;
    sharded input (row-parallel) → the primaries, over the data-parallel group of the inverse worker -/
def reduceA (c : Cfg) (p : Nat) (s : St) (l : Layer) : St :=
  match l.par with
  | .col => reduceFactor c s (c.t.stagePeers p) l.aDim
  | .row => reduceFactor c s (dataGroup c p (c.t.modelOf (invOf c p l))) l.aDim

/-- `reduce_g_factor` of one layer -/
def reduceG (c : Cfg) (p : Nat) (s : St) (l : Layer) : St :=
  match l.par with
  | .row => reduceFactor c s (c.t.stagePeers p) l.gDim
  | .col => reduceFactor c s (dataGroup c p (c.t.modelOf (invOf c p l))) l.gDim

/-- forward pre-hook of one layer on a factor-update iteration; `fire` = the factor is folded and
    reduced in this hook (hook mode, last micro-batch of the accumulation window) -/
def fwdLayer (c : Cfg) (p : Nat) (fire : Bool) (s : St) (l : Layer) : St :=
  let s := match l.par with
    | .col => s
    | .row =>
      -- sharded input gathered inside every model-parallel group
      (List.range c.t.dp).foldl
        (fun s d => emitIf s (modelGroup c p d) .allgather (c.tokens * (l.inF / c.t.mp)) 0) s
  if fire then reduceA c p s l else s

/-- backward hook of one layer on a factor-update iteration -/
def bwdLayer (c : Cfg) (p : Nat) (fire : Bool) (s : St) (l : Layer) : St :=
  let s := match l.par with
    | .row => s
    | .col =>
      (List.range c.t.dp).foldl
        (fun s d => emitIf s (modelGroup c p d) .allgather (c.tokens * (l.outF / c.t.mp)) 0) s
  if fire then reduceG c p s l else s

/-- one training forward + backward pass of every stage -/
def trainPass (c : Cfg) (s : St) : St :=
  if s.steps % c.fus != 0 then s else
  let mini := s.mini + 1
  let fire := c.hook && mini % c.accum == 0
  let s := (List.range c.t.pp).foldl (fun s p =>
    let ls := c.stages.getD p []
    let s := ls.foldl (fwdLayer c p fire) s
    ls.reverse.foldl (bwdLayer c p fire) s) s
  { s with mini := mini }

/-- `preconditioned_grad` (model-parallel group of the inverse worker) + `broadcast_grad` (every
    data-parallel group of the stage) of one layer -/
def precondLayer (c : Cfg) (p : Nat) (s : St) (l : Layer) : St :=
  let inv := invOf c p l
  let ds := c.t.dataOf inv
  let mg := modelGroup c p ds
  let mp := c.t.mp
  let w := l.outF * l.inF / mp
  -- gather weight (and the sharded bias) gradient to the primary
  let s := emitIf s mg .allgather w 0
  let s := if l.bias && l.par == .col then emitIf s mg .allgather (l.outF / mp) 0 else s
  -- scatter back (reduce_scatter emulation); replicated bias is broadcast from the primary
  let s := emitIf s mg .reducescatter w 0
  let s := if l.bias then
      (match l.par with
       | .col => emitIf s mg .reducescatter (l.outF / mp) 0
       | .row => emitIf s mg .broadcast l.outF inv)
    else s
  -- every data-parallel group: from the member inside the inverse worker's model-parallel group
  let g := match l.par with
    | .col => (l.outF / mp) * (l.inF + (if l.bias then 1 else 0))
    | .row => l.outF * (l.inF / mp + (if l.bias then 1 else 0))
  (List.range mp).foldl (fun s m => emitIf s (dataGroup c p m) .broadcast g (c.t.rankOf p ds m)) s

def stepOp (c : Cfg) (s : St) : St :=
  -- factors folded and reduced here when they are not updated in the hooks
  let s := if !c.hook && s.steps % c.fus == 0 then
      (List.range c.t.pp).foldl (fun s p =>
        (c.stages.getD p []).reverse.foldl (fun s l => reduceG c p (reduceA c p s l) l) s) s
    else s
  let s := flush s
  -- inverses: computed locally by the inverse workers, never broadcast (MEM-OPT); second flush
  let s := flush s
  let s := (List.range c.t.pp).foldl (fun s p => (c.stages.getD p []).reverse.foldl (precondLayer c p) s) s
  let s := flush s
  { s with steps := s.steps + 1, mini := 0 }

/-! ### checkpoints (kfac/gpt_neox/preconditioner.py: state_dict / save_factors_to_dir / load_state_dict)

`state_dict()` gathers the inverse workers' factors with `all_gather_object` over a world-wide (gloo)
group and ends with a barrier on it; with `factor_checkpoint_dir` set it is one world-wide barrier
(after rank 0 created the directory) followed by file writes.  `load_state_dict()` ends with a
world-wide barrier in memory mode and issues nothing in directory mode.  None of these calls is
short-circuited for a world of one.  Second-order data is recomputed locally, never communicated. -/

def worldGroup (c : Cfg) : List Nat := List.range c.t.world

def emitWorld (c : Cfg) (s : St) (k : Kind) : St :=
  { s with acts := s.acts ++ [{ members := worldGroup c, kind := k, elems := 1, root := 0 }] }

/-- `state_dict()`; remembers the step count it stores -/
def saveOp (c : Cfg) (dir : Bool) (s : St) : St :=
  let s := if dir then emitWorld c s .barrier
           else emitWorld c (emitWorld c s .gatherobj) .barrier
  { s with kept := s.steps }

/-- `load_state_dict(kept state)`; `fresh` = into a newly constructed preconditioner (empty buckets),
    otherwise into the running one -/
def loadOp (c : Cfg) (dir fresh : Bool) (s : St) : St :=
  let s := if dir then s else emitWorld c s .barrier
  { s with steps := s.kept, mini := 0,
           comm := if fresh then { cap := c.cap, buckets := [] } else s.comm }

inductive Op where
  | train | step
  | save (dir : Bool)
  | load (dir fresh : Bool)
deriving Repr, DecidableEq

def Op.isCkpt : Op → Bool
  | .save _ => true
  | .load _ _ => true
  | _ => false

def apply (c : Cfg) (s : St) : Op → St
  | .train => trainPass c s
  | .step => stepOp c s
  | .save dir => saveOp c dir s
  | .load dir fresh => loadOp c dir fresh s

def run (c : Cfg) (ops : List Op) : St := ops.foldl (apply c) (St.init c)

/-- rank r's program: the collectives it is a member of, in script order -/
def project (r : Nat) (acts : List NAct) : List NAct := acts.filter fun a => a.members.contains r

end KV.NeoxS
