/-
M-Precond: the SPMD K-FAC state machine of kfac/base_preconditioner.py + kfac/layers/{base,eigen,
inverse}.py under a KAISA-style assignment, executed in lock-step over all ranks.

* values are symbolic terms `V` (which data, combined how) so that "same gradients" is equality of
  terms and any interpretation (exact matrices, floats) inherits it;
* every collective is emitted into a global script `List GAct`; rank `r`'s program is its projection;
* futures: a slot remembers the issue it is waiting for; reading it through a property getter emits
  a `wait`. A bucketed request is `queued` until its bucket is flushed; reading it then is a `stall`.
Import-free, executable.
-/
import KfacVerif.Model.Basic

namespace KV.Precond

/-! ### symbolic values -/

inductive V where
  | ident (layer : Nat) (isA : Bool)                       -- identity of the factor's size
  | cov (layer : Nat) (isA : Bool) (rank pass : Nat)       -- batch second moment seen by `rank` in pass `pass`
  | add (a b : V)
  | divN (a : V) (n : Nat)                                 -- (1/n) * a
  | ema (alpha : Rat) (f m : V)                            -- alpha*f + (1-alpha)*m
  | eigQ (f : V)                                           -- eigenvectors of f
  | eigD (f : V)                                           -- eigenvalues of f clamped at 0
  | outerInv (dg da : V) (damping : Rat)                   -- 1 / (outer(dg, da) + damping)
  | inv (f : V) (damping : Rat)                            -- (f + damping*I)^-1
  | rawGrad (layer iter : Nat)                             -- combined (weight|bias) gradient before step `iter`
  | pcEig (qa da qg dg : V) (damping : Rat) (g : V)        -- qg ((qg^T g qa) / (dg⊗da + damping)) qa^T
  | pcEigPre (qa qg dgda : V) (g : V)                      -- qg ((qg^T g qa) * dgda) qa^T
  | pcInv (ainv ginv : V) (g : V)                          -- ginv g ainv
  | inner (v g : V)                                        -- <v, g>
  | nu (kl lr : Rat) (s : V)                               -- min(1, sqrt(kl / |s * lr^2|)), 1 if s = 0
  | scale (nu v : V)                                       -- nu * v
  | zero
  | garbage                                                -- torch.empty(...) never overwritten
  | ref (id : Nat)                                         -- the value registered as `St.defs[id]` (sharing)
deriving Repr, DecidableEq, Inhabited

def showRat' (q : Rat) : String := KV.showRat q

def V.show : V → String
  | .ident l a => s!"(I {l} {if a then "A" else "G"})"
  | .cov l a r p => s!"(cov {l} {if a then "A" else "G"} {r} {p})"
  | .add a b => s!"(add {a.show} {b.show})"
  | .divN a n => s!"(div {a.show} {n})"
  | .ema al f m => s!"(ema {showRat' al} {f.show} {m.show})"
  | .eigQ f => s!"(eigQ {f.show})"
  | .eigD f => s!"(eigD {f.show})"
  | .outerInv dg da d => s!"(outerInv {dg.show} {da.show} {showRat' d})"
  | .inv f d => s!"(inv {f.show} {showRat' d})"
  | .rawGrad l i => s!"(g {l} {i})"
  | .pcEig qa da qg dg d g => s!"(pcEig {qa.show} {da.show} {qg.show} {dg.show} {showRat' d} {g.show})"
  | .pcEigPre qa qg dgda g => s!"(pcEigPre {qa.show} {qg.show} {dgda.show} {g.show})"
  | .pcInv ai gi g => s!"(pcInv {ai.show} {gi.show} {g.show})"
  | .inner v g => s!"(inner {v.show} {g.show})"
  | .nu kl lr s => s!"(nu {showRat' kl} {showRat' lr} {s.show})"
  | .scale n v => s!"(scale {n.show} {v.show})"
  | .zero => "0"
  | .ref i => s!"(ref {i})"
  | .garbage => "garbage"

/-- sum then divide, the shape `allreduce(average=True)` produces; a world of one returns the tensor -/
def avgOf : List V → V
  | [] => .zero
  | [v] => v
  | v :: t => .divN (t.foldl .add v) (t.length + 1)

/-! ### configuration -/

inductive Method where | eigen | inverse
deriving Repr, DecidableEq

/-- a hyper-parameter: a constant or a function of the step count -/
inductive HP (α : Type) where
  | const (v : α)
  | fn (f : Nat → α)

def HP.val {α} (h : HP α) (steps : Nat) : α := match h with | .const v => v | .fn f => f steps
def HP.isFn {α} : HP α → Bool | .const _ => false | .fn _ => true

structure Hyper where
  fus : HP Nat
  ius : HP Nat
  damping : HP Rat
  decay : HP Rat
  kl : HP (Option Rat)        -- `none` = kl_clip=None (no clipping)
  lr : HP Rat

structure LayerCfg where
  aDim : Nat                  -- a_factor_shape[0]
  gDim : Nat                  -- g_factor_shape[0]
deriving Repr, DecidableEq

/-- what the state machine needs to know of a work assignment (KAISA instantiates it, C06 proves
    the well-formedness the theorems assume) -/
structure Assign where
  invA : Nat → Nat            -- layer ↦ inverse worker of A
  invG : Nat → Nat
  workers : Nat → List Nat    -- layer ↦ members of its gradient-worker group (ascending)
  recv : Nat → List Nat       -- rank ↦ members of its gradient-receiver group (ascending)
  src : Nat → Nat → Nat       -- rank ↦ layer ↦ src_grad_worker
  bcastInv : Bool
  bcastGrad : Bool

structure Cfg where
  world : Nat
  layers : List LayerCfg      -- registration order
  asg : Assign
  method : Method
  prediv : Bool
  symAware : Bool
  bucketed : Bool
  cap : Nat                   -- bucket_cap_bytes
  fe : Nat                    -- element size of factors
  ie : Nat                    -- element size of second-order data
  ge : Nat                    -- element size of gradients
  accum : Nat                 -- accumulation_steps
  hook : Bool                 -- update_factors_in_hook

/-! ### futures and slots -/

inductive Pend where
  | ready
  | issued (id : Nat)         -- resolved by global issue `id`, not yet awaited by this rank
  | queued (req : Nat)        -- sitting in an open bucket (request number `req`)
deriving Repr, DecidableEq

structure Slot where
  val : V
  pend : Pend
deriving Repr, DecidableEq

inductive Kind where | allreduce | broadcast
deriving Repr, DecidableEq

structure Desc where
  kind : Kind
  elems : Nat
  esize : Nat
  root : Nat                  -- broadcast root (0 for allreduce)
deriving Repr, DecidableEq

inductive GAct where
  | issue (members : List Nat) (d : Desc)      -- the id of an issue is its index among the issues
  | wait (rank id : Nat)
  | stall (rank req : Nat)                     -- a getter reached while the request is still queued
deriving Repr, DecidableEq

/-- per-rank, per-layer state (`KFACBaseLayer` + Eigen/Inverse subclass fields) -/
structure LState where
  aBatch : Option V := none
  aCount : Nat := 0
  gBatch : Option V := none
  gCount : Nat := 0
  aFactor : Option Slot := none
  gFactor : Option Slot := none
  qa : Option Slot := none
  da : Option Slot := none
  qg : Option Slot := none
  dg : Option Slot := none
  dgda : Option Slot := none
  aInv : Option Slot := none
  gInv : Option Slot := none
  grad : Option Slot := none
deriving Repr, DecidableEq

structure BItem where
  req : Nat
  layer : Nat
  isA : Bool
  elems : Nat
deriving Repr, DecidableEq

structure St where
  steps : Nat := 0
  mini : List Nat                      -- per layer `_mini_steps`
  pass : Nat := 0                      -- number of forward/backward passes seen (names the data)
  ranks : List (List LState)           -- rank ↦ layer ↦ state
  bucket : List BItem := []            -- the open bucket of the world group (identical on all ranks)
  nextReq : Nat := 0
  nIssued : Nat := 0
  script : List GAct := []             -- newest first
  hyper : Hyper
  outGrads : List (List V) := []       -- gradients left by the last `step` (rank ↦ layer ↦ value)
  err : Option (Nat × String) := none  -- first exception raised by the real code: (rank, what)
  defs : List V := []                  -- all-reduced factor values, referred to by `V.ref` (keeps terms small)

def St.init (c : Cfg) (h : Hyper) : St :=
  { mini := List.replicate c.layers.length 0,
    ranks := List.replicate c.world (List.replicate c.layers.length {}),
    hyper := h }

/-! ### small-step helpers (all lock-step over ranks) -/

def triElems (n : Nat) (sym : Bool) : Nat := if sym then n * (n + 1) / 2 else n * n

def emit (s : St) (a : GAct) : St := { s with script := a :: s.script }

/-- the real code raises on rank `r` -/
def fail (s : St) (r : Nat) (what : String) : St :=
  match s.err with | some _ => s | none => { s with err := some (r, what) }

def getL (s : St) (r l : Nat) : LState := (s.ranks.getD r []).getD l {}

def setL (s : St) (r l : Nat) (x : LState) : St :=
  { s with ranks := s.ranks.set r ((s.ranks.getD r []).set l x) }

/-- property getter: wait for the future if there is one -/
def readSlot (s : St) (r : Nat) (sl : Option Slot) : St × Option Slot :=
  match sl with
  | none => (s, none)
  | some x =>
    match x.pend with
    | .ready => (s, some x)
    | .issued id => (emit s (.wait r id), some { x with pend := .ready })
    | .queued q => (emit s (.stall r q), some x)

def issue (s : St) (members : List Nat) (d : Desc) : St × Nat :=
  ({ s with script := .issue members d :: s.script, nIssued := s.nIssued + 1 }, s.nIssued)

def worldRanks (c : Cfg) : List Nat := List.range c.world

def forRanks (c : Cfg) (s : St) (f : St → Nat → St) : St := (worldRanks c).foldl f s

/-- `bucket.allreduce()` of the open bucket: one all-reduce over the world; every queued slot of
    the bucket becomes `issued` on every rank -/
def flushBucket (c : Cfg) (s : St) : St :=
  if s.bucket.isEmpty then s else
  let total := (s.bucket.map (·.elems)).sum
  let (s1, id) := issue s (worldRanks c) { kind := .allreduce, elems := total, esize := c.fe, root := 0 }
  let fix (sl : Option Slot) : Option Slot := sl.map fun x =>
    match x.pend with
    | .queued q => if s.bucket.any (·.req == q) then { x with pend := .issued id } else x
    | _ => x
  { s1 with bucket := [],
            ranks := s1.ranks.map fun ls => ls.map fun x =>
              { x with aFactor := fix x.aFactor, gFactor := fix x.gFactor } }

/-- `reduce_a_factor` / `reduce_g_factor` on every rank -/
def reduceFactor (c : Cfg) (s : St) (l : Nat) (isA : Bool) : St :=
  let missing := (worldRanks c).filter fun r =>
    let x := getL s r l
    (if isA then x.aFactor else x.gFactor).isNone
  if !missing.isEmpty then fail s (missing.headD 0) "factor is None, cannot reduce" else
  -- `if self.a_factor is None` reads the property getter: a still-pending future is awaited here
  let s := forRanks c s fun s r =>
    let x := getL s r l
    let (s, f) := readSlot s r (if isA then x.aFactor else x.gFactor)
    setL s r l (if isA then { getL s r l with aFactor := f } else { getL s r l with gFactor := f })
  if c.world == 1 then s else          -- `get_world_size(group) == 1`: tensor returned as is
  let dim := (c.layers.getD l ⟨0, 0⟩)
  let n := if isA then dim.aDim else dim.gDim
  let elems := triElems n c.symAware
  let vals := (worldRanks c).map fun r =>
    let x := getL s r l
    ((if isA then x.aFactor else x.gFactor).map (·.val)).getD .zero
  let avg := V.ref s.defs.length
  let s := { s with defs := s.defs ++ [avgOf vals] }
  let put (s : St) (p : Pend) : St :=
    (worldRanks c).foldl (fun s r =>
      let x := getL s r l
      setL s r l (if isA then { x with aFactor := some ⟨avg, p⟩ } else { x with gFactor := some ⟨avg, p⟩ })) s
  if c.bucketed then
    let size := (s.bucket.map (·.elems)).sum * c.fe
    let s := if size + elems * c.fe > c.cap then flushBucket c s else s
    let req := s.nextReq
    let s := { s with bucket := s.bucket ++ [⟨req, l, isA, elems⟩], nextReq := req + 1 }
    put s (.queued req)
  else
    let (s, id) := issue s (worldRanks c) { kind := .allreduce, elems := elems, esize := c.fe, root := 0 }
    put s (.issued id)

/-- `update_a_factor` / `update_g_factor` on one rank -/
def updateFactor (s : St) (r l : Nat) (isA : Bool) (alpha : Rat) : St :=
  let x := getL s r l
  let (batch, count) := if isA then (x.aBatch, x.aCount) else (x.gBatch, x.gCount)
  match batch with
  | none => s
  | some b =>
    let bnew := if count > 1 then V.divN b count else b
    let (s, f) := readSlot s r (if isA then x.aFactor else x.gFactor)
    let x := getL s r l
    let fv : V := match f with | some sl => sl.val | none => .ident l isA
    let nf : Slot := ⟨.ema alpha fv bnew, match f with | some sl => sl.pend | none => .ready⟩
    -- a stalled read keeps the slot queued; otherwise the new value is a plain tensor
    let nf : Slot := match nf.pend with | .queued _ => nf | _ => { nf with pend := .ready }
    setL s r l (if isA then { x with aBatch := none, aFactor := some nf }
                else { x with gBatch := none, gFactor := some nf })

/-- `save_layer_input` / `save_layer_grad_output` on one rank -/
def saveBatch (s : St) (r l : Nat) (isA : Bool) : St :=
  let x := getL s r l
  let leaf := V.cov l isA r s.pass
  setL s r l <|
    if isA then
      match x.aBatch with
      | none => { x with aBatch := some leaf, aCount := 1 }
      | some b => { x with aBatch := some (.add b leaf), aCount := x.aCount + 1 }
    else
      match x.gBatch with
      | none => { x with gBatch := some leaf, gCount := 1 }
      | some b => { x with gBatch := some (.add b leaf), gCount := x.gCount + 1 }


def layerIdxs (c : Cfg) : List Nat := List.range c.layers.length
def revLayers (c : Cfg) : List Nat := (layerIdxs c).reverse

/-- one forward + backward pass of the model in train or eval mode -/
def fwdBwd (c : Cfg) (s : St) (train : Bool) : St :=
  if !train then s else
  let fus := s.hyper.fus.val s.steps
  if s.steps % fus != 0 then { s with pass := s.pass + 1 } else
  let alpha := s.hyper.decay.val s.steps
  -- forward pre-hooks in module order
  let s := (layerIdxs c).foldl (fun s l =>
    let s := forRanks c s fun s r => saveBatch s r l true
    let m := s.mini.getD l 0 + 1
    let s := { s with mini := s.mini.set l m }
    if c.hook && m % c.accum == 0 then
      let s := forRanks c s fun s r => updateFactor s r l true alpha
      reduceFactor c s l true
    else s) s
  -- backward hooks in reverse module order
  let s := (revLayers c).foldl (fun s l =>
    let s := forRanks c s fun s r => saveBatch s r l false
    let m := s.mini.getD l 0
    if c.hook && m % c.accum == 0 then
      let s := forRanks c s fun s r => updateFactor s r l false alpha
      reduceFactor c s l false
    else s) s
  { s with pass := s.pass + 1 }

/-- broadcast of one second-order tensor inside the layer's gradient-worker group -/
def bcastField (c : Cfg) (s : St) (l : Nat) (src : Nat) (elems : Nat)
    (get : LState → Option Slot) (set : LState → Option Slot → LState) : St :=
  let members := c.asg.workers l
  if members.length == 1 then s else
  let rootVal := ((get (getL s src l)).map (·.val)).getD .garbage
  let (s, id) := issue s members { kind := .broadcast, elems := elems, esize := c.ie, root := src }
  members.foldl (fun s r => let x := getL s r l; setL s r l (set x (some ⟨rootVal, .issued id⟩))) s

/-- `compute_a_inv` on rank r -/
def computeAInv (c : Cfg) (s : St) (r l : Nat) (damping : Rat) : St :=
  let x := getL s r l
  if x.aFactor.isNone then fail s r "A has not been computed" else
  let (s, f) := readSlot s r x.aFactor
  let x := { getL s r l with aFactor := f }
  let fv := (f.map (·.val)).getD .zero
  match c.method with
  | .eigen => setL s r l { x with qa := some ⟨.eigQ fv, .ready⟩, da := some ⟨.eigD fv, .ready⟩ }
  | .inverse => setL s r l { x with aInv := some ⟨.inv fv damping, .ready⟩ }

/-- `compute_g_inv` on rank r -/
def computeGInv (c : Cfg) (s : St) (r l : Nat) (damping : Rat) : St :=
  let x := getL s r l
  if x.gFactor.isNone then fail s r "G has not been computed" else
  let (s, f) := readSlot s r x.gFactor
  let x := { getL s r l with gFactor := f }
  let fv := (f.map (·.val)).getD .zero
  match c.method with
  | .eigen =>
    -- `assert self.da is not None` reads the getter
    let (s, da) := readSlot s r x.da
    let x := { getL s r l with gFactor := f, da := da }
    if da.isNone then fail s r "assert self.da is not None" else
    if c.prediv then
      let dav := (da.map (·.val)).getD .garbage
      setL s r l { x with qg := some ⟨.eigQ fv, .ready⟩,
                          dgda := some ⟨.outerInv (.eigD fv) dav damping, .ready⟩, dg := none, da := none }
    else setL s r l { x with qg := some ⟨.eigQ fv, .ready⟩, dg := some ⟨.eigD fv, .ready⟩ }
  | .inverse => setL s r l { x with gInv := some ⟨.inv fv damping, .ready⟩ }

/-- `broadcast_a_inv` entered by every gradient worker of the layer -/
def broadcastAInv (c : Cfg) (s : St) (l : Nat) : St :=
  let src := c.asg.invA l
  let a := (c.layers.getD l ⟨0, 0⟩).aDim
  match c.method with
  | .eigen =>
    -- non-holders allocate qa AND da (even when pre-dividing)
    let s := (c.asg.workers l).foldl (fun s r =>
      let x := getL s r l
      let (s, qa) := readSlot s r x.qa
      let x := { getL s r l with qa := qa }
      let (s, da) := if qa.isSome && !c.prediv then readSlot s r x.da else (s, x.da)
      let x := { getL s r l with qa := qa, da := da }
      if qa.isNone || (!c.prediv && da.isNone) then
        if r == src then fail s r "broadcast A inv from src that has not computed it" else
        -- `assert isinstance(self.a_factor, torch.Tensor)` / `.shape`: getter read
        let (s, af) := readSlot s r x.aFactor
        let x := { getL s r l with qa := qa, da := da, aFactor := af }
        if af.isNone then fail s r "a_factor is None when allocating the receive buffer" else
        setL s r l { x with qa := some ⟨.garbage, .ready⟩, da := some ⟨.garbage, .ready⟩ }
      else setL s r l x) s
    let s := bcastField c s l src (a * a) (·.qa) (fun x v => { x with qa := v })
    if c.prediv then s else bcastField c s l src a (·.da) (fun x v => { x with da := v })
  | .inverse =>
    let s := (c.asg.workers l).foldl (fun s r =>
      let x := getL s r l
      let (s, ai) := readSlot s r x.aInv
      let x := { getL s r l with aInv := ai }
      if ai.isNone then
        if r == src then fail s r "broadcast A inv from src that has not computed it" else
        let (s, af) := readSlot s r x.aFactor
        let x := { getL s r l with aInv := ai, aFactor := af }
        if af.isNone then fail s r "a_factor is None when allocating the receive buffer" else
        setL s r l { x with aInv := some ⟨.garbage, .ready⟩ }
      else setL s r l x) s
    bcastField c s l src (triElems a c.symAware) (·.aInv) (fun x v => { x with aInv := v })

/-- `broadcast_g_inv` entered by every gradient worker of the layer -/
def broadcastGInv (c : Cfg) (s : St) (l : Nat) : St :=
  let src := c.asg.invG l
  let dims := c.layers.getD l ⟨0, 0⟩
  let g := dims.gDim
  match c.method with
  | .eigen =>
    let s := (c.asg.workers l).foldl (fun s r =>
      let x := getL s r l
      let (s, qg) := readSlot s r x.qg
      let x := { getL s r l with qg := qg }
      let (s, dg) := if qg.isSome && !c.prediv then readSlot s r x.dg else (s, x.dg)
      let x := { getL s r l with qg := qg, dg := dg }
      let (s, dgda) := if qg.isSome && c.prediv then readSlot s r x.dgda else (s, x.dgda)
      let x := { getL s r l with qg := qg, dg := dg, dgda := dgda }
      if qg.isNone || (!c.prediv && dg.isNone) || (c.prediv && dgda.isNone) then
        if r == src then fail s r "broadcast G inv from src that has not computed it" else
        let (s, gf) := readSlot s r x.gFactor
        let x := { getL s r l with qg := qg, dg := dg, dgda := dgda, gFactor := gf }
        if gf.isNone then fail s r "g_factor is None when allocating the receive buffer" else
        if c.prediv then
          let (s, af) := readSlot s r x.aFactor
          let x := { getL s r l with qg := qg, dg := dg, dgda := dgda, gFactor := gf, aFactor := af }
          if af.isNone then fail s r "a_factor is None when allocating the receive buffer" else
          setL s r l { x with qg := some ⟨.garbage, .ready⟩, dgda := some ⟨.garbage, .ready⟩ }
        else setL s r l { x with qg := some ⟨.garbage, .ready⟩, dg := some ⟨.garbage, .ready⟩ }
      else setL s r l x) s
    let s := bcastField c s l src (g * g) (·.qg) (fun x v => { x with qg := v })
    if c.prediv then bcastField c s l src (g * dims.aDim) (·.dgda) (fun x v => { x with dgda := v })
    else bcastField c s l src g (·.dg) (fun x v => { x with dg := v })
  | .inverse =>
    let s := (c.asg.workers l).foldl (fun s r =>
      let x := getL s r l
      let (s, gi) := readSlot s r x.gInv
      let x := { getL s r l with gInv := gi }
      if gi.isNone then
        if r == src then fail s r "broadcast G inv from src that has not computed it" else
        let (s, gf) := readSlot s r x.gFactor
        let x := { getL s r l with gInv := gi, gFactor := gf }
        if gf.isNone then fail s r "g_factor is None when allocating the receive buffer" else
        setL s r l { x with gInv := some ⟨.garbage, .ready⟩ }
      else setL s r l x) s
    bcastField c s l src (triElems g c.symAware) (·.gInv) (fun x v => { x with gInv := v })

/-- `preconditioned_grad` on gradient worker r -/
def precondGrad (c : Cfg) (s : St) (r l : Nat) (damping : Rat) : St :=
  let g := V.rawGrad l s.steps
  let x := getL s r l
  match c.method with
  | .eigen =>
    let (s, qa) := readSlot s r x.qa
    let (s, qg) := readSlot s r x.qg
    let (s, da) := if c.prediv then (s, x.da) else readSlot s r x.da
    let (s, dg) := if c.prediv then (s, x.dg) else readSlot s r x.dg
    let (s, dgda) := if c.prediv then readSlot s r x.dgda else (s, x.dgda)
    let v (o : Option Slot) := (o.map (·.val)).getD .garbage
    if qa.isNone || qg.isNone || (!c.prediv && (da.isNone || dg.isNone)) || (c.prediv && dgda.isNone) then
      fail s r "eigendecompositions have not been computed" else
    let pg := if c.prediv then V.pcEigPre (v qa) (v qg) (v dgda) g
              else V.pcEig (v qa) (v da) (v qg) (v dg) damping g
    let x := getL s r l
    setL s r l { x with qa := qa, qg := qg, da := da, dg := dg, dgda := dgda, grad := some ⟨pg, .ready⟩ }
  | .inverse =>
    let (s, ai) := readSlot s r x.aInv
    let (s, gi) := readSlot s r x.gInv
    let v (o : Option Slot) := (o.map (·.val)).getD .garbage
    if ai.isNone || gi.isNone then fail s r "A and G have not been inverted" else
    let x := getL s r l
    setL s r l { x with aInv := ai, gInv := gi, grad := some ⟨.pcInv (v ai) (v gi) g, .ready⟩ }

/-- `broadcast_grad`, entered by every rank on its own receiver group; one issue per receiver row -/
def broadcastGrad (c : Cfg) (s : St) (l : Nat) : St :=
  let dims := c.layers.getD l ⟨0, 0⟩
  let elems := dims.gDim * dims.aDim
  -- distinct receiver groups in order of their first rank
  let rows := (worldRanks c).filter fun r => (c.asg.recv r).head? == some r
  rows.foldl (fun s r0 =>
    let members := c.asg.recv r0
    if members.length == 1 then s else
    let src := c.asg.src r0 l
    -- receivers allocate an empty buffer; `self.grad` getter read by everyone
    let s := members.foldl (fun s r =>
      let x := getL s r l
      let (s, gr) := readSlot s r x.grad
      let x := { getL s r l with grad := gr }
      if gr.isNone && r == src then fail s r "broadcast gradient from src that has not preconditioned it" else
      setL s r l (if gr.isNone then { x with grad := some ⟨.garbage, .ready⟩ } else x)) s
    let rootVal := (((getL s src l).grad).map (·.val)).getD .garbage
    let (s, id) := issue s members { kind := .broadcast, elems := elems, esize := c.ge, root := src }
    members.foldl (fun s r => let x := getL s r l
                             setL s r l { x with grad := some ⟨rootVal, .issued id⟩ }) s) s

/-- `KFACPreconditioner.step()` on all ranks -/
def stepAll (c : Cfg) (s : St) : St :=
  let fus := s.hyper.fus.val s.steps
  let ius := s.hyper.ius.val s.steps
  let damping := s.hyper.damping.val s.steps
  let alpha := s.hyper.decay.val s.steps
  -- factor update in step (no-hook mode)
  let s := if !c.hook && s.steps % fus == 0 then
      (revLayers c).foldl (fun s l =>
        let s := { s with mini := s.mini.set l 0 }
        let s := forRanks c s fun s r => updateFactor s r l true alpha
        let s := reduceFactor c s l true
        let s := forRanks c s fun s r => updateFactor s r l false alpha
        reduceFactor c s l false) s
    else s
  let s := flushBucket c s
  -- inverse phase
  let s := if s.steps % ius == 0 then
      let s := (revLayers c).foldl (fun s l =>
        let s := computeAInv c s (c.asg.invA l) l damping
        let s := if c.asg.bcastInv then broadcastAInv c s l else s
        let s := computeGInv c s (c.asg.invG l) l damping
        if c.asg.bcastInv then broadcastGInv c s l else s) s
      flushBucket c s
    else s
  -- gradient phase
  let s := (revLayers c).foldl (fun s l =>
    let s := (c.asg.workers l).foldl (fun s r => precondGrad c s r l damping) s
    if c.asg.bcastGrad then broadcastGrad c s l else s) s
  let s := flushBucket c s
  -- clip scale: every rank reads every layer's `grad` getter (reverse order), then writes back
  let kl := s.hyper.kl.val s.steps
  let lr := s.hyper.lr.val s.steps
  let s := forRanks c s fun s r =>
    (revLayers c).foldl (fun s l =>
      let x := getL s r l
      let (s, gr) := readSlot s r x.grad
      if gr.isNone then fail s r "layer gradient has not been preconditioned" else
      setL s r l { getL s r l with grad := gr }) s
  let outs := (worldRanks c).map fun r =>
    let vs := (layerIdxs c).map fun l => (((getL s r l).grad).map (·.val)).getD .garbage
    match kl with
    | none => vs
    | some k =>
      let sum := (revLayers c).foldl (fun acc l =>
        let v := vs.getD l .garbage
        let t := V.inner v (.rawGrad l s.steps)
        match acc with | none => some t | some a => some (V.add a t)) (none : Option V)
      let n := V.nu k lr (sum.getD .zero)
      vs.map fun v => V.scale n v
  let s := forRanks c s fun s r =>
    (layerIdxs c).foldl (fun s l => setL s r l { getL s r l with grad := none }) s
  { s with steps := s.steps + 1, mini := List.replicate c.layers.length 0, outGrads := outs }

/-- `reset_batch()` -/
def resetBatch (c : Cfg) (s : St) : St :=
  forRanks c s fun s r => (layerIdxs c).foldl (fun s l =>
    setL s r l { getL s r l with aBatch := none, aCount := 0, gBatch := none, gCount := 0 }) s

/-- `memory_usage()` on every rank: flush, then read every getter (registration order) -/
def memUsage (c : Cfg) (s : St) : St :=
  let s := flushBucket c s
  forRanks c s fun s r => (layerIdxs c).foldl (fun s l =>
    let rd (s : St) (get : LState → Option Slot) (set : LState → Option Slot → LState) : St :=
      let (s, v) := readSlot s r (get (getL s r l))
      setL s r l (set (getL s r l) v)
    let s := rd s (·.aFactor) (fun x v => { x with aFactor := v })
    let s := rd s (·.gFactor) (fun x v => { x with gFactor := v })
    match c.method with
    | .eigen =>
      let s := rd s (·.qa) (fun x v => { x with qa := v })
      let s := rd s (·.da) (fun x v => { x with da := v })
      let s := rd s (·.qg) (fun x v => { x with qg := v })
      let s := rd s (·.dg) (fun x v => { x with dg := v })
      rd s (·.dgda) (fun x v => { x with dgda := v })
    | .inverse =>
      let s := rd s (·.aInv) (fun x v => { x with aInv := v })
      rd s (·.gInv) (fun x v => { x with gInv := v })) s

/-- bytes reported by `memory_usage()` for rank r (after the reads above) -/
def memBytes (c : Cfg) (s : St) (r : Nat) : List (String × Nat) :=
  let per (f : Nat → LState → LayerCfg → Nat) : Nat :=
    ((layerIdxs c).map fun l => f l (getL s r l) (c.layers.getD l ⟨0, 0⟩)).sum
  let has (o : Option Slot) (n : Nat) : Nat := if o.isSome then n else 0
  let hasV (o : Option V) (n : Nat) : Nat := if o.isSome then n else 0
  let aF := per fun _ x d => has x.aFactor (d.aDim * d.aDim * c.fe)
  let gF := per fun _ x d => has x.gFactor (d.gDim * d.gDim * c.fe)
  let aB := per fun _ x d => hasV x.aBatch (d.aDim * d.aDim * c.fe)
  let gB := per fun _ x d => hasV x.gBatch (d.gDim * d.gDim * c.fe)
  let aI := per fun _ x d => match c.method with
    | .eigen => has x.qa (d.aDim * d.aDim * c.ie) + has x.da (d.aDim * c.ie)
    | .inverse => has x.aInv (d.aDim * d.aDim * c.ie)
  let gI := per fun _ x d => match c.method with
    | .eigen => has x.qg (d.gDim * d.gDim * c.ie) + has x.dg (d.gDim * c.ie) + has x.dgda (d.gDim * d.aDim * c.ie)
    | .inverse => has x.gInv (d.gDim * d.gDim * c.ie)
  [("a_factors", aF), ("g_factors", gF), ("a_batch", aB), ("g_batch", gB),
   ("a_inverses", aI), ("g_inverses", gI), ("total", aF + gF + aB + gB + aI + gI)]

/-- `state_dict(include_factors)` on every rank: reads the two factor getters of every layer -/
def saveState (c : Cfg) (s : St) (inclF : Bool) : St :=
  if !inclF then s else
  forRanks c s fun s r => (layerIdxs c).foldl (fun s l =>
    let (s, a) := readSlot s r (getL s r l).aFactor
    let s := setL s r l { getL s r l with aFactor := a }
    let (s, g) := readSlot s r (getL s r l).gFactor
    setL s r l { getL s r l with gFactor := g }) s

/-- save on all ranks, construct a fresh preconditioner, `load_state_dict(state, compute_inverses)`.
    Non-callable hyper-parameters and `steps` travel in the state; callable ones are those of the
    fresh object (here: the same functions). -/
def saveLoad (c : Cfg) (s : St) (inclF compInv : Bool) : St :=
  let s := saveState c s inclF
  let fresh : St := { St.init c s.hyper with
    steps := s.steps, pass := s.pass, nIssued := s.nIssued, nextReq := s.nextReq, script := s.script,
    defs := s.defs }
  if !inclF then fresh else
  -- layer.load_state_dict: factors assigned on every rank (None factors stay unset)
  let s2 := forRanks c fresh fun t r => (layerIdxs c).foldl (fun t l =>
    let old := getL s r l
    let strip (o : Option Slot) : Option Slot := o.map fun x => { x with pend := .ready }
    setL t r l { getL t r l with aFactor := strip old.aFactor, gFactor := strip old.gFactor }) t
  if !compInv then s2 else
  let damping := s2.hyper.damping.val s2.steps
  (layerIdxs c).foldl (fun t l =>
    let t := forRanks c t fun t r => computeGInv c (computeAInv c t r l damping) r l damping
    if c.asg.bcastInv then broadcastGInv c (broadcastAInv c t l) l else t) s2

/-! ### histories -/

inductive Op where
  | fwdBwd (train : Bool)
  | step
  | resetBatch
  | memUsage
  | save (inclF : Bool)
  | saveLoad (inclF compInv : Bool)
  | setHyper (h : Hyper)              -- a scheduler step between iterations

def exec (c : Cfg) (s : St) (op : Op) : St :=
  if s.err.isSome then s else
  match op with
  | .fwdBwd t => fwdBwd c s t
  | .step => stepAll c s
  | .resetBatch => resetBatch c s
  | .memUsage => memUsage c s
  | .save f => saveState c s f
  | .saveLoad f ci => saveLoad c s f ci
  | .setHyper h => { s with hyper := h }

def run (c : Cfg) (s : St) (ops : List Op) : St := ops.foldl (exec c) s

/-- the script in execution order -/
def St.acts (s : St) : List GAct := s.script.reverse

/-- projection of the global script onto rank r: what that rank does, in order -/
inductive RAct where
  | issue (id : Nat) (members : List Nat) (d : Desc)
  | wait (id : Nat)
  | stall (req : Nat)
deriving Repr, DecidableEq

def projectAux (r : Nat) : Nat → List GAct → List RAct
  | _, [] => []
  | n, .issue m d :: t => if m.contains r then .issue n m d :: projectAux r (n + 1) t else projectAux r (n + 1) t
  | n, .wait q id :: t => if q == r then .wait id :: projectAux r n t else projectAux r n t
  | n, .stall q req :: t => if q == r then .stall req :: projectAux r n t else projectAux r n t

def project (r : Nat) (acts : List GAct) : List RAct := projectAux r 0 acts

/-- who holds second-order data for a layer -/
def holdsSecondOrder (c : Cfg) (s : St) (r l : Nat) : Bool :=
  let x := getL s r l
  match c.method with
  | .eigen => x.qa.isSome || x.da.isSome || x.qg.isSome || x.dg.isSome || x.dgda.isSome
  | .inverse => x.aInv.isSome || x.gInv.isSome

end KV.Precond
