/-
The KAISA assignment (M-Kaisa) as the abstract `Assign` that M-Precond consumes.
Layers are numbered in registration order; every layer has the two factors "A" and "G".
Import-free.
-/
import KfacVerif.Model.Kaisa
import KfacVerif.Model.Precond

namespace KV.KaisaAssign
open KV KV.Kaisa

/-- name of the layer with registration index `l`; indices past the end denote the first layer,
    so that (as long as `work ≠ []`) every index denotes a registered layer and the abstract
    `Assign` (whose well-formedness fields quantify over all `l : Nat`) is total -/
def layerName (c : Kaisa.Cfg) (l : Nat) : String := (c.work.getD l (c.work.headD ("", []))).1

/-- what `KFACPreconditioner` hands to `BaseKFACPreconditioner`: the queries of the KAISA
    assignment, per layer index -/
def toAssign (c : Kaisa.Cfg) : Precond.Assign :=
  { invA := fun l => (c.invWorker (layerName c l) "A").getD 0
    invG := fun l => (c.invWorker (layerName c l) "G").getD 0
    workers := fun l => c.workerGroup (layerName c l)
    recv := fun r => c.receiverGroup r
    src := fun r l => (c.srcGradWorker r (layerName c l)).getD 0
    bcastInv := c.broadcastInverses
    bcastGrad := c.broadcastGradients }

/-- every layer has exactly the factors "A" and "G" (as `KFACPreconditioner.__init__` builds `work`) -/
def TwoFactors (c : Kaisa.Cfg) : Prop := ∀ l ∈ c.work, l.2.map (·.1) = ["A", "G"]

end KV.KaisaAssign
