import KfacVerif.Model.NeoxLayer
import KfacVerif.Model.Alg
import KfacVerif.Driver.Alg

namespace KV.Driver
open KV KV.NeoxL

/-- `neoxl`: the whole `preconditioned_grad` data movement with the eigen formula on the primary -/
def neoxLayerOp (args : List String) : String :=
  let par := if argOf args "par" == "col" then Par.col else Par.row
  let mp := natArg args "mp"; let primary := natArg args "primary"
  let rows := natArg args "rows"; let wcols := natArg args "wcols"
  let w := (splitOnC (argOf args "w") '#').map parseRMat
  let b : Option (List (List Rat)) :=
    if argOf args "b" == "none" then none else some ((splitOnC (argOf args "b") '#').map parseRats)
  let g := natArg args "g"; let a := natArg args "a"
  let qa := parseRMat (argOf args "qa"); let qg := parseRMat (argOf args "qg")
  let da := parseRats (argOf args "da"); let dg := parseRats (argOf args "dg")
  let lam := parseRat (argOf args "lam")
  let P : Mat → Mat := fun D => KV.Alg.eigenPrecond g a qa da qg dg lam D
  let shapes := s!"adim={aDim par mp (natArg args "shardin") b.isSome} gdim={gDim par mp (natArg args "shardout")}"
  shapes ++ " " ++ joinWith " " ((List.range mp).map fun i =>
    let (wi, bi) := neoxPrecond par mp primary rows wcols w b P i
    s!"r{i}:w={showRMat wi}:b={match bi with | some x => showRats x | none => "none"}")

/-- `neoxckpt`: merged state keys and who restores what -/
def neoxCkptOp (args : List String) : String :=
  let world := natArg args "world"
  let layersL := (splitOnC (argOf args "layers") ';').map fun s => splitOnC s ','
  let layersOf : Nat → List String := fun r => layersL.getD r []
  let invT := (splitOnC (argOf args "inv") ',').map fun s =>
    match s.splitOn "=" with | [n, r] => (n, parseNat! r) | _ => (s, 0)
  let inv : String → Nat := fun n => (assocGet? n invT).getD 0
  let fwL := (splitOnC (argOf args "fw") ';').map fun s => (splitOnC s ',').map fun e =>
    match e.splitOn "=" with | [n, r] => (n, parseNat! r) | _ => (e, 0)
  let fw : Nat → String → Nat := fun r n => (assocGet? n (fwL.getD r [])).getD 0
  let srt (l : List String) := sortBy (fun a b => decide (a ≤ b)) l
  "merged=" ++ joinWith "," (srt (merged world layersOf inv)) ++ " " ++
  joinWith " " ((List.range world).map fun r =>
    s!"r{r}:part={joinWith "," (partition layersOf inv r)}:restores={joinWith "," (restores layersOf fw r)}")
  ++ " save=" ++ toString ((saveColls true (boolArg args "dir")).length) ++ " load=" ++ toString ((loadColls true (boolArg args "dir")).length)
  -- value level: `held r n` is the symbolic value "n@r"; which rank's value the state holds for every key, and
  -- which value every (rank, layer) holds after loading that state over "n@r~" (the pre-load value)
  ++ " vals=" ++ joinWith "," ((srt (merged world layersOf inv)).map fun n =>
      match mergedVal world layersOf inv (fun r n => s!"{n}@{r}") n with | some v => v | none => s!"{n}@none")
  ++ " after=" ++ joinWith ";" ((List.range world).map fun r => joinWith "," ((layersOf r).map fun n =>
      loadVal layersOf fw (mergedVal world layersOf inv (fun r n => s!"{n}@{r}")) (fun r n => s!"{n}@{r}~") r n))

end KV.Driver
