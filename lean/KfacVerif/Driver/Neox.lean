import KfacVerif.Model.Neox
import KfacVerif.Driver.Kaisa

namespace KV.Driver
open KV KV.Neox

def neoxOp (args : List String) : String :=
  let c : Neox.Cfg := { t := { pp := natArg args "pp", dp := natArg args "dp", mp := natArg args "mp" },
                        work := parseWork (argOf args "work") }
  let loc := natArg args "loc"
  let p := c.t.pipeOf loc
  let layers := c.work.map (·.1)
  let per (f : String → String) := joinWith ";" (layers.map fun l => l ++ "=" ++ f l)
  "inv=" ++ per (fun l => showOptNat (c.invWorker p l))
  ++ " fw=" ++ per (fun l => showOptNat (c.factorWorker loc l))
  ++ " gw=" ++ per (fun l => showBool (c.isGradWorker loc l))
  ++ " src=" ++ per (fun l => showOptNat (c.srcGradWorker loc l))
  ++ " peer=" ++ (match c.peerGroup loc with
      | .modelGroup => "model" | .dataGroup => "data" | .created m => "created:" ++ showNats m)
  ++ " newgroups=" ++ joinWith "|" ((c.newGroupCalls loc).map showNats)
  ++ " dpeers=" ++ showNats (c.dataPeers loc) ++ " mpeers=" ++ showNats (c.modelPeers loc)
  ++ " stage=" ++ showNats (c.t.stagePeers p)

end KV.Driver
