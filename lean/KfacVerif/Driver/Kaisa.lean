import KfacVerif.Model.Kaisa

namespace KV.Driver
open KV KV.Kaisa

/-- `l0:A=3,G=5;l1:A=1` -/
def parseWork (s : String) : Work :=
  (splitOnC s ';').map fun item =>
    match item.splitOn ":" with
    | [name, fs] =>
      (name, (splitOnC fs ',').map fun f =>
        match f.splitOn "=" with
        | [fname, c] => (fname, parseNat! c)
        | _ => (f, 0))
    | [name] => (name, [])
    | _ => (item, [])

def showAssign (a : Assign) : String :=
  joinWith ";" (a.map fun (l, fs) =>
    l ++ ":" ++ joinWith "," (fs.map fun (f, r) => f ++ "=" ++ toString r))

def showOptNat : Option Nat → String
  | some n => toString n
  | none => "none"

def kaisaOp (args : List String) : String :=
  let c : Cfg := { w := natArg args "w", k := natArg args "k", colocate := boolArg args "col",
                   gOrder := parseNatLists (argOf args "gorder"), work := parseWork (argOf args "work") }
  let loc := natArg args "loc"
  let layers := c.work.map (·.1)
  let srt (l : List Nat) := sortBy (fun a b => decide (a ≤ b)) l
  "inv=" ++ showAssign c.assign
  ++ " gw=" ++ joinWith ";" (layers.map fun l => l ++ "=" ++ showBool (c.isGradWorker loc l))
  ++ " src=" ++ joinWith ";" (layers.map fun l => l ++ "=" ++ showOptNat (c.srcGradWorker loc l))
  ++ " wg=" ++ joinWith ";" (layers.map fun l => l ++ "=" ++ showNats (srt (c.workerGroup l)))
  ++ " rg=" ++ showNats (srt (c.receiverGroup loc))
  ++ " bg=" ++ showBool c.broadcastGradients ++ " bi=" ++ showBool c.broadcastInverses
  ++ " groups=" ++ joinWith "|" (c.groupsCreated.map showNats)

def greedyOp (args : List String) : String :=
  let work := parseWork (argOf args "work")
  let groups := parseNatLists (argOf args "groups")
  let world := natArg args "world"
  let col := boolArg args "col"
  showAssign (greedy work groups world col) ++ " loads=" ++ showNats (finalLoads work groups world col)

def validateOp (args : List String) : String :=
  match validate (natArg args "w") (natArg args "num") (natArg args "den") (natArg args "loc") with
  | .ok k => "ok " ++ toString k
  | .valueError => "ValueError"

def strategyOp (args : List String) : String :=
  (strategyOf (natArg args "w") (natArg args "k")).name

def enumWorkersOp (args : List String) : String :=
  let s := match argOf args "s" with
    | "COMM_OPT" => Strategy.commOpt | "MEM_OPT" => Strategy.memOpt | _ => Strategy.hybridOpt
  match enumWorkers (natArg args "w") s with
  | some k => s.name ++ " workers=" ++ toString k
  | none => "ValueError"

def partitionOp (args : List String) : String :=
  let w := natArg args "w"; let k := natArg args "k"
  "cols=" ++ joinWith "|" ((cols w k).map showNats) ++ " rows=" ++ joinWith "|" ((rows w k).map showNats)

end KV.Driver
