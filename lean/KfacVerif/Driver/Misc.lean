import KfacVerif.Model.Misc
import KfacVerif.Model.Comm

namespace KV.Driver
open KV

/-! ### C14 / C08 -/
open KV.Comm in
def parseMat (s : String) : Mat := (splitOnC s ';').map parseInts

open KV.Comm in
def showMat (m : Mat) : String := joinWith ";" (m.map showInts)

open KV.Comm in
def triuOp (args : List String) : String :=
  let n := natArg args "n"
  let A := parseMat (argOf args "mat")
  let v := getTriu A
  "get=" ++ showInts v ++ " fill=" ++ showMat (fillTriu n v) ++ " sym=" ++ showBool (isSymm A n)

open KV.Comm in
def fillOp (args : List String) : String :=
  let n := natArg args "n"
  let v := parseInts (argOf args "v")
  let M := fillTriu n v
  "fill=" ++ showMat M ++ " get=" ++ showInts (getTriu M)

open KV.Comm in
def parseCommOp (s : String) : Option Op :=
  let fs := s.splitOn ":"
  let a (k : String) := argOf fs k
  match fs.head? with
  | some "rb" => some (.reduceB (parseNats (a "g")) (parseNat! (a "tid")) (parseNats (a "shape"))
                    (parseNat! (a "es")) (parseNat! (a "dt")) (a "sym" == "1"))
  | some "r" => some (.reduce (parseNats (a "g")) (parseNat! (a "tid")) (parseNats (a "shape")) (a "sym" == "1"))
  | some "bc" => some (.bcast (parseNats (a "g")) (parseNat! (a "tid")) (parseNats (a "shape"))
                    (a "sym" == "1") (parseNat! (a "src")))
  | some "fl" => some .flush
  | _ => none

open KV.Comm in
def showEvent : Event → String
  | .allreduce g tids e => "ar:" ++ showNats g ++ ":" ++ showNats tids ++ ":" ++ toString e
  | .broadcast g tid e src => "bc:" ++ showNats g ++ ":" ++ toString tid ++ ":" ++ toString e ++ ":" ++ toString src

open KV.Comm in
def showRet : Ret → String
  | .same => "same" | .future => "future" | .err _ => "NonSquare"

open KV.Comm in
/-- per-op output `ret/ev,ev` so that the point at which events are emitted is visible -/
def commOp (args : List String) : String :=
  let ops := (splitOnC (argOf args "ops") '|').filterMap parseCommOp
  let s0 : CState := { cap := natArg args "cap", buckets := [] }
  let rec go (s : CState) (ops : List Op) (acc : List String) : CState × List String :=
    match ops with
    | [] => (s, acc.reverse)
    | op :: t =>
      let (s', ev, r) := step s op
      go s' t ((showRet r ++ "/" ++ joinWith "," (ev.map showEvent)) :: acc)
  let (s, outs) := go s0 ops []
  joinWith " " outs ++ " pending=" ++ showNats (pending s)

/-! ### C19 -/
open KV.Sched in
def parseLam (s : String) : Option (Nat → Rat) :=
  if s == "-" then none else
  match s.splitOn ":" with
  | [a, b] => let a := parseRat a; let b := parseRat b; some fun n => a + b * (n : Rat)
  | _ => none

open KV.Sched in
def showParams (p : Params) : String :=
  joinWith "," [toString p.fus, toString p.ius, showRat p.damping, showRat p.decay, showRat p.kl, showRat p.lr]

open KV.Sched in
def schedOp (args : List String) : String :=
  match splitOnC (argOf args "p") ',', splitOnC (argOf args "lam") '|' with
  | [a, b, c, d, e, f], [l1, l2, l3, l4, l5, l6] =>
    let p0 : Params := { fus := parseInt! a, ius := parseInt! b, damping := parseRat c,
                         decay := parseRat d, kl := parseRat e, lr := parseRat f }
    let lam : Lambdas := { fus := parseLam l1, ius := parseLam l2, damping := parseLam l3,
                           decay := parseLam l4, kl := parseLam l5, lr := parseLam l6 }
    let calls := (splitOnC (argOf args "calls") ',').map fun c => if c == "-" then none else some (parseNat! c)
    let steps := parseNats (argOf args "steps")
    joinWith "|" ((schedTrace lam p0 (List.zip steps calls)).map showParams)
  | _, _ => "bad-op"

open KV.Sched in
def schedCtorOp (args : List String) : String :=
  let bits (s : String) := s.toList.map (· == '1')
  if ctorOk (bits (argOf args "scheduled")) (bits (argOf args "callable")) then "ok" else "ValueError"

open KV.Sched in
def expDecayOp (args : List String) : String :=
  let cap := parseRat (argOf args "cap")
  if cap ≤ 0 then "ValueError" else
  joinWith "," ((parseNats (argOf args "ks")).map fun k => showRat (expDecay cap k))

/-! ### C20 -/
open KV.Trace in
def showStat : Stat → String
  | .val q => showRat q
  | .zeroDiv => "ZeroDivisionError"

open KV.Trace in
def traceOp (args : List String) : String :=
  let ops := splitOnC (argOf args "ops") '|'
  let rec go (t : Table) (ops : List String) (acc : List String) : List String :=
    match ops with
    | [] => acc.reverse
    | o :: rest =>
      match o.splitOn ":" with
      | ["c", name, dt, r] => go (step t (.call name (parseRat dt) (r == "1"))) rest acc
      | ["x"] => go (step t .clear) rest acc
      | ["n", names, incs] =>
        -- re-entrant chain `f>g>f`, increments `s1,…,sk,ek,…,e0`: run on the clock/stack machine
        let ns := splitOnC names '>'
        let qs := (splitOnC incs ',').map parseRat
        let k := ns.length - 1
        let st := nrun { table := t } (chainEvents ns (qs.take k) (qs.drop k))
        go st.table rest acc
      | ["q", avg, mh] =>
        let mhv : Option Int := if mh == "-" then none else some (parseInt! mh)
        let res := getTrace t (avg == "1") mhv
        let line := if res.any (fun x => x.2 == .zeroDiv) then "ZeroDivisionError"
                    else joinWith "," (res.map fun (n, s) => n ++ "=" ++ showStat s)
        go t rest (("[" ++ line ++ "]") :: acc)
      | _ => go t rest ("bad-op" :: acc)
  joinWith " " (go [] ops [])

/-! ### C16: tree parser `(id,cls,clsName,pbits;name=(...);name=~)` -/
open KV.Reg in
partial def parseTree (cs : List Char) : Option (MTree × List Char) :=
  -- expects '(' header ')' ; header fields are comma separated up to first ';' or ')'
  match cs with
  | '(' :: rest =>
    let hdr := rest.takeWhile (fun c => c != ';' && c != ')')
    let after := rest.dropWhile (fun c => c != ';' && c != ')')
    match (String.ofList hdr).splitOn "," with
    | [i, c, cn, pb] =>
      let params := if pb == "-" then [] else pb.toList.map (· == '1')
      let rec kids (cs : List Char) (acc : List (String × Option MTree)) :
          Option (List (String × Option MTree) × List Char) :=
        match cs with
        | ')' :: r => some (acc.reverse, r)
        | ';' :: r =>
          let nm := r.takeWhile (· != '=')
          match r.dropWhile (· != '=') with
          | '=' :: '~' :: r' => kids r' ((String.ofList nm, none) :: acc)
          | '=' :: r' =>
            match parseTree r' with
            | some (t, r'') => kids r'' ((String.ofList nm, some t) :: acc)
            | none => none
          | _ => none
        | _ => none
      match kids after [] with
      | some (ch, r) => some (.node (parseNat! i) (parseNat! c) cn params ch, r)
      | none => none
    | _ => none
  | _ => none

open KV.Reg in
def parseTbl (s : String) : MatchTbl :=
  (splitOnC s '|').map fun row =>
    match row.splitOn ":" with
    | [q, bits] => (q, if bits == "-" then [] else bits.toList.map (· == '1'))
    | _ => (row, [])

open KV.Reg in
def registerOp (args : List String) : String :=
  match parseTree (argOf args "tree").toList with
  | some (t, _) =>
    let neox := boolArg args "neox"
    let tbl := parseTbl (argOf args "tbl")
    let vs := namedModules t
    -- every query string the filter needs must be in the table
    let missing := vs.any fun v => v.leaf &&
      ((anyMatch tbl v.name).isNone || (anyMatch tbl (if neox then lower v.clsName else v.clsName)).isNone)
    if missing then "no-match-info" else
    "reg=" ++ joinWith "," ((registered tbl neox t).map fun v =>
      v.name ++ ":" ++ toString v.id ++ ":" ++ helperOf neox v)
    ++ " walk=" ++ joinWith "," (vs.map fun v => v.name ++ ":" ++ toString v.id)
  | none => "bad-tree"

end KV.Driver
