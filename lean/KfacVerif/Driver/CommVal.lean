import KfacVerif.Model.CommVal
import KfacVerif.Driver.Kaisa

namespace KV.Driver
open KV KV.CommV

/-- member = `tid:dtype:d1,d2,…;tid:dtype:…` (an empty payload is written `-`) -/
def parseSubs (s : String) : List Sub :=
  (splitOnC s ';').filterMap fun item =>
    match item.splitOn ":" with
    | [t, d, xs] => some { tid := parseNat! t, dtype := parseNat! d,
                           data := if xs == "-" then [] else (splitOnC xs ',').map parseInt! }
    | _ => none

/-- `commv cap= es= members=<member>|<member>|… m=<index>` → `tid=d,d,…;tid=…` for member m -/
def commValOp (args : List String) : String :=
  let members := (splitOnC (argOf args "members") '|').map parseSubs
  let r := results (natArg args "cap") (natArg args "es") members (natArg args "m")
  joinWith ";" (r.map fun (t, v) => toString t ++ "=" ++ (if v.isEmpty then "-" else joinWith "," (v.map toString)))

end KV.Driver
