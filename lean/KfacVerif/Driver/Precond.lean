import KfacVerif.Model.Sched
import KfacVerif.Model.PrecondExt
import KfacVerif.Model.Spec

namespace KV.Driver
open KV KV.Precond

def tableFn {α} [Inhabited α] (vals : List α) : Nat → α := fun n => vals.getD (min n (vals.length - 1)) default

def parseHPNat (s : String) : HP Nat :=
  if s.startsWith "f:" then .fn (tableFn (parseNats (s.drop 2).toString)) else .const (parseNat! (s.drop 2).toString)

def parseHPRat (s : String) : HP Rat :=
  if s.startsWith "f:" then .fn (tableFn (parseRats (s.drop 2).toString)) else .const (parseRat (s.drop 2).toString)

def parseOptRat (s : String) : Option Rat := if s == "none" then none else some (parseRat s)

def parseHPOptRat (s : String) : HP (Option Rat) :=
  if s.startsWith "f:" then .fn (tableFn ((splitOnC (s.drop 2).toString ',').map parseOptRat))
  else .const (parseOptRat (s.drop 2).toString)

def parseHyper (s : String) : Hyper :=
  match s.splitOn "|" with
  | [a, b, c, d, e, f] => { fus := parseHPNat a, ius := parseHPNat b, damping := parseHPRat c,
                            decay := parseHPRat d, kl := parseHPOptRat e, lr := parseHPRat f }
  | _ => { fus := .const 1, ius := .const 1, damping := .const 1, decay := .const 1, kl := .const none, lr := .const 1 }

def parseCfg (args : List String) : Cfg :=
  let layers := (splitOnC (argOf args "layers") ',').map fun s =>
    match s.splitOn "x" with
    | [a, g] => (⟨parseNat! a, parseNat! g⟩ : LayerCfg)
    | _ => ⟨0, 0⟩
  let invA := parseNats (argOf args "inva")
  let invG := parseNats (argOf args "invg")
  let workers := parseNatLists (argOf args "workers")
  let recv := parseNatLists (argOf args "recv")
  let src := parseNatLists (argOf args "src")
  { world := natArg args "world", layers := layers,
    asg := { invA := fun l => invA.getD l 0, invG := fun l => invG.getD l 0,
             workers := fun l => workers.getD l [], recv := fun r => recv.getD r [],
             src := fun r l => (src.getD r []).getD l 0,
             bcastInv := boolArg args "bi", bcastGrad := boolArg args "bg" },
    method := if argOf args "method" == "inverse" then .inverse else .eigen,
    prediv := boolArg args "prediv", symAware := boolArg args "sym", bucketed := boolArg args "bucketed",
    cap := natArg args "cap", fe := natArg args "fe", ie := natArg args "ie", ge := natArg args "ge",
    accum := natArg args "accum", hook := boolArg args "hook" }

def showRAct : RAct → String
  | .issue id m d => s!"i{id}:{showNats m}:{match d.kind with | .allreduce => "ar" | .broadcast => "bc"}:{d.elems}:{d.esize}:{d.root}"
  | .wait id => s!"w{id}"
  | .stall q => s!"x{q}"

def showSlotV (o : Option Slot) : String := match o with | some s => s.val.show | none => "none"

def precondOp (args : List String) : String :=
  let c := parseCfg args
  let h0 := parseHyper (argOf args "hyper")
  let ops := splitOnC (argOf args "ops") '|'
  let rec go (s : St) (snap : Option St) (ops : List String) (acc : List String) : St × List String :=
    match ops with
    | [] => (s, acc.reverse)
    | o :: t =>
      if o == "k" then
        -- keep `state_dict()` in memory (reads the factor getters), training goes on
        let s' := exec c s (.save true)
        go s' (some s') t ("-" :: acc)
      else if o.startsWith "R" then
        match snap with
        | some sn =>
          if s.err.isSome then go s snap t ("-" :: acc) else
          go (loadInto' c s sn true (o.toList.getD 2 (Char.ofNat 48) == (Char.ofNat 49))) snap t ("-" :: acc)
        | none => go s snap t ("bad-op" :: acc)
      else if o == "f1" then go (exec c s (.fwdBwd true)) snap t ("-" :: acc)
      else if o == "f0" then go (exec c s (.fwdBwd false)) snap t ("-" :: acc)
      else if o == "r" then go (exec c s .resetBatch) snap t ("-" :: acc)
      else if o == "s" then
        let s' := exec c s .step
        let g0 := s'.outGrads.getD 0 []
        let eq := s'.outGrads.all (· == g0)
        go s' snap t (s!"S steps={s'.steps} eq={showBool eq} g={joinWith ";" (g0.map V.show)}" :: acc)
      else if o == "m" then
        let s' := exec c s .memUsage
        let line := joinWith ";" ((worldRanks c).map fun r =>
          joinWith "," ((memBytes c s' r).map fun (k, v) => s!"{k}={v}"))
        go s' snap t (("M " ++ line) :: acc)
      else if o.startsWith "v" then
        let s' := exec c s (.save (o == "v1"))
        let f (r : Nat) := joinWith ";" ((layerIdxs c).map fun l =>
          showSlotV (getL s' r l).aFactor ++ "," ++ showSlotV (getL s' r l).gFactor)
        let eq := (worldRanks c).all fun r => f r == f 0
        go s' snap t (s!"V steps={s'.steps} eq={showBool eq} f={f 0}" :: acc)
      else if o.startsWith "l" then
        let inclF := o.toList.getD 1 (Char.ofNat 48) == (Char.ofNat 49)
        let s1 := exec c s (.save inclF)
        let s' := if s1.err.isSome then s1 else loadInto' c s1 s1 inclF (o.toList.getD 2 (Char.ofNat 48) == (Char.ofNat 49))
        go s' snap t ("-" :: acc)
      else if o.startsWith "h:" then
        go (exec c s (.setHyper (parseHyper ((o.drop 2).toString.replace "/" "|" |>.replace "%" "/")))) snap t ("-" :: acc)
      else go s snap t ("bad-op" :: acc)
  let (s, outs) := go (St.init c h0) none ops []
  let traces := joinWith " " ((worldRanks c).map fun r =>
    s!"r{r}=" ++ joinWith ";" ((project r s.acts).map showRAct))
  let holds := joinWith " " ((worldRanks c).map fun r =>
    s!"r{r}=" ++ String.ofList ((layerIdxs c).map fun l => if holdsSecondOrder c s r l then '1' else '0'))
  -- refinement check on this very history (ops with a kept-state roll-back are skipped)
  let parseOp (o : String) : Option Op :=
    if o == "f1" then some (.fwdBwd true) else if o == "f0" then some (.fwdBwd false)
    else if o == "r" then some .resetBatch else if o == "s" then some .step else if o == "m" then some .memUsage
    else if o.startsWith "v" then some (.save (o == "v1"))
    else if o.startsWith "l" then some (.saveLoad (o.toList.getD 1 (Char.ofNat 48) == (Char.ofNat 49)) (o.toList.getD 2 (Char.ofNat 48) == (Char.ofNat 49)))
    else if o.startsWith "h:" then some (.setHyper (parseHyper ((o.drop 2).toString.replace "/" "|" |>.replace "%" "/")))
    else none
  let pops := ops.map parseOp
  let specOk : String :=
    if pops.any Option.isNone then "skipped" else
    let opl := pops.filterMap id
    let t := KV.Spec.run (KV.Spec.ofCfg c) (KV.Spec.SSt.init (KV.Spec.ofCfg c) h0) opl
    let s2 := run c (St.init c h0) opl
    if s2.err.isSome then "skipped-err" else
    let okOut := (worldRanks c).all fun r => s2.outGrads.getD r [] == t.out
    let okF := (worldRanks c).all fun r => (layerIdxs c).all fun l =>
      ((getL s2 r l).aFactor.map (·.val)) == (KV.Spec.getS t l).aFactor &&
      ((getL s2 r l).gFactor.map (·.val)) == (KV.Spec.getS t l).gFactor
    if s2.steps == t.steps && s2.defs == t.defs && okOut && okF then "1" else "0"
  let err := match s.err with | some (r, w) => s!"rank {r}: {w}" | none => "none"
  let stalled := s.acts.any fun a => match a with | .stall _ _ => true | _ => false
  joinWith " | " outs ++ " ## " ++ traces ++ " ## " ++ holds ++ " ## err=" ++ err ++ " ## " ++ joinWith ";" (s.defs.map V.show) ++ " ## wfinfo"  ++ " wf=" ++ showBool (KV.Sched2.wf c.world s.acts) ++ " spec=" ++ specOk ++ " stall=" ++ showBool stalled

end KV.Driver
