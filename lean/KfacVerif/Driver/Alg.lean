import KfacVerif.Model.Alg

namespace KV.Driver
open KV KV.Alg

def parseRMat (s : String) : Mat := (splitOnC s ';').map parseRats
def showRMat (m : Mat) : String := joinWith ";" (m.map showRats)

/-- 4-d tensor `b|b` of `c/c` of `h;h` of `w,w` -/
def parseT4 (s : String) : List (List (List (List Rat))) :=
  (splitOnC s '|').map fun b => (splitOnC b '/').map fun c => parseRMat c

def algOp (args : List String) : String :=
  let g := natArg args "g"; let a := natArg args "a"
  match argOf args "f" with
  | "eigen" => showRMat (eigenPrecond g a (parseRMat (argOf args "qa")) (parseRats (argOf args "da"))
      (parseRMat (argOf args "qg")) (parseRats (argOf args "dg")) (parseRat (argOf args "lam")) (parseRMat (argOf args "grad")))
  | "eigenpre" =>
      let dgda := dgdaOf (clamp0 (parseRats (argOf args "dg"))) (clamp0 (parseRats (argOf args "da"))) (parseRat (argOf args "lam"))
      "dgda=" ++ showRMat dgda ++ " v=" ++ showRMat (eigenPrecondPre g a (parseRMat (argOf args "qa")) (parseRMat (argOf args "qg")) dgda (parseRMat (argOf args "grad")))
  | "clampeigen" => showRMat (eigenPrecond g a (parseRMat (argOf args "qa")) (clamp0 (parseRats (argOf args "da")))
      (parseRMat (argOf args "qg")) (clamp0 (parseRats (argOf args "dg"))) (parseRat (argOf args "lam")) (parseRMat (argOf args "grad")))
  | "inverse" => showRMat (invPrecond g a (parseRMat (argOf args "ainv")) (parseRMat (argOf args "ginv")) (parseRMat (argOf args "grad")))
  | "cov" => showRMat (cov (natArg args "rows") (natArg args "n") (parseRMat (argOf args "x")))
  | "lina" => showRMat (linAFactor (natArg args "rows") (natArg args "n") (boolArg args "bias") (parseRMat (argOf args "x")))
  | "update" =>
      let n := natArg args "n"
      let bs := (splitOnC (argOf args "batches") '#').map parseRMat
      let f0 := if argOf args "prev" == "none" then none else some (parseRMat (argOf args "prev"))
      (match updateFactor n (parseRat (argOf args "alpha")) f0 bs with | some m => showRMat m | none => "none")
  | "nusq" => showRat (nuSq (parseRat (argOf args "kl")) (parseRat (argOf args "lr")) (parseRat (argOf args "s")))
  | "inner" => showRat (inner g a (parseRMat (argOf args "x")) (parseRMat (argOf args "y")))
  | "getgrad" => showRMat (getGrad (parseRMat (argOf args "w")) (if argOf args "b" == "none" then none else some (parseRats (argOf args "b"))))
  | "setgrad" =>
      let (w, b) := setGrad (boolArg args "bias") (parseRMat (argOf args "grad"))
      "w=" ++ showRMat w ++ " b=" ++ (match b with | some b => showRats b | none => "none")
  | "conv" =>
      let cv : Conv := { cin := natArg args "cin", kh := natArg args "kh", kw := natArg args "kw", sh := natArg args "sh",
                         sw := natArg args "sw", ph := natArg args "ph", pw := natArg args "pw" }
      let H := natArg args "H"; let W := natArg args "W"
      let x := parseT4 (argOf args "x")
      "patches=" ++ showRMat (patches cv H W x) ++ " A=" ++ showRMat (convAFactor cv H W (boolArg args "bias") x)
        ++ " oh=" ++ toString (outDim H cv.kh cv.sh cv.ph) ++ " ow=" ++ toString (outDim W cv.kw cv.sw cv.pw)
  | "convg" => showRMat (convGFactor (natArg args "cout") (natArg args "oh") (natArg args "ow") (parseT4 (argOf args "x")))
  | _ => "bad-op"

end KV.Driver
