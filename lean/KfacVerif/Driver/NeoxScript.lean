import KfacVerif.Model.NeoxScript
import KfacVerif.Driver.Kaisa

namespace KV.Driver
open KV KV.NeoxS

/-- `name:c|r:in:out:bias,…` per stage, stages separated by `|` -/
def parseStages (s : String) : List (List Layer) :=
  (splitOnC s '|').map fun st =>
    (splitOnC st ',').filterMap fun item =>
      match item.splitOn ":" with
      | [nm, par, i, o, b] =>
        some { name := nm, par := if par == "c" then .col else .row, inF := parseNat! i, outF := parseNat! o, bias := b == "1" }
      | _ => none

def showKind : Kind → String
  | .allreduce => "ar" | .broadcast => "bc" | .allgather => "ag" | .reducescatter => "rs"
  | .gatherobj => "ao" | .barrier => "ba"

def showNAct (a : NAct) : String :=
  showKind a.kind ++ ":" ++ showNats a.members ++ ":" ++ toString a.elems ++ ":" ++ toString a.root

/-- `neoxs pp= dp= mp= stages= tokens= fus= ius= bucketed= cap= es= sym= cube= hook= accum= ops=f,s,vm,vd,lm,ld,bm,…`
    → `r0=<issue>;<issue>… r1=…` (per-rank projections of the global script) -/
def neoxScriptOp (args : List String) : String :=
  let c : NeoxS.Cfg := {
    t := { pp := natArg args "pp", dp := natArg args "dp", mp := natArg args "mp" },
    stages := parseStages (argOf args "stages"), tokens := natArg args "tokens",
    fus := natArg args "fus", ius := natArg args "ius", bucketed := boolArg args "bucketed",
    cap := natArg args "cap", esize := natArg args "es", sym := boolArg args "sym", cube := boolArg args "cube",
    hook := boolArg args "hook", accum := natArg args "accum" }
  let ops := (splitOnC (argOf args "ops") ',').filterMap fun o =>
    if o == "f" then some Op.train else if o == "s" then some Op.step
    else if o == "vm" then some (Op.save false) else if o == "vd" then some (Op.save true)
    else if o == "lm" then some (Op.load false true) else if o == "ld" then some (Op.load true true)
    else if o == "bm" then some (Op.load false false) else none
  let s := run c ops
  joinWith " " ((List.range c.t.world).map fun r =>
    "r" ++ toString r ++ "=" ++ joinWith ";" ((project r s.acts).map showNAct))
  ++ " n=" ++ toString s.acts.length

end KV.Driver
