import KfacVerif.Driver.Kaisa

namespace KV.Driver

def dispatch (line : String) : String :=
  match line.splitOn " " with
  | [] => "bad-op"
  | op :: args =>
    match op with
    | "kaisa" => kaisaOp args
    | "greedy" => greedyOp args
    | "kvalidate" => validateOp args
    | "strategy" => strategyOp args
    | "partition" => partitionOp args
    | "enumworkers" => enumWorkersOp args
    | _ => "bad-op"

end KV.Driver
