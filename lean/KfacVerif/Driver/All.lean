import KfacVerif.Driver.Kaisa
import KfacVerif.Driver.Misc
import KfacVerif.Driver.Neox
import KfacVerif.Driver.Precond
import KfacVerif.Driver.Alg
import KfacVerif.Driver.NeoxLayer
import KfacVerif.Driver.NeoxScript
import KfacVerif.Driver.CommVal

namespace KV.Driver

def dispatch (line : String) : String :=
  match line.splitOn " " with
  | [] => "bad-op"
  | op :: args =>
    match op with
    | "kaisa" => kaisaOp args
    | "greedy" => greedyOp args
    | "kvalidate" => validateOp args
    | "strategy" => strategyOp args
    | "partition" => partitionOp args
    | "enumworkers" => enumWorkersOp args
    | "triu" => triuOp args
    | "fill" => fillOp args
    | "comm" => commOp args
    | "sched" => schedOp args
    | "schedctor" => schedCtorOp args
    | "expdecay" => expDecayOp args
    | "trace" => traceOp args
    | "register" => registerOp args
    | "neox" => neoxOp args
    | "precond" => precondOp args
    | "alg" => algOp args
    | "neoxl" => neoxLayerOp args
    | "neoxckpt" => neoxCkptOp args
    | "neoxs" => neoxScriptOp args
    | "commv" => commValOp args
    | _ => "bad-op"

end KV.Driver
