/-
Invariants of the M-Precond state machine, part 1: the invariant `Good` and the primitives
(`emit`, `readSlot`, `issue`, `setL`, `fail`).  Core Lean only.

`wfS` is a copy of `KV.C03.wfAuxS` (which lives in Lemmas/PrecondInv.lean together with the fixed
statements); PrecondInv.lean bridges the two.
-/
import KfacVerif.Model.Sched

namespace KV.PI
open KV KV.Precond
open KV.Sched2 (eventsOf wfAux wf Events)

/-! ### scripts -/

/-- stall-tolerant script check (same equations as `KV.C03.wfAuxS`) -/
def wfS (n : Nat) : List (List Nat) → List GAct → Bool
  | _, [] => true
  | seen, .issue m d :: t =>
    m.all (· < n) && decide (2 ≤ m.length) &&
      (match d.kind with | .broadcast => m.contains d.root | .allreduce => true) &&
      wfS n (seen ++ [m]) t
  | seen, .wait r id :: t => decide (id < seen.length) && (seen.getD id []).contains r && wfS n seen t
  | seen, .stall _ _ :: t => wfS n seen t

/-- the check of one act against the events seen so far -/
def actOK (n : Nat) (ev : Events) : GAct → Bool
  | .issue m d => m.all (· < n) && decide (2 ≤ m.length) &&
      (match d.kind with | .broadcast => m.contains d.root | .allreduce => true)
  | .wait r id => decide (id < ev.length) && (ev.getD id []).contains r
  | .stall _ _ => true

def isStall : GAct → Bool
  | .stall _ _ => true
  | _ => false

theorem eventsOf_append (a b : List GAct) : eventsOf (a ++ b) = eventsOf a ++ eventsOf b := by
  induction a with
  | nil => rfl
  | cons x t ih => cases x <;> simp [eventsOf, ih]

theorem wfS_append (n : Nat) (seen : Events) (a b : List GAct) :
    wfS n seen (a ++ b) = (wfS n seen a && wfS n (seen ++ eventsOf a) b) := by
  induction a generalizing seen with
  | nil => simp [wfS, eventsOf]
  | cons x t ih =>
    cases x with
    | issue m d => simp [wfS, eventsOf, ih, Bool.and_assoc]
    | wait r id => simp [wfS, eventsOf, ih, Bool.and_assoc]
    | stall r q => simp [wfS, eventsOf, ih]

theorem wfS_single (n : Nat) (seen : Events) (a : GAct) : wfS n seen [a] = actOK n seen a := by
  cases a <;> simp [wfS, actOK]

theorem wfAux_eq (n : Nat) (seen : Events) (acts : List GAct) :
    wfAux n seen acts = (wfS n seen acts && acts.all (fun a => !isStall a)) := by
  induction acts generalizing seen with
  | nil => simp [wfAux, wfS]
  | cons x t ih =>
    cases x with
    | issue m d =>
      simp only [wfAux, wfS, ih, List.all_cons, isStall, Bool.not_false, Bool.true_and, Bool.and_assoc]
      rfl
    | wait r id =>
      simp only [wfAux, wfS, ih, List.all_cons, isStall, Bool.not_false, Bool.true_and, Bool.and_assoc]
    | stall r q => simp [wfAux, isStall]

def evs (s : St) : Events := eventsOf s.acts

def stallFree (s : St) : Prop := ∀ a ∈ s.script, isStall a = false

/-! ### slots -/

/-- a slot waiting for issue `id` on rank `r` refers to an issue of which `r` is a member;
    in strict mode no slot is queued -/
def SlotOK (strict : Bool) (ev : Events) (r : Nat) : Option Slot → Prop
  | some ⟨_, .issued id⟩ => id < ev.length ∧ r ∈ ev.getD id []
  | some ⟨_, .queued _⟩ => strict = false
  | _ => True

theorem SlotOK.none {st ev r} : SlotOK st ev r none := trivial
theorem SlotOK.ready {st ev r v} : SlotOK st ev r (some ⟨v, .ready⟩) := trivial

theorem SlotOK.mono {st ev r o} (t : Events) (h : SlotOK st ev r o) : SlotOK st (ev ++ t) r o := by
  match o, h with
  | some ⟨_, .issued id⟩, h =>
    obtain ⟨h1, h2⟩ := h
    refine ⟨by simp; omega, ?_⟩
    simpa [List.getD, List.getElem?_append_left h1] using h2
  | some ⟨_, .queued _⟩, h => exact h
  | some ⟨_, .ready⟩, _ => trivial
  | .none, _ => trivial

theorem SlotOK.weaken {st ev r o} (h : SlotOK true ev r o) : SlotOK st ev r o := by
  match o, h with
  | some ⟨_, .issued id⟩, h => exact h
  | some ⟨_, .queued _⟩, h => exact Bool.noConfusion (h : true = false)
  | some ⟨_, .ready⟩, _ => trivial
  | .none, _ => trivial

structure LOK (st : Bool) (ev : Events) (r : Nat) (x : LState) : Prop where
  aFactor : SlotOK st ev r x.aFactor
  gFactor : SlotOK st ev r x.gFactor
  qa : SlotOK st ev r x.qa
  da : SlotOK st ev r x.da
  qg : SlotOK st ev r x.qg
  dg : SlotOK st ev r x.dg
  dgda : SlotOK st ev r x.dgda
  aInv : SlotOK st ev r x.aInv
  gInv : SlotOK st ev r x.gInv
  grad : SlotOK st ev r x.grad

theorem LOK.mono {st ev r x} (t : Events) (h : LOK st ev r x) : LOK st (ev ++ t) r x :=
  ⟨h.1.mono t, h.2.mono t, h.3.mono t, h.4.mono t, h.5.mono t, h.6.mono t, h.7.mono t, h.8.mono t,
   h.9.mono t, h.10.mono t⟩

theorem LOK.weaken {st ev r x} (h : LOK true ev r x) : LOK st ev r x :=
  ⟨h.1.weaken, h.2.weaken, h.3.weaken, h.4.weaken, h.5.weaken, h.6.weaken, h.7.weaken, h.8.weaken,
   h.9.weaken, h.10.weaken⟩

theorem LOK.empty {st ev r} : LOK st ev r {} :=
  ⟨trivial, trivial, trivial, trivial, trivial, trivial, trivial, trivial, trivial, trivial⟩

/-- build an `LOK` for a record update of an `LState` whose `LOK` is `h`; remaining fields from
    the context -/
macro "lok_from " h:term : tactic =>
  `(tactic| (refine ⟨?_, ?_, ?_, ?_, ?_, ?_, ?_, ?_, ?_, ?_⟩ <;>
      first
        | assumption
        | exact SlotOK.none
        | exact SlotOK.ready
        | exact ($h).aFactor
        | exact ($h).gFactor
        | exact ($h).qa
        | exact ($h).da
        | exact ($h).qg
        | exact ($h).dg
        | exact ($h).dgda
        | exact ($h).aInv
        | exact ($h).gInv
        | exact ($h).grad
        | exact (rfl : false = false)
        | skip))

/-! ### the invariant -/

/-- `μ` is the value of the `mini` counters (carried along so that every preservation lemma is
    also a frame lemma for them) -/
structure Good (st : Bool) (c : Cfg) (μ : List Nat) (s : St) : Prop where
  nIss : s.nIssued = (evs s).length
  wfs : wfS c.world [] s.acts = true
  lok : ∀ r l, LOK st (evs s) r (getL s r l)
  shape : s.ranks.length = c.world
  bkt : s.bucket ≠ [] → 2 ≤ c.world
  sB : st = true → s.bucket = []
  sF : st = true → stallFree s
  mini : s.mini = μ

theorem Good.weaken {c μ s} (st : Bool) (h : Good true c μ s) : Good st c μ s :=
  ⟨h.nIss, h.wfs, fun r l => (h.lok r l).weaken, h.shape, h.bkt, fun _ => h.sB rfl, fun _ => h.sF rfl, h.mini⟩

/-- only `script`, `nIssued`, `ranks`, `bucket`, `mini` matter -/
theorem Good.congr {st c s s'} (h : Good st c μ s) (h1 : s'.script = s.script) (h2 : s'.nIssued = s.nIssued)
    (h3 : s'.ranks = s.ranks) (h4 : s'.bucket = s.bucket) (h5 : s'.mini = s.mini) : Good st c μ s' := by
  have he : evs s' = evs s := by simp [evs, St.acts, h1]
  refine ⟨?_, ?_, ?_, ?_, ?_, ?_, ?_, h5.trans h.mini⟩
  · rw [h2, he]; exact h.nIss
  · simp only [St.acts, h1]; exact h.wfs
  · intro r l; rw [he]; simp only [getL, h3]; exact h.lok r l
  · rw [h3]; exact h.shape
  · rw [h4]; exact h.bkt
  · rw [h4]; exact h.sB
  · intro hs a ha; rw [h1] at ha; exact h.sF hs a ha

theorem Good.init (c : Cfg) (h : Hyper) : Good true c (List.replicate c.layers.length 0) (St.init c h) := by
  refine ⟨rfl, rfl, ?_, by simp [St.init], by simp [St.init], fun _ => rfl, ?_, rfl⟩
  · intro r l
    have : getL (St.init c h) r l = {} := by
      simp only [getL, St.init, List.getD, List.getElem?_replicate]
      split
      · simp only [Option.getD_some, List.getElem?_replicate]
        split <;> rfl
      · rfl
    rw [this]; exact LOK.empty
  · intro _ a ha; simp [St.init] at ha

/-! ### `getL` / `setL` -/

theorem getL_setL (s : St) (r l : Nat) (x : LState) (r' l' : Nat) :
    (getL (setL s r l x) r' l' = x ∧ r' = r ∧ l' = l) ∨ getL (setL s r l x) r' l' = getL s r' l' := by
  simp only [getL, Precond.setL, List.getD]
  by_cases hr : r' = r
  · subst hr
    cases hrr : s.ranks[r']? with
    | none =>
      right
      have : s.ranks.length ≤ r' := List.getElem?_eq_none_iff.mp hrr
      rw [List.set_eq_of_length_le this, hrr]
    | some ls =>
      have hrl : r' < s.ranks.length := (List.getElem?_eq_some_iff.mp hrr).1
      simp only [Option.getD_some]
      rw [List.getElem?_set_self hrl]
      simp only [Option.getD_some]
      by_cases hl : l' = l
      · subst hl
        by_cases hll : l' < ls.length
        · left; simp [List.getElem?_set_self hll]
        · right; rw [List.set_eq_of_length_le (by omega)]
      · right; rw [List.getElem?_set_ne (Ne.symm hl)]
  · right; rw [List.getElem?_set_ne (Ne.symm hr)]

theorem Good.setL {st c s} (h : Good st c μ s) {r l : Nat} {x : LState} (hx : LOK st (evs s) r x) :
    Good st c μ (setL s r l x) := by
  refine ⟨h.nIss, h.wfs, ?_, ?_, h.bkt, h.sB, h.sF, h.mini⟩
  · intro r' l'
    rcases getL_setL s r l x r' l' with ⟨h1, h2, _⟩ | h1
    · rw [h1, h2]; exact hx
    · rw [h1]; exact h.lok r' l'
  · simp [Precond.setL, h.shape]

theorem Good.fail {st c s} (h : Good st c μ s) (r : Nat) (w : String) : Good st c μ (fail s r w) := by
  unfold Precond.fail
  split
  · exact h
  · exact h.congr rfl rfl rfl rfl rfl

/-! ### emitting -/

theorem evs_emit_noissue (s : St) (a : GAct) (ha : ∀ m d, a ≠ .issue m d) :
    evs (emit s a) = evs s := by
  simp only [evs, St.acts, emit, List.reverse_cons, eventsOf_append]
  cases a with
  | issue m d => exact absurd rfl (ha m d)
  | wait r id => simp [eventsOf]
  | stall r q => simp [eventsOf]

theorem Good.emit_wait {st c s} (h : Good st c μ s) {r id : Nat} (hid : id < (evs s).length)
    (hr : r ∈ (evs s).getD id []) : Good st c μ (emit s (.wait r id)) := by
  have he : evs (emit s (.wait r id)) = evs s := evs_emit_noissue s _ (by intro m d; simp)
  refine ⟨?_, ?_, ?_, h.shape, h.bkt, h.sB, ?_, h.mini⟩
  · rw [he]; exact h.nIss
  · have : (emit s (.wait r id)).acts = s.acts ++ [.wait r id] := by simp [St.acts, emit]
    rw [this, wfS_append, h.wfs, wfS_single]
    simp only [List.nil_append, Bool.true_and, actOK]
    have h1 : decide (id < (eventsOf s.acts).length) = true := by simpa [evs] using hid
    have h2 : ((eventsOf s.acts).getD id []).contains r = true := by simpa [evs] using hr
    rw [h1, h2]; rfl
  · intro r' l'; rw [he]; exact h.lok r' l'
  · intro hs a ha
    simp only [emit, List.mem_cons] at ha
    rcases ha with rfl | ha
    · rfl
    · exact h.sF hs a ha

theorem Good.emit_stall {c s} (h : Good false c μ s) (r q : Nat) : Good false c μ (emit s (.stall r q)) := by
  have he : evs (emit s (.stall r q)) = evs s := evs_emit_noissue s _ (by intro m d; simp)
  refine ⟨?_, ?_, ?_, h.shape, h.bkt, by simp, by simp, h.mini⟩
  · rw [he]; exact h.nIss
  · have : (emit s (.stall r q)).acts = s.acts ++ [.stall r q] := by simp [St.acts, emit]
    rw [this, wfS_append, h.wfs, wfS_single]
    simp [actOK]
  · intro r' l'; rw [he]; exact h.lok r' l'

/-- the property getter -/
theorem readSlot_spec {st c s r sl s1 f} (h : Good st c μ s) (hsl : SlotOK st (evs s) r sl)
    (e : readSlot s r sl = (s1, f)) :
    Good st c μ s1 ∧ SlotOK st (evs s1) r f ∧ evs s1 = evs s ∧ s1.ranks = s.ranks ∧ s1.bucket = s.bucket := by
  unfold readSlot at e
  match sl, hsl with
  | .none, _ =>
    simp only [Prod.mk.injEq] at e
    obtain ⟨rfl, rfl⟩ := e
    exact ⟨h, trivial, rfl, rfl, rfl⟩
  | some ⟨v, .ready⟩, _ =>
    simp only [Prod.mk.injEq] at e
    obtain ⟨rfl, rfl⟩ := e
    exact ⟨h, trivial, rfl, rfl, rfl⟩
  | some ⟨v, .issued id⟩, hsl =>
    simp only [Prod.mk.injEq] at e
    obtain ⟨rfl, rfl⟩ := e
    exact ⟨h.emit_wait hsl.1 hsl.2, trivial, evs_emit_noissue s _ (by intro m d; simp), rfl, rfl⟩
  | some ⟨v, .queued q⟩, hsl =>
    simp only [Prod.mk.injEq] at e
    obtain ⟨rfl, rfl⟩ := e
    have : st = false := hsl
    subst this
    exact ⟨h.emit_stall r q, rfl, evs_emit_noissue s _ (by intro m d; simp), rfl, rfl⟩

/-- issuing a collective -/
theorem issue_spec {st c s m d s1 id} (h : Good st c μ s) (hm : ∀ x ∈ m, x < c.world) (h2 : 2 ≤ m.length)
    (hroot : d.kind = .broadcast → d.root ∈ m) (e : issue s m d = (s1, id)) :
    Good st c μ s1 ∧ evs s1 = evs s ++ [m] ∧ id = (evs s).length ∧ s1.ranks = s.ranks ∧
      s1.bucket = s.bucket := by
  unfold issue at e
  simp only [Prod.mk.injEq] at e
  obtain ⟨rfl, rfl⟩ := e
  have he : evs { s with script := .issue m d :: s.script, nIssued := s.nIssued + 1 } = evs s ++ [m] := by
    simp [evs, St.acts, eventsOf_append, eventsOf]
  refine ⟨⟨?_, ?_, ?_, h.shape, h.bkt, h.sB, ?_, h.mini⟩, he, h.nIss, rfl, rfl⟩
  · rw [he]; simp [h.nIss]
  · have : ({ s with script := .issue m d :: s.script, nIssued := s.nIssued + 1 } : St).acts
        = s.acts ++ [.issue m d] := by simp [St.acts]
    rw [this, wfS_append, h.wfs, wfS_single]
    simp only [Bool.true_and, actOK]
    have h3 : m.all (· < c.world) = true := by simpa using hm
    rw [h3]
    cases hk : d.kind with
    | allreduce => simp [h2]
    | broadcast => simp [h2, hroot hk]
  · intro r l; rw [he]; exact (h.lok r l).mono [m]
  · intro hs a ha
    simp only [List.mem_cons] at ha
    rcases ha with rfl | ha
    · rfl
    · exact h.sF hs a ha

/-! ### folds -/

theorem foldl_inv {α : Type} (P : St → Prop) (f : St → α → St) (l : List α) (s : St) (h0 : P s)
    (hstep : ∀ s a, a ∈ l → P s → P (f s a)) : P (l.foldl f s) := by
  induction l generalizing s with
  | nil => exact h0
  | cons a t ih =>
    simp only [List.foldl_cons]
    exact ih _ (hstep s a (by simp) h0) (fun s b hb hs => hstep s b (by simp [hb]) hs)

theorem forRanks_inv (P : St → Prop) (c : Cfg) (f : St → Nat → St) (s : St) (h0 : P s)
    (hstep : ∀ s r, r < c.world → P s → P (f s r)) : P (forRanks c s f) := by
  unfold forRanks
  exact foldl_inv P f _ s h0 (fun s r hr hs => hstep s r (by simpa [worldRanks] using hr) hs)

end KV.PI
