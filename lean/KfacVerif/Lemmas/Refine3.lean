/-
Refinement Precond ⟶ Spec, part 3: the simulation relation `Rel` and its preservation by the
factor bookkeeping (`fwdBwd`).  Core Lean only.
-/
import KfacVerif.Lemmas.Refine2

namespace KV.Refine
open KV KV.Precond

/-! ### the reference machine's layer table -/

theorem getS_setS_same {t : Spec.SSt} {l : Nat} (hl : l < t.layers.length) (x : Spec.SLayer) :
    Spec.getS (Spec.setS t l x) l = x := by
  simp [Spec.getS, Spec.setS, List.getD, hl]

theorem getS_setS_ne (t : Spec.SSt) {l l' : Nat} (x : Spec.SLayer) (h : l' ≠ l) :
    Spec.getS (Spec.setS t l x) l' = Spec.getS t l' := by
  simp [Spec.getS, Spec.setS, List.getD, Ne.symm h]

@[simp] theorem setS_len (t : Spec.SSt) (l : Nat) (x : Spec.SLayer) :
    (Spec.setS t l x).layers.length = t.layers.length := by
  simp [Spec.setS]

/-! ### the relation -/

def bAt (o : Option (List V)) (r : Nat) : Option V := o.map (fun b => b.getD r .zero)

/-- the second-order data that `precondGrad` reads agree -/
def SO (c : Cfg) (v : LV) (y : Spec.SLayer) : Prop :=
  match c.method with
  | .eigen => v.qa = y.qa ∧ v.qg = y.qg ∧ (if c.prediv then v.dgda = y.dgda else v.da = y.da ∧ v.dg = y.dg)
  | .inverse => v.aInv = y.aInv ∧ v.gInv = y.gInv

structure CellRel (c : Cfg) (r l : Nat) (v : LV) (y : Spec.SLayer) : Prop where
  aBatch : v.aBatch = bAt y.aBatch r
  aCount : v.aCount = y.aCount
  gBatch : v.gBatch = bAt y.gBatch r
  gCount : v.gCount = y.gCount
  aFactor : v.aFactor = y.aFactor
  gFactor : v.gFactor = y.gFactor
  so : r ∈ c.asg.workers l → SO c v y

structure TLay (c : Cfg) (y : Spec.SLayer) : Prop where
  aLen : ∀ b, y.aBatch = some b → b.length = c.world
  gLen : ∀ b, y.gBatch = some b → b.length = c.world

def LayRel (c : Cfg) (s : St) (t : Spec.SSt) (l : Nat) : Prop :=
  TLay c (Spec.getS t l) ∧ ∀ r, r < c.world → CellRel c r l (cell s r l) (Spec.getS t l)

structure Rel (c : Cfg) (s : St) (t : Spec.SSt) : Prop where
  steps : s.steps = t.steps
  mini : s.mini = t.mini
  pass : s.pass = t.pass
  hyper : s.hyper = t.hyper
  defs : s.defs = t.defs
  out : ∀ r, r < c.world → s.outGrads.getD r [] = t.out
  shape : Shape c s
  tlen : t.layers.length = c.layers.length
  lay : ∀ l, l < c.layers.length → LayRel c s t l

/-- only bookkeeping changed on the distributed side -/
theorem Rel.neutral {c s s' t} (h : Rel c s t) (n : Neutral c s s') : Rel c s' t :=
  ⟨n.1.steps.trans h.steps, n.1.mini.trans h.mini, n.1.pass.trans h.pass, n.1.hyper.trans h.hyper,
   n.1.defs.trans h.defs, fun r hr => by rw [n.1.outGrads]; exact h.out r hr, n.2.1, h.tlen,
   fun l hl => ⟨(h.lay l hl).1, fun r hr => by rw [n.2.2]; exact (h.lay l hl).2 r hr⟩⟩

/-- both machines changed one layer -/
theorem Rel.layer {c s s' t t'} (h : Rel c s t) (l : Nat)
    (e1 : s'.steps = t'.steps) (e2 : s'.mini = t'.mini) (e3 : s'.pass = t'.pass) (e4 : s'.hyper = t'.hyper)
    (e5 : s'.defs = t'.defs) (e6 : s'.outGrads = s.outGrads) (e7 : t'.out = t.out)
    (hsh : Shape c s') (htl : t'.layers.length = t.layers.length)
    (hs : ∀ r l', l' ≠ l → cell s' r l' = cell s r l')
    (ht : ∀ l', l' ≠ l → Spec.getS t' l' = Spec.getS t l')
    (hl : l < c.layers.length → LayRel c s' t' l) : Rel c s' t' := by
  refine ⟨e1, e2, e3, e4, e5, fun r hr => by rw [e6, e7]; exact h.out r hr, hsh, htl.trans h.tlen, ?_⟩
  intro l' hl'
  by_cases e : l' = l
  · subst e; exact hl hl'
  · refine ⟨by rw [ht l' e]; exact (h.lay l' hl').1, fun r hr => ?_⟩
    rw [hs r l' e, ht l' e]
    exact (h.lay l' hl').2 r hr

theorem getD_map_range {α} (f : Nat → α) (n r : Nat) (d : α) (hr : r < n) :
    ((List.range n).map f).getD r d = f r := by
  simp [List.getD, hr]

theorem getD_zipWith_add (a b : List V) (r : Nat) (ha : r < a.length) (hb : r < b.length) :
    (List.zipWith V.add a b).getD r .zero = V.add (a.getD r .zero) (b.getD r .zero) := by
  simp [List.getD, List.getElem?_zipWith, List.getElem?_eq_getElem ha, List.getElem?_eq_getElem hb]

/-! ### `saveBatch` on all ranks ⟷ `Spec.save` -/

theorem saveAll_rel {c s t} (h : Rel c s t) {l : Nat} (hl : l < c.layers.length) (isA : Bool) :
    Rel c (forRanks c s fun s r => saveBatch s r l isA) (Spec.save (Spec.ofCfg c) t l isA) := by
  have e := saveAll_eff h.shape hl isA
  have htl : l < t.layers.length := by rw [h.tlen]; exact hl
  obtain ⟨hT, hC⟩ := h.lay l hl
  have hleaf : ∀ (b : Bool) r, r < c.world →
      ((Spec.ranks (Spec.ofCfg c)).map fun r => V.cov l b r t.pass).getD r .zero = V.cov l b r t.pass :=
    fun b r hr => getD_map_range _ _ _ _ hr
  have hlen : ∀ (b : Bool), ((Spec.ranks (Spec.ofCfg c)).map fun r => V.cov l b r t.pass).length = c.world := by
    intro b; simp [Spec.ranks, Spec.ofCfg]
  cases isA
  · -- G
    unfold Spec.save
    simp only [Bool.false_eq_true, if_false]
    cases hb : (Spec.getS t l).gBatch with
    | none =>
      simp only []
      refine h.layer l (e.same.steps.trans h.steps) (e.same.mini.trans h.mini) (e.same.pass.trans h.pass)
        (e.same.hyper.trans h.hyper) (e.same.defs.trans h.defs) e.same.outGrads rfl e.shape (setS_len ..)
        (fun r l' hne => e.miss r l' (fun k => hne k.2)) (fun l' hne => getS_setS_ne t _ hne) ?_
      intro _
      rw [LayRel, getS_setS_same htl]
      refine ⟨⟨hT.aLen, fun b hb' => ?_⟩, fun r hr => ?_⟩
      · simp only [Option.some.injEq] at hb'; subst hb'; exact hlen false
      · have cr := hC r hr
        rw [e.hit r l ⟨hr, rfl⟩]
        have hv : (cell s r l).gBatch = none := by rw [cr.gBatch, hb]; rfl
        refine ⟨?_, ?_, ?_, ?_, ?_, ?_, ?_⟩ <;>
          simp only [gSave, Bool.false_eq_true, if_false, hv]
        · exact cr.aBatch
        · exact cr.aCount
        · simp only [bAt, Option.map_some, hleaf false r hr, h.pass]
        · exact cr.aFactor
        · exact cr.gFactor
        · exact cr.so
    | some b =>
      simp only []
      refine h.layer l (e.same.steps.trans h.steps) (e.same.mini.trans h.mini) (e.same.pass.trans h.pass)
        (e.same.hyper.trans h.hyper) (e.same.defs.trans h.defs) e.same.outGrads rfl e.shape (setS_len ..)
        (fun r l' hne => e.miss r l' (fun k => hne k.2)) (fun l' hne => getS_setS_ne t _ hne) ?_
      intro _
      rw [LayRel, getS_setS_same htl]
      have hbl := hT.gLen b hb
      refine ⟨⟨hT.aLen, fun b' hb' => ?_⟩, fun r hr => ?_⟩
      · simp only [Option.some.injEq] at hb'; subst hb'
        simp [hbl, hlen false]
      · have cr := hC r hr
        rw [e.hit r l ⟨hr, rfl⟩]
        have hv : (cell s r l).gBatch = some (b.getD r .zero) := by rw [cr.gBatch, hb]; rfl
        refine ⟨?_, ?_, ?_, ?_, ?_, ?_, ?_⟩ <;>
          simp only [gSave, Bool.false_eq_true, if_false, hv]
        · exact cr.aBatch
        · exact cr.aCount
        · simp only [bAt, Option.map_some]
          rw [getD_zipWith_add _ _ _ (by rw [hbl]; exact hr) (by rw [hlen false]; exact hr), hleaf false r hr, h.pass]
        · rw [cr.gCount]
        · exact cr.aFactor
        · exact cr.gFactor
        · exact cr.so
  · -- A
    unfold Spec.save
    simp only [if_true]
    cases hb : (Spec.getS t l).aBatch with
    | none =>
      simp only []
      refine h.layer l (e.same.steps.trans h.steps) (e.same.mini.trans h.mini) (e.same.pass.trans h.pass)
        (e.same.hyper.trans h.hyper) (e.same.defs.trans h.defs) e.same.outGrads rfl e.shape (setS_len ..)
        (fun r l' hne => e.miss r l' (fun k => hne k.2)) (fun l' hne => getS_setS_ne t _ hne) ?_
      intro _
      rw [LayRel, getS_setS_same htl]
      refine ⟨⟨fun b hb' => ?_, hT.gLen⟩, fun r hr => ?_⟩
      · simp only [Option.some.injEq] at hb'; subst hb'; exact hlen true
      · have cr := hC r hr
        rw [e.hit r l ⟨hr, rfl⟩]
        have hv : (cell s r l).aBatch = none := by rw [cr.aBatch, hb]; rfl
        refine ⟨?_, ?_, ?_, ?_, ?_, ?_, ?_⟩ <;>
          simp only [gSave, if_true, hv]
        · simp only [bAt, Option.map_some, hleaf true r hr, h.pass]
        · exact cr.gBatch
        · exact cr.gCount
        · exact cr.aFactor
        · exact cr.gFactor
        · exact cr.so
    | some b =>
      simp only []
      refine h.layer l (e.same.steps.trans h.steps) (e.same.mini.trans h.mini) (e.same.pass.trans h.pass)
        (e.same.hyper.trans h.hyper) (e.same.defs.trans h.defs) e.same.outGrads rfl e.shape (setS_len ..)
        (fun r l' hne => e.miss r l' (fun k => hne k.2)) (fun l' hne => getS_setS_ne t _ hne) ?_
      intro _
      rw [LayRel, getS_setS_same htl]
      have hbl := hT.aLen b hb
      refine ⟨⟨fun b' hb' => ?_, hT.gLen⟩, fun r hr => ?_⟩
      · simp only [Option.some.injEq] at hb'; subst hb'
        simp [hbl, hlen true]
      · have cr := hC r hr
        rw [e.hit r l ⟨hr, rfl⟩]
        have hv : (cell s r l).aBatch = some (b.getD r .zero) := by rw [cr.aBatch, hb]; rfl
        refine ⟨?_, ?_, ?_, ?_, ?_, ?_, ?_⟩ <;>
          simp only [gSave, if_true, hv]
        · simp only [bAt, Option.map_some]
          rw [getD_zipWith_add _ _ _ (by rw [hbl]; exact hr) (by rw [hlen true]; exact hr), hleaf true r hr, h.pass]
        · rw [cr.aCount]
        · exact cr.gBatch
        · exact cr.gCount
        · exact cr.aFactor
        · exact cr.gFactor
        · exact cr.so

/-! ### `updateFactor` on all ranks, then `reduceFactor` ⟷ `Spec.updateReduce` -/

def batchOf (isA : Bool) (v : LV) : Option V := if isA then v.aBatch else v.gBatch
def countOf (isA : Bool) (v : LV) : Nat := if isA then v.aCount else v.gCount
def clrBatch (isA : Bool) (v : LV) : LV := if isA then { v with aBatch := none } else { v with gBatch := none }

def sFac (isA : Bool) (y : Spec.SLayer) : Option V := if isA then y.aFactor else y.gFactor
def sBatch (isA : Bool) (y : Spec.SLayer) : Option (List V) := if isA then y.aBatch else y.gBatch
def sCount (isA : Bool) (y : Spec.SLayer) : Nat := if isA then y.aCount else y.gCount
def sClr (isA : Bool) (y : Spec.SLayer) : Spec.SLayer :=
  if isA then { y with aBatch := none } else { y with gBatch := none }
def sSetFac (isA : Bool) (y : Spec.SLayer) (o : Option V) : Spec.SLayer :=
  if isA then { y with aFactor := o } else { y with gFactor := o }

/-- the per-rank factor after `update_*_factor` -/
def newFac (isA : Bool) (α : Rat) (l : Nat) (v : LV) : Option V :=
  match batchOf isA v with
  | none => facOf isA v
  | some b => some (.ema α ((facOf isA v).getD (.ident l isA))
                (if countOf isA v > 1 then .divN b (countOf isA v) else b))

theorem gUpd_eq (isA : Bool) (α : Rat) (r l : Nat) (v : LV) :
    gUpd isA α r l v = setFac isA (clrBatch isA v) (newFac isA α l v) := by
  cases isA
  · simp only [gUpd, newFac, batchOf, facOf, countOf, setFac, clrBatch, Bool.false_eq_true, if_false]
    cases h : v.gBatch
    · cases v; simp_all
    · simp
  · simp only [gUpd, newFac, batchOf, facOf, countOf, setFac, clrBatch, if_true]
    cases h : v.aBatch
    · cases v; simp_all
    · simp

theorem facOf_setFac (isA v o) : facOf isA (setFac isA v o) = o := by
  cases isA <;> rfl

theorem setFac_setFac (isA v o o') : setFac isA (setFac isA v o) o' = setFac isA v o' := by
  cases isA <;> rfl

/-- the per-rank values of `Spec.updateReduce` -/
def perRank (c : Cfg) (l : Nat) (isA : Bool) (α : Rat) (y : Spec.SLayer) : Option (List V) :=
  match sBatch isA y with
  | none => (sFac isA y).map fun f => (Spec.ranks (Spec.ofCfg c)).map fun _ => f
  | some b => some (b.map fun br => V.ema α ((sFac isA y).getD (.ident l isA))
                (if sCount isA y > 1 then V.divN br (sCount isA y) else br))

theorem updateReduce_eq (c : Cfg) (t : Spec.SSt) (l : Nat) (isA : Bool) (α : Rat) :
    Spec.updateReduce (Spec.ofCfg c) t l isA α =
      match perRank c l isA α (Spec.getS t l) with
      | none => t
      | some vals =>
        if c.world == 1 then Spec.setS t l (sSetFac isA (sClr isA (Spec.getS t l)) vals.head?)
        else Spec.setS { t with defs := t.defs ++ [avgOf vals] } l
               (sSetFac isA (sClr isA (Spec.getS t l)) (some (V.ref t.defs.length))) := by
  cases isA <;> rfl

theorem CellRel.fac {c r l v y} (h : CellRel c r l v y) (isA : Bool) : facOf isA v = sFac isA y := by
  cases isA
  · exact h.gFactor
  · exact h.aFactor

theorem CellRel.batch {c r l v y} (h : CellRel c r l v y) (isA : Bool) :
    batchOf isA v = bAt (sBatch isA y) r := by
  cases isA
  · exact h.gBatch
  · exact h.aBatch

theorem CellRel.count {c r l v y} (h : CellRel c r l v y) (isA : Bool) : countOf isA v = sCount isA y := by
  cases isA
  · exact h.gCount
  · exact h.aCount

theorem SO_setFac_clr (c : Cfg) (isA : Bool) (v : LV) (y : Spec.SLayer) (o o') :
    SO c (setFac isA (clrBatch isA v) o) (sSetFac isA (sClr isA y) o') ↔ SO c v y := by
  cases isA <;> (unfold SO; cases c.method <;> exact Iff.rfl)

theorem CellRel.setFac_clr {c r l v y} (h : CellRel c r l v y) (isA : Bool) (o : Option V) :
    CellRel c r l (setFac isA (clrBatch isA v) o) (sSetFac isA (sClr isA y) o) := by
  cases isA
  · exact ⟨h.aBatch, h.aCount, rfl, h.gCount, h.aFactor, rfl,
      fun hw => (SO_setFac_clr c false v y o o).mpr (h.so hw)⟩
  · exact ⟨rfl, h.aCount, h.gBatch, h.gCount, rfl, h.gFactor,
      fun hw => (SO_setFac_clr c true v y o o).mpr (h.so hw)⟩

theorem TLay.setFac_clr {c y} (h : TLay c y) (isA : Bool) (o : Option V) :
    TLay c (sSetFac isA (sClr isA y) o) := by
  cases isA
  · exact ⟨h.aLen, fun b hb => by simp [sSetFac, sClr] at hb⟩
  · exact ⟨fun b hb => by simp [sSetFac, sClr] at hb, h.gLen⟩

theorem TLay.batchLen {c y} (h : TLay c y) (isA : Bool) (b : List V) (hb : sBatch isA y = some b) :
    b.length = c.world := by
  cases isA
  · exact h.gLen b hb
  · exact h.aLen b hb

theorem range_map_getD {α} (vals : List α) (d : α) :
    (List.range vals.length).map (fun r => vals.getD r d) = vals := by
  apply List.ext_getElem
  · simp
  · intro i h1 h2
    simp [List.getD, List.getElem?_eq_getElem h2]

/-- the value rank `r` holds after `update_*_factor` is the `r`-th per-rank value of the Spec -/
theorem newFac_perRank {c r l v y} (h : CellRel c r l v y) (hT : TLay c y) (hr : r < c.world)
    (isA : Bool) (α : Rat) :
    newFac isA α l v = bAt (perRank c l isA α y) r ∧
    ∀ vals, perRank c l isA α y = some vals → vals.length = c.world := by
  unfold newFac perRank
  rw [h.batch isA, h.fac isA, h.count isA]
  cases hb : sBatch isA y with
  | none =>
    simp only [bAt, Option.map_none]
    constructor
    · cases sFac isA y with
      | none => rfl
      | some f =>
        simp only [Option.map_some]
        rw [show (Spec.ranks (Spec.ofCfg c)) = List.range c.world from rfl, getD_map_range _ _ _ _ hr]
    · intro vals hv
      cases hf : sFac isA y with
      | none => rw [hf] at hv; simp at hv
      | some f =>
        rw [hf] at hv
        simp only [Option.map_some, Option.some.injEq] at hv
        subst hv
        simp [Spec.ranks, Spec.ofCfg]
  | some b =>
    have hbl := hT.batchLen isA b hb
    simp only [bAt, Option.map_some]
    constructor
    · congr 1
      have hrb : r < b.length := by rw [hbl]; exact hr
      simp [List.getD, List.getElem?_eq_getElem hrb]
    · intro vals hv
      simp only [Option.some.injEq] at hv
      subst hv
      simp [hbl]

theorem updRed_rel {c s t} (hw0 : 0 < c.world) (h : Rel c s t) {l : Nat} (hl : l < c.layers.length)
    (isA : Bool) (α : Rat)
    (he : OK (reduceFactor c (forRanks c s fun s r => updateFactor s r l isA α) l isA)) :
    Rel c (reduceFactor c (forRanks c s fun s r => updateFactor s r l isA α) l isA)
      (Spec.updateReduce (Spec.ofCfg c) t l isA α) := by
  have e1 := updateAll_eff h.shape hl isA α
  have re := reduceFactor_eff e1.shape hl isA he
  generalize forRanks c s (fun s r => updateFactor s r l isA α) = s1 at e1 re he ⊢
  generalize reduceFactor c s1 l isA = s2 at re he ⊢
  have htl : l < t.layers.length := by rw [h.tlen]; exact hl
  obtain ⟨hT, hC⟩ := h.lay l hl
  -- cells of layer `l` after the updates
  have hc1 : ∀ r, r < c.world → cell s1 r l =
      setFac isA (clrBatch isA (cell s r l)) (bAt (perRank c l isA α (Spec.getS t l)) r) := by
    intro r hr
    rw [e1.hit r l ⟨hr, rfl⟩, gUpd_eq, (newFac_perRank (hC r hr) hT hr isA α).1]
  have hplen := fun vals => (newFac_perRank (hC 0 hw0) hT hw0 isA α).2 vals
  rw [updateReduce_eq]
  cases hp : perRank c l isA α (Spec.getS t l) with
  | none =>
    exfalso
    have := re.have_ 0 hw0
    rw [hc1 0 hw0, facOf_setFac, hp] at this
    simp [bAt] at this
  | some vals =>
    have hvl := hplen vals hp
    simp only []
    by_cases hw : (c.world == 1) = true
    · rw [if_pos hw]
      have hw' : c.world = 1 := by simpa using hw
      obtain ⟨hd, hcs⟩ := re.one hw'
      refine h.layer l (re.steps.trans (e1.same.steps.trans h.steps)) (re.mini.trans (e1.same.mini.trans h.mini))
        (re.pass.trans (e1.same.pass.trans h.pass)) (re.hyper.trans (e1.same.hyper.trans h.hyper))
        (hd.trans (e1.same.defs.trans h.defs)) (re.outGrads.trans e1.same.outGrads) rfl re.shape (setS_len ..)
        (fun r l' hne => (hcs r l').trans (e1.miss r l' (fun k => hne k.2)))
        (fun l' hne => getS_setS_ne t _ hne) ?_
      intro _
      rw [LayRel, getS_setS_same htl]
      refine ⟨hT.setFac_clr isA _, fun r hr => ?_⟩
      rw [hcs, hc1 r hr, hp]
      have hr0 : r = 0 := by omega
      have : bAt (some vals) r = vals.head? := by
        subst hr0
        cases vals with
        | nil => simp at hvl; omega
        | cons a t => simp [bAt]
      rw [this]
      exact (hC r hr).setFac_clr isA _
    · rw [if_neg hw]
      have hw' : c.world ≠ 1 := by simpa using hw
      obtain ⟨hd, hhit, hmiss⟩ := re.many hw'
      have hdefs : s2.defs = t.defs ++ [avgOf vals] := by
        rw [hd, e1.same.defs, h.defs]
        refine congrArg (fun x => t.defs ++ [avgOf x]) ?_
        rw [← range_map_getD vals V.zero, hvl]
        apply List.map_congr_left
        intro r hr
        have hr' : r < c.world := by simpa [worldRanks] using hr
        rw [hc1 r hr', facOf_setFac, hp]
        simp [bAt]
      refine h.layer (t' := Spec.setS { t with defs := t.defs ++ [avgOf vals] } l _) l
        (re.steps.trans (e1.same.steps.trans h.steps)) (re.mini.trans (e1.same.mini.trans h.mini))
        (re.pass.trans (e1.same.pass.trans h.pass)) (re.hyper.trans (e1.same.hyper.trans h.hyper))
        hdefs (re.outGrads.trans e1.same.outGrads) rfl re.shape (setS_len ..)
        (fun r l' hne => (hmiss r l' (fun k => hne k.2)).trans (e1.miss r l' (fun k => hne k.2)))
        (fun l' hne => getS_setS_ne _ _ hne) ?_
      intro _
      rw [LayRel, getS_setS_same (by exact htl)]
      refine ⟨hT.setFac_clr isA _, fun r hr => ?_⟩
      rw [hhit r l hr rfl, hc1 r hr, setFac_setFac, e1.same.defs, h.defs]
      exact (hC r hr).setFac_clr isA _

/-! ### `fwdBwd` -/

theorem foldl_rel {α} (R : St → Spec.SSt → Prop) (f : St → α → St) (g : Spec.SSt → α → Spec.SSt)
    (xs : List α) (hmono : ∀ s x, OK (f s x) → OK s)
    (hstep : ∀ s t x, x ∈ xs → R s t → OK (f s x) → R (f s x) (g t x))
    (s : St) (t : Spec.SSt) (h0 : R s t) (he : OK (xs.foldl f s)) : R (xs.foldl f s) (xs.foldl g t) := by
  induction xs generalizing s t with
  | nil => exact h0
  | cons a xs ih =>
    simp only [List.foldl_cons] at he ⊢
    have h1 : OK (f s a) := foldl_ok f hmono xs _ he
    exact ih (fun s t x hx => hstep s t x (by simp [hx])) _ _ (hstep s t a (by simp) h0 h1) he

theorem Rel.setMini {c s t} (h : Rel c s t) (m : List Nat) :
    Rel c { s with mini := m } { t with mini := m } :=
  ⟨h.steps, rfl, h.pass, h.hyper, h.defs, h.out, h.shape.of_ranks rfl, h.tlen, h.lay⟩

theorem Rel.incPass' {c s t} (h : Rel c s t) :
    Rel c { s with pass := s.pass + 1 } { t with pass := t.pass + 1 } :=
  ⟨h.steps, h.mini, by show s.pass + 1 = t.pass + 1; rw [h.pass], h.hyper, h.defs, h.out,
   h.shape.of_ranks rfl, h.tlen, h.lay⟩

def fwdStep (c : Cfg) (alpha : Rat) (s : St) (l : Nat) : St :=
  let s := forRanks c s fun s r => saveBatch s r l true
  let m := s.mini.getD l 0 + 1
  let s := { s with mini := s.mini.set l m }
  if c.hook && m % c.accum == 0 then
    let s := forRanks c s fun s r => updateFactor s r l true alpha
    reduceFactor c s l true
  else s

def bwdStep (c : Cfg) (alpha : Rat) (s : St) (l : Nat) : St :=
  let s := forRanks c s fun s r => saveBatch s r l false
  let m := s.mini.getD l 0
  if c.hook && m % c.accum == 0 then
    let s := forRanks c s fun s r => updateFactor s r l false alpha
    reduceFactor c s l false
  else s

def sFwdStep (c : Spec.SCfg) (alpha : Rat) (s : Spec.SSt) (l : Nat) : Spec.SSt :=
  let s := Spec.save c s l true
  let m := s.mini.getD l 0 + 1
  let s := { s with mini := s.mini.set l m }
  if c.hook && m % c.accum == 0 then Spec.updateReduce c s l true alpha else s

def sBwdStep (c : Spec.SCfg) (alpha : Rat) (s : Spec.SSt) (l : Nat) : Spec.SSt :=
  let s := Spec.save c s l false
  let m := s.mini.getD l 0
  if c.hook && m % c.accum == 0 then Spec.updateReduce c s l false alpha else s

def incPass (s : St) : St := { s with pass := s.pass + 1 }
def sIncPass (s : Spec.SSt) : Spec.SSt := { s with pass := s.pass + 1 }

theorem fwdBwd_eq (c : Cfg) (s : St) (train : Bool) :
    Precond.fwdBwd c s train =
      if !train then s else
      if s.steps % s.hyper.fus.val s.steps != 0 then incPass s else
      incPass ((revLayers c).foldl (bwdStep c (s.hyper.decay.val s.steps))
        ((layerIdxs c).foldl (fwdStep c (s.hyper.decay.val s.steps)) s)) := rfl

theorem sFwdBwd_eq (c : Spec.SCfg) (s : Spec.SSt) (train : Bool) :
    Spec.fwdBwd c s train =
      if !train then s else
      if s.steps % s.hyper.fus.val s.steps != 0 then sIncPass s else
      sIncPass ((Spec.revIdxs c).foldl (sBwdStep c (s.hyper.decay.val s.steps))
        ((Spec.idxs c).foldl (sFwdStep c (s.hyper.decay.val s.steps)) s)) := rfl

theorem ok_of_err_eq {s s' : St} (e : s'.err = s.err) (h : OK s') : OK s := by
  rw [OK, ← e]; exact h

theorem fwdStep_ok {c α s l} (he : OK (fwdStep c α s l)) : OK s := by
  unfold fwdStep at he
  simp only [] at he
  split at he
  · have := reduceFactor_ok he
    rw [OK, updateAll_err] at this
    exact ok_of_err_eq (saveAll_err c s l true) this
  · exact ok_of_err_eq (saveAll_err c s l true) he

theorem bwdStep_ok {c α s l} (he : OK (bwdStep c α s l)) : OK s := by
  unfold bwdStep at he
  simp only [] at he
  split at he
  · have := reduceFactor_ok he
    rw [OK, updateAll_err] at this
    exact ok_of_err_eq (saveAll_err c s l false) this
  · exact ok_of_err_eq (saveAll_err c s l false) he

theorem fwdStep_rel {c s t} (hw0 : 0 < c.world) (α : Rat) {l : Nat} (hl : l < c.layers.length)
    (h : Rel c s t) (he : OK (fwdStep c α s l)) :
    Rel c (fwdStep c α s l) (sFwdStep (Spec.ofCfg c) α t l) := by
  unfold fwdStep at he ⊢
  unfold sFwdStep
  have h1 := saveAll_rel h hl true
  generalize forRanks c s (fun s r => saveBatch s r l true) = s1 at h1 he ⊢
  generalize Spec.save (Spec.ofCfg c) t l true = t1 at h1 ⊢
  simp only [] at he ⊢
  rw [← h1.mini]
  have h2 := h1.setMini (s1.mini.set l (s1.mini.getD l 0 + 1))
  show Rel c (if (c.hook && (s1.mini.getD l 0 + 1) % c.accum == 0) = true then _ else _)
    (if (c.hook && (s1.mini.getD l 0 + 1) % c.accum == 0) = true then _ else _)
  by_cases hc : (c.hook && (s1.mini.getD l 0 + 1) % c.accum == 0) = true
  · rw [if_pos hc] at he
    rw [if_pos hc, if_pos hc]
    exact updRed_rel hw0 h2 hl true α he
  · rw [if_neg hc, if_neg hc]
    exact h2

theorem bwdStep_rel {c s t} (hw0 : 0 < c.world) (α : Rat) {l : Nat} (hl : l < c.layers.length)
    (h : Rel c s t) (he : OK (bwdStep c α s l)) :
    Rel c (bwdStep c α s l) (sBwdStep (Spec.ofCfg c) α t l) := by
  unfold bwdStep at he ⊢
  unfold sBwdStep
  have h1 := saveAll_rel h hl false
  generalize forRanks c s (fun s r => saveBatch s r l false) = s1 at h1 he ⊢
  generalize Spec.save (Spec.ofCfg c) t l false = t1 at h1 ⊢
  simp only [] at he ⊢
  rw [← h1.mini]
  show Rel c (if (c.hook && (s1.mini.getD l 0) % c.accum == 0) = true then _ else _)
    (if (c.hook && (s1.mini.getD l 0) % c.accum == 0) = true then _ else _)
  by_cases hc : (c.hook && (s1.mini.getD l 0) % c.accum == 0) = true
  · rw [if_pos hc] at he
    rw [if_pos hc, if_pos hc]
    exact updRed_rel hw0 h1 hl false α he
  · rw [if_neg hc, if_neg hc]
    exact h1

theorem Rel.incPass {c s t} (h : Rel c s t) : Rel c (incPass s) (sIncPass t) := h.incPass'

theorem fwdBwd_rel {c s t} (hw0 : 0 < c.world) (h : Rel c s t) (train : Bool)
    (he : OK (Precond.fwdBwd c s train)) :
    Rel c (Precond.fwdBwd c s train) (Spec.fwdBwd (Spec.ofCfg c) t train) := by
  rw [fwdBwd_eq] at he ⊢
  rw [sFwdBwd_eq]
  have hα : t.hyper.decay.val t.steps = s.hyper.decay.val s.steps := by rw [h.steps, h.hyper]
  have hfus : (t.steps % t.hyper.fus.val t.steps != 0) = (s.steps % s.hyper.fus.val s.steps != 0) := by
    rw [h.steps, h.hyper]
  rw [hα, hfus]
  by_cases ht : (!train) = true
  · rw [if_pos ht, if_pos ht]; exact h
  rw [if_neg ht] at he
  rw [if_neg ht, if_neg ht]
  by_cases hf : (s.steps % s.hyper.fus.val s.steps != 0) = true
  · rw [if_pos hf, if_pos hf]; exact h.incPass
  rw [if_neg hf] at he
  rw [if_neg hf, if_neg hf]
  apply Rel.incPass
  have he' : OK ((revLayers c).foldl (bwdStep c (s.hyper.decay.val s.steps))
      ((layerIdxs c).foldl (fwdStep c (s.hyper.decay.val s.steps)) s)) := he
  have he1 := foldl_ok _ (fun s x => bwdStep_ok) _ _ he'
  have e1 : Spec.revIdxs (Spec.ofCfg c) = revLayers c := rfl
  have e2 : Spec.idxs (Spec.ofCfg c) = layerIdxs c := rfl
  rw [e1, e2]
  refine foldl_rel (Rel c) (bwdStep c (s.hyper.decay.val s.steps)) (sBwdStep (Spec.ofCfg c) (s.hyper.decay.val s.steps)) (revLayers c) (fun s x => bwdStep_ok)
    (fun s t l hl h he => bwdStep_rel hw0 _ (mem_revLayers.mp hl) h he) _ _ ?_ he'
  exact foldl_rel (Rel c) (fwdStep c (s.hyper.decay.val s.steps)) (sFwdStep (Spec.ofCfg c) (s.hyper.decay.val s.steps)) (layerIdxs c) (fun s x => fwdStep_ok)
    (fun s t l hl h he => fwdStep_rel hw0 _ (mem_layerIdxs.mp hl) h he) _ _ h he1
end KV.Refine
