/-
Refinement Precond ⟶ Spec, part 4: effects of the second-order primitives (`computeAInv`,
`computeGInv`, `bcastField`, `broadcastAInv`, `broadcastGInv`).  Core Lean only.
-/
import KfacVerif.Lemmas.Refine3
namespace KV.Refine
open KV KV.Precond

def gCA (m : Method) (d : Rat) (v : LV) : LV :=
  match m with
  | .eigen => { v with qa := some (.eigQ (v.aFactor.getD .zero)), da := some (.eigD (v.aFactor.getD .zero)) }
  | .inverse => { v with aInv := some (.inv (v.aFactor.getD .zero) d) }

def gCG (m : Method) (prediv : Bool) (d : Rat) (v : LV) : LV :=
  match m with
  | .eigen =>
    if prediv then
      { v with qg := some (.eigQ (v.gFactor.getD .zero)),
               dgda := some (.outerInv (.eigD (v.gFactor.getD .zero)) (v.da.getD .garbage) d),
               dg := none, da := none }
    else { v with qg := some (.eigQ (v.gFactor.getD .zero)), dg := some (.eigD (v.gFactor.getD .zero)) }
  | .inverse => { v with gInv := some (.inv (v.gFactor.getD .zero) d) }

theorem computeAInv_ok {c s r l d} (he : OK (computeAInv c s r l d)) : OK s := by
  unfold computeAInv at he
  simp only [readSlot_eq] at he
  split at he
  · simp at he
  · split at he <;> exact he

theorem computeAInv_eff {c s} (hs : Shape c s) {r l : Nat} (hr : r < c.world) (hl : l < c.layers.length)
    (d : Rat) (he : OK (computeAInv c s r l d)) :
    Eff c s (computeAInv c s r l d) (fun r' l' => r' = r ∧ l' = l) (fun _ _ => gCA c.method d) := by
  unfold computeAInv at he ⊢
  simp only [readSlot_eq] at he ⊢
  split
  · rename_i h; rw [if_pos h] at he; simp at he
  · cases hm : c.method
    · simp only []
      apply Eff.setL_tch hs hr hl
      simp [lv, cell, gCA]
    · simp only []
      apply Eff.setL_tch hs hr hl
      simp [lv, cell, gCA]

theorem computeGInv_ok {c s r l d} (he : OK (computeGInv c s r l d)) : OK s := by
  unfold computeGInv at he
  simp only [readSlot_eq] at he
  split at he
  · simp at he
  · cases hm : c.method <;> simp only [hm] at he
    · split at he
      · simp at he
      · split at he <;> exact he
    · exact he

theorem computeGInv_eff {c s} (hs : Shape c s) {r l : Nat} (hr : r < c.world) (hl : l < c.layers.length)
    (d : Rat) (he : OK (computeGInv c s r l d)) :
    Eff c s (computeGInv c s r l d) (fun r' l' => r' = r ∧ l' = l) (fun _ _ => gCG c.method c.prediv d) := by
  unfold computeGInv at he ⊢
  simp only [readSlot_eq] at he ⊢
  split
  · rename_i h; rw [if_pos h] at he; simp at he
  · rename_i h
    rw [if_neg h] at he
    cases hm : c.method <;> simp only [hm] at he ⊢
    · split
      · rename_i h2; rw [if_pos h2] at he; simp at he
      · cases hp : c.prediv <;> simp only [Bool.false_eq_true, if_false, if_true]
        · apply Eff.setL_tch hs hr hl
          simp [lv, cell, gCG]
        · apply Eff.setL_tch hs hr hl
          simp [lv, cell, gCG]
    · apply Eff.setL_tch hs hr hl
      simp [lv, cell, gCG]

/-! ### `bcastField` -/

theorem bcastField_err (c s l src elems get set) : (bcastField c s l src elems get set).err = s.err := by
  unfold bcastField
  simp only [issue_eq]
  split
  · rfl
  · rw [foldl_err_eq]
    · rfl
    · intro s r; rfl

theorem bcastField_one {c : Cfg} {l : Nat} (h1 : (c.asg.workers l).length = 1) (s src elems get set) :
    bcastField c s l src elems get set = s := by
  unfold bcastField
  simp [h1]

theorem bcastField_eff {c s} (hs : Shape c s) {l : Nat} (hl : l < c.layers.length)
    (hmem : ∀ r, r ∈ c.asg.workers l → r < c.world) (h1 : (c.asg.workers l).length ≠ 1)
    (src elems : Nat) (get : LState → Option Slot) (set : LState → Option Slot → LState)
    (getV : LV → Option V) (setV : LV → Option V → LV)
    (hget : ∀ x, sv (get x) = getV (lv x)) (hset : ∀ x o, lv (set x o) = setV (lv x) (sv o))
    (hidem : ∀ v o, setV (setV v o) o = setV v o) :
    Eff c s (bcastField c s l src elems get set) (fun r' l' => r' ∈ c.asg.workers l ∧ l' = l)
      (fun _ _ v => setV v (some ((getV (cell s src l)).getD .garbage))) := by
  unfold bcastField
  simp only [issue_eq]
  have h1' : ¬ ((c.asg.workers l).length == 1) = true := by simpa using h1
  rw [if_neg h1']
  have hsh := shape_tch hs (GAct.issue (c.asg.workers l)
      { kind := Kind.broadcast, elems := elems, esize := c.ie, root := src } :: s.script) (s.nIssued + 1)
  have e := foldl_effT c
    (fun s_1 r => setL s_1 r l (set (getL s_1 r l)
      (some { val := (Option.map (fun x => x.val) (get (getL s src l))).getD V.garbage, pend := Pend.issued s.nIssued })))
    (fun x r' l' => r' = x ∧ l' = l)
    (fun _ _ v => setV v (some ((getV (cell s src l)).getD .garbage))) (c.asg.workers l) _
    (Or.inl (fun _ _ v => hidem v _))
    (fun s' x hx _ hsh' => by
      apply Eff.setL hsh' (hmem x hx) hl
      rw [hset]
      show setV _ (some ((sv (get (getL s src l))).getD V.garbage)) = _
      rw [hget]; rfl) hsh
  refine ⟨(same_tch ..).trans e.same, e.shape, ?_, ?_⟩
  · rintro r' l' ⟨h1, h2⟩
    rw [e.hit r' l' ⟨r', h1, rfl, h2⟩, cell_tch]
  · intro r' l' hk
    rw [e.miss r' l' (fun ⟨x, hx, h1, h2⟩ => hk ⟨h1 ▸ hx, h2⟩), cell_tch]

/-! ### receive-buffer allocation before the inverse broadcasts -/

def allocAE (c : Cfg) (l src : Nat) (s : St) (r : Nat) : St :=
  let x := getL s r l
  let (s, qa) := readSlot s r x.qa
  let x := { getL s r l with qa := qa }
  let (s, da) := if qa.isSome && !c.prediv then readSlot s r x.da else (s, x.da)
  let x := { getL s r l with qa := qa, da := da }
  if qa.isNone || (!c.prediv && da.isNone) then
    if r == src then fail s r "broadcast A inv from src that has not computed it" else
    let (s, af) := readSlot s r x.aFactor
    let x := { getL s r l with qa := qa, da := da, aFactor := af }
    if af.isNone then fail s r "a_factor is None when allocating the receive buffer" else
    setL s r l { x with qa := some ⟨.garbage, .ready⟩, da := some ⟨.garbage, .ready⟩ }
  else setL s r l x

def allocAI (l src : Nat) (s : St) (r : Nat) : St :=
  let x := getL s r l
  let (s, ai) := readSlot s r x.aInv
  let x := { getL s r l with aInv := ai }
  if ai.isNone then
    if r == src then fail s r "broadcast A inv from src that has not computed it" else
    let (s, af) := readSlot s r x.aFactor
    let x := { getL s r l with aInv := ai, aFactor := af }
    if af.isNone then fail s r "a_factor is None when allocating the receive buffer" else
    setL s r l { x with aInv := some ⟨.garbage, .ready⟩ }
  else setL s r l x

theorem broadcastAInv_eq (c : Cfg) (s : St) (l : Nat) :
    broadcastAInv c s l =
      match c.method with
      | .eigen =>
        let s := (c.asg.workers l).foldl (allocAE c l (c.asg.invA l)) s
        let s := bcastField c s l (c.asg.invA l) ((c.layers.getD l ⟨0, 0⟩).aDim * (c.layers.getD l ⟨0, 0⟩).aDim)
          (·.qa) (fun x v => { x with qa := v })
        if c.prediv then s else
          bcastField c s l (c.asg.invA l) (c.layers.getD l ⟨0, 0⟩).aDim (·.da) (fun x v => { x with da := v })
      | .inverse =>
        let s := (c.asg.workers l).foldl (allocAI l (c.asg.invA l)) s
        bcastField c s l (c.asg.invA l) (triElems (c.layers.getD l ⟨0, 0⟩).aDim c.symAware)
          (·.aInv) (fun x v => { x with aInv := v }) := rfl

def allocGE (c : Cfg) (l src : Nat) (s : St) (r : Nat) : St :=
  let x := getL s r l
  let (s, qg) := readSlot s r x.qg
  let x := { getL s r l with qg := qg }
  let (s, dg) := if qg.isSome && !c.prediv then readSlot s r x.dg else (s, x.dg)
  let x := { getL s r l with qg := qg, dg := dg }
  let (s, dgda) := if qg.isSome && c.prediv then readSlot s r x.dgda else (s, x.dgda)
  let x := { getL s r l with qg := qg, dg := dg, dgda := dgda }
  if qg.isNone || (!c.prediv && dg.isNone) || (c.prediv && dgda.isNone) then
    if r == src then fail s r "broadcast G inv from src that has not computed it" else
    let (s, gf) := readSlot s r x.gFactor
    let x := { getL s r l with qg := qg, dg := dg, dgda := dgda, gFactor := gf }
    if gf.isNone then fail s r "g_factor is None when allocating the receive buffer" else
    if c.prediv then
      let (s, af) := readSlot s r x.aFactor
      let x := { getL s r l with qg := qg, dg := dg, dgda := dgda, gFactor := gf, aFactor := af }
      if af.isNone then fail s r "a_factor is None when allocating the receive buffer" else
      setL s r l { x with qg := some ⟨.garbage, .ready⟩, dgda := some ⟨.garbage, .ready⟩ }
    else setL s r l { x with qg := some ⟨.garbage, .ready⟩, dg := some ⟨.garbage, .ready⟩ }
  else setL s r l x

def allocGI (l src : Nat) (s : St) (r : Nat) : St :=
  let x := getL s r l
  let (s, gi) := readSlot s r x.gInv
  let x := { getL s r l with gInv := gi }
  if gi.isNone then
    if r == src then fail s r "broadcast G inv from src that has not computed it" else
    let (s, gf) := readSlot s r x.gFactor
    let x := { getL s r l with gInv := gi, gFactor := gf }
    if gf.isNone then fail s r "g_factor is None when allocating the receive buffer" else
    setL s r l { x with gInv := some ⟨.garbage, .ready⟩ }
  else setL s r l x

theorem broadcastGInv_eq (c : Cfg) (s : St) (l : Nat) :
    broadcastGInv c s l =
      match c.method with
      | .eigen =>
        let s := (c.asg.workers l).foldl (allocGE c l (c.asg.invG l)) s
        let s := bcastField c s l (c.asg.invG l) ((c.layers.getD l ⟨0, 0⟩).gDim * (c.layers.getD l ⟨0, 0⟩).gDim)
          (·.qg) (fun x v => { x with qg := v })
        if c.prediv then
          bcastField c s l (c.asg.invG l) ((c.layers.getD l ⟨0, 0⟩).gDim * (c.layers.getD l ⟨0, 0⟩).aDim)
            (·.dgda) (fun x v => { x with dgda := v })
        else bcastField c s l (c.asg.invG l) (c.layers.getD l ⟨0, 0⟩).gDim (·.dg) (fun x v => { x with dg := v })
      | .inverse =>
        let s := (c.asg.workers l).foldl (allocGI l (c.asg.invG l)) s
        bcastField c s l (c.asg.invG l) (triElems (c.layers.getD l ⟨0, 0⟩).gDim c.symAware)
          (·.gInv) (fun x v => { x with gInv := v }) := rfl

def gAllocAE (prediv : Bool) (v : LV) : LV :=
  if v.qa = none ∨ (prediv = false ∧ v.da = none) then { v with qa := some .garbage, da := some .garbage } else v

def gAllocAI (v : LV) : LV := if v.aInv = none then { v with aInv := some .garbage } else v

def gAllocGE (prediv : Bool) (v : LV) : LV :=
  if v.qg = none ∨ (prediv = false ∧ v.dg = none) ∨ (prediv = true ∧ v.dgda = none) then
    (if prediv then { v with qg := some .garbage, dgda := some .garbage }
     else { v with qg := some .garbage, dg := some .garbage })
  else v

def gAllocGI (v : LV) : LV := if v.gInv = none then { v with gInv := some .garbage } else v

theorem allocAE_ok {c l src s r} (he : OK (allocAE c l src s r)) : OK s := by
  unfold allocAE at he
  norm_reads at he
  repeat' split at he
  all_goals first | exact he | (simp at he)

theorem allocAE_eff {c s} (hs : Shape c s) {r l : Nat} (hr : r < c.world) (hl : l < c.layers.length)
    (src : Nat) (he : OK (allocAE c l src s r)) :
    Eff c s (allocAE c l src s r) (fun r' l' => r' = r ∧ l' = l) (fun _ _ => gAllocAE c.prediv) := by
  revert he
  unfold allocAE
  norm_reads
  step_leaves hs hr hl [gAllocAE]

theorem allocAI_ok {l src s r} (he : OK (allocAI l src s r)) : OK s := by
  unfold allocAI at he
  norm_reads at he
  repeat' split at he
  all_goals first | exact he | (simp at he)

theorem allocAI_eff {c s} (hs : Shape c s) {r l : Nat} (hr : r < c.world) (hl : l < c.layers.length)
    (src : Nat) (he : OK (allocAI l src s r)) :
    Eff c s (allocAI l src s r) (fun r' l' => r' = r ∧ l' = l) (fun _ _ => gAllocAI) := by
  revert he
  unfold allocAI
  norm_reads
  step_leaves hs hr hl [gAllocAI]

theorem allocGE_ok {c l src s r} (he : OK (allocGE c l src s r)) : OK s := by
  unfold allocGE at he
  norm_reads at he
  repeat' split at he
  all_goals first | exact he | (simp at he)

theorem allocGE_eff {c s} (hs : Shape c s) {r l : Nat} (hr : r < c.world) (hl : l < c.layers.length)
    (src : Nat) (he : OK (allocGE c l src s r)) :
    Eff c s (allocGE c l src s r) (fun r' l' => r' = r ∧ l' = l) (fun _ _ => gAllocGE c.prediv) := by
  revert he
  unfold allocGE
  norm_reads
  step_leaves hs hr hl [gAllocGE]

theorem allocGI_ok {l src s r} (he : OK (allocGI l src s r)) : OK s := by
  unfold allocGI at he
  norm_reads at he
  repeat' split at he
  all_goals first | exact he | (simp at he)

theorem allocGI_eff {c s} (hs : Shape c s) {r l : Nat} (hr : r < c.world) (hl : l < c.layers.length)
    (src : Nat) (he : OK (allocGI l src s r)) :
    Eff c s (allocGI l src s r) (fun r' l' => r' = r ∧ l' = l) (fun _ _ => gAllocGI) := by
  revert he
  unfold allocGI
  norm_reads
  step_leaves hs hr hl [gAllocGI]

/-! ### the inverse broadcasts -/

theorem gAllocAE_idem (p v) : gAllocAE p (gAllocAE p v) = gAllocAE p v := by
  unfold gAllocAE; split <;> simp_all

theorem gAllocAI_idem (v) : gAllocAI (gAllocAI v) = gAllocAI v := by
  unfold gAllocAI; split <;> simp_all

theorem gAllocGE_idem (p v) : gAllocGE p (gAllocGE p v) = gAllocGE p v := by
  unfold gAllocGE; cases p <;> simp <;> split <;> simp_all

theorem gAllocGI_idem (v) : gAllocGI (gAllocGI v) = gAllocGI v := by
  unfold gAllocGI; split <;> simp_all

/-- what the members of the layer's worker group hold after `broadcast_a_inv` -/
def bcA (m : Method) (p : Bool) (root v : LV) : LV :=
  match m with
  | .eigen => if p then { v with qa := root.qa, da := if v.qa = none then some .garbage else v.da }
              else { v with qa := root.qa, da := root.da }
  | .inverse => { v with aInv := root.aInv }

/-- the root of `broadcast_a_inv` holds what it sends -/
def rootA (m : Method) (p : Bool) (root : LV) : Prop :=
  match m with
  | .eigen => root.qa ≠ none ∧ (p = false → root.da ≠ none)
  | .inverse => root.aInv ≠ none

def bcG (m : Method) (p : Bool) (root v : LV) : LV :=
  match m with
  | .eigen => if p then { v with qg := root.qg, dgda := root.dgda } else { v with qg := root.qg, dg := root.dg }
  | .inverse => { v with gInv := root.gInv }

def rootG (m : Method) (p : Bool) (root : LV) : Prop :=
  match m with
  | .eigen => root.qg ≠ none ∧ (p = false → root.dg ≠ none) ∧ (p = true → root.dgda ≠ none)
  | .inverse => root.gInv ≠ none

theorem listFold_eff {c s} (hs : Shape c s) {l : Nat} (ms : List Nat)
    (hmem : ∀ r, r ∈ ms → r < c.world) (f : St → Nat → St) (g : LV → LV)
    (hidem : ∀ v, g (g v) = g v) (hok : ∀ s r, OK (f s r) → OK s)
    (heff : ∀ s' r, Same s s' → Shape c s' → r < c.world → OK (f s' r) →
      Eff c s' (f s' r) (fun r' l' => r' = r ∧ l' = l) (fun _ _ => g))
    (he : OK (ms.foldl f s)) :
    Eff c s (ms.foldl f s) (fun r' l' => r' ∈ ms ∧ l' = l) (fun _ _ => g) := by
  have e := foldl_eff c f (fun x r' l' => r' = x ∧ l' = l) (fun _ _ => g) ms s
    (Or.inl (fun _ _ v => hidem v)) hok
    (fun s' x hx hsm hsh hok' => heff s' x hsm hsh (hmem x hx) hok') hs he
  refine e.congrK (fun r' l' => ⟨?_, ?_⟩)
  · rintro ⟨x, hx, rfl, h2⟩; exact ⟨hx, h2⟩
  · rintro ⟨h1, h2⟩; exact ⟨r', h1, rfl, h2⟩

theorem allocFold_eff {c s} (hs : Shape c s) {l : Nat} (_hl : l < c.layers.length)
    (hmem : ∀ r, r ∈ c.asg.workers l → r < c.world) (f : St → Nat → St) (g : LV → LV)
    (hidem : ∀ v, g (g v) = g v) (hok : ∀ s r, OK (f s r) → OK s)
    (heff : ∀ s r, Shape c s → r < c.world → OK (f s r) →
      Eff c s (f s r) (fun r' l' => r' = r ∧ l' = l) (fun _ _ => g))
    (he : OK ((c.asg.workers l).foldl f s)) :
    Eff c s ((c.asg.workers l).foldl f s) (fun r' l' => r' ∈ c.asg.workers l ∧ l' = l) (fun _ _ => g) :=
  listFold_eff hs (c.asg.workers l) hmem f g hidem hok (fun s' r _ => heff s' r) he

theorem some_getD_of_ne_none {o : Option V} (h : o ≠ none) (d : V) : some (o.getD d) = o := by
  cases o with
  | none => exact absurd rfl h
  | some x => rfl

theorem eq_of_mem_len1 {l : List Nat} (h1 : l.length = 1) {a b : Nat} (ha : a ∈ l) (hb : b ∈ l) : a = b := by
  match l, h1 with
  | [x], _ => simp at ha hb; rw [ha, hb]

theorem broadcastAInv_ok {c s l} (he : OK (broadcastAInv c s l)) : OK s := by
  rw [broadcastAInv_eq] at he
  cases hm : c.method <;> simp only [hm] at he
  · have h1 : OK ((c.asg.workers l).foldl (allocAE c l (c.asg.invA l)) s) := by
      split at he
      · rwa [OK, bcastField_err] at he
      · rwa [OK, bcastField_err, bcastField_err] at he
    exact foldl_ok _ (fun s r => allocAE_ok) _ _ h1
  · rw [OK, bcastField_err] at he
    exact foldl_ok _ (fun s r => allocAI_ok) _ _ he

theorem broadcastGInv_ok {c s l} (he : OK (broadcastGInv c s l)) : OK s := by
  rw [broadcastGInv_eq] at he
  cases hm : c.method <;> simp only [hm] at he
  · have h1 : OK ((c.asg.workers l).foldl (allocGE c l (c.asg.invG l)) s) := by
      split at he
      · rwa [OK, bcastField_err, bcastField_err] at he
      · rwa [OK, bcastField_err, bcastField_err] at he
    exact foldl_ok _ (fun s r => allocGE_ok) _ _ h1
  · rw [OK, bcastField_err] at he
    exact foldl_ok _ (fun s r => allocGI_ok) _ _ he

theorem broadcastAInv_eff {c s} (hs : Shape c s) {l : Nat} (hl : l < c.layers.length)
    (hmem : ∀ r, r ∈ c.asg.workers l → r < c.world) (ha : c.asg.invA l ∈ c.asg.workers l)
    (hroot : rootA c.method c.prediv (cell s (c.asg.invA l) l)) (he : OK (broadcastAInv c s l)) :
    Eff c s (broadcastAInv c s l) (fun r' l' => r' ∈ c.asg.workers l ∧ l' = l)
      (fun _ _ v => bcA c.method c.prediv (cell s (c.asg.invA l) l) v) := by
  rw [broadcastAInv_eq] at he ⊢
  cases hm : c.method <;> simp only [hm] at he ⊢ <;> simp only [hm, rootA] at hroot
  · -- eigen
    have h1 : OK ((c.asg.workers l).foldl (allocAE c l (c.asg.invA l)) s) := by
      split at he
      · rwa [OK, bcastField_err] at he
      · rwa [OK, bcastField_err, bcastField_err] at he
    have e1 := allocFold_eff hs hl hmem (allocAE c l (c.asg.invA l)) (gAllocAE c.prediv)
      (gAllocAE_idem _) (fun s r => allocAE_ok) (fun s r hsh hr hk => allocAE_eff hsh hr hl _ hk) h1
    generalize (c.asg.workers l).foldl (allocAE c l (c.asg.invA l)) s = s1 at e1 ⊢
    have hr1 : cell s1 (c.asg.invA l) l = cell s (c.asg.invA l) l := by
      rw [e1.hit _ _ ⟨ha, rfl⟩]
      unfold gAllocAE
      rw [if_neg]
      rintro (h | ⟨h1, h2⟩)
      · exact hroot.1 h
      · exact hroot.2 h1 h2
    by_cases hlen : (c.asg.workers l).length = 1
    · rw [bcastField_one hlen, bcastField_one hlen]
      simp only [ite_self]
      refine e1.congrG ?_
      rintro r l' ⟨hr, hl'⟩
      subst l'
      have : r = c.asg.invA l := eq_of_mem_len1 hlen hr ha
      subst this
      rw [← e1.hit _ _ ⟨ha, rfl⟩, hr1]
      cases hp : c.prediv <;> simp only [bcA, Bool.false_eq_true, if_false, if_true]
      all_goals first | rfl | simp [hroot.1]
    · have e2 := bcastField_eff e1.shape hl hmem hlen (c.asg.invA l)
        ((c.layers.getD l ⟨0, 0⟩).aDim * (c.layers.getD l ⟨0, 0⟩).aDim)
        (·.qa) (fun x v => { x with qa := v }) (·.qa) (fun v o => { v with qa := o })
        (fun _ => rfl) (fun _ _ => rfl) (fun _ _ => rfl)
      rw [hr1, some_getD_of_ne_none hroot.1] at e2
      generalize bcastField c s1 l (c.asg.invA l) _ (·.qa) (fun x v => { x with qa := v }) = s2 at e2 ⊢
      cases hp : c.prediv <;> simp only [Bool.false_eq_true, if_false, if_true]
      · have hr2 : (cell s2 (c.asg.invA l) l).da = (cell s (c.asg.invA l) l).da := by
          rw [e2.hit _ _ ⟨ha, rfl⟩, hr1]
        have e3 := bcastField_eff e2.shape hl hmem hlen (c.asg.invA l) (c.layers.getD l ⟨0, 0⟩).aDim
          (·.da) (fun x v => { x with da := v }) (·.da) (fun v o => { v with da := o })
          (fun _ => rfl) (fun _ _ => rfl) (fun _ _ => rfl)
        rw [hr2, some_getD_of_ne_none (hroot.2 hp)] at e3
        refine ((e1.comp e2).comp e3).congrG ?_
        rintro r l' ⟨hr, hl'⟩
        subst l'
        simp only [bcA, hp, Bool.false_eq_true, if_false, gAllocAE]
        split <;> rfl
      · refine (e1.comp e2).congrG ?_
        rintro r l' ⟨hr, hl'⟩
        subst l'
        simp only [bcA, hp, if_true, gAllocAE]
        split
        · rename_i h
          have hq : (cell s r l).qa = none := by simpa using h
          simp [hq]
        · rename_i h
          have hq : ¬ (cell s r l).qa = none := by simpa using h
          simp [hq]
  · -- inverse
    rw [OK, bcastField_err] at he
    have e1 := allocFold_eff hs hl hmem (allocAI l (c.asg.invA l)) gAllocAI
      gAllocAI_idem (fun s r => allocAI_ok) (fun s r hsh hr hk => allocAI_eff hsh hr hl _ hk) he
    generalize (c.asg.workers l).foldl (allocAI l (c.asg.invA l)) s = s1 at e1 ⊢
    have hr1 : cell s1 (c.asg.invA l) l = cell s (c.asg.invA l) l := by
      rw [e1.hit _ _ ⟨ha, rfl⟩]
      unfold gAllocAI
      rw [if_neg hroot]
    by_cases hlen : (c.asg.workers l).length = 1
    · rw [bcastField_one hlen]
      refine e1.congrG ?_
      rintro r l' ⟨hr, hl'⟩
      subst l'
      have : r = c.asg.invA l := eq_of_mem_len1 hlen hr ha
      subst this
      rw [← e1.hit _ _ ⟨ha, rfl⟩, hr1]
      rfl
    · have e2 := bcastField_eff e1.shape hl hmem hlen (c.asg.invA l)
        (triElems (c.layers.getD l ⟨0, 0⟩).aDim c.symAware)
        (·.aInv) (fun x v => { x with aInv := v }) (·.aInv) (fun v o => { v with aInv := o })
        (fun _ => rfl) (fun _ _ => rfl) (fun _ _ => rfl)
      rw [hr1, some_getD_of_ne_none hroot] at e2
      refine (e1.comp e2).congrG ?_
      rintro r l' ⟨hr, hl'⟩
      subst l'
      simp only [bcA, gAllocAI]
      split <;> rfl

theorem broadcastGInv_eff {c s} (hs : Shape c s) {l : Nat} (hl : l < c.layers.length)
    (hmem : ∀ r, r ∈ c.asg.workers l → r < c.world) (ha : c.asg.invG l ∈ c.asg.workers l)
    (hroot : rootG c.method c.prediv (cell s (c.asg.invG l) l)) (he : OK (broadcastGInv c s l)) :
    Eff c s (broadcastGInv c s l) (fun r' l' => r' ∈ c.asg.workers l ∧ l' = l)
      (fun _ _ v => bcG c.method c.prediv (cell s (c.asg.invG l) l) v) := by
  rw [broadcastGInv_eq] at he ⊢
  cases hm : c.method <;> simp only [hm] at he ⊢ <;> simp only [hm, rootG] at hroot
  · -- eigen
    have h1 : OK ((c.asg.workers l).foldl (allocGE c l (c.asg.invG l)) s) := by
      split at he
      · rwa [OK, bcastField_err, bcastField_err] at he
      · rwa [OK, bcastField_err, bcastField_err] at he
    have e1 := allocFold_eff hs hl hmem (allocGE c l (c.asg.invG l)) (gAllocGE c.prediv)
      (gAllocGE_idem _) (fun s r => allocGE_ok) (fun s r hsh hr hk => allocGE_eff hsh hr hl _ hk) h1
    generalize (c.asg.workers l).foldl (allocGE c l (c.asg.invG l)) s = s1 at e1 ⊢
    have hr1 : cell s1 (c.asg.invG l) l = cell s (c.asg.invG l) l := by
      rw [e1.hit _ _ ⟨ha, rfl⟩]
      unfold gAllocGE
      rw [if_neg]
      rintro (h | ⟨h1, h2⟩ | ⟨h1, h2⟩)
      · exact hroot.1 h
      · exact hroot.2.1 h1 h2
      · exact hroot.2.2 h1 h2
    by_cases hlen : (c.asg.workers l).length = 1
    · rw [bcastField_one hlen, bcastField_one hlen, bcastField_one hlen]
      simp only [ite_self]
      refine e1.congrG ?_
      rintro r l' ⟨hr, hl'⟩
      subst l'
      have : r = c.asg.invG l := eq_of_mem_len1 hlen hr ha
      subst this
      rw [← e1.hit _ _ ⟨ha, rfl⟩, hr1]
      cases hp : c.prediv <;> simp only [bcG, Bool.false_eq_true, if_false, if_true]
    · have e2 := bcastField_eff e1.shape hl hmem hlen (c.asg.invG l)
        ((c.layers.getD l ⟨0, 0⟩).gDim * (c.layers.getD l ⟨0, 0⟩).gDim)
        (·.qg) (fun x v => { x with qg := v }) (·.qg) (fun v o => { v with qg := o })
        (fun _ => rfl) (fun _ _ => rfl) (fun _ _ => rfl)
      rw [hr1, some_getD_of_ne_none hroot.1] at e2
      generalize bcastField c s1 l (c.asg.invG l) _ (·.qg) (fun x v => { x with qg := v }) = s2 at e2 ⊢
      cases hp : c.prediv <;> simp only [Bool.false_eq_true, if_false, if_true]
      · have hr2 : (cell s2 (c.asg.invG l) l).dg = (cell s (c.asg.invG l) l).dg := by
          rw [e2.hit _ _ ⟨ha, rfl⟩, hr1]
        have e3 := bcastField_eff e2.shape hl hmem hlen (c.asg.invG l) (c.layers.getD l ⟨0, 0⟩).gDim
          (·.dg) (fun x v => { x with dg := v }) (·.dg) (fun v o => { v with dg := o })
          (fun _ => rfl) (fun _ _ => rfl) (fun _ _ => rfl)
        rw [hr2, some_getD_of_ne_none (hroot.2.1 hp)] at e3
        refine ((e1.comp e2).comp e3).congrG ?_
        rintro r l' ⟨hr, hl'⟩
        subst l'
        simp only [bcG, hp, Bool.false_eq_true, if_false, gAllocGE]
        split <;> rfl
      · have hr2 : (cell s2 (c.asg.invG l) l).dgda = (cell s (c.asg.invG l) l).dgda := by
          rw [e2.hit _ _ ⟨ha, rfl⟩, hr1]
        have e3 := bcastField_eff e2.shape hl hmem hlen (c.asg.invG l)
          ((c.layers.getD l ⟨0, 0⟩).gDim * (c.layers.getD l ⟨0, 0⟩).aDim)
          (·.dgda) (fun x v => { x with dgda := v }) (·.dgda) (fun v o => { v with dgda := o })
          (fun _ => rfl) (fun _ _ => rfl) (fun _ _ => rfl)
        rw [hr2, some_getD_of_ne_none (hroot.2.2 hp)] at e3
        refine ((e1.comp e2).comp e3).congrG ?_
        rintro r l' ⟨hr, hl'⟩
        subst l'
        simp only [bcG, hp, if_true, gAllocGE]
        split <;> rfl
  · -- inverse
    rw [OK, bcastField_err] at he
    have e1 := allocFold_eff hs hl hmem (allocGI l (c.asg.invG l)) gAllocGI
      gAllocGI_idem (fun s r => allocGI_ok) (fun s r hsh hr hk => allocGI_eff hsh hr hl _ hk) he
    generalize (c.asg.workers l).foldl (allocGI l (c.asg.invG l)) s = s1 at e1 ⊢
    have hr1 : cell s1 (c.asg.invG l) l = cell s (c.asg.invG l) l := by
      rw [e1.hit _ _ ⟨ha, rfl⟩]
      unfold gAllocGI
      rw [if_neg hroot]
    by_cases hlen : (c.asg.workers l).length = 1
    · rw [bcastField_one hlen]
      refine e1.congrG ?_
      rintro r l' ⟨hr, hl'⟩
      subst l'
      have : r = c.asg.invG l := eq_of_mem_len1 hlen hr ha
      subst this
      rw [← e1.hit _ _ ⟨ha, rfl⟩, hr1]
      rfl
    · have e2 := bcastField_eff e1.shape hl hmem hlen (c.asg.invG l)
        (triElems (c.layers.getD l ⟨0, 0⟩).gDim c.symAware)
        (·.gInv) (fun x v => { x with gInv := v }) (·.gInv) (fun v o => { v with gInv := o })
        (fun _ => rfl) (fun _ _ => rfl) (fun _ _ => rfl)
      rw [hr1, some_getD_of_ne_none hroot] at e2
      refine (e1.comp e2).congrG ?_
      rintro r l' ⟨hr, hl'⟩
      subst l'
      simp only [bcG, gAllocGI]
      split <;> rfl

end KV.Refine
