/- Helper lemmas about KV.Alg (single Mathlib modules may be imported; never `import Mathlib`). -/
import KfacVerif.Model.Alg
import Mathlib.LinearAlgebra.Matrix.NonsingularInverse
import Mathlib.LinearAlgebra.Matrix.PosDef
import Mathlib.Analysis.Matrix.PosDef
import Mathlib.Data.Real.Basic
import Mathlib.Algebra.Order.Star.Real
import Mathlib.Algebra.BigOperators.Fin
import Mathlib.Tactic.FieldSimp
import Mathlib.Tactic.Ring

/-! ### generic matrix facts used by C01 -/

namespace KV.AlgBridge
open Matrix

section Generic
variable {K : Type*} [Field K] {m n : Type*} [Fintype m] [DecidableEq m] [Fintype n] [DecidableEq n]

/-- conjugating `G W A` by orthogonal bases -/
theorem conj_sandwich (Qg : Matrix m m K) (Qa : Matrix n n K) (dg : m → K) (da : n → K)
    (W : Matrix m n K) (hg' : Qgᵀ * Qg = 1) (ha' : Qaᵀ * Qa = 1) :
    (Qg * diagonal dg * Qgᵀ) * (Qg * W * Qaᵀ) * (Qa * diagonal da * Qaᵀ)
      = Qg * (diagonal dg * W * diagonal da) * Qaᵀ := by
  calc (Qg * diagonal dg * Qgᵀ) * (Qg * W * Qaᵀ) * (Qa * diagonal da * Qaᵀ)
      = Qg * (diagonal dg * ((Qgᵀ * Qg) * W * (Qaᵀ * Qa)) * diagonal da) * Qaᵀ := by
        simp only [Matrix.mul_assoc]
    _ = Qg * (diagonal dg * W * diagonal da) * Qaᵀ := by
        rw [hg', ha', Matrix.one_mul, Matrix.mul_one]

theorem unconj (Qg : Matrix m m K) (Qa : Matrix n n K) (D : Matrix m n K)
    (hg : Qg * Qgᵀ = 1) (ha : Qa * Qaᵀ = 1) : Qg * (Qgᵀ * D * Qa) * Qaᵀ = D := by
  calc Qg * (Qgᵀ * D * Qa) * Qaᵀ = (Qg * Qgᵀ) * D * (Qa * Qaᵀ) := by simp only [Matrix.mul_assoc]
    _ = D := by rw [hg, ha, Matrix.one_mul, Matrix.mul_one]

theorem diag_entry (dg : m → K) (da : n → K) (lam : K) (W : Matrix m n K) (i : m) (j : n) :
    (diagonal dg * W * diagonal da + lam • W) i j = (dg i * da j + lam) * W i j := by
  simp only [Matrix.add_apply, Matrix.mul_diagonal, Matrix.diagonal_mul, Matrix.smul_apply,
    smul_eq_mul]
  ring

/-- the quotient matrix solves the diagonalised system -/
theorem diag_solves (dg : m → K) (da : n → K) (lam : K) (E : Matrix m n K)
    (hne : ∀ i j, dg i * da j + lam ≠ 0) :
    diagonal dg * (Matrix.of fun i j => E i j / (dg i * da j + lam)) * diagonal da
      + lam • (Matrix.of fun i j => E i j / (dg i * da j + lam)) = E := by
  ext i j
  rw [diag_entry]
  simp only [Matrix.of_apply]
  have := hne i j
  field_simp

/-- and is the only solution -/
theorem diag_unique (dg : m → K) (da : n → K) (lam : K) (E W : Matrix m n K)
    (hne : ∀ i j, dg i * da j + lam ≠ 0)
    (h : diagonal dg * W * diagonal da + lam • W = E) :
    W = Matrix.of fun i j => E i j / (dg i * da j + lam) := by
  ext i j
  have h1 := congrFun (congrFun h i) j
  rw [diag_entry] at h1
  simp only [Matrix.of_apply]
  have := hne i j
  rw [← h1]
  field_simp

theorem eigen_solves_gen (Qg : Matrix m m K) (Qa : Matrix n n K) (dg : m → K) (da : n → K) (lam : K)
    (D : Matrix m n K) (hg : Qg * Qgᵀ = 1) (hg' : Qgᵀ * Qg = 1) (ha : Qa * Qaᵀ = 1) (ha' : Qaᵀ * Qa = 1)
    (hne : ∀ i j, dg i * da j + lam ≠ 0) :
    (Qg * diagonal dg * Qgᵀ)
        * (Qg * (Matrix.of fun i j => (Qgᵀ * D * Qa) i j / (dg i * da j + lam)) * Qaᵀ)
        * (Qa * diagonal da * Qaᵀ)
      + lam • (Qg * (Matrix.of fun i j => (Qgᵀ * D * Qa) i j / (dg i * da j + lam)) * Qaᵀ) = D := by
  rw [conj_sandwich Qg Qa dg da _ hg' ha', ← Matrix.smul_mul, ← Matrix.mul_smul, ← Matrix.add_mul,
    ← Matrix.mul_add, diag_solves dg da lam _ hne, unconj Qg Qa D hg ha]

theorem eigen_unique_gen (Qg : Matrix m m K) (Qa : Matrix n n K) (dg : m → K) (da : n → K) (lam : K)
    (D V : Matrix m n K) (hg : Qg * Qgᵀ = 1) (hg' : Qgᵀ * Qg = 1) (ha : Qa * Qaᵀ = 1) (ha' : Qaᵀ * Qa = 1)
    (hne : ∀ i j, dg i * da j + lam ≠ 0)
    (hV : (Qg * diagonal dg * Qgᵀ) * V * (Qa * diagonal da * Qaᵀ) + lam • V = D) :
    V = Qg * (Matrix.of fun i j => (Qgᵀ * D * Qa) i j / (dg i * da j + lam)) * Qaᵀ := by
  have hVW : V = Qg * (Qgᵀ * V * Qa) * Qaᵀ := (unconj Qg Qa V hg ha).symm
  have key : diagonal dg * (Qgᵀ * V * Qa) * diagonal da + lam • (Qgᵀ * V * Qa) = Qgᵀ * D * Qa := by
    rw [← hV, Matrix.mul_add, Matrix.add_mul, Matrix.mul_smul, Matrix.smul_mul]
    congr 1
    calc diagonal dg * (Qgᵀ * V * Qa) * diagonal da
        = (Qgᵀ * Qg) * diagonal dg * (Qgᵀ * V * Qa) * diagonal da * (Qaᵀ * Qa) := by
          rw [hg', ha', Matrix.one_mul, Matrix.mul_one]
      _ = Qgᵀ * (Qg * diagonal dg * Qgᵀ * V * (Qa * diagonal da * Qaᵀ)) * Qa := by
          simp only [Matrix.mul_assoc]
  rw [← diag_unique dg da lam _ _ hne key]
  exact hVW

omit [DecidableEq m] [DecidableEq n] in
theorem eigen_prediv_gen (Qg : Matrix m m K) (Qa : Matrix n n K) (dg : m → K) (da : n → K) (lam : K)
    (D : Matrix m n K) :
    Qg * (Matrix.of fun i j => (Qgᵀ * D * Qa) i j
            * (Matrix.of fun i j => 1 / (dg i * da j + lam) : Matrix m n K) i j) * Qaᵀ
      = Qg * (Matrix.of fun i j => (Qgᵀ * D * Qa) i j / (dg i * da j + lam)) * Qaᵀ := by
  congr 2
  ext i j
  simp only [Matrix.of_apply, mul_one_div]

theorem inv_solves_gen (M : Matrix m m K) (N : Matrix n n K) (D : Matrix m n K)
    (hM : IsUnit M.det) (hN : IsUnit N.det) : M * (M⁻¹ * D * N⁻¹) * N = D := by
  calc M * (M⁻¹ * D * N⁻¹) * N = (M * M⁻¹) * D * (N⁻¹ * N) := by simp only [Matrix.mul_assoc]
    _ = D := by rw [Matrix.mul_nonsing_inv _ hM, Matrix.nonsing_inv_mul _ hN, Matrix.one_mul, Matrix.mul_one]

theorem inv_unique_gen (M : Matrix m m K) (N : Matrix n n K) (D V : Matrix m n K)
    (hM : IsUnit M.det) (hN : IsUnit N.det) (hV : M * V * N = D) : V = M⁻¹ * D * N⁻¹ := by
  calc V = (M⁻¹ * M) * V * (N * N⁻¹) := by
        rw [Matrix.nonsing_inv_mul _ hM, Matrix.mul_nonsing_inv _ hN, Matrix.one_mul, Matrix.mul_one]
    _ = M⁻¹ * (M * V * N) * N⁻¹ := by simp only [Matrix.mul_assoc]
    _ = M⁻¹ * D * N⁻¹ := by rw [hV]

end Generic

theorem denominators_ne_gen {K : Type*} [Field K] [LinearOrder K] [IsStrictOrderedRing K]
    (x y lam : K) (hl : 0 < lam) : max x 0 * max y 0 + lam ≠ 0 := by
  have h1 : 0 ≤ max x 0 := le_max_right _ _
  have h2 : 0 ≤ max y 0 := le_max_right _ _
  have h3 : 0 ≤ max x 0 * max y 0 := mul_nonneg h1 h2
  exact ne_of_gt (add_pos_of_nonneg_of_pos h3 hl)

theorem psd_damped_invertible_gen {m : Type*} [Fintype m] [DecidableEq m] (G : Matrix m m ℝ)
    (hG : G.PosSemidef) (lam : ℝ) (hl : 0 < lam) : IsUnit (G + lam • (1 : Matrix m m ℝ)).det := by
  have h1 : (lam • (1 : Matrix m m ℝ)).PosDef := Matrix.PosDef.one.smul hl
  have h2 : (G + lam • (1 : Matrix m m ℝ)).PosDef := Matrix.PosDef.posSemidef_add hG h1
  exact (Matrix.isUnit_iff_isUnit_det _).mp h2.isUnit

/-! ### list-matrix entries and sums -/

open KV.Alg

theorem ent_ofFn (m n : ℕ) (f : ℕ → ℕ → ℚ) (i j : ℕ) (hi : i < m) (hj : j < n) :
    ent (ofFn m n f) i j = f i j := by
  simp [ent, ofFn, List.getD_eq_getElem?_getD, hi, hj]

theorem sumTo_succ (n : ℕ) (f : ℕ → ℚ) : sumTo (n + 1) f = sumTo n f + f n := by
  simp [sumTo, List.range_succ, List.foldl_append]

theorem sumTo_eq_sum (n : ℕ) (f : ℕ → ℚ) : sumTo n f = ∑ t : Fin n, f t := by
  induction n with
  | zero => simp [sumTo]
  | succ k ih => rw [sumTo_succ, ih, Fin.sum_univ_castSucc]; simp

theorem ent_mul (m k n : ℕ) (A B : Mat) (i j : ℕ) (hi : i < m) (hj : j < n) :
    ent (mul m k n A B) i j = ∑ t : Fin k, ent A i t * ent B t j := by
  rw [mul, ent_ofFn _ _ _ _ _ hi hj, sumTo_eq_sum]

theorem ent_tr (m n : ℕ) (A : Mat) (i j : ℕ) (hi : i < n) (hj : j < m) :
    ent (tr m n A) i j = ent A j i := by
  rw [tr, ent_ofFn _ _ _ _ _ hi hj]

theorem ent_outer (u v : List ℚ) (i j : ℕ) (hi : i < u.length) (hj : j < v.length) :
    ent (outer u v) i j = u.getD i 0 * v.getD j 0 := by
  rw [outer, ent_ofFn _ _ _ _ _ hi hj]

/-! ### write-back list lemmas -/

theorem zip_dropLast_getLast (w : Mat) :
    ∀ (b : List ℚ), b.length = w.length →
      ((List.zip w b).map fun (r, x) => r ++ [x]).map (fun r => r.dropLast) = w ∧
      ((List.zip w b).map fun (r, x) => r ++ [x]).map (fun r => r.getLastD 0) = b := by
  induction w with
  | nil => intro b hb; cases b <;> simp_all
  | cons r w ih =>
    intro b hb
    cases b with
    | nil => simp at hb
    | cons x b =>
      have := ih b (by simpa using hb)
      simp_all

theorem zip_recombine (grad : Mat) (hne : ∀ r ∈ grad, r ≠ []) :
    ((List.zip (grad.map fun r => r.dropLast) (grad.map fun r => r.getLastD 0)).map
      fun (r, x) => r ++ [x]) = grad := by
  induction grad with
  | nil => simp
  | cons r grad ih =>
    have hr : r ≠ [] := hne r (by simp)
    have := ih (fun s hs => hne s (by simp [hs]))
    simp only [List.map_cons, List.zip_cons_cons, this, List.cons.injEq, and_true]
    rw [List.getLastD_eq_getLast?, List.getLast?_eq_some_getLast hr]
    simpa using List.dropLast_append_getLast hr

theorem clamp0_getD (d : List ℚ) (i : ℕ) (hi : i < d.length) :
    (clamp0 d).getD i 0 = max (d.getD i 0) 0 := by
  simp only [clamp0, List.getD_eq_getElem?_getD, List.getElem?_map, List.getElem?_eq_getElem hi,
    Option.map_some, Option.getD_some]
  split_ifs with h
  · exact (max_eq_right h.le).symm
  · exact (max_eq_left (not_lt.mp h)).symm

end KV.AlgBridge

/-! ### the C01 matrix expressions (moved verbatim from Props/C01.lean) and their bridges -/

namespace KV.C01
open Matrix

variable {K : Type*} [Field K] {m n : Type*} [Fintype m] [DecidableEq m] [Fintype n] [DecidableEq n]

/-- `qg @ ((qg.t() @ D @ qa) / (outer(dg, da) + damping)) @ qa.t()` -/
def eigenPrecond (Qg : Matrix m m K) (Qa : Matrix n n K) (dg : m → K) (da : n → K) (lam : K)
    (D : Matrix m n K) : Matrix m n K :=
  Qg * (Matrix.of fun i j => (Qgᵀ * D * Qa) i j / (dg i * da j + lam)) * Qaᵀ

/-- the pre-divided variant: `qg @ ((qg.t() @ D @ qa) * dgda) @ qa.t()`, `dgda = 1/(outer+damping)` -/
def eigenPrecondPre (Qg : Matrix m m K) (Qa : Matrix n n K) (dgda : Matrix m n K) (D : Matrix m n K) :
    Matrix m n K :=
  Qg * (Matrix.of fun i j => (Qgᵀ * D * Qa) i j * dgda i j) * Qaᵀ

/-- `g_inv @ D @ a_inv` -/
def invPrecond (Ginv : Matrix m m K) (Ainv : Matrix n n K) (D : Matrix m n K) : Matrix m n K := Ginv * D * Ainv

/-- a row-major list matrix as a Mathlib matrix -/
def toM (g a : ℕ) (A : KV.Alg.Mat) : Matrix (Fin g) (Fin a) ℚ := fun i j => KV.Alg.ent A i j
def toV (a : ℕ) (v : List ℚ) : Fin a → ℚ := fun i => v.getD i 0

open KV.AlgBridge

theorem toM_mul (m k n : ℕ) (A B : KV.Alg.Mat) :
    toM m n (KV.Alg.mul m k n A B) = toM m k A * toM k n B := by
  ext i j
  simp only [toM, Matrix.mul_apply]
  exact ent_mul m k n A B i j i.isLt j.isLt

theorem toM_tr (m n : ℕ) (A : KV.Alg.Mat) : toM n m (KV.Alg.tr m n A) = (toM m n A)ᵀ := by
  ext i j
  simp only [toM, Matrix.transpose_apply]
  exact ent_tr m n A i j i.isLt j.isLt

theorem bridge_inverse_gen (g a : ℕ) (ainv ginv grad : KV.Alg.Mat) :
    toM g a (KV.Alg.invPrecond g a ainv ginv grad) = invPrecond (toM g g ginv) (toM a a ainv) (toM g a grad) := by
  simp only [KV.Alg.invPrecond, invPrecond, toM_mul]

theorem bridge_eigen_gen (g a : ℕ) (qa qg grad : KV.Alg.Mat) (da dg : List ℚ) (lam : ℚ)
    (hda : da.length = a) (hdg : dg.length = g) :
    toM g a (KV.Alg.eigenPrecond g a qa da qg dg lam grad) =
      eigenPrecond (toM g g qg) (toM a a qa) (toV g dg) (toV a da) lam (toM g a grad) := by
  simp only [KV.Alg.eigenPrecond, eigenPrecond, toM_mul, toM_tr]
  congr 2
  ext i j
  have hi : (i : ℕ) < dg.length := hdg ▸ i.isLt
  have hj : (j : ℕ) < da.length := hda ▸ j.isLt
  simp only [Matrix.of_apply, ← toM_mul, ← toM_tr]
  simp only [toM, toV, KV.Alg.divPlus]
  rw [ent_ofFn _ _ _ _ _ i.isLt j.isLt, ent_outer _ _ _ _ hi hj]

theorem bridge_eigen_pre_gen (g a : ℕ) (qa qg dgda grad : KV.Alg.Mat) :
    toM g a (KV.Alg.eigenPrecondPre g a qa qg dgda grad) =
      eigenPrecondPre (toM g g qg) (toM a a qa) (toM g a dgda) (toM g a grad) := by
  simp only [KV.Alg.eigenPrecondPre, eigenPrecondPre, toM_mul, toM_tr]
  congr 2
  ext i j
  simp only [Matrix.of_apply, ← toM_mul, ← toM_tr]
  simp only [toM, KV.Alg.had]
  rw [ent_ofFn _ _ _ _ _ i.isLt j.isLt]

end KV.C01
