/-
Invariants of the M-Precond state machine, part 6: whole training iterations never read a queued
slot.  Core Lean only.
-/
import KfacVerif.Lemmas.PrecondInv5

namespace KV.PI
open KV KV.Precond
open KV.Sched2 (eventsOf wfAux wf Events)

/-! ### list facts about the `mini` counters -/

theorem getD_set_self (μ : List Nat) (l v : Nat) (h : l < μ.length) : (μ.set l v).getD l 0 = v := by
  simp [List.getD, List.getElem?_set_self h]

theorem getD_set_ne (μ : List Nat) {l l' : Nat} (v : Nat) (h : l' ≠ l) :
    (μ.set l v).getD l' 0 = μ.getD l' 0 := by
  simp [List.getD, List.getElem?_set_ne (Ne.symm h)]

theorem nodup_reverse' {l : List Nat} (h : l.Nodup) : l.reverse.Nodup := by
  unfold List.Nodup at *
  rw [List.pairwise_reverse]
  exact h.imp (fun h => Ne.symm h)

theorem getD_replicate_zero (n l : Nat) : (List.replicate n 0).getD l 0 = 0 := by
  simp only [List.getD, List.getElem?_replicate]
  split <;> rfl

/-! ### the hook bodies of a training pass -/

def fwdBody (c : Cfg) (alpha : Rat) (s : St) (l : Nat) : St :=
  let s := forRanks c s fun s r => Precond.saveBatch s r l true
  let m := s.mini.getD l 0 + 1
  let s := { s with mini := s.mini.set l m }
  if c.hook && m % c.accum == 0 then
    let s := forRanks c s fun s r => Precond.updateFactor s r l true alpha
    Precond.reduceFactor c s l true
  else s

def bwdBody (c : Cfg) (alpha : Rat) (s : St) (l : Nat) : St :=
  let s := forRanks c s fun s r => Precond.saveBatch s r l false
  let m := s.mini.getD l 0
  if c.hook && m % c.accum == 0 then
    let s := forRanks c s fun s r => Precond.updateFactor s r l false alpha
    Precond.reduceFactor c s l false
  else s

theorem fwdBwd_eq (c : Cfg) (s : St) (train : Bool) : Precond.fwdBwd c s train =
    (if !train then s else
     if s.steps % s.hyper.fus.val s.steps != 0 then { s with pass := s.pass + 1 } else
     let s1 := (layerIdxs c).foldl (fwdBody c (s.hyper.decay.val s.steps)) s
     let s2 := (revLayers c).foldl (bwdBody c (s.hyper.decay.val s.steps)) s1
     { s2 with pass := s2.pass + 1 }) := rfl

/-- does a pass with counter value `j1` update and reduce the factors? -/
def fires (c : Cfg) (j1 : Nat) : Bool := c.hook && j1 % c.accum == 0

theorem fwdBody_ok {c μ b s} (hw : 0 < c.world) (α : Rat) (j1 l : Nat) (hg : Good false c μ s) (hq : QB b s)
    (hμ : μ.getD l 0 + 1 = j1) (hk : ¬ hasKey b l true) (hnf : fires c j1 = false → b = []) :
    ∃ b', Good false c (μ.set l j1) (fwdBody c α s l) ∧ QB b' (fwdBody c α s l) ∧
      (∀ i ∈ b', i ∈ b ∨ (i.layer = l ∧ i.isA = true)) ∧ (fires c j1 = false → b' = []) := by
  unfold KV.PI.fwdBody
  extract_lets s1 m s2
  have h1 : Good false c μ s1 := hg.forSave l true
  have q1 : QB b s1 := hq.forSave l true
  have hm : m = j1 := by show s1.mini.getD l 0 + 1 = j1; rw [h1.mini]; exact hμ
  have h2 : Good false c (μ.set l j1) s2 := by
    have h2' : Good false c (s1.mini.set l m) s2 := h1.setMini _
    have e : s1.mini.set l m = μ.set l j1 := by rw [h1.mini, hm]
    rw [e] at h2'
    exact h2'
  have q2 : QB b s2 := q1.congr rfl rfl rfl
  clear_value s2 s1
  rw [hm]
  split
  · rename_i hf
    have h3 := h2.forUpdate l true α
    have q3 := q2.forUpdate (c := c) l true α hk
    obtain ⟨b', q4, hsub⟩ := q3.reduceFactor (c := c) l true hk
    refine ⟨b', h3.reduceFactor hw l true, q4, hsub, ?_⟩
    intro hnf'
    have : fires c j1 = true := hf
    rw [this] at hnf'
    exact Bool.noConfusion hnf'
  · exact ⟨b, h2, q2, fun _ hi => Or.inl hi, hnf⟩

theorem bwdBody_ok {c μ b s} (hw : 0 < c.world) (α : Rat) (j1 l : Nat) (hg : Good false c μ s) (hq : QB b s)
    (hμ : μ.getD l 0 = j1) (hk : ¬ hasKey b l false) (hnf : fires c j1 = false → b = []) :
    ∃ b', Good false c μ (bwdBody c α s l) ∧ QB b' (bwdBody c α s l) ∧
      (∀ i ∈ b', i ∈ b ∨ (i.layer = l ∧ i.isA = false)) ∧ (fires c j1 = false → b' = []) := by
  unfold KV.PI.bwdBody
  extract_lets s1 m
  have h1 : Good false c μ s1 := hg.forSave l false
  have q1 : QB b s1 := hq.forSave l false
  have hm : m = j1 := by show s1.mini.getD l 0 = j1; rw [h1.mini]; exact hμ
  clear_value s1
  rw [hm]
  split
  · rename_i hf
    have h3 := h1.forUpdate l false α
    have q3 := q1.forUpdate (c := c) l false α hk
    obtain ⟨b', q4, hsub⟩ := q3.reduceFactor (c := c) l false hk
    refine ⟨b', h3.reduceFactor hw l false, q4, hsub, ?_⟩
    intro hnf'
    have : fires c j1 = true := hf
    rw [this] at hnf'
    exact Bool.noConfusion hnf'
  · exact ⟨b, h1, q1, fun _ hi => Or.inl hi, hnf⟩

theorem fwd_loop {c} (hw : 0 < c.world) (α : Rat) (j1 : Nat) (ls : List Nat) (hnd : ls.Nodup) :
    ∀ {μ b s}, Good false c μ s → QB b s → (∀ l ∈ ls, μ.getD l 0 + 1 = j1) →
      (∀ i ∈ b, i.isA = true ∧ i.layer ∉ ls) → (fires c j1 = false → b = []) →
      ∃ μ' b', Good false c μ' (ls.foldl (fwdBody c α) s) ∧ QB b' (ls.foldl (fwdBody c α) s) ∧
        μ'.length = μ.length ∧ (∀ l, l ∈ ls → l < μ.length → μ'.getD l 0 = j1) ∧
        (∀ l, l ∉ ls → μ'.getD l 0 = μ.getD l 0) ∧ (∀ i ∈ b', i.isA = true) ∧
        (fires c j1 = false → b' = []) := by
  induction ls with
  | nil =>
    intro μ b s hg hq _ hb hnf
    exact ⟨μ, b, hg, hq, rfl, by simp, fun _ _ => rfl, fun i hi => (hb i hi).1, hnf⟩
  | cons l t ih =>
    intro μ b s hg hq hμ hb hnf
    have hlt : l ∉ t := (List.nodup_cons.mp hnd).1
    have hk : ¬ hasKey b l true := by
      rintro ⟨i, hi, h1, _⟩
      exact (hb i hi).2 (by simp [h1])
    obtain ⟨b1, g1, q1, hsub, hnf1⟩ := fwdBody_ok hw α j1 l hg hq (hμ l (by simp)) hk hnf
    have hμ1 : ∀ l' ∈ t, (μ.set l j1).getD l' 0 + 1 = j1 := by
      intro l' hl'
      have : l' ≠ l := fun e => hlt (e ▸ hl')
      rw [getD_set_ne μ j1 this]
      exact hμ l' (by simp [hl'])
    have hb1 : ∀ i ∈ b1, i.isA = true ∧ i.layer ∉ t := by
      intro i hi
      rcases hsub i hi with h | ⟨h1, h2⟩
      · exact ⟨(hb i h).1, fun h' => (hb i h).2 (by simp [h'])⟩
      · exact ⟨h2, h1 ▸ hlt⟩
    obtain ⟨μ', b', g', q', hlen, hin, hout, hA, hnf'⟩ := ih (List.nodup_cons.mp hnd).2 g1 q1 hμ1 hb1 hnf1
    refine ⟨μ', b', g', q', by simpa using hlen, ?_, ?_, hA, hnf'⟩
    · intro l' hl' hlt'
      by_cases h : l' ∈ t
      · exact hin l' h (by simpa using hlt')
      · have : l' = l := by simpa [h] using hl'
        subst this
        rw [hout l' h]
        exact getD_set_self μ l' j1 hlt'
    · intro l' hl'
      have h1 : l' ∉ t := fun h => hl' (by simp [h])
      have h2 : l' ≠ l := fun h => hl' (by simp [h])
      rw [hout l' h1, getD_set_ne μ j1 h2]

theorem bwd_loop {c μ} (hw : 0 < c.world) (α : Rat) (j1 : Nat) (ls : List Nat) (hnd : ls.Nodup) :
    ∀ {b s}, Good false c μ s → QB b s → (∀ l ∈ ls, μ.getD l 0 = j1) →
      (∀ i ∈ b, i.isA = true ∨ i.layer ∉ ls) → (fires c j1 = false → b = []) →
      ∃ b', Good false c μ (ls.foldl (bwdBody c α) s) ∧ QB b' (ls.foldl (bwdBody c α) s) ∧
        (fires c j1 = false → b' = []) := by
  induction ls with
  | nil =>
    intro b s hg hq _ _ hnf
    exact ⟨b, hg, hq, hnf⟩
  | cons l t ih =>
    intro b s hg hq hμ hb hnf
    have hlt : l ∉ t := (List.nodup_cons.mp hnd).1
    have hk : ¬ hasKey b l false := by
      rintro ⟨i, hi, h1, h2⟩
      rcases hb i hi with h | h
      · rw [h2] at h; exact Bool.noConfusion h
      · exact h (by simp [h1])
    obtain ⟨b1, g1, q1, hsub, hnf1⟩ := bwdBody_ok hw α j1 l hg hq (hμ l (by simp)) hk hnf
    have hb1 : ∀ i ∈ b1, i.isA = true ∨ i.layer ∉ t := by
      intro i hi
      rcases hsub i hi with h | ⟨h1, _⟩
      · rcases hb i h with h' | h'
        · exact Or.inl h'
        · exact Or.inr (fun h'' => h' (by simp [h'']))
      · exact Or.inr (h1 ▸ hlt)
    exact ih (List.nodup_cons.mp hnd).2 g1 q1 (fun l' hl' => hμ l' (by simp [hl'])) hb1 hnf1

/-! ### the factor update of `step()` in no-hook mode -/

def headBody (c : Cfg) (alpha : Rat) (s : St) (l : Nat) : St :=
  let s := { s with mini := s.mini.set l 0 }
  let s := forRanks c s fun s r => Precond.updateFactor s r l true alpha
  let s := Precond.reduceFactor c s l true
  let s := forRanks c s fun s r => Precond.updateFactor s r l false alpha
  Precond.reduceFactor c s l false

theorem stepHead_eq (c : Cfg) (s : St) : stepHead c s =
    if !c.hook && s.steps % s.hyper.fus.val s.steps == 0 then
      (revLayers c).foldl (headBody c (s.hyper.decay.val s.steps)) s
    else s := rfl

theorem headBody_ok {c μ b s} (hw : 0 < c.world) (α : Rat) (l : Nat) (hg : Good false c μ s) (hq : QB b s)
    (hk : ∀ isA, ¬ hasKey b l isA) :
    ∃ μ' b', Good false c μ' (headBody c α s l) ∧ QB b' (headBody c α s l) ∧
      (∀ i ∈ b', i ∈ b ∨ i.layer = l) := by
  unfold KV.PI.headBody
  have h0 := hg.setMini (s.mini.set l 0)
  have q0 : QB b { s with mini := s.mini.set l 0 } := hq.congr rfl rfl rfl
  have h1 := h0.forUpdate l true α
  have q1 := q0.forUpdate (c := c) l true α (hk true)
  obtain ⟨b2, q2, hsub2⟩ := q1.reduceFactor (c := c) l true (hk true)
  have h2 := h1.reduceFactor hw l true
  have hk2 : ¬ hasKey b2 l false := by
    rintro ⟨i, hi, h1, h2⟩
    rcases hsub2 i hi with h | ⟨_, h⟩
    · exact hk false ⟨i, h, h1, h2⟩
    · rw [h2] at h; exact Bool.noConfusion h
  have h3 := h2.forUpdate l false α
  have q3 := q2.forUpdate (c := c) l false α hk2
  obtain ⟨b4, q4, hsub4⟩ := q3.reduceFactor (c := c) l false hk2
  refine ⟨_, b4, h3.reduceFactor hw l false, q4, ?_⟩
  intro i hi
  rcases hsub4 i hi with h | ⟨h, _⟩
  · rcases hsub2 i h with h' | ⟨h', _⟩
    · exact Or.inl h'
    · exact Or.inr h'
  · exact Or.inr h

theorem head_loop {c} (hw : 0 < c.world) (α : Rat) (ls : List Nat) (hnd : ls.Nodup) :
    ∀ {μ b s}, Good false c μ s → QB b s → (∀ i ∈ b, i.layer ∉ ls) →
      ∃ μ' b', Good false c μ' (ls.foldl (headBody c α) s) ∧ QB b' (ls.foldl (headBody c α) s) := by
  induction ls with
  | nil => intro μ b s hg hq _; exact ⟨μ, b, hg, hq⟩
  | cons l t ih =>
    intro μ b s hg hq hb
    have hlt : l ∉ t := (List.nodup_cons.mp hnd).1
    have hk : ∀ isA, ¬ hasKey b l isA := by
      rintro isA ⟨i, hi, h1, _⟩
      exact hb i hi (by simp [h1])
    obtain ⟨μ1, b1, g1, q1, hsub⟩ := headBody_ok hw α l hg hq hk
    refine ih (List.nodup_cons.mp hnd).2 g1 q1 ?_
    intro i hi
    rcases hsub i hi with h | h
    · exact fun h' => hb i h (by simp [h'])
    · exact h ▸ hlt

theorem stepHead_ok {c μ b s} (hw : 0 < c.world) (hg : Good false c μ s) (hq : QB b s)
    (hb : c.hook = false → b = []) :
    ∃ μ' b', Good false c μ' (stepHead c s) ∧ QB b' (stepHead c s) := by
  rw [stepHead_eq]
  split
  · rename_i hc
    have hh : c.hook = false := by
      cases h : c.hook
      · rfl
      · simp [h] at hc
    have hb' := hb hh
    subst hb'
    refine head_loop hw _ (revLayers c) ?_ hg hq (by simp)
    unfold revLayers layerIdxs
    exact nodup_reverse' List.nodup_range
  · exact ⟨μ, b, hg, hq⟩

/-! ### one training pass inside an iteration -/

theorem layerIdxs_nodup (c : Cfg) : (layerIdxs c).Nodup := List.nodup_range
theorem revLayers_nodup (c : Cfg) : (revLayers c).Nodup := nodup_reverse' List.nodup_range
theorem mem_layerIdxs {c : Cfg} {l : Nat} : l ∈ layerIdxs c ↔ l < c.layers.length := by simp [layerIdxs]
theorem mem_revLayers {c : Cfg} {l : Nat} : l ∈ revLayers c ↔ l < c.layers.length := by
  simp [revLayers, layerIdxs]

/-- the counters all stand at `j` -/
def MiniIs (c : Cfg) (μ : List Nat) (j : Nat) : Prop :=
  μ.length = c.layers.length ∧ ∀ l, l < c.layers.length → μ.getD l 0 = j

theorem pass_ok {c μ s} (hw : 0 < c.world) (j : Nat) (hg : Good false c μ s) (hq : QB [] s)
    (hμ : MiniIs c μ j) :
    ∃ μ' b', Good false c μ' (Precond.fwdBwd c s true) ∧ QB b' (Precond.fwdBwd c s true) ∧
      ((MiniIs c μ' j ∧ b' = []) ∨ (MiniIs c μ' (j + 1) ∧ (fires c (j + 1) = false → b' = []))) := by
  rw [fwdBwd_eq]
  simp only [Bool.not_true, Bool.false_eq_true, if_false]
  split
  · exact ⟨μ, [], hg.setPass _, hq.congr rfl rfl rfl, Or.inl ⟨hμ, rfl⟩⟩
  · obtain ⟨μ1, b1, g1, q1, hlen, hin, _, hA, hnf1⟩ :=
      fwd_loop hw (s.hyper.decay.val s.steps) (j + 1) (layerIdxs c) (layerIdxs_nodup c) hg hq
        (fun l hl => by rw [hμ.2 l (mem_layerIdxs.mp hl)]) (by simp) (fun _ => rfl)
    have hμ1 : MiniIs c μ1 (j + 1) :=
      ⟨hlen.trans hμ.1, fun l hl => hin l (mem_layerIdxs.mpr hl) (by rw [hμ.1]; exact hl)⟩
    obtain ⟨b2, g2, q2, hnf2⟩ :=
      bwd_loop hw (s.hyper.decay.val s.steps) (j + 1) (revLayers c) (revLayers_nodup c) g1 q1
        (fun l hl => hμ1.2 l (mem_revLayers.mp hl)) (fun i hi => Or.inl (hA i hi)) hnf1
    exact ⟨μ1, b2, g2.setPass _, q2.congr rfl rfl rfl, Or.inr ⟨hμ1, hnf2⟩⟩

end KV.PI
