/-
A primitive-step abstraction of M-Precond for C13: every operation of the model is a sequence of
primitive moves (`Prim`): emitting a wait/stall, failing, writing one (rank, layer) cell, issuing a
collective at one of the four issuing sites, bookkeeping.  Invariants are then proved once per
primitive.  Core Lean only.
-/
import KfacVerif.Lemmas.PrecondInv4

namespace KV.HR
open KV KV.Precond

/-! ### `readSlot` made explicit -/

def rdVal : Option Slot → Option Slot
  | none => none
  | some x =>
    match x.pend with
    | .ready => some x
    | .issued _ => some { x with pend := .ready }
    | .queued _ => some x

def rdSt (s : St) (r : Nat) : Option Slot → St
  | none => s
  | some x =>
    match x.pend with
    | .ready => s
    | .issued id => emit s (.wait r id)
    | .queued q => emit s (.stall r q)

theorem readSlot_eq (s : St) (r : Nat) (sl : Option Slot) : readSlot s r sl = (rdSt s r sl, rdVal sl) := by
  unfold readSlot rdSt rdVal
  cases sl with
  | none => rfl
  | some x => obtain ⟨v, p⟩ := x; cases p <;> rfl

@[simp] theorem rdVal_isSome (sl : Option Slot) : (rdVal sl).isSome = sl.isSome := by
  unfold rdVal
  cases sl with
  | none => rfl
  | some x => obtain ⟨v, p⟩ := x; cases p <;> rfl

@[simp] theorem rdVal_isNone (sl : Option Slot) : (rdVal sl).isNone = sl.isNone := by
  unfold rdVal
  cases sl with
  | none => rfl
  | some x => obtain ⟨v, p⟩ := x; cases p <;> rfl

@[simp] theorem rdSt_ranks (s : St) (r : Nat) (sl : Option Slot) : (rdSt s r sl).ranks = s.ranks := by
  unfold rdSt
  cases sl with
  | none => rfl
  | some x => obtain ⟨v, p⟩ := x; cases p <;> rfl

@[simp] theorem getL_rdSt (s : St) (r : Nat) (sl : Option Slot) (r' l' : Nat) :
    getL (rdSt s r sl) r' l' = getL s r' l' := by
  simp only [getL, rdSt_ranks]

/-- conditional reads: the pair is split into its state and its value -/
theorem ite_pair {α β} (b : Prop) [Decidable b] (a1 a2 : α) (b1 b2 : β) :
    (if b then (a1, b1) else (a2, b2)) = ((if b then a1 else a2), (if b then b1 else b2)) := by
  split <;> rfl

@[simp] theorem getL_ite_rdSt (b : Prop) [Decidable b] (s : St) (r : Nat) (sl : Option Slot) (r' l' : Nat) :
    getL (if b then rdSt s r sl else s) r' l' = getL s r' l' := by
  split
  · exact getL_rdSt ..
  · rfl

@[simp] theorem getL_ite_rdSt' (b : Prop) [Decidable b] (s : St) (r : Nat) (sl : Option Slot) (r' l' : Nat) :
    getL (if b then s else rdSt s r sl) r' l' = getL s r' l' := by
  split
  · rfl
  · exact getL_rdSt ..

@[simp] theorem ranks_ite_rdSt (b : Prop) [Decidable b] (s : St) (r : Nat) (sl : Option Slot) :
    (if b then rdSt s r sl else s).ranks = s.ranks := by
  split
  · exact rdSt_ranks ..
  · rfl

@[simp] theorem ranks_ite_rdSt' (b : Prop) [Decidable b] (s : St) (r : Nat) (sl : Option Slot) :
    (if b then s else rdSt s r sl).ranks = s.ranks := by
  split
  · rfl
  · exact rdSt_ranks ..

@[simp] theorem isSome_ite_rdVal (b : Prop) [Decidable b] (sl : Option Slot) :
    (if b then rdVal sl else sl).isSome = sl.isSome := by
  split
  · exact rdVal_isSome _
  · rfl

@[simp] theorem isSome_ite_rdVal' (b : Prop) [Decidable b] (sl : Option Slot) :
    (if b then sl else rdVal sl).isSome = sl.isSome := by
  split
  · rfl
  · exact rdVal_isSome _

@[simp] theorem isNone_ite_rdVal (b : Prop) [Decidable b] (sl : Option Slot) :
    (if b then rdVal sl else sl).isNone = sl.isNone := by
  split
  · exact rdVal_isNone _
  · rfl

@[simp] theorem isNone_ite_rdVal' (b : Prop) [Decidable b] (sl : Option Slot) :
    (if b then sl else rdVal sl).isNone = sl.isNone := by
  split
  · rfl
  · exact rdVal_isNone _

/-! ### second-order signatures -/

/-- the same second-order fields are present -/
def sameSO (x y : LState) : Prop :=
  x.qa.isSome = y.qa.isSome ∧ x.da.isSome = y.da.isSome ∧ x.qg.isSome = y.qg.isSome ∧
  x.dg.isSome = y.dg.isSome ∧ x.dgda.isSome = y.dgda.isSome ∧ x.aInv.isSome = y.aInv.isSome ∧
  x.gInv.isSome = y.gInv.isSome

/-- `qa` and `aInv` are never dropped -/
def monoSO (x y : LState) : Prop :=
  (x.qa.isSome = true → y.qa.isSome = true) ∧ (x.aInv.isSome = true → y.aInv.isSome = true)

def soNone (x : LState) : Prop :=
  x.qa.isSome = false ∧ x.da.isSome = false ∧ x.qg.isSome = false ∧ x.dg.isSome = false ∧
  x.dgda.isSome = false ∧ x.aInv.isSome = false ∧ x.gInv.isSome = false

/-- the field that a gradient worker is guaranteed to hold after a step -/
def hq (c : Cfg) (x : LState) : Bool :=
  match c.method with
  | .eigen => x.qa.isSome
  | .inverse => x.aInv.isSome

/-! ### the issuing sites -/

inductive IssueOK (c : Cfg) (b : List BItem) : List Nat → Desc → Prop
  | flush : b ≠ [] →
      IssueOK c b (worldRanks c) { kind := .allreduce, elems := (b.map (·.elems)).sum, esize := c.fe, root := 0 }
  | red (l : Nat) (isA : Bool) : c.bucketed = false → c.world ≠ 1 → l < c.layers.length →
      IssueOK c b (worldRanks c)
        { kind := .allreduce,
          elems := triElems (if isA then (c.layers.getD l ⟨0, 0⟩).aDim else (c.layers.getD l ⟨0, 0⟩).gDim) c.symAware,
          esize := c.fe, root := 0 }
  | inv (l src elems : Nat) : c.asg.bcastInv = true → (c.asg.workers l).length ≠ 1 →
      (src = c.asg.invA l ∨ src = c.asg.invG l) →
      IssueOK c b (c.asg.workers l) { kind := .broadcast, elems := elems, esize := c.ie, root := src }
  | grad (r0 l : Nat) : c.asg.bcastGrad = true → (c.asg.recv r0).length ≠ 1 → (c.asg.recv r0).head? = some r0 →
      IssueOK c b (c.asg.recv r0)
        { kind := .broadcast, elems := (c.layers.getD l ⟨0, 0⟩).gDim * (c.layers.getD l ⟨0, 0⟩).aDim,
          esize := c.ge, root := c.asg.src r0 l }

/-! ### primitive moves

`ld`: checkpoint loads allowed (arbitrary cell writes and resets); `bp`: the step counter may move. -/

inductive Prim (c : Cfg) (ld bp : Bool) : St → St → Prop
  | emit (s : St) (a : GAct) : (∀ m d, a ≠ .issue m d) → Prim c ld bp s (emit s a)
  | fail (s : St) (r : Nat) (w : String) : Prim c ld bp s (Precond.fail s r w)
  | setL (s : St) (r l : Nat) (x : LState) :
      (r ∈ c.asg.workers l ∨ ld = true ∨ sameSO (getL s r l) x) → monoSO (getL s r l) x →
      Prim c ld bp s (Precond.setL s r l x)
  | issue (s : St) (m : List Nat) (d : Desc) : IssueOK c s.bucket m d → Prim c ld bp s (Precond.issue s m d).1
  | misc (s s' : St) : s'.script = s.script → s'.ranks = s.ranks → s'.err = s.err → s'.bucket = s.bucket →
      (bp = false → s'.steps = s.steps) → Prim c ld bp s s'
  | addB (s s' : St) : c.bucketed = true → c.world ≠ 1 → s'.script = s.script → s'.ranks = s.ranks →
      s'.err = s.err → s'.steps = s.steps → Prim c ld bp s s'
  | flushMap (s : St) (b : List BItem) (id : Nat) :
      Prim c ld bp s { s with bucket := [], ranks := s.ranks.map fun ls => ls.map fun x =>
        { x with aFactor := PI.flushFix b id x.aFactor, gFactor := PI.flushFix b id x.gFactor } }
  | reset (s s' : St) : ld = true → s'.script = s.script → s'.bucket = [] → Prim c ld bp s s'

inductive Reach (c : Cfg) (ld bp : Bool) : St → St → Prop
  | refl (s : St) : Reach c ld bp s s
  | tail {s t u : St} : Reach c ld bp s t → Prim c ld bp t u → Reach c ld bp s u

theorem Reach.trans {c ld bp s t u} (h1 : Reach c ld bp s t) (h2 : Reach c ld bp t u) : Reach c ld bp s u := by
  induction h2 with
  | refl => exact h1
  | tail _ p ih => exact ih.tail p

theorem Reach.single {c ld bp s t} (p : Prim c ld bp s t) : Reach c ld bp s t := (Reach.refl s).tail p

/-- an invariant of the primitive moves is an invariant of `Reach` -/
theorem Reach.inv {c ld bp} (P : St → Prop) (hP : ∀ t u, Prim c ld bp t u → P t → P u) {s t : St}
    (h : Reach c ld bp s t) (h0 : P s) : P t := by
  induction h with
  | refl => exact h0
  | tail _ p ih => exact hP _ _ p ih

/-! ### invariants, one primitive at a time -/

theorem fail_script (s : St) (r : Nat) (w : String) : (Precond.fail s r w).script = s.script := by
  unfold Precond.fail; split <;> rfl
theorem fail_ranks (s : St) (r : Nat) (w : String) : (Precond.fail s r w).ranks = s.ranks := by
  unfold Precond.fail; split <;> rfl
theorem fail_bucket (s : St) (r : Nat) (w : String) : (Precond.fail s r w).bucket = s.bucket := by
  unfold Precond.fail; split <;> rfl
theorem fail_steps (s : St) (r : Nat) (w : String) : (Precond.fail s r w).steps = s.steps := by
  unfold Precond.fail; split <;> rfl
theorem fail_err (s : St) (r : Nat) (w : String) : (Precond.fail s r w).err ≠ none := by
  unfold Precond.fail
  split
  · rename_i h; rw [h]; simp
  · simp

/-- every issue of the script satisfies `Q` -/
def ScriptQ (Q : List Nat → Desc → Prop) (s : St) : Prop := ∀ m d, GAct.issue m d ∈ s.script → Q m d

/-- no bucket is ever opened when un-bucketed or alone -/
def NB (c : Cfg) : Prop := c.bucketed = false ∨ c.world = 1

def BInv (c : Cfg) (Q : List Nat → Desc → Prop) (s : St) : Prop := (NB c → s.bucket = []) ∧ ScriptQ Q s

theorem Prim.binv {c ld bp} {Q : List Nat → Desc → Prop}
    (hQ : ∀ b m d, IssueOK c b m d → (NB c → b = []) → Q m d) {s t : St}
    (p : Prim c ld bp s t) (h : BInv c Q s) : BInv c Q t := by
  obtain ⟨hb, hs⟩ := h
  cases p with
  | emit a ha =>
    refine ⟨hb, ?_⟩
    intro m d hm
    simp only [Precond.emit, List.mem_cons] at hm
    rcases hm with hm | hm
    · exact absurd hm.symm (ha m d)
    · exact hs m d hm
  | fail r w =>
    refine ⟨by rw [fail_bucket]; exact hb, ?_⟩
    intro m d hm; rw [fail_script] at hm; exact hs m d hm
  | setL r l x _ _ => exact ⟨hb, hs⟩
  | issue m d hi =>
    refine ⟨hb, ?_⟩
    intro m' d' hm
    simp only [Precond.issue, List.mem_cons] at hm
    rcases hm with hm | hm
    · injection hm with h1 h2
      subst h1; subst h2
      exact hQ _ _ _ hi hb
    · exact hs m' d' hm
  | misc _ h1 _ _ h4 _ =>
    refine ⟨by rw [h4]; exact hb, ?_⟩
    intro m d hm; rw [h1] at hm; exact hs m d hm
  | addB _ hbk hw h1 _ _ _ =>
    refine ⟨?_, ?_⟩
    · intro hn
      rcases hn with hn | hn
      · rw [hbk] at hn; cases hn
      · exact absurd hn hw
    · intro m d hm; rw [h1] at hm; exact hs m d hm
  | flushMap b id => exact ⟨fun _ => rfl, hs⟩
  | reset _ _ h1 h2 =>
    refine ⟨fun _ => h2, ?_⟩
    intro m d hm; rw [h1] at hm; exact hs m d hm

theorem Reach.binv {c ld bp} {Q : List Nat → Desc → Prop}
    (hQ : ∀ b m d, IssueOK c b m d → (NB c → b = []) → Q m d) {s t : St}
    (h : Reach c ld bp s t) (h0 : BInv c Q s) : BInv c Q t :=
  h.inv _ (fun _ _ p => p.binv hQ) h0

/-- ranks outside the gradient-worker group hold no second-order data -/
def NW (c : Cfg) (s : St) : Prop := ∀ r l, r ∉ c.asg.workers l → soNone (getL s r l)

theorem soNone_empty : soNone {} := ⟨rfl, rfl, rfl, rfl, rfl, rfl, rfl⟩

theorem Prim.nw {c bp} {s t : St} (p : Prim c false bp s t) (h : NW c s) : NW c t := by
  cases p with
  | emit a ha => exact h
  | fail r w => intro r' l' hr; simp only [getL, fail_ranks]; exact h r' l' hr
  | setL r l x h1 _ =>
    intro r' l' hr
    rcases PI.getL_setL s r l x r' l' with ⟨e1, e2, e3⟩ | e1
    · rw [e1]
      subst e2; subst e3
      rcases h1 with h1 | h1 | h1
      · exact absurd h1 hr
      · cases h1
      · have := h r' l' hr
        obtain ⟨a1, a2, a3, a4, a5, a6, a7⟩ := this
        obtain ⟨b1, b2, b3, b4, b5, b6, b7⟩ := h1
        exact ⟨b1 ▸ a1, b2 ▸ a2, b3 ▸ a3, b4 ▸ a4, b5 ▸ a5, b6 ▸ a6, b7 ▸ a7⟩
    · rw [e1]; exact h r' l' hr
  | issue m d _ => exact h
  | misc _ _ h2 _ _ _ => intro r' l' hr; simp only [getL, h2]; exact h r' l' hr
  | addB _ _ _ _ h2 _ _ => intro r' l' hr; simp only [getL, h2]; exact h r' l' hr
  | flushMap b id =>
    intro r' l' hr
    show soNone (getL _ r' l')
    simp only [getL]
    rw [PI.getD_map_map _ _ rfl]
    exact h r' l' hr
  | reset _ hl _ _ => cases hl

/-- the shape of the per-rank, per-layer table -/
def Shape (c : Cfg) (s : St) : Prop :=
  s.ranks.length = c.world ∧ ∀ ls ∈ s.ranks, ls.length = c.layers.length

theorem Shape.of_ranks {c s s'} (h : Shape c s) (e : s'.ranks = s.ranks) : Shape c s' := by
  unfold Shape; rw [e]; exact h

theorem Prim.shape {c bp} {s t : St} (p : Prim c false bp s t) (h : Shape c s) : Shape c t := by
  cases p with
  | emit a ha => exact h
  | fail r w => exact h.of_ranks (fail_ranks ..)
  | setL r l x _ _ =>
    obtain ⟨h1, h2⟩ := h
    refine ⟨by simp [Precond.setL, h1], ?_⟩
    intro ls hls
    simp only [Precond.setL] at hls
    by_cases hr : r < s.ranks.length
    · rcases List.mem_or_eq_of_mem_set hls with hls | hls
      · exact h2 ls hls
      · rw [hls, List.length_set]
        apply h2
        simp only [List.getD, List.getElem?_eq_getElem hr, Option.getD_some]
        exact List.getElem_mem hr
    · rw [List.set_eq_of_length_le (by omega)] at hls
      exact h2 ls hls
  | issue m d _ => exact h
  | misc _ _ h2 _ _ _ => exact h.of_ranks h2
  | addB _ _ _ _ h2 _ _ => exact h.of_ranks h2
  | flushMap b id =>
    obtain ⟨h1, h2⟩ := h
    refine ⟨by simp [h1], ?_⟩
    intro ls hls
    simp only [List.mem_map] at hls
    obtain ⟨ls0, hls0, rfl⟩ := hls
    rw [List.length_map]
    exact h2 ls0 hls0
  | reset _ hl _ _ => cases hl

theorem Reach.shape {c bp} {s t : St} (h : Reach c false bp s t) (h0 : Shape c s) : Shape c t :=
  h.inv _ (fun _ _ p => p.shape) h0

theorem Prim.steps {c ld} {s t : St} (p : Prim c ld false s t) (hl : ld = false) : t.steps = s.steps := by
  cases p with
  | emit a ha => rfl
  | fail r w => exact fail_steps ..
  | setL r l x _ _ => rfl
  | issue m d _ => rfl
  | misc _ _ _ _ _ h5 => exact h5 rfl
  | addB _ _ _ _ _ _ h => exact h
  | flushMap b id => rfl
  | reset _ h _ _ => rw [hl] at h; cases h

theorem Reach.steps {c} {s t : St} (h : Reach c false false s t) : t.steps = s.steps := by
  induction h with
  | refl => rfl
  | tail _ p ih => rw [p.steps rfl, ih]

/-- errors are never cleared -/
theorem Prim.err {c bp} {s t : St} (p : Prim c false bp s t) (h : t.err = none) : s.err = none := by
  cases p with
  | emit a ha => exact h
  | fail r w => exact absurd h (fail_err _ _ _)
  | setL r l x _ _ => exact h
  | issue m d _ => exact h
  | misc _ _ _ h3 _ _ => rw [← h3]; exact h
  | addB _ _ _ _ _ h3 _ => rw [← h3]; exact h
  | flushMap b id => exact h
  | reset _ hl _ _ => cases hl

theorem Reach.err {c bp} {s t : St} (h : Reach c false bp s t) (ht : t.err = none) : s.err = none := by
  induction h with
  | refl => exact ht
  | tail _ p ih => exact ih (p.err ht)

theorem hq_of_mono {c : Cfg} {x y : LState} (h : monoSO x y) (hx : hq c x = true) : hq c y = true := by
  unfold hq at *
  cases hm : c.method with
  | eigen => rw [hm] at hx; exact h.1 hx
  | inverse => rw [hm] at hx; exact h.2 hx

theorem Prim.hq {c bp} {s t : St} (p : Prim c false bp s t) (r l : Nat) (h : hq c (getL s r l) = true) :
    hq c (getL t r l) = true := by
  cases p with
  | emit a ha => exact h
  | fail r' w => simp only [getL, fail_ranks]; exact h
  | setL r0 l0 x _ hm =>
    rcases PI.getL_setL s r0 l0 x r l with ⟨e1, e2, e3⟩ | e1
    · rw [e1]; subst e2; subst e3; exact hq_of_mono hm h
    · rw [e1]; exact h
  | issue m d _ => exact h
  | misc _ _ h2 _ _ _ => simp only [getL, h2]; exact h
  | addB _ _ _ _ h2 _ _ => simp only [getL, h2]; exact h
  | flushMap b id =>
    show KV.HR.hq c (getL _ r l) = true
    simp only [getL]
    rw [PI.getD_map_map _ _ rfl]
    exact h
  | reset _ hl _ _ => cases hl

theorem Reach.hq {c bp} {s t : St} (h : Reach c false bp s t) (r l : Nat) (h0 : hq c (getL s r l) = true) :
    hq c (getL t r l) = true := by
  induction h with
  | refl => exact h0
  | tail _ p ih => exact p.hq r l ih

end KV.HR
