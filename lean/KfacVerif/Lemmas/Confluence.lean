/- Confluence of M-SchedVal (single Mathlib modules may be imported; never `import Mathlib`). -/
import KfacVerif.Model.SchedVal

namespace KV.SchedV

variable {σ β : Type}

/-! ### issueIds -/

theorem mem_issueIds_cons {a : Act σ β} {t : List (Act σ β)} {i : Nat}
    (h : i ∈ issueIds t) : i ∈ issueIds (a :: t) := by
  cases a <;> simp [issueIds, h]

theorem nodup_issueIds_tail {a : Act σ β} {t : List (Act σ β)}
    (h : (issueIds (a :: t)).Nodup) : (issueIds t).Nodup := by
  cases a with
  | issue i f => simp [issueIds] at h; exact h.2
  | wait i g => simpa [issueIds] using h
  | loc hf => simpa [issueIds] using h

theorem not_mem_issueIds_tail {i : Nat} {f : σ → β} {t : List (Act σ β)}
    (h : (issueIds (Act.issue i f :: t)).Nodup) : i ∉ issueIds t := by
  simp [issueIds] at h; exact h.1

/-! ### uniform presentation of a step: rank `r` fires its head action `a`, keeping tail `t` -/

/-- enabledness of an action -/
def en (S : Sys β) (s : St σ β) : Act σ β → Prop
  | .wait i _ => complete S s i
  | _ => True

/-- the new local state of the firing rank -/
def newSt (S : Sys β) (s : St σ β) (r : Nat) : Act σ β → σ
  | .issue _ _ => s.st r
  | .wait i g => g (s.st r) (S.combine i (view S s i))
  | .loc h => h (s.st r)

/-- the new payload table -/
def newPay (s : St σ β) (r : Nat) : Act σ β → Nat → Nat → Option β
  | .issue i f => fun j q => if j = i ∧ q = r then some (f (s.st r)) else s.pay j q
  | _ => s.pay

def fire (S : Sys β) (s : St σ β) (r : Nat) (a : Act σ β) (t : List (Act σ β)) : St σ β :=
  { rem := fun q => if q = r then t else s.rem q,
    st := fun q => if q = r then newSt S s r a else s.st q,
    pay := newPay s r a }

theorem ite_self_fun (f : Nat → σ) (r : Nat) : (fun q => if q = r then f r else f q) = f := by
  funext q; by_cases h : q = r <;> simp [h]

theorem Step.inv {S : Sys β} {s s' : St σ β} (h : Step S s s') :
    ∃ r a t, s.rem r = a :: t ∧ en S s a ∧ s' = fire S s r a t := by
  cases h with
  | issue r i f t h =>
    refine ⟨r, .issue i f, t, h, trivial, ?_⟩
    simp only [fire, newSt, newPay, ite_self_fun]
  | wait r i g t h hc => exact ⟨r, .wait i g, t, h, hc, rfl⟩
  | loc r hf t h => exact ⟨r, .loc hf, t, h, trivial, rfl⟩

theorem Step.of_fire {S : Sys β} {s : St σ β} {r : Nat} {a : Act σ β} {t : List (Act σ β)}
    (h : s.rem r = a :: t) (e : en S s a) : Step S s (fire S s r a t) := by
  cases a with
  | issue i f =>
    have := Step.issue (S := S) s r i f t h
    simpa only [fire, newSt, newPay, ite_self_fun] using this
  | wait i g => exact Step.wait s r i g t h e
  | loc hf => exact Step.loc s r hf t h

theorem rem_fire_ne (S : Sys β) (s : St σ β) {r q : Nat} (a : Act σ β) (t : List (Act σ β))
    (h : q ≠ r) : (fire S s r a t).rem q = s.rem q := by
  simp [fire, h]

theorem rem_fire_self (S : Sys β) (s : St σ β) (r : Nat) (a : Act σ β) (t : List (Act σ β)) :
    (fire S s r a t).rem r = t := by
  simp [fire]

theorem st_fire_ne (S : Sys β) (s : St σ β) {r q : Nat} (a : Act σ β) (t : List (Act σ β))
    (h : q ≠ r) : (fire S s r a t).st q = s.st q := by
  simp [fire, h]

/-! ### preservation of the discipline -/

theorem disciplined_fire (S : Sys β) {s : St σ β} (hd : Disciplined S s) {r : Nat} {a : Act σ β}
    {t : List (Act σ β)} (h : s.rem r = a :: t) : Disciplined S (fire S s r a t) := by
  have sub : ∀ q i, i ∈ issueIds ((fire S s r a t).rem q) → i ∈ issueIds (s.rem q) := by
    intro q i hi
    by_cases hq : q = r
    · subst hq; rw [rem_fire_self] at hi; rw [h]; exact mem_issueIds_cons hi
    · rwa [rem_fire_ne S s a t hq] at hi
  refine ⟨?_, ?_, ?_⟩
  · intro q i hi; exact hd.member q i (sub q i hi)
  · intro q
    by_cases hq : q = r
    · subst hq; rw [rem_fire_self]
      have := hd.nodup q; rw [h] at this; exact nodup_issueIds_tail this
    · rw [rem_fire_ne S s a t hq]; exact hd.nodup q
  · intro q i hi
    have hold := hd.fresh q i (sub q i hi)
    cases a with
    | issue i0 f =>
      show (if i = i0 ∧ q = r then some (f (s.st r)) else s.pay i q) = none
      by_cases hc : i = i0 ∧ q = r
      · obtain ⟨rfl, rfl⟩ := hc
        rw [rem_fire_self] at hi
        have := hd.nodup q; rw [h] at this
        exact absurd hi (not_mem_issueIds_tail this)
      · simp [hc, hold]
    | wait i0 g => exact hold
    | loc hf => exact hold

theorem disciplined_step' (S : Sys β) {s s' : St σ β} (hd : Disciplined S s) (h : Step S s s') :
    Disciplined S s' := by
  obtain ⟨r, a, t, h1, _, rfl⟩ := h.inv
  exact disciplined_fire S hd h1

/-! ### commutation -/

theorem complete_fire (S : Sys β) (s : St σ β) (r : Nat) (a : Act σ β) (t : List (Act σ β))
    {i : Nat} (hc : complete S s i) : complete S (fire S s r a t) i := by
  intro q hq
  have := hc q hq
  cases a with
  | issue i0 f =>
    show (if i = i0 ∧ q = r then some (f (s.st r)) else s.pay i q).isSome = true
    by_cases h : i = i0 ∧ q = r
    · simp [h]
    · simp [h, this]
  | wait i0 g => exact this
  | loc hf => exact this

theorem en_fire (S : Sys β) (s : St σ β) (r : Nat) (a : Act σ β) (t : List (Act σ β))
    {a' : Act σ β} (e : en S s a') : en S (fire S s r a t) a' := by
  cases a' with
  | issue i f => trivial
  | wait i g => exact complete_fire S s r a t e
  | loc hf => trivial

theorem view_fire (S : Sys β) {s : St σ β} (hd : Disciplined S s) {r : Nat} {a : Act σ β}
    {t : List (Act σ β)} (h : s.rem r = a :: t) {i : Nat} (hc : complete S s i) :
    view S (fire S s r a t) i = view S s i := by
  cases a with
  | issue i0 f =>
    funext q
    show (if q ∈ S.members i then (if i = i0 ∧ q = r then some (f (s.st r)) else s.pay i q) else none)
       = (if q ∈ S.members i then s.pay i q else none)
    by_cases hq : q ∈ S.members i
    · by_cases hx : i = i0 ∧ q = r
      · obtain ⟨rfl, rfl⟩ := hx
        have h1 := hc q hq
        have h2 := hd.fresh q i (by rw [h]; simp [issueIds])
        rw [h2] at h1; simp at h1
      · simp [hx]
    · simp [hq]
  | wait i0 g => rfl
  | loc hf => rfl

theorem newSt_fire (S : Sys β) {s : St σ β} (hd : Disciplined S s) {r1 r2 : Nat} (hne : r1 ≠ r2)
    {a1 a2 : Act σ β} {t1 : List (Act σ β)} (h1 : s.rem r1 = a1 :: t1) (e2 : en S s a2) :
    newSt S (fire S s r1 a1 t1) r2 a2 = newSt S s r2 a2 := by
  have hst : (fire S s r1 a1 t1).st r2 = s.st r2 := st_fire_ne S s a1 t1 hne.symm
  cases a2 with
  | issue i f => exact hst
  | wait i g =>
    show g ((fire S s r1 a1 t1).st r2) (S.combine i (view S (fire S s r1 a1 t1) i)) = _
    rw [hst, view_fire S hd h1 e2]; rfl
  | loc hf => show hf ((fire S s r1 a1 t1).st r2) = _; rw [hst]; rfl

theorem newPay_comm (S : Sys β) (s : St σ β) {r1 r2 : Nat} (hne : r1 ≠ r2) (a1 a2 : Act σ β)
    (t1 t2 : List (Act σ β)) :
    newPay (fire S s r1 a1 t1) r2 a2 = newPay (fire S s r2 a2 t2) r1 a1 := by
  have hst1 : (fire S s r1 a1 t1).st r2 = s.st r2 := st_fire_ne S s a1 t1 hne.symm
  have hst2 : (fire S s r2 a2 t2).st r1 = s.st r1 := st_fire_ne S s a2 t2 hne
  cases a1 with
  | issue i1 f1 =>
    cases a2 with
    | issue i2 f2 =>
      funext j q
      show (if j = i2 ∧ q = r2 then some (f2 ((fire S s r1 (.issue i1 f1) t1).st r2))
              else (if j = i1 ∧ q = r1 then some (f1 (s.st r1)) else s.pay j q))
         = (if j = i1 ∧ q = r1 then some (f1 ((fire S s r2 (.issue i2 f2) t2).st r1))
              else (if j = i2 ∧ q = r2 then some (f2 (s.st r2)) else s.pay j q))
      rw [hst1, hst2]
      by_cases hA : j = i2 ∧ q = r2
      · have hB : ¬ (j = i1 ∧ q = r1) := by
          intro hB; exact hne (hB.2.symm.trans hA.2)
        rw [if_pos hA, if_neg hB, if_pos hA]
      · simp [hA]
    | wait i2 g2 =>
      show (fun j q => if j = i1 ∧ q = r1 then some (f1 (s.st r1)) else s.pay j q)
         = (fun j q => if j = i1 ∧ q = r1 then some (f1 ((fire S s r2 (.wait i2 g2) t2).st r1))
              else s.pay j q)
      rw [hst2]
    | loc hf2 =>
      show (fun j q => if j = i1 ∧ q = r1 then some (f1 (s.st r1)) else s.pay j q)
         = (fun j q => if j = i1 ∧ q = r1 then some (f1 ((fire S s r2 (.loc hf2) t2).st r1))
              else s.pay j q)
      rw [hst2]
  | wait i1 g1 =>
    cases a2 with
    | issue i2 f2 =>
      show (fun j q => if j = i2 ∧ q = r2 then some (f2 ((fire S s r1 (.wait i1 g1) t1).st r2))
              else s.pay j q)
         = (fun j q => if j = i2 ∧ q = r2 then some (f2 (s.st r2)) else s.pay j q)
      rw [hst1]
    | wait i2 g2 => rfl
    | loc hf2 => rfl
  | loc hf1 =>
    cases a2 with
    | issue i2 f2 =>
      show (fun j q => if j = i2 ∧ q = r2 then some (f2 ((fire S s r1 (.loc hf1) t1).st r2))
              else s.pay j q)
         = (fun j q => if j = i2 ∧ q = r2 then some (f2 (s.st r2)) else s.pay j q)
      rw [hst1]
    | wait i2 g2 => rfl
    | loc hf2 => rfl

theorem fire_comm (S : Sys β) {s : St σ β} (hd : Disciplined S s) {r1 r2 : Nat} (hne : r1 ≠ r2)
    {a1 a2 : Act σ β} {t1 t2 : List (Act σ β)}
    (h1 : s.rem r1 = a1 :: t1) (h2 : s.rem r2 = a2 :: t2) (e1 : en S s a1) (e2 : en S s a2) :
    fire S (fire S s r1 a1 t1) r2 a2 t2 = fire S (fire S s r2 a2 t2) r1 a1 t1 := by
  have n1 := newSt_fire S hd hne h1 e2
  have n2 := newSt_fire S hd hne.symm h2 e1
  have np := newPay_comm S s hne a1 a2 t1 t2
  show St.mk _ _ _ = St.mk _ _ _
  rw [St.mk.injEq]
  refine ⟨?_, ?_, np⟩
  · funext q
    show (if q = r2 then t2 else (if q = r1 then t1 else s.rem q))
       = (if q = r1 then t1 else (if q = r2 then t2 else s.rem q))
    by_cases hq1 : q = r1
    · have : q ≠ r2 := fun h => hne (hq1.symm.trans h)
      simp [hq1, hne]
    · simp [hq1]
  · funext q
    show (if q = r2 then newSt S (fire S s r1 a1 t1) r2 a2
            else (if q = r1 then newSt S s r1 a1 else s.st q))
       = (if q = r1 then newSt S (fire S s r2 a2 t2) r1 a1
            else (if q = r2 then newSt S s r2 a2 else s.st q))
    rw [n1, n2]
    by_cases hq1 : q = r1
    · simp [hq1, hne]
    · simp [hq1]

theorem diamond' (S : Sys β) {s a b : St σ β} (hd : Disciplined S s)
    (ha : Step S s a) (hb : Step S s b) : a = b ∨ ∃ c, Step S a c ∧ Step S b c := by
  obtain ⟨r1, a1, t1, h1, e1, rfl⟩ := ha.inv
  obtain ⟨r2, a2, t2, h2, e2, rfl⟩ := hb.inv
  by_cases hr : r1 = r2
  · subst hr
    rw [h1] at h2
    injection h2 with ha ht
    subst ha; subst ht
    exact Or.inl rfl
  · refine Or.inr ⟨fire S (fire S s r1 a1 t1) r2 a2 t2, ?_, ?_⟩
    · refine Step.of_fire ?_ (en_fire S s r1 a1 t1 e2)
      rw [rem_fire_ne S s a1 t1 (Ne.symm hr)]; exact h2
    · rw [fire_comm S hd hr h1 h2 e1 e2]
      refine Step.of_fire ?_ (en_fire S s r2 a2 t2 e1)
      rw [rem_fire_ne S s a2 t2 hr]; exact h1

/-! ### head-first view of `Reach` -/

theorem Reach.head {S : Sys β} {s a t : St σ β} (h : Step S s a) (hr : Reach S a t) :
    Reach S s t := by
  induction hr with
  | refl => exact Reach.tail (Reach.refl s) h
  | tail _ st ih => exact Reach.tail ih st

theorem Reach.cases_head {S : Sys β} {s t : St σ β} (hr : Reach S s t) :
    s = t ∨ ∃ a, Step S s a ∧ Reach S a t := by
  induction hr with
  | refl => exact Or.inl rfl
  | tail _ st ih =>
    rcases ih with rfl | ⟨a, sa, ar⟩
    · exact Or.inr ⟨_, st, Reach.refl _⟩
    · exact Or.inr ⟨a, sa, Reach.tail ar st⟩

/-! ### the measure -/

def size (s : St σ β) : Nat → Nat
  | 0 => 0
  | n + 1 => size s n + (s.rem n).length

def Idle (n : Nat) (s : St σ β) : Prop := ∀ r, n ≤ r → s.rem r = []

theorem size_fire_ge (S : Sys β) (s : St σ β) (r : Nat) (a : Act σ β) (t : List (Act σ β)) :
    ∀ n, n ≤ r → size (fire S s r a t) n = size s n := by
  intro n
  induction n with
  | zero => intro _; rfl
  | succ n ih =>
    intro h
    have hn : n ≠ r := by omega
    simp only [size, ih (by omega), rem_fire_ne S s a t hn]

theorem size_fire_lt (S : Sys β) {s : St σ β} {r : Nat} {a : Act σ β} {t : List (Act σ β)}
    (h1 : s.rem r = a :: t) : ∀ n, r < n → size (fire S s r a t) n + 1 = size s n := by
  intro n
  induction n with
  | zero => intro h; omega
  | succ n ih =>
    intro h
    by_cases hn : n = r
    · subst hn
      simp only [size, size_fire_ge S s n a t n (Nat.le_refl _), rem_fire_self, h1,
        List.length_cons]
      omega
    · have := ih (by omega)
      simp only [size, rem_fire_ne S s a t hn]
      omega

theorem idle_lt {n : Nat} {s : St σ β} (hi : Idle n s) {r : Nat} {a : Act σ β}
    {t : List (Act σ β)} (h1 : s.rem r = a :: t) : r < n := by
  apply Nat.lt_of_not_le
  intro h
  rw [hi r h] at h1
  cases h1

theorem idle_step {S : Sys β} {n : Nat} {s s' : St σ β} (hi : Idle n s) (h : Step S s s') :
    Idle n s' := by
  obtain ⟨r, a, t, h1, _, rfl⟩ := h.inv
  have hr := idle_lt hi h1
  intro q hq
  have : q ≠ r := by omega
  rw [rem_fire_ne S s a t this]; exact hi q hq

theorem size_step {S : Sys β} {n : Nat} {s s' : St σ β} (hi : Idle n s) (h : Step S s s') :
    size s' n < size s n := by
  obtain ⟨r, a, t, h1, _, rfl⟩ := h.inv
  have := size_fire_lt S h1 n (idle_lt hi h1)
  omega

/-! ### termination and confluence -/

theorem exists_terminal (S : Sys β) (n : Nat) :
    ∀ k (c : St σ β), size c n = k → Idle n c → ∃ w, Reach S c w ∧ Terminal S w := by
  intro k
  induction k using Nat.strongRecOn with
  | ind k ih =>
    intro c hk hi
    by_cases hs : ∃ s', Step S c s'
    · obtain ⟨s', hs'⟩ := hs
      have hlt := size_step (n := n) hi hs'
      obtain ⟨w, hw, tw⟩ := ih (size s' n) (by omega) s' rfl (idle_step hi hs')
      exact ⟨w, Reach.head hs' hw, tw⟩
    · exact ⟨c, Reach.refl c, hs⟩

theorem confluent (S : Sys β) (n : Nat) :
    ∀ k (s : St σ β), size s n = k → Disciplined S s → Idle n s →
      ∀ t u, Reach S s t → Reach S s u → Terminal S t → Terminal S u → t = u := by
  intro k
  induction k using Nat.strongRecOn with
  | ind k ih =>
    intro s hk hd hi t u ht hu tt tu
    rcases ht.cases_head with rfl | ⟨a, sa, hat⟩
    · rcases hu.cases_head with rfl | ⟨b, sb, _⟩
      · rfl
      · exact absurd ⟨b, sb⟩ tt
    · rcases hu.cases_head with rfl | ⟨b, sb, hbu⟩
      · exact absurd ⟨a, sa⟩ tu
      · have la := size_step (n := n) hi sa
        have lb := size_step (n := n) hi sb
        have da := disciplined_step' S hd sa
        have db := disciplined_step' S hd sb
        have ia := idle_step hi sa
        have ib := idle_step hi sb
        rcases diamond' S hd sa sb with hab | ⟨c, ac, bc⟩
        · subst hab
          exact ih (size a n) (by omega) a rfl da ia t u hat hbu tt tu
        · obtain ⟨w, cw, tw⟩ := exists_terminal S n _ c rfl (idle_step ia ac)
          have e1 := ih (size a n) (by omega) a rfl da ia t w hat (Reach.head ac cw) tt tw
          have e2 := ih (size b n) (by omega) b rfl db ib u w hbu (Reach.head bc cw) tu tw
          rw [e1, e2]

end KV.SchedV
