/-
Refinement Precond ⟶ Spec, part 9: checkpoint round trips (`saveLoad`), `exec`, `run`.  Core Lean only.
-/
import KfacVerif.Lemmas.Refine8
namespace KV.Refine
open KV KV.Precond

def freshOf (c : Cfg) (s : St) : St :=
  { St.init c s.hyper with
    steps := s.steps, pass := s.pass, nIssued := s.nIssued, nextReq := s.nextReq, script := s.script,
    defs := s.defs }

def strip (o : Option Slot) : Option Slot := o.map fun x => { x with pend := .ready }

def loadFacs (c : Cfg) (s fresh : St) : St :=
  forRanks c fresh fun t r => (layerIdxs c).foldl (fun t l =>
    setL t r l { getL t r l with aFactor := strip (getL s r l).aFactor, gFactor := strip (getL s r l).gFactor }) t

def invAll (c : Cfg) (d : Rat) (t : St) (l : Nat) : St :=
  let t := forRanks c t fun t r => computeGInv c (computeAInv c t r l d) r l d
  if c.asg.bcastInv then broadcastGInv c (broadcastAInv c t l) l else t

theorem saveLoad_eq (c : Cfg) (s : St) (inclF compInv : Bool) :
    Precond.saveLoad c s inclF compInv =
      if !inclF then freshOf c (saveState c s inclF) else
      if !compInv then loadFacs c (saveState c s inclF) (freshOf c (saveState c s inclF)) else
      (layerIdxs c).foldl (invAll c ((loadFacs c (saveState c s inclF) (freshOf c (saveState c s inclF))).hyper.damping.val
          (loadFacs c (saveState c s inclF) (freshOf c (saveState c s inclF))).steps))
        (loadFacs c (saveState c s inclF) (freshOf c (saveState c s inclF))) := rfl

def sFresh (c : Spec.SCfg) (t : Spec.SSt) : Spec.SSt :=
  { Spec.SSt.init c t.hyper with steps := t.steps, pass := t.pass, defs := t.defs }

def sLoadFacs (c : Spec.SCfg) (t u : Spec.SSt) : Spec.SSt :=
  (Spec.idxs c).foldl (fun u l =>
    Spec.setS u l { Spec.getS u l with aFactor := (Spec.getS t l).aFactor, gFactor := (Spec.getS t l).gFactor }) u

theorem sSaveLoad_eq (c : Spec.SCfg) (t : Spec.SSt) (inclF compInv : Bool) :
    Spec.saveLoad c t inclF compInv =
      if !inclF then sFresh c t else
      if !compInv then sLoadFacs c t (sFresh c t) else
      (Spec.idxs c).foldl (fun u l => Spec.refresh c u l
          ((sLoadFacs c t (sFresh c t)).hyper.damping.val (sLoadFacs c t (sFresh c t)).steps))
        (sLoadFacs c t (sFresh c t)) := rfl

/-! ### a freshly constructed preconditioner -/

theorem getL_fresh (c : Cfg) (s : St) (r l : Nat) : getL (freshOf c s) r l = {} := by
  simp only [getL, freshOf, St.init, List.getD, List.getElem?_replicate]
  split
  · simp only [Option.getD_some, List.getElem?_replicate]
    split <;> rfl
  · rfl

theorem shape_fresh (c : Cfg) (s : St) : Shape c (freshOf c s) := by
  refine ⟨by simp [freshOf, St.init], fun r hr => ?_⟩
  simp [freshOf, St.init, List.getD, hr]

theorem getS_fresh (c : Spec.SCfg) (t : Spec.SSt) (l : Nat) : Spec.getS (sFresh c t) l = {} := by
  simp only [Spec.getS, sFresh, Spec.SSt.init, List.getD, List.getElem?_replicate]
  split <;> rfl

theorem SO_default (c : Cfg) : SO c (lv {}) {} := by
  unfold SO
  cases c.method
  · cases c.prediv <;> simp [lv]
  · simp [lv]

theorem cellRel_default (c : Cfg) (r l : Nat) : CellRel c r l (lv {}) {} :=
  ⟨rfl, rfl, rfl, rfl, rfl, rfl, fun _ => SO_default c⟩

theorem fresh_rel {c s t} (h : Rel c s t) : Rel c (freshOf c s) (sFresh (Spec.ofCfg c) t) := by
  refine ⟨h.steps, rfl, h.pass, h.hyper, h.defs, fun r _ => by simp [freshOf, St.init, sFresh, Spec.SSt.init],
    shape_fresh c s, by simp [sFresh, Spec.SSt.init, Spec.ofCfg], fun l _ => ?_⟩
  rw [LayRel, getS_fresh]
  refine ⟨⟨fun b hb => by simp at hb, fun b hb => by simp at hb⟩, fun r _ => ?_⟩
  rw [cell, getL_fresh]
  exact cellRel_default c r l

/-! ### `load_state_dict`: the factors -/

theorem sv_strip (o : Option Slot) : sv (strip o) = sv o := by
  cases o <;> rfl

def gLoad (s : St) (r l : Nat) (v : LV) : LV :=
  { v with aFactor := (cell s r l).aFactor, gFactor := (cell s r l).gFactor }

theorem loadFacs_err (c : Cfg) (s fresh : St) : (loadFacs c s fresh).err = fresh.err := by
  unfold loadFacs forRanks
  exact foldl_err_eq _ (fun s r => foldl_setL_err' r _ _ s) _ _

theorem loadFacs_eff {c : Cfg} (s : St) {u : St} (hu : Shape c u) :
    Eff c u (loadFacs c s u) (fun r' l' => r' ∈ worldRanks c ∧ l' ∈ layerIdxs c) (gLoad s) := by
  unfold loadFacs forRanks
  exact nested_eff c (worldRanks c) (layerIdxs c)
    (fun t r l => setL t r l { getL t r l with aFactor := strip (getL s r l).aFactor,
                                                gFactor := strip (getL s r l).gFactor })
    (gLoad s) (fun _ _ _ => rfl) u
    (fun s' r l hr hl _ hsh => Eff.setL hsh (mem_worldRanks.mp hr) (mem_layerIdxs.mp hl) _ _
      (by simp only [gLoad, lv, cell, sv_strip])) hu

theorem loadFacs_rel {c s t u t'} (h : Rel c s t) (hu : Rel c u t')
    (hd : ∀ r l, r < c.world → l < c.layers.length → cell u r l = lv {})
    (hd' : ∀ l, l < c.layers.length → Spec.getS t' l = {}) :
    Rel c (loadFacs c s u) (sLoadFacs (Spec.ofCfg c) t t') := by
  have e := loadFacs_eff s hu.shape
  have ht := sLayerFold (fun l y => { y with aFactor := (Spec.getS t l).aFactor, gFactor := (Spec.getS t l).gFactor })
    c.layers.length t' (by rw [hu.tlen]; exact Nat.le_refl _)
  have heq : sLoadFacs (Spec.ofCfg c) t t' = (List.range c.layers.length).foldl (fun u l =>
      Spec.setS u l { Spec.getS u l with aFactor := (Spec.getS t l).aFactor, gFactor := (Spec.getS t l).gFactor }) t' := rfl
  rw [heq]
  simp only [] at ht
  generalize (List.range c.layers.length).foldl (fun u l =>
      Spec.setS u l { Spec.getS u l with aFactor := (Spec.getS t l).aFactor, gFactor := (Spec.getS t l).gFactor }) t' = t2 at ht ⊢
  obtain ⟨a1, a2, a3, a4, a5, a6, a7, a8⟩ := ht
  refine ⟨e.same.steps.trans (hu.steps.trans a1.symm), e.same.mini.trans (hu.mini.trans a2.symm),
    e.same.pass.trans (hu.pass.trans a3.symm), e.same.hyper.trans (hu.hyper.trans a4.symm),
    e.same.defs.trans (hu.defs.trans a5.symm), fun r hr => by rw [e.same.outGrads, a6]; exact hu.out r hr,
    e.shape, a7.trans hu.tlen, fun l hl => ?_⟩
  rw [LayRel, a8, if_pos hl, hd' l hl]
  refine ⟨⟨fun b hb => by simp at hb, fun b hb => by simp at hb⟩, fun r hr => ?_⟩
  rw [e.hit r l ⟨mem_worldRanks.mpr hr, mem_layerIdxs.mpr hl⟩, hd r l hr hl]
  have cr := (h.lay l hl).2 r hr
  refine ⟨rfl, rfl, rfl, rfl, cr.aFactor, cr.gFactor, fun _ => ?_⟩
  have := SO_default c
  unfold SO at this ⊢
  cases hm : c.method <;> simp only [hm] at this ⊢ <;> exact this

/-! ### `load_state_dict(compute_inverses=True)`: every rank recomputes, then the broadcasts -/

theorem invAll_ok {c d t l} (he : OK (invAll c d t l)) : OK t := by
  unfold invAll at he
  simp only [] at he
  have h1 : OK (forRanks c t fun t r => computeGInv c (computeAInv c t r l d) r l d) := by
    cases hb : c.asg.bcastInv <;> simp only [hb, Bool.false_eq_true, if_false, if_true] at he
    · exact he
    · exact broadcastAInv_ok (broadcastGInv_ok he)
  unfold forRanks at h1
  exact foldl_ok _ (fun s r h => computeAInv_ok (computeGInv_ok h)) _ _ h1

theorem invSO_all (m : Method) (p : Bool) (d : Rat) (va vg vr : LV) (y : Spec.SLayer)
    (h1 : va.aFactor = y.aFactor) (h2 : va.gFactor = y.gFactor)
    (h3 : vg.aFactor = y.aFactor) (h4 : vg.gFactor = y.gFactor)
    (h5 : vr.aFactor = y.aFactor) (h6 : vr.gFactor = y.gFactor) :
    SOmp m p
      (bcG m p (bcA m p (gCG m p d (gCA m d va)) (gCG m p d (gCA m d vg)))
        (bcA m p (gCG m p d (gCA m d va)) (gCG m p d (gCA m d vr))))
      (refreshL m p d y) := by
  cases m <;> cases p <;> simp [SOmp, bcG, bcA, gCG, gCA, refreshL, h1, h2, h3, h4, h5, h6]

theorem invAll_rel {c u t} (hc : CfgOK c) (h : Rel c u t) {l : Nat} (hl : l < c.layers.length) (d : Rat)
    (he : OK (invAll c d u l)) :
    Rel c (invAll c d u l) (Spec.refresh (Spec.ofCfg c) t l d) := by
  have ha := hc.invA_mem l
  have hg := hc.invG_mem l
  have haw := hc.workers_lt l _ ha
  have hgw := hc.workers_lt l _ hg
  have htl : l < t.layers.length := by rw [h.tlen]; exact hl
  obtain ⟨hT, hC⟩ := h.lay l hl
  obtain ⟨g1, g2, g3, g4, g5, g6, g7⟩ := refresh_glob c t l d
  unfold invAll at he ⊢
  simp only [] at he ⊢
  have o1 : OK (forRanks c u fun t r => computeGInv c (computeAInv c t r l d) r l d) := by
    cases hb : c.asg.bcastInv <;> simp only [hb, Bool.false_eq_true, if_false, if_true] at he
    · exact he
    · exact broadcastAInv_ok (broadcastGInv_ok he)
  have e1 := forRanks_effQ OK c (fun t r => computeGInv c (computeAInv c t r l d) r l d) l
    (fun _ _ v => gCG c.method c.prediv d (gCA c.method d v)) u
    (fun s r hk => computeAInv_ok (computeGInv_ok hk))
    (fun s r hr _ hsh hk => by
      have ea := computeAInv_eff hsh hr hl d (computeGInv_ok hk)
      have eg := computeGInv_eff ea.shape hr hl d hk
      exact ea.comp eg) h.shape o1
  generalize (forRanks c u fun t r => computeGInv c (computeAInv c t r l d) r l d) = s1 at *
  have c1 : ∀ r, r < c.world → cell s1 r l = gCG c.method c.prediv d (gCA c.method d (cell u r l)) :=
    fun r hr => e1.hit r l ⟨hr, rfl⟩
  have hbase1 : ∀ r, r < c.world → base (cell s1 r l) = base (cell u r l) := by
    intro r hr; rw [c1 r hr]; exact (base_gCG ..).trans (base_gCA ..)
  cases hb : c.asg.bcastInv <;> simp only [hb, Bool.false_eq_true, if_false, if_true] at he ⊢
  · refine h.layer l (e1.same.steps.trans (h.steps.trans g1.symm)) (e1.same.mini.trans (h.mini.trans g2.symm))
      (e1.same.pass.trans (h.pass.trans g3.symm)) (e1.same.hyper.trans (h.hyper.trans g4.symm))
      (e1.same.defs.trans (h.defs.trans g5.symm)) e1.same.outGrads g6 e1.shape g7
      (fun r l' hne => e1.miss r l' (fun k => hne k.2)) (fun l' hne => refresh_getS_ne c t hne d) ?_
    intro _
    rw [LayRel, refresh_getS htl]
    refine ⟨hT.of_sbase (sbase_refreshL ..), fun r hr => ?_⟩
    have cr := hC r hr
    refine cr.of_base (hbase1 r hr) (sbase_refreshL ..) (fun _ => ?_)
    rw [SO_eq, c1 r hr]
    exact invSO_false _ _ _ _ _ cr.aFactor cr.gFactor
  · have o2 := broadcastGInv_ok he
    have hroot1 : rootA c.method c.prediv (cell s1 (c.asg.invA l) l) := by
      rw [c1 _ haw]
      unfold rootA gCG gCA
      cases c.method <;> cases c.prediv <;> simp
    have e2 := broadcastAInv_eff e1.shape hl (hc.workers_lt l) ha hroot1 o2
    generalize broadcastAInv c s1 l = s2 at *
    have c2 : ∀ r, r ∈ c.asg.workers l → cell s2 r l =
        bcA c.method c.prediv (cell s1 (c.asg.invA l) l) (cell s1 r l) := fun r hr => e2.hit r l ⟨hr, rfl⟩
    have hroot2 : rootG c.method c.prediv (cell s2 (c.asg.invG l) l) := by
      rw [c2 _ hg, c1 _ hgw]
      unfold rootG bcA gCG gCA
      cases c.method <;> cases c.prediv <;> simp
    have e3 := broadcastGInv_eff e2.shape hl (hc.workers_lt l) hg hroot2 he
    generalize broadcastGInv c s2 l = s3 at *
    have hsame := (e1.same.trans e2.same).trans e3.same
    refine h.layer l (hsame.steps.trans (h.steps.trans g1.symm)) (hsame.mini.trans (h.mini.trans g2.symm))
      (hsame.pass.trans (h.pass.trans g3.symm)) (hsame.hyper.trans (h.hyper.trans g4.symm))
      (hsame.defs.trans (h.defs.trans g5.symm)) hsame.outGrads g6 e3.shape g7
      (fun r l' hne => by
        rw [e3.miss r l' (fun k => hne k.2), e2.miss r l' (fun k => hne k.2), e1.miss r l' (fun k => hne k.2)])
      (fun l' hne => refresh_getS_ne c t hne d) ?_
    intro _
    rw [LayRel, refresh_getS htl]
    refine ⟨hT.of_sbase (sbase_refreshL ..), fun r hr => ?_⟩
    have cr := hC r hr
    by_cases hw : r ∈ c.asg.workers l
    · have hcell : cell s3 r l = bcG c.method c.prediv (cell s2 (c.asg.invG l) l) (cell s2 r l) :=
        e3.hit r l ⟨hw, rfl⟩
      refine cr.of_base ?_ (sbase_refreshL ..) (fun _ => ?_)
      · rw [hcell, c2 r hw]
        exact ((base_bcG ..).trans (base_bcA ..)).trans (hbase1 r hr)
      · rw [SO_eq, hcell, c2 r hw, c2 _ hg, c1 r hr, c1 _ haw, c1 _ hgw]
        exact invSO_all _ _ _ _ _ _ _ (hC _ haw).aFactor (hC _ haw).gFactor (hC _ hgw).aFactor
          (hC _ hgw).gFactor cr.aFactor cr.gFactor
    · rw [e3.miss r l (fun k => hw k.1), e2.miss r l (fun k => hw k.1)]
      exact cr.of_base (hbase1 r hr) (sbase_refreshL ..) (fun h' => absurd h' hw)

/-! ### `saveLoad`, `exec`, `run` -/

theorem saveLoad_rel {c s t} (hc : CfgOK c) (h : Rel c s t) (inclF compInv : Bool)
    (he : OK (Precond.saveLoad c s inclF compInv)) :
    Rel c (Precond.saveLoad c s inclF compInv) (Spec.saveLoad (Spec.ofCfg c) t inclF compInv) := by
  rw [saveLoad_eq] at he ⊢
  rw [sSaveLoad_eq]
  have h' := h.neutral (saveState_neutralE h.shape inclF).1
  generalize saveState c s inclF = s' at *
  cases inclF
  · exact fresh_rel h'
  · simp only [Bool.not_true, Bool.false_eq_true, if_false] at he ⊢
    have h2 := loadFacs_rel h' (fresh_rel h') (fun r l _ _ => by rw [cell, getL_fresh])
      (fun l _ => getS_fresh _ _ l)
    cases compInv
    · exact h2
    · simp only [Bool.not_true, Bool.false_eq_true, if_false] at he ⊢
      rw [← h2.steps, ← h2.hyper]
      generalize loadFacs c s' (freshOf c s') = s2 at *
      generalize sLoadFacs (Spec.ofCfg c) t (sFresh (Spec.ofCfg c) t) = t2 at *
      have e1 : Spec.idxs (Spec.ofCfg c) = layerIdxs c := rfl
      rw [e1]
      exact foldl_rel (Rel c) (invAll c (s2.hyper.damping.val s2.steps))
        (fun u l => Spec.refresh (Spec.ofCfg c) u l (s2.hyper.damping.val s2.steps)) (layerIdxs c)
        (fun s l => invAll_ok)
        (fun s t l hl h he => invAll_rel hc h (mem_layerIdxs.mp hl) _ he) s2 t2 h2 he

theorem Rel.setHyper {c s t} (h : Rel c s t) (hy : Hyper) :
    Rel c { s with hyper := hy } { t with hyper := hy } :=
  ⟨h.steps, h.mini, h.pass, rfl, h.defs, h.out, h.shape.of_ranks rfl, h.tlen, h.lay⟩

theorem exec_ok {c s op} (he : OK (Precond.exec c s op)) : OK s := by
  unfold Precond.exec at he
  split at he
  · exact he
  · rename_i h
    cases hs : s.err with
    | none => exact hs
    | some x => rw [hs] at h; simp at h

theorem exec_rel {c s t} (hc : CfgOK c) (h : Rel c s t) (op : Op) (he : OK (Precond.exec c s op)) :
    Rel c (Precond.exec c s op) (Spec.exec (Spec.ofCfg c) t op) := by
  have hs := exec_ok he
  unfold Precond.exec at he ⊢
  have hn : ¬ (s.err.isSome = true) := by rw [hs]; simp
  rw [if_neg hn] at he ⊢
  cases op with
  | fwdBwd tr => exact fwdBwd_rel hc.world_pos h tr he
  | step => exact stepAll_rel hc h he
  | resetBatch => exact resetBatch_rel h
  | memUsage => exact h.neutral (memUsage_neutralE h.shape).1
  | save f => exact h.neutral (saveState_neutralE h.shape f).1
  | saveLoad f ci => exact saveLoad_rel hc h f ci he
  | setHyper hy => exact h.setHyper hy

theorem run_ok {c ops s} (he : OK (Precond.run c s ops)) : OK s := by
  unfold Precond.run at he
  exact foldl_ok _ (fun s op => exec_ok) _ _ he

theorem run_rel {c s t} (hc : CfgOK c) (h : Rel c s t) (ops : List Op) (he : OK (Precond.run c s ops)) :
    Rel c (Precond.run c s ops) (Spec.run (Spec.ofCfg c) t ops) := by
  unfold Precond.run at he ⊢
  unfold Spec.run
  exact foldl_rel (Rel c) (Precond.exec c) (Spec.exec (Spec.ofCfg c)) ops (fun s op => exec_ok)
    (fun s t op _ h he => exec_rel hc h op he) s t h he

theorem getL_init (c : Cfg) (h : Hyper) (r l : Nat) : getL (St.init c h) r l = {} := by
  simp only [getL, St.init, List.getD, List.getElem?_replicate]
  split
  · simp only [Option.getD_some, List.getElem?_replicate]
    split <;> rfl
  · rfl

theorem getS_init (c : Spec.SCfg) (h : Hyper) (l : Nat) : Spec.getS (Spec.SSt.init c h) l = {} := by
  simp only [Spec.getS, Spec.SSt.init, List.getD, List.getElem?_replicate]
  split <;> rfl

theorem init_rel (c : Cfg) (h : Hyper) : Rel c (St.init c h) (Spec.SSt.init (Spec.ofCfg c) h) := by
  refine ⟨rfl, rfl, rfl, rfl, rfl, fun r _ => by simp [St.init, Spec.SSt.init],
    ⟨by simp [St.init], fun r hr => by simp [St.init, List.getD, hr]⟩,
    by simp [Spec.SSt.init, Spec.ofCfg], fun l _ => ?_⟩
  rw [LayRel, getS_init]
  refine ⟨⟨fun b hb => by simp at hb, fun b hb => by simp at hb⟩, fun r _ => ?_⟩
  rw [cell, getL_init]
  exact cellRel_default c r l

/-- the refinement theorem in terms of `CfgOK` -/
theorem refines_aux (c : Cfg) (hc : CfgOK c) (h : Hyper) (ops : List Op)
    (hne : (Precond.run c (St.init c h) ops).err = none) :
    Rel c (Precond.run c (St.init c h) ops) (Spec.run (Spec.ofCfg c) (Spec.SSt.init (Spec.ofCfg c) h) ops) :=
  run_rel hc (init_rel c h) ops hne

end KV.Refine
