/-
Generic lemmas about M-Sched (KV.Sched2): invariant preservation and progress.
Core Lean only.
-/
import KfacVerif.Model.Sched

namespace KV.Sched2

theorem idsOf_sorted (S : Events) (r : Nat) : (idsOf S r).Pairwise (· < ·) := by
  unfold idsOf
  exact List.Pairwise.filter _ (List.pairwise_lt_range)

theorem mem_idsOf {S : Events} {r i : Nat} (h : r ∈ S.getD i []) (hi : i < S.length) :
    i ∈ idsOf S r := by
  unfold idsOf
  simp only [List.mem_filter, List.mem_range, hi, true_and, decide_eq_true_eq]
  exact h

theorem lt_len_of_mem {S : Events} {r i : Nat} (h : r ∈ S.getD i []) : i < S.length := by
  by_cases hi : i < S.length
  · exact hi
  · simp [List.getD, List.getElem?_eq_none (Nat.le_of_not_lt hi)] at h

/-- SInv is preserved by steps. -/
theorem SInv.step {S n s s'} (hI : SInv S n s) (hs : Step S s s') : SInv S n s' := by
  cases hs with
  | issue r i t h =>
    refine ⟨?_, ?_, hI.members, ?_⟩
    · intro q hq
      by_cases hqr : q = r
      · subst hqr; have := hI.split q hq; simp [h, issueIds] at this ⊢; simpa [List.append_assoc] using this
      · simpa [hqr] using hI.split q hq
    · intro q hq
      by_cases hqr : q = r
      · subst hqr; have := hI.waits q hq; simp [h, waitsOK] at this ⊢; exact this
      · simpa [hqr] using hI.waits q hq
    · intro q hq
      by_cases hqr : q = r
      · subst hqr; have := hI.idle q hq; simp [h] at this
      · simpa [hqr] using hI.idle q hq
  | wait r i t h hc =>
    refine ⟨?_, ?_, hI.members, ?_⟩
    · intro q hq
      by_cases hqr : q = r
      · subst hqr; have := hI.split q hq; simp [h, issueIds] at this ⊢; exact this
      · simpa [hqr] using hI.split q hq
    · intro q hq
      by_cases hqr : q = r
      · subst hqr; have := hI.waits q hq; simp [h, waitsOK] at this ⊢; exact this.2
      · simpa [hqr] using hI.waits q hq
    · intro q hq
      by_cases hqr : q = r
      · subst hqr; have := hI.idle q hq; simp [h] at this
      · simpa [hqr] using hI.idle q hq

/-- Progress: in an invariant state with unfinished work some step is enabled. -/
theorem progress {S n s} (hI : SInv S n s) (hne : ∃ r, s.rem r ≠ []) : ∃ s', Step S s s' := by
  by_cases hiss : ∃ r i t, s.rem r = .issue i :: t
  · obtain ⟨r, i, t, h⟩ := hiss; exact ⟨_, Step.issue s r i t h⟩
  have hw : ∀ r, s.rem r ≠ [] → ∃ i t, s.rem r = .wait i :: t := by
    intro r hr
    match hrem : s.rem r with
    | [] => exact absurd hrem hr
    | .issue i :: t => exact absurd ⟨r, i, t, hrem⟩ hiss
    | .wait i :: t => exact ⟨i, t, rfl⟩
  have key : ∀ b, (∃ r i t, s.rem r = .wait i :: t ∧ i ≤ b) → ∃ s', Step S s s' := by
    intro b
    induction b using Nat.strongRecOn with
    | _ b ih =>
      rintro ⟨r, i, t, h, hib⟩
      by_cases hc : complete S s i
      · exact ⟨_, Step.wait s r i t h hc⟩
      · unfold complete at hc
        obtain ⟨r', hr'⟩ := Classical.not_forall.mp hc
        obtain ⟨hmem, hnot⟩ := Classical.not_imp.mp hr'
        have hr'n : r' < n := hI.members i r' hmem
        have hi_ids : i ∈ idsOf S r' := mem_idsOf hmem (lt_len_of_mem hmem)
        rw [← hI.split r' hr'n] at hi_ids
        have hin : i ∈ issueIds (s.rem r') := by
          rcases List.mem_append.mp hi_ids with h1 | h2
          · exact absurd h1 hnot
          · exact h2
        have hne' : s.rem r' ≠ [] := by intro h0; simp [h0, issueIds] at hin
        obtain ⟨j, t', hj⟩ := hw r' hne'
        have hjiss : j ∈ s.iss r' := by
          have := hI.waits r' hr'n; simp [hj, waitsOK] at this; exact this.1
        have hsorted := idsOf_sorted S r'
        rw [← hI.split r' hr'n] at hsorted
        have hjlt : j < i := (List.pairwise_append.mp hsorted).2.2 j hjiss i hin
        exact ih j (by omega) ⟨r', j, t', hj, Nat.le_refl j⟩
  obtain ⟨r, hr⟩ := hne
  obtain ⟨i, t, h⟩ := hw r hr
  exact key i ⟨r, i, t, h, Nat.le_refl i⟩

/-! ## C03 Part 1 / Part 2 helpers -/

section C03
open KV.Precond

/-! ### termination measure -/

theorem sum_map_range_update (f g : Nat → Nat) (n r : Nat) (hr : r < n)
    (hne : ∀ q, q ≠ r → g q = f q) (hr1 : g r + 1 = f r) :
    ((List.range n).map g).sum + 1 = ((List.range n).map f).sum := by
  induction n with
  | zero => omega
  | succ n ih =>
    simp only [List.range_succ, List.map_append, List.sum_append, List.map_cons, List.map_nil,
      List.sum_cons, List.sum_nil, Nat.add_zero]
    by_cases hrn : r = n
    · subst hrn
      have : (List.range r).map g = (List.range r).map f := by
        apply List.map_congr_left
        intro q hq
        exact hne q (by have := List.mem_range.mp hq; omega)
      rw [this]; omega
    · have := ih (by omega)
      rw [hne n (by omega)]; omega

theorem sum_map_range_congr (f g : Nat → Nat) (n : Nat) (h : ∀ q, q < n → g q = f q) :
    ((List.range n).map g).sum = ((List.range n).map f).sum := by
  congr 1
  apply List.map_congr_left
  intro q hq
  exact h q (List.mem_range.mp hq)

/-- a step pops the head of exactly one program -/
theorem Step.rem_eq {S s s'} (hs : Step S s s') :
    ∃ r a t, s.rem r = a :: t ∧ s'.rem = fun q => if q = r then t else s.rem q := by
  cases hs with
  | issue r i t h => exact ⟨r, _, t, h, rfl⟩
  | wait r i t h hc => exact ⟨r, _, t, h, rfl⟩

theorem step_size {S n s s'} (hI : SInv S n s) (hs : Step S s s') :
    ((List.range n).map fun r => (s'.rem r).length).sum + 1
      = ((List.range n).map fun r => (s.rem r).length).sum := by
  obtain ⟨r, a, t, h, h'⟩ := hs.rem_eq
  have hrn : r < n := by
    by_cases hrn : r < n
    · exact hrn
    · have := hI.idle r (by omega); simp [h] at this
  apply sum_map_range_update _ _ n r hrn
  · intro q hq; simp [h', hq]
  · simp [h', h]

/-! ### terminal states -/

theorem terminal_done {S n s} (hI : SInv S n s) (hterm : ¬ ∃ s', Step S s s') :
    (∀ r, s.rem r = []) ∧ (∀ r, r < n → s.iss r = idsOf S r) ∧ (∀ i, i < S.length → complete S s i) := by
  have h1 : ∀ r, s.rem r = [] := by
    intro r
    apply Classical.byContradiction
    intro hr
    exact hterm (progress hI ⟨r, hr⟩)
  have h2 : ∀ r, r < n → s.iss r = idsOf S r := by
    intro r hr
    have := hI.split r hr
    simpa [h1 r, issueIds] using this
  refine ⟨h1, h2, ?_⟩
  intro i hi r hr
  rw [h2 r (hI.members i r hr)]
  exact mem_idsOf hr hi

theorem match_group {S n s} (hI : SInv S n s) (hdone : ∀ r, s.rem r = [])
    (g : List Nat) {r r' : Nat} (hr : r ∈ g) (hr' : r' ∈ g) (hn : r < n) (hn' : r' < n) :
    (s.iss r).filter (fun i => S.getD i [] == g) = (s.iss r').filter (fun i => S.getD i [] == g) := by
  have key : ∀ q, q ∈ g → q < n →
      (s.iss q).filter (fun i => S.getD i [] == g) = (List.range S.length).filter (fun i => S.getD i [] == g) := by
    intro q hq hqn
    have h2 : s.iss q = idsOf S q := by
      have := hI.split q hqn
      simpa [hdone q, issueIds] using this
    rw [h2, idsOf, List.filter_filter]
    apply List.filter_congr
    intro i _
    show ((S.getD i [] == g) && decide (q ∈ S.getD i [])) = (S.getD i [] == g)
    cases hb : (S.getD i [] == g) with
    | false => rfl
    | true =>
      have hg : S.getD i [] = g := eq_of_beq hb
      rw [hg]; simp [hq]
  rw [key r hr hn, key r' hr' hn']

/-! ### bridge -/

theorem getD_append_lt {α} (l l' : List α) (d : α) (i : Nat) (h : i < l.length) :
    (l ++ l').getD i d = l.getD i d := by
  simp [List.getD, List.getElem?_append_left h]

theorem getD_append_len {α} (l : List α) (m d : α) : (l ++ [m]).getD l.length d = m := by
  simp [List.getD]

theorem idsOf_cons (m : List Nat) (E : Events) (r : Nat) :
    idsOf (m :: E) r = (if r ∈ m then [0] else []) ++ (idsOf E r).map Nat.succ := by
  unfold idsOf
  rw [List.length_cons, List.range_succ_eq_map, List.filter_cons, List.filter_map]
  have : ((fun i => decide (r ∈ (m :: E).getD i [])) ∘ Nat.succ)
      = (fun i => decide (r ∈ E.getD i [])) := by
    funext i; rfl
  rw [this]
  by_cases hm : r ∈ m <;> simp [hm]

theorem issueIds_projectAux (b r : Nat) (acts : List GAct) (k : Nat) :
    issueIds (toActs b (projectAux r k acts)) = (idsOf (eventsOf acts) r).map (· + k) := by
  induction acts generalizing k with
  | nil => simp [projectAux, toActs, issueIds, eventsOf, idsOf]
  | cons a t ih =>
    cases a with
    | issue m d =>
      rw [show eventsOf (.issue m d :: t) = m :: eventsOf t from rfl, idsOf_cons]
      have hshift : ((idsOf (eventsOf t) r).map Nat.succ).map (· + k)
          = (idsOf (eventsOf t) r).map (· + (k + 1)) := by
        rw [List.map_map]
        apply List.map_congr_left
        intro i _; simp; omega
      simp only [projectAux]
      by_cases hm : r ∈ m
      · simp only [List.contains_iff_mem, hm, if_true, toActs, issueIds, ih (k + 1)]
        simp only [List.map_append, List.map_cons, List.map_nil, Nat.zero_add, hshift]
        rfl
      · simp only [List.contains_iff_mem, hm, if_false, ih (k + 1)]
        simp only [List.nil_append, hshift]
    | wait q id =>
      rw [show eventsOf (.wait q id :: t) = eventsOf t from rfl]
      simp only [projectAux]
      by_cases hq : q = r
      · simp [hq, toActs, issueIds, ih k]
      · simp [hq, ih k]
    | stall q req =>
      rw [show eventsOf (.stall q req :: t) = eventsOf t from rfl]
      simp only [projectAux]
      by_cases hq : q = r
      · simp [hq, toActs, issueIds, ih k]
      · simp [hq, ih k]

theorem issueIds_progOf (acts : List GAct) (r : Nat) :
    issueIds (progOf acts r) = idsOf (eventsOf acts) r := by
  unfold progOf project
  rw [issueIds_projectAux]
  simp

theorem waitsOK_projectAux (n b r : Nat) (acts : List GAct) (seen : List (List Nat))
    (h : wfAux n seen acts = true) (done : List Nat)
    (hd : ∀ id, id < seen.length → r ∈ seen.getD id [] → id ∈ done) :
    waitsOK done (toActs b (projectAux r seen.length acts)) := by
  induction acts generalizing seen done with
  | nil => simp [projectAux, toActs, waitsOK]
  | cons a t ih =>
    cases a with
    | issue m d =>
      simp only [wfAux, Bool.and_eq_true] at h
      have ht := h.2
      have ih' := ih (seen ++ [m]) ht
      simp only [List.length_append, List.length_cons, List.length_nil, Nat.zero_add] at ih'
      simp only [projectAux]
      by_cases hm : r ∈ m
      · simp only [List.contains_iff_mem, hm, if_true, toActs, waitsOK]
        apply ih'
        intro id hid hmem
        by_cases hlt : id < seen.length
        · rw [getD_append_lt _ _ _ _ hlt] at hmem
          exact List.mem_append_left _ (hd id hlt hmem)
        · have : id = seen.length := by omega
          simp [this]
      · simp only [List.contains_iff_mem, hm, if_false]
        apply ih'
        intro id hid hmem
        by_cases hlt : id < seen.length
        · rw [getD_append_lt _ _ _ _ hlt] at hmem
          exact hd id hlt hmem
        · have : id = seen.length := by omega
          subst this
          rw [getD_append_len] at hmem
          exact absurd hmem hm
    | wait q id =>
      simp only [wfAux, Bool.and_eq_true, decide_eq_true_eq, List.contains_iff_mem] at h
      simp only [projectAux]
      by_cases hq : q = r
      · subst hq
        simp only [beq_self_eq_true, if_true, toActs, waitsOK]
        exact ⟨hd id h.1.1 h.1.2, ih seen h.2 done hd⟩
      · have : (q == r) = false := by simp [hq]
        simp only [this]
        exact ih seen h.2 done hd
    | stall q req => simp [wfAux] at h

theorem wfAux_members (n : Nat) (acts : List GAct) (seen : List (List Nat))
    (h : wfAux n seen acts = true) : ∀ m ∈ eventsOf acts, ∀ r ∈ m, r < n := by
  induction acts generalizing seen with
  | nil => simp [eventsOf]
  | cons a t ih =>
    cases a with
    | issue m d =>
      simp only [wfAux, Bool.and_eq_true, List.all_eq_true, decide_eq_true_eq] at h
      intro m' hm'
      simp only [eventsOf, List.mem_cons] at hm'
      rcases hm' with rfl | hm'
      · exact h.1.1.1
      · exact ih _ h.2 m' hm'
    | wait q id =>
      simp only [wfAux, Bool.and_eq_true] at h
      simpa [eventsOf] using ih _ h.2
    | stall q req => simp [wfAux] at h

theorem wfAux_issue_facts (n : Nat) (acts : List GAct) (seen : List (List Nat))
    (h : wfAux n seen acts = true) (m : List Nat) (d : Desc) (hm : GAct.issue m d ∈ acts) :
    (∀ r ∈ m, r < n) ∧ 2 ≤ m.length ∧ (d.kind = .broadcast → d.root ∈ m) := by
  induction acts generalizing seen with
  | nil => simp at hm
  | cons a t ih =>
    cases a with
    | issue m' d' =>
      simp only [wfAux, Bool.and_eq_true, List.all_eq_true, decide_eq_true_eq] at h
      simp only [List.mem_cons, GAct.issue.injEq] at hm
      rcases hm with ⟨rfl, rfl⟩ | hm
      · refine ⟨h.1.1.1, h.1.1.2, ?_⟩
        intro hk
        have := h.1.2
        simpa [hk] using this
      · exact ih _ h.2 hm
    | wait q id =>
      simp only [wfAux, Bool.and_eq_true] at h
      simp only [List.mem_cons, reduceCtorEq, false_or] at hm
      exact ih _ h.2 hm
    | stall q req => simp [wfAux] at h

theorem script_SInv (acts : List GAct) (n : Nat) (h : wf n acts = true) :
    SInv (eventsOf acts) n (initOf acts n) := by
  refine ⟨?_, ?_, ?_, ?_⟩
  · intro r hr
    simp [initOf, hr, issueIds_progOf]
  · intro r hr
    simp only [initOf, hr, if_true]
    exact waitsOK_projectAux n _ r acts [] h [] (by simp)
  · intro i r hr
    have hi := lt_len_of_mem hr
    have : (eventsOf acts).getD i [] ∈ eventsOf acts := by
      simp [List.getD, List.getElem?_eq_getElem hi]
    exact wfAux_members n acts [] h _ this r hr
  · intro r hr
    simp [initOf, Nat.not_lt.mpr hr]

end C03

end KV.Sched2
