/-
Facts about the reference machine KV.Spec alone (gating, frames, checkpoint round trip).
(Single Mathlib modules may be imported; never `import Mathlib`.)
-/
import KfacVerif.Lemmas.Refine

