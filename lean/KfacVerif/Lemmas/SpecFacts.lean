/-
Facts about the reference machine KV.Spec alone (gating, frames, checkpoint round trip).
(Single Mathlib modules may be imported; never `import Mathlib`.)

The work is in
* Lemmas/SpecFrames.lean — which operation touches which field, `step`/`fwdBwd`/`saveLoad` in stages;
* Lemmas/SpecC05.lean — gating by the intervals, schedules;
* Lemmas/SpecC09.lean — the "same future" relation (and the spec-level definitions of Props/C09);
* Lemmas/PrecondRT.lean — the round trip on every rank of M-Precond.
This file adds the consequences of the refinement theorem used by Props/C02.
-/
import KfacVerif.Lemmas.Refine
import KfacVerif.Lemmas.SpecC09
import KfacVerif.Lemmas.PrecondRT

namespace KV.Refine
open KV KV.Precond KV.Spec

/-- `CfgOK2` does not mention bucketing or symmetry-aware communication -/
theorem CfgOK2.bucket_sym {c : Cfg} (hc : CfgOK2 c) (bucketed sym : Bool) (cap : Nat) :
    CfgOK2 { c with bucketed := bucketed, cap := cap, symAware := sym } := by
  obtain ⟨a1, a2, a3, a4, a5, a6, a7, a8, a9, a10, a11, a12⟩ := hc
  exact ⟨a1, a2, a3, a4, a5, a6, a7, a8, a9, a10, a11, a12⟩

theorem ofCfg_bucket_sym (c : Cfg) (bucketed sym : Bool) (cap : Nat) :
    ofCfg { c with bucketed := bucketed, cap := cap, symAware := sym } = ofCfg c := rfl

/-- the gradients every rank is left with are those of the reference machine -/
theorem out_eq_spec (c : Cfg) (hc : CfgOK2 c) (h : Hyper) (ops : List Op)
    (hne : (Precond.run c (St.init c h) ops).err = none) {r : Nat} (hr : r < c.world) :
    (Precond.run c (St.init c h) ops).outGrads.getD r [] =
      (Spec.run (ofCfg c) (SSt.init (ofCfg c) h) ops).out :=
  (refines c hc h ops hne).2.2.1 r hr

theorem ranks_agree (c : Cfg) (hc : CfgOK2 c) (h : Hyper) (ops : List Op)
    (hne : (Precond.run c (St.init c h) ops).err = none) {r r' : Nat} (hr : r < c.world) (hr' : r' < c.world) :
    (Precond.run c (St.init c h) ops).outGrads.getD r [] = (Precond.run c (St.init c h) ops).outGrads.getD r' [] :=
  (out_eq_spec c hc h ops hne hr).trans (out_eq_spec c hc h ops hne hr').symm

theorem placement_irrelevant (c₁ c₂ : Cfg) (h₁ : CfgOK2 c₁) (h₂ : CfgOK2 c₂)
    (hs : ofCfg c₁ = ofCfg c₂) (h : Hyper) (ops : List Op)
    (e₁ : (Precond.run c₁ (St.init c₁ h) ops).err = none) (e₂ : (Precond.run c₂ (St.init c₂ h) ops).err = none)
    {r r' : Nat} (hr : r < c₁.world) (hr' : r' < c₂.world) :
    (Precond.run c₁ (St.init c₁ h) ops).outGrads.getD r [] = (Precond.run c₂ (St.init c₂ h) ops).outGrads.getD r' [] := by
  rw [out_eq_spec c₁ h₁ h ops e₁ hr, out_eq_spec c₂ h₂ h ops e₂ hr', hs]

end KV.Refine
