/-
M-Precond: the repaired `load_state_dict` (`loadInto'`, layers without factors are skipped) is
`loadInto` whenever every layer of the loaded state has its factors.
Core Lean only.
-/
import KfacVerif.Model.PrecondExt
import KfacVerif.Lemmas.PrecondRT

namespace KV.LoadInto
open KV KV.Precond KV.PF
open KV.Spec (foldl_pres foldl_inv' foldl_estab)

/-- two folds agree when their bodies agree on every state satisfying an invariant of the fold -/
theorem foldl_congr_inv {α β : Type _} (P : β → Prop) (f f' : β → α → β) (xs : List α)
    (h : ∀ t l, P t → l ∈ xs → f' t l = f t l ∧ P (f t l)) (s : β) (hs : P s) :
    xs.foldl f' s = xs.foldl f s := by
  induction xs generalizing s with
  | nil => rfl
  | cons a t ih =>
    simp only [List.foldl_cons]
    obtain ⟨e, hp⟩ := h s a hs (by simp)
    rw [e]
    exact ih (fun t' l ht hl => h t' l ht (List.mem_cons_of_mem _ hl)) _ hp

/-! ### the stages of `loadInto` / `loadInto'` -/

def lfresh (c : Cfg) (cur snap : St) : St :=
  { St.init c snap.hyper with
    steps := snap.steps, pass := cur.pass, nIssued := cur.nIssued, nextReq := cur.nextReq,
    script := cur.script, defs := cur.defs }

def lcopy (c : Cfg) (snap t0 : St) : St :=
  forRanks c t0 fun t r => (layerIdxs c).foldl (fun t l => cp snap t r l) t

/-- the inverse stage of the repaired code -/
def linv' (c : Cfg) (damping : Rat) (t : St) : St :=
  (layerIdxs c).foldl (fun t l =>
    if !layerHasFactors c t l then t else
    let t := forRanks c t fun t r => computeGInv c (computeAInv c t r l damping) r l damping
    if c.asg.bcastInv then broadcastGInv c (broadcastAInv c t l) l else t) t

theorem loadInto_eq (c : Cfg) (cur snap : St) (f ci : Bool) :
    Precond.loadInto c cur snap f ci =
      if !f then lfresh c cur snap else
      if !ci then lcopy c snap (lfresh c cur snap) else
      plInv c ((lcopy c snap (lfresh c cur snap)).hyper.damping.val (lcopy c snap (lfresh c cur snap)).steps)
        (lcopy c snap (lfresh c cur snap)) :=
  rfl

theorem loadInto'_eq_stages (c : Cfg) (cur snap : St) (f ci : Bool) :
    Precond.loadInto' c cur snap f ci =
      if !f then lfresh c cur snap else
      if !ci then lcopy c snap (lfresh c cur snap) else
      linv' c ((lcopy c snap (lfresh c cur snap)).hyper.damping.val (lcopy c snap (lfresh c cur snap)).steps)
        (lcopy c snap (lfresh c cur snap)) :=
  rfl

/-! ### the copy stage fills every cell -/

theorem getL_lfresh (c : Cfg) (cur snap : St) (r l : Nat) : getL (lfresh c cur snap) r l = {} := by
  simp only [getL, lfresh, St.init, List.getD_eq_getElem?_getD, List.getElem?_replicate]
  split
  · simp only [Option.getD_some, List.getElem?_replicate]
    split <;> rfl
  · rfl

theorem InR_lfresh (c : Cfg) (cur snap : St) (r l : Nat) (hr : r < c.world) (hl : l < c.layers.length) :
    InR (lfresh c cur snap) r l := by
  simp [InR, lfresh, St.init, hr, hl, List.getD_eq_getElem?_getD]

theorem lcopy_cell (c : Cfg) (s1 t0 : St) (r l : Nat) (hr : r < c.world) (hl : l < c.layers.length)
    (h0 : CellOK s1 r l t0) :
    getL (lcopy c s1 t0) r l = tgt s1 r l := by
  unfold lcopy Precond.forRanks
  have hin : ∀ (t : St) (r' : Nat), CellOK s1 r l t →
      CellOK s1 r l ((layerIdxs c).foldl (fun t l => cp s1 t r' l) t) := fun t r' ht =>
    foldl_inv' (CellOK s1 r l) _ (fun t l' ht => cp_ok s1 t r l r' l' ht) _ _ ht
  refine foldl_estab (CellOK s1 r l) (fun t => getL t r l = tgt s1 r l) _ r
    (fun t r' ht => hin t r' ht) (fun t r' _ hp => ?_) (fun t ht => ?_) _ _
    h0 (Or.inr (by simp [worldRanks, hr]))
  · exact foldl_inv' (fun t => getL t r l = tgt s1 r l) _ (fun t l' ht => cp_keep s1 t r l r' l' ht) _ _ hp
  · exact foldl_estab (CellOK s1 r l) (fun t => getL t r l = tgt s1 r l) _ l
      (fun t l' ht => cp_ok s1 t r l r l' ht) (fun t l' _ hp => cp_keep s1 t r l r l' hp)
      (fun t ht => cp_est s1 t r l ht) _ _ ht (Or.inr (by simp [layerIdxs, hl]))

/-! ### every cell has both factors -/

/-- every rank holds both factors of every layer -/
def HasF (c : Cfg) (t : St) : Prop :=
  ∀ r l, r < c.world → l < c.layers.length →
    (getL t r l).aFactor.isSome = true ∧ (getL t r l).gFactor.isSome = true

theorem HasF.fr {c : Cfg} {t t' : St} (h : HasF c t) (hfr : Fr t t') : HasF c t' := by
  intro r l hr hl
  obtain ⟨ha, hg⟩ := h r l hr hl
  have hk := hfr.lay r l
  simp only [K, Prod.mk.injEq] at hk
  have e1 : (getL t' r l).aFactor.isSome = (getL t r l).aFactor.isSome := by
    have := congrArg Option.isSome hk.1
    simpa using this
  have e2 : (getL t' r l).gFactor.isSome = (getL t r l).gFactor.isSome := by
    have := congrArg Option.isSome hk.2.1
    simpa using this
  exact ⟨e1.trans ha, e2.trans hg⟩

theorem HasF.layer {c : Cfg} {t : St} (h : HasF c t) {l : Nat} (hl : l < c.layers.length) :
    layerHasFactors c t l = true := by
  unfold layerHasFactors
  rw [List.all_eq_true]
  intro r hr
  have hr' : r < c.world := by simpa [worldRanks] using hr
  obtain ⟨ha, hg⟩ := h r l hr' hl
  rw [ha, hg]; rfl

theorem strip_isSome (o : Option Slot) : (strip o).isSome = o.isSome := by
  cases o <;> rfl

theorem HasF.lcopy (c : Cfg) (cur snap : St)
    (hf : ∀ r l, r < c.world → l < c.layers.length →
      (getL snap r l).aFactor.isSome = true ∧ (getL snap r l).gFactor.isSome = true) :
    HasF c (lcopy c snap (lfresh c cur snap)) := by
  intro r l hr hl
  rw [lcopy_cell c snap _ r l hr hl ⟨InR_lfresh c cur snap r l hr hl, Or.inl (getL_lfresh c cur snap r l)⟩]
  simp only [tgt, strip_isSome]
  exact hf r l hr hl

/-- one iteration of the inverse stage keeps factors and batches -/
theorem Fr.invStep (c : Cfg) (d : Rat) (t : St) (l : Nat) :
    Fr t (
      let t := forRanks c t fun t r => computeGInv c (computeAInv c t r l d) r l d
      if c.asg.bcastInv then broadcastGInv c (broadcastAInv c t l) l else t) := by
  extract_lets t1
  have h1 : Fr t t1 := Fr.forRanks c _ (fun t r => (Fr.computeAInv c t r l d).trans (Fr.computeGInv c _ r l d)) _
  clear_value t1
  split
  · exact h1.trans ((Fr.broadcastAInv c t1 l).trans (Fr.broadcastGInv c _ l))
  · exact h1

theorem linv'_eq (c : Cfg) (d : Rat) (t : St) (h : HasF c t) : linv' c d t = plInv c d t := by
  unfold linv' plInv
  refine foldl_congr_inv (HasF c) _ _ _ (fun t l ht hl => ?_) t h
  have hl' : l < c.layers.length := by simpa [layerIdxs] using hl
  refine ⟨?_, ht.fr (Fr.invStep c d t l)⟩
  simp only [ht.layer hl', Bool.not_true, Bool.false_eq_true, if_false]

/-- the repaired `load_state_dict` is the original one whenever every layer has its factors -/
theorem loadInto'_eq (c : Cfg) (cur snap : St) (f ci : Bool)
    (hf : ∀ r l, r < c.world → l < c.layers.length →
      (getL snap r l).aFactor.isSome = true ∧ (getL snap r l).gFactor.isSome = true) :
    Precond.loadInto' c cur snap f ci = Precond.loadInto c cur snap f ci := by
  rw [loadInto'_eq_stages, loadInto_eq, linv'_eq c _ _ (HasF.lcopy c cur snap hf)]

end KV.LoadInto
