/-
Invariants of the M-Precond state machine, part 3: second-order phase (inverses, broadcasts,
preconditioning) — `Good st` for either strictness.  Core Lean only.
-/
import KfacVerif.Lemmas.PrecondInv2

namespace KV.PI
open KV KV.Precond
open KV.Sched2 (eventsOf wfAux wf Events)

theorem Good.bcastField {st c s} (ha : AsgOK c) (h : Good st c μ s) (l src elems : Nat)
    (hsrc : src ∈ c.asg.workers l)
    (get : LState → Option Slot) (set : LState → Option Slot → LState)
    (hset : ∀ ev r x o, LOK st ev r x → SlotOK st ev r o → LOK st ev r (set x o)) :
    Good st c μ (Precond.bcastField c s l src elems get set) := by
  unfold Precond.bcastField
  extract_lets members
  split
  · exact h
  · rename_i hlen
    split
    rename_i _ s1 id hiss
    obtain ⟨h1, he, hid, -, -⟩ := issue_spec h (ha.workers_lt l) (two_le_length_of_mem hsrc hlen)
      (fun _ => hsrc) hiss
    refine (foldl_inv (fun s' => Good st c μ s' ∧ evs s' = evs s1) _ _ _ ⟨h1, rfl⟩ ?_).1
    intro s' r hr ⟨hs', he'⟩
    refine hs'.setLE he' (hset _ _ _ _ (hs'.lokE he' r l) ?_)
    show id < _ ∧ r ∈ _
    rw [he, hid]
    refine ⟨by simp, ?_⟩
    simpa [List.getD] using hr

theorem Good.computeAInv {st c s} (h : Good st c μ s) (r l : Nat) (d : Rat) :
    Good st c μ (Precond.computeAInv c s r l d) := by
  unfold Precond.computeAInv
  extract_lets x
  split
  · exact h.fail _ _
  · rd h rfl (h.lok r l).aFactor => s1 f h1 hE1 hf
    have hl := h1.lokE hE1 r l
    split
    · exact (h1.setLE hE1 (by lok_from hl)).1
    · exact (h1.setLE hE1 (by lok_from hl)).1

theorem Good.computeGInv {st c s} (h : Good st c μ s) (r l : Nat) (d : Rat) :
    Good st c μ (Precond.computeGInv c s r l d) := by
  unfold Precond.computeGInv
  extract_lets x
  split
  · exact h.fail _ _
  · rd h rfl (h.lok r l).gFactor => s1 f h1 hE1 hf
    have hl := h1.lokE hE1 r l
    split
    · rd h1 hE1 hl.da => s2 da h2 hE2 hda
      have hl2 := h2.lokE hE2 r l
      split
      · exact h2.fail _ _
      · split
        · exact (h2.setLE hE2 (by lok_from hl2)).1
        · exact (h2.setLE hE2 (by lok_from hl2)).1
    · exact (h1.setLE hE1 (by lok_from hl)).1

/-! ### `broadcast_a_inv` -/

theorem Good.bcastA_eigen_body {st c} (l : Nat) (s : St) (r : Nat) (hs : Good st c μ s) :
    Good st c μ (
      let src := c.asg.invA l
      let x := getL s r l
      let (s, qa) := readSlot s r x.qa
      let x := { getL s r l with qa := qa }
      let (s, da) := readIf (qa.isSome && !c.prediv) s r x.da
      let x := { getL s r l with qa := qa, da := da }
      if qa.isNone || (!c.prediv && da.isNone) then
        if r == src then Precond.fail s r "broadcast A inv from src that has not computed it" else
        let (s, af) := readSlot s r x.aFactor
        let x := { getL s r l with qa := qa, da := da, aFactor := af }
        if af.isNone then Precond.fail s r "a_factor is None when allocating the receive buffer" else
        Precond.setL s r l { x with qa := some ⟨.garbage, .ready⟩, da := some ⟨.garbage, .ready⟩ }
      else Precond.setL s r l x) := by
  rd hs rfl (hs.lok r l).qa => s1 qa h1 hE1 hqa
  have hl1 := h1.lokE hE1 r l
  rdif h1 hE1 hl1.da => s2 da h2 hE2 hda
  have hl2 := h2.lokE hE2 r l
  split
  · split
    · exact h2.fail _ _
    · rd h2 hE2 hl2.aFactor => s3 af h3 hE3 haf
      have hl3 := h3.lokE hE3 r l
      split
      · exact h3.fail _ _
      · exact (h3.setLE hE3 (by lok_from hl3)).1
  · exact (h2.setLE hE2 (by lok_from hl2)).1

theorem Good.bcastA_inv_body {st c} (l : Nat) (s : St) (r : Nat) (hs : Good st c μ s) :
    Good st c μ (
      let src := c.asg.invA l
      let x := getL s r l
      let (s, ai) := readSlot s r x.aInv
      let x := { getL s r l with aInv := ai }
      if ai.isNone then
        if r == src then Precond.fail s r "broadcast A inv from src that has not computed it" else
        let (s, af) := readSlot s r x.aFactor
        let x := { getL s r l with aInv := ai, aFactor := af }
        if af.isNone then Precond.fail s r "a_factor is None when allocating the receive buffer" else
        Precond.setL s r l { x with aInv := some ⟨.garbage, .ready⟩ }
      else Precond.setL s r l x) := by
  rd hs rfl (hs.lok r l).aInv => s1 ai h1 hE1 hai
  have hl1 := h1.lokE hE1 r l
  split
  · split
    · exact h1.fail _ _
    · rd h1 hE1 hl1.aFactor => s3 af h3 hE3 haf
      have hl3 := h3.lokE hE3 r l
      split
      · exact h3.fail _ _
      · exact (h3.setLE hE3 (by lok_from hl3)).1
  · exact (h1.setLE hE1 (by lok_from hl1)).1

theorem Good.broadcastAInv {st c s} (ha : AsgOK c) (h : Good st c μ s) (l : Nat) :
    Good st c μ (Precond.broadcastAInv c s l) := by
  unfold Precond.broadcastAInv
  split
  · have h1 := foldl_inv (Good st c μ) _ (c.asg.workers l) s h
      (fun s r _ hs => Good.bcastA_eigen_body l s r hs)
    have h2 := h1.bcastField ha l (c.asg.invA l)
      ((c.layers.getD l ⟨0, 0⟩).aDim * (c.layers.getD l ⟨0, 0⟩).aDim) (ha.invA_mem l)
      (·.qa) (fun x v => { x with qa := v }) (fun _ _ _ _ hx ho => by lok_from hx)
    split
    · exact h2
    · exact h2.bcastField ha l (c.asg.invA l) _ (ha.invA_mem l)
        (·.da) (fun x v => { x with da := v }) (fun _ _ _ _ hx ho => by lok_from hx)
  · have h1 := foldl_inv (Good st c μ) _ (c.asg.workers l) s h
      (fun s r _ hs => Good.bcastA_inv_body l s r hs)
    exact h1.bcastField ha l (c.asg.invA l) _ (ha.invA_mem l)
      (·.aInv) (fun x v => { x with aInv := v }) (fun _ _ _ _ hx ho => by lok_from hx)

/-! ### `broadcast_g_inv` -/

theorem Good.bcastG_eigen_body {st c} (l : Nat) (s : St) (r : Nat) (hs : Good st c μ s) :
    Good st c μ (
      let src := c.asg.invG l
      let x := getL s r l
      let (s, qg) := readSlot s r x.qg
      let x := { getL s r l with qg := qg }
      let (s, dg) := readIf (qg.isSome && !c.prediv) s r x.dg
      let x := { getL s r l with qg := qg, dg := dg }
      let (s, dgda) := readIf (qg.isSome && c.prediv) s r x.dgda
      let x := { getL s r l with qg := qg, dg := dg, dgda := dgda }
      if qg.isNone || (!c.prediv && dg.isNone) || (c.prediv && dgda.isNone) then
        if r == src then Precond.fail s r "broadcast G inv from src that has not computed it" else
        let (s, gf) := readSlot s r x.gFactor
        let x := { getL s r l with qg := qg, dg := dg, dgda := dgda, gFactor := gf }
        if gf.isNone then Precond.fail s r "g_factor is None when allocating the receive buffer" else
        if c.prediv then
          let (s, af) := readSlot s r x.aFactor
          let x := { getL s r l with qg := qg, dg := dg, dgda := dgda, gFactor := gf, aFactor := af }
          if af.isNone then Precond.fail s r "a_factor is None when allocating the receive buffer" else
          Precond.setL s r l { x with qg := some ⟨.garbage, .ready⟩, dgda := some ⟨.garbage, .ready⟩ }
        else Precond.setL s r l { x with qg := some ⟨.garbage, .ready⟩, dg := some ⟨.garbage, .ready⟩ }
      else Precond.setL s r l x) := by
  rd hs rfl (hs.lok r l).qg => s1 qg h1 hE1 hqg
  have hl1 := h1.lokE hE1 r l
  rdif h1 hE1 hl1.dg => s2 dg h2 hE2 hdg
  have hl2 := h2.lokE hE2 r l
  rdif h2 hE2 hl2.dgda => s3 dgda h3 hE3 hdgda
  have hl3 := h3.lokE hE3 r l
  split
  · split
    · exact h3.fail _ _
    · rd h3 hE3 hl3.gFactor => s4 gf h4 hE4 hgf
      have hl4 := h4.lokE hE4 r l
      split
      · exact h4.fail _ _
      · split
        · rd h4 hE4 hl4.aFactor => s5 af h5 hE5 haf
          have hl5 := h5.lokE hE5 r l
          split
          · exact h5.fail _ _
          · exact (h5.setLE hE5 (by lok_from hl5)).1
        · exact (h4.setLE hE4 (by lok_from hl4)).1
  · exact (h3.setLE hE3 (by lok_from hl3)).1

theorem Good.bcastG_inv_body {st c} (l : Nat) (s : St) (r : Nat) (hs : Good st c μ s) :
    Good st c μ (
      let src := c.asg.invG l
      let x := getL s r l
      let (s, gi) := readSlot s r x.gInv
      let x := { getL s r l with gInv := gi }
      if gi.isNone then
        if r == src then Precond.fail s r "broadcast G inv from src that has not computed it" else
        let (s, gf) := readSlot s r x.gFactor
        let x := { getL s r l with gInv := gi, gFactor := gf }
        if gf.isNone then Precond.fail s r "g_factor is None when allocating the receive buffer" else
        Precond.setL s r l { x with gInv := some ⟨.garbage, .ready⟩ }
      else Precond.setL s r l x) := by
  rd hs rfl (hs.lok r l).gInv => s1 gi h1 hE1 hgi
  have hl1 := h1.lokE hE1 r l
  split
  · split
    · exact h1.fail _ _
    · rd h1 hE1 hl1.gFactor => s3 gf h3 hE3 hgf
      have hl3 := h3.lokE hE3 r l
      split
      · exact h3.fail _ _
      · exact (h3.setLE hE3 (by lok_from hl3)).1
  · exact (h1.setLE hE1 (by lok_from hl1)).1

theorem Good.broadcastGInv {st c s} (ha : AsgOK c) (h : Good st c μ s) (l : Nat) :
    Good st c μ (Precond.broadcastGInv c s l) := by
  unfold Precond.broadcastGInv
  split
  · extract_lets src dims g s1 s2
    have h1 : Good st c μ s1 := foldl_inv (Good st c μ) _ (c.asg.workers l) s h
      (fun s r _ hs => Good.bcastG_eigen_body l s r hs)
    have h2 : Good st c μ s2 := h1.bcastField ha l (c.asg.invG l) _ (ha.invG_mem l)
      (·.qg) (fun x v => { x with qg := v }) (fun _ _ _ _ hx ho => by lok_from hx)
    clear_value s2 s1
    split
    · exact h2.bcastField ha l (c.asg.invG l) _ (ha.invG_mem l)
        (·.dgda) (fun x v => { x with dgda := v }) (fun _ _ _ _ hx ho => by lok_from hx)
    · exact h2.bcastField ha l (c.asg.invG l) _ (ha.invG_mem l)
        (·.dg) (fun x v => { x with dg := v }) (fun _ _ _ _ hx ho => by lok_from hx)
  · have h1 := foldl_inv (Good st c μ) _ (c.asg.workers l) s h
      (fun s r _ hs => Good.bcastG_inv_body l s r hs)
    exact h1.bcastField ha l (c.asg.invG l) _ (ha.invG_mem l)
      (·.gInv) (fun x v => { x with gInv := v }) (fun _ _ _ _ hx ho => by lok_from hx)

/-! ### `preconditioned_grad`, `broadcast_grad` -/

theorem Good.precondGrad {st c s} (h : Good st c μ s) (r l : Nat) (d : Rat) :
    Good st c μ (Precond.precondGrad c s r l d) := by
  have key : Precond.precondGrad c s r l d = (
      let g := V.rawGrad l s.steps
      let x := getL s r l
      match c.method with
      | .eigen =>
        let (s, qa) := readSlot s r x.qa
        let (s, qg) := readSlot s r x.qg
        let (s, da) := readUnless c.prediv s r x.da
        let (s, dg) := readUnless c.prediv s r x.dg
        let (s, dgda) := readIf c.prediv s r x.dgda
        let v (o : Option Slot) := (o.map (·.val)).getD .garbage
        if qa.isNone || qg.isNone || (!c.prediv && (da.isNone || dg.isNone)) || (c.prediv && dgda.isNone) then
          Precond.fail s r "eigendecompositions have not been computed" else
        let pg := if c.prediv then V.pcEigPre (v qa) (v qg) (v dgda) g
                  else V.pcEig (v qa) (v da) (v qg) (v dg) d g
        let x := getL s r l
        Precond.setL s r l { x with qa := qa, qg := qg, da := da, dg := dg, dgda := dgda, grad := some ⟨pg, .ready⟩ }
      | .inverse =>
        let (s, ai) := readSlot s r x.aInv
        let (s, gi) := readSlot s r x.gInv
        let v (o : Option Slot) := (o.map (·.val)).getD .garbage
        if ai.isNone || gi.isNone then Precond.fail s r "A and G have not been inverted" else
        let x := getL s r l
        Precond.setL s r l { x with aInv := ai, gInv := gi, grad := some ⟨.pcInv (v ai) (v gi) g, .ready⟩ }) := rfl
  rw [key]
  have hl := h.lok r l
  extract_lets g x
  split
  · rd h rfl hl.qa => s1 qa h1 hE1 hqa
    rd h1 hE1 hl.qg => s2 qg h2 hE2 hqg
    rdun h2 hE2 hl.da => s3 da h3 hE3 hda
    rdun h3 hE3 hl.dg => s4 dg h4 hE4 hdg
    rdif h4 hE4 hl.dgda => s5 dgda h5 hE5 hdgda
    have hl5 := h5.lokE hE5 r l
    split
    · exact h5.fail _ _
    · exact (h5.setLE hE5 (by lok_from hl5)).1
  · rd h rfl hl.aInv => s1 ai h1 hE1 hai
    rd h1 hE1 hl.gInv => s2 gi h2 hE2 hgi
    have hl2 := h2.lokE hE2 r l
    split
    · exact h2.fail _ _
    · exact (h2.setLE hE2 (by lok_from hl2)).1

theorem Good.bgrad_body {st c} (l src : Nat) (s : St) (r : Nat) (hs : Good st c μ s) :
    Good st c μ (
      let x := getL s r l
      let (s, gr) := readSlot s r x.grad
      let x := { getL s r l with grad := gr }
      if gr.isNone && r == src then
        Precond.fail s r "broadcast gradient from src that has not preconditioned it" else
      Precond.setL s r l (if gr.isNone then { x with grad := some ⟨.garbage, .ready⟩ } else x)) := by
  rd hs rfl (hs.lok r l).grad => s1 gr h1 hE1 hgr
  have hl1 := h1.lokE hE1 r l
  split
  · exact h1.fail _ _
  · refine (h1.setLE hE1 ?_).1
    split <;> lok_from hl1

theorem Good.bgrad_row {st c} (ha : AsgOK c) (l elems : Nat) (s : St) (r0 : Nat) (hr0 : r0 < c.world)
    (hs : Good st c μ s) :
    Good st c μ (
      let members := c.asg.recv r0
      if members.length == 1 then s else
      let src := c.asg.src r0 l
      let s := members.foldl (fun s r =>
        let x := getL s r l
        let (s, gr) := readSlot s r x.grad
        let x := { getL s r l with grad := gr }
        if gr.isNone && r == src then
          Precond.fail s r "broadcast gradient from src that has not preconditioned it" else
        Precond.setL s r l (if gr.isNone then { x with grad := some ⟨.garbage, .ready⟩ } else x)) s
      let rootVal := (((getL s src l).grad).map (·.val)).getD .garbage
      let (s, id) := issue s members { kind := .broadcast, elems := elems, esize := c.ge, root := src }
      members.foldl (fun s r => let x := getL s r l
                               Precond.setL s r l { x with grad := some ⟨rootVal, .issued id⟩ }) s) := by
  extract_lets members src s1 rootVal
  split
  · exact hs
  · rename_i hlen
    have h1 : Good st c μ s1 := foldl_inv (Good st c μ) _ members s hs
      (fun s r _ hs => Good.bgrad_body l src s r hs)
    split
    rename_i _ s2 id hiss
    have hsrc : src ∈ members := ha.src_recv r0 l hr0
    obtain ⟨h2, he, hid, -, -⟩ := issue_spec h1 (ha.recv_lt r0) (two_le_length_of_mem hsrc hlen)
      (fun _ => hsrc) hiss
    refine (foldl_inv (fun s' => Good st c μ s' ∧ evs s' = evs s2) _ _ _ ⟨h2, rfl⟩ ?_).1
    intro s' r hr ⟨hs', he'⟩
    have hl := hs'.lokE he' r l
    have : SlotOK st (evs s2) r (some ⟨rootVal, .issued id⟩) := by
      show id < _ ∧ r ∈ _
      rw [he, hid]
      refine ⟨by simp, ?_⟩
      simpa [List.getD] using hr
    exact hs'.setLE he' (by lok_from hl)

theorem Good.broadcastGrad {st c s} (ha : AsgOK c) (h : Good st c μ s) (l : Nat) :
    Good st c μ (Precond.broadcastGrad c s l) := by
  unfold Precond.broadcastGrad
  extract_lets dims elems rows
  refine foldl_inv (Good st c μ) _ rows s h ?_
  intro s r0 hr0 hs
  have hr0' : r0 < c.world := mem_worldRanks.mp (List.mem_filter.mp hr0).1
  exact Good.bgrad_row ha l elems s r0 hr0' hs

end KV.PI
