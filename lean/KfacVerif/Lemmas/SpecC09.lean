/-
Facts behind C09 on the reference machine: the "same future" relation is preserved by every
operation; a checkpoint round trip lands in it.  Core Lean only.
-/
import KfacVerif.Lemmas.SpecC05

namespace KV.C09
open KV KV.Precond KV.Spec

/-! ### spec-level definitions of Props/C09 (moved here verbatim) -/

/-- a state at a step boundary of a run of whole iterations: nothing accumulated, counters zero -/
def Boundary (c : SCfg) (s : SSt) : Prop :=
  s.mini = List.replicate c.nLayers 0 ∧ s.layers.length = c.nLayers ∧
  ∀ x ∈ s.layers, x.aBatch = none ∧ x.gBatch = none ∧ x.aCount = 0 ∧ x.gCount = 0

/-- second-order data recomputed from the current factors with the damping read now -/
def refreshAll (c : SCfg) (s : SSt) : SSt :=
  (idxs c).foldl (fun t l => Spec.refresh c t l (s.hyper.damping.val s.steps)) s

/-- everything that can influence the future (the gradients of the last step are not part of it) -/
def SameFuture (s s' : SSt) : Prop :=
  s.steps = s'.steps ∧ s.mini = s'.mini ∧ s.pass = s'.pass ∧ s.layers = s'.layers ∧
  s.hyper = s'.hyper ∧ s.defs = s'.defs

/-- the gradients produced by each step of a continuation -/
def outsOf (c : SCfg) : SSt → List Op → List (List V)
  | _, [] => []
  | s, op :: t =>
    let s' := Spec.exec c s op
    match op with
    | .step => s'.out :: outsOf c s' t
    | _ => outsOf c s' t

/-- stale second-order fields that `precond` never reads in the configured mode are ignored -/
def SameFutureUpTo (c : SCfg) (s s' : SSt) : Prop :=
  s.steps = s'.steps ∧ s.mini = s'.mini ∧ s.pass = s'.pass ∧ s.hyper = s'.hyper ∧ s.defs = s'.defs ∧
  s.layers.length = s'.layers.length ∧
  ∀ l, let x := getS s l; let y := getS s' l
    x.aBatch = y.aBatch ∧ x.aCount = y.aCount ∧ x.gBatch = y.gBatch ∧ x.gCount = y.gCount ∧
    x.aFactor = y.aFactor ∧ x.gFactor = y.gFactor ∧
    (match c.method with
     | .inverse => x.aInv = y.aInv ∧ x.gInv = y.gInv
     | .eigen => x.qa = y.qa ∧ x.qg = y.qg ∧
        (if c.prediv then x.dgda = y.dgda else x.da = y.da ∧ x.dg = y.dg))

/-! ### the relation, with the second-order part restricted to the layers in `P` -/

def soRel (c : SCfg) (x y : SLayer) : Prop :=
  match c.method with
  | .inverse => x.aInv = y.aInv ∧ x.gInv = y.gInv
  | .eigen => x.qa = y.qa ∧ x.qg = y.qg ∧
      (if c.prediv then x.dgda = y.dgda else x.da = y.da ∧ x.dg = y.dg)

def relP (p : Prop) (c : SCfg) (x y : SLayer) : Prop :=
  x.aBatch = y.aBatch ∧ x.aCount = y.aCount ∧ x.gBatch = y.gBatch ∧ x.gCount = y.gCount ∧
  x.aFactor = y.aFactor ∧ x.gFactor = y.gFactor ∧ (p → soRel c x y)

structure SFP (P : Nat → Prop) (c : SCfg) (s s' : SSt) : Prop where
  steps : s.steps = s'.steps
  mini : s.mini = s'.mini
  pass : s.pass = s'.pass
  hyper : s.hyper = s'.hyper
  defs : s.defs = s'.defs
  len : s.layers.length = s'.layers.length
  lay : ∀ l, relP (P l) c (getS s l) (getS s' l)

abbrev AllL : Nat → Prop := fun _ => True
abbrev NoL : Nat → Prop := fun _ => False

theorem SFU_iff (c : SCfg) (s s' : SSt) : SameFutureUpTo c s s' ↔ SFP AllL c s s' := by
  constructor
  · rintro ⟨h1, h2, h3, h4, h5, h6, h7⟩
    exact ⟨h1, h2, h3, h4, h5, h6, fun l => by simpa [relP, soRel] using h7 l⟩
  · rintro ⟨h1, h2, h3, h4, h5, h6, h7⟩
    exact ⟨h1, h2, h3, h4, h5, h6, fun l => by simpa [relP, soRel] using h7 l⟩

theorem soRel_refl (c : SCfg) (x : SLayer) : soRel c x x := by
  unfold soRel; cases c.method <;> cases c.prediv <;> simp

theorem soRel_symm {c : SCfg} {x y : SLayer} (h : soRel c x y) : soRel c y x := by
  cases hm : c.method <;> cases hp : c.prediv <;> simp_all [soRel]

theorem soRel_trans {c : SCfg} {x y z : SLayer} (h : soRel c x y) (h' : soRel c y z) : soRel c x z := by
  cases hm : c.method <;> cases hp : c.prediv <;> simp_all [soRel]

theorem relP_refl (p : Prop) (c : SCfg) (x : SLayer) : relP p c x x :=
  ⟨rfl, rfl, rfl, rfl, rfl, rfl, fun _ => soRel_refl c x⟩

theorem relP_symm {p : Prop} {c : SCfg} {x y : SLayer} (h : relP p c x y) : relP p c y x := by
  obtain ⟨h1, h2, h3, h4, h5, h6, h7⟩ := h
  exact ⟨h1.symm, h2.symm, h3.symm, h4.symm, h5.symm, h6.symm, fun hp => soRel_symm (h7 hp)⟩

theorem relP_trans {p : Prop} {c : SCfg} {x y z : SLayer} (h : relP p c x y) (h' : relP p c y z) :
    relP p c x z := by
  obtain ⟨h1, h2, h3, h4, h5, h6, h7⟩ := h
  obtain ⟨g1, g2, g3, g4, g5, g6, g7⟩ := h'
  exact ⟨h1.trans g1, h2.trans g2, h3.trans g3, h4.trans g4, h5.trans g5, h6.trans g6,
    fun hp => soRel_trans (h7 hp) (g7 hp)⟩

theorem relP_mono {p q : Prop} {c : SCfg} {x y : SLayer} (hqp : q → p) (h : relP p c x y) : relP q c x y := by
  obtain ⟨h1, h2, h3, h4, h5, h6, h7⟩ := h
  exact ⟨h1, h2, h3, h4, h5, h6, fun hq => h7 (hqp hq)⟩

namespace SFP
variable {P Q : Nat → Prop} {c : SCfg} {s s' s'' : SSt}

theorem refl (P : Nat → Prop) (c : SCfg) (s : SSt) : SFP P c s s :=
  ⟨rfl, rfl, rfl, rfl, rfl, rfl, fun _ => relP_refl _ _ _⟩

theorem symm (h : SFP P c s s') : SFP P c s' s :=
  ⟨h.steps.symm, h.mini.symm, h.pass.symm, h.hyper.symm, h.defs.symm, h.len.symm, fun l => relP_symm (h.lay l)⟩

theorem trans (h : SFP P c s s') (h' : SFP P c s' s'') : SFP P c s s'' :=
  ⟨h.steps.trans h'.steps, h.mini.trans h'.mini, h.pass.trans h'.pass, h.hyper.trans h'.hyper,
   h.defs.trans h'.defs, h.len.trans h'.len, fun l => relP_trans (h.lay l) (h'.lay l)⟩

theorem mono (h : SFP P c s s') (hQ : ∀ k, Q k → P k) : SFP Q c s s' :=
  ⟨h.steps, h.mini, h.pass, h.hyper, h.defs, h.len, fun l => relP_mono (hQ l) (h.lay l)⟩

/-- beyond the end of the layer list both sides read the default layer -/
theorem extend (h : SFP P c s s') (n : Nat) (hn : s.layers.length = n) : SFP (fun k => P k ∨ n ≤ k) c s s' := by
  refine ⟨h.steps, h.mini, h.pass, h.hyper, h.defs, h.len, fun l => ?_⟩
  by_cases hl : n ≤ l
  · rw [getS_oob s l (by omega), getS_oob s' l (by rw [← h.len]; omega)]
    exact relP_refl _ _ _
  · exact relP_mono (fun hq => hq.resolve_right hl) (h.lay l)

/-- writing related layers at the same index; the written index may join `P` -/
theorem setS' (h : SFP P c s s') (l : Nat) {x y : SLayer} (hQ : ∀ k, k ≠ l → Q k → P k)
    (hx : relP (Q l) c x y) : SFP Q c (setS s l x) (setS s' l y) := by
  refine ⟨h.steps, h.mini, h.pass, h.hyper, h.defs, by simpa using h.len, fun k => ?_⟩
  rw [getS_setS, getS_setS, ← h.len]
  by_cases hk : k = l
  · subst hk
    by_cases hl : k < s.layers.length
    · simpa [hl] using hx
    · simp only [hl, and_false, if_false]
      rw [getS_oob s k (by omega), getS_oob s' k (by rw [← h.len]; omega)]
      exact relP_refl _ _ _
  · simp only [hk, false_and, if_false]
    exact relP_mono (hQ k hk) (h.lay k)

theorem setS (h : SFP P c s s') (l : Nat) {x y : SLayer} (hx : relP (P l) c x y) :
    SFP P c (setS s l x) (setS s' l y) := h.setS' l (fun _ _ hk => hk) hx

theorem withMini (h : SFP P c s s') (m : List Nat) : SFP P c { s with mini := m } { s' with mini := m } :=
  ⟨h.steps, rfl, h.pass, h.hyper, h.defs, h.len, h.lay⟩

theorem withDefs (h : SFP P c s s') (d : List V) : SFP P c { s with defs := d } { s' with defs := d } :=
  ⟨h.steps, h.mini, h.pass, h.hyper, rfl, h.len, h.lay⟩

theorem withPass (h : SFP P c s s') (n : Nat) : SFP P c { s with pass := n } { s' with pass := n } :=
  ⟨h.steps, h.mini, rfl, h.hyper, h.defs, h.len, h.lay⟩

theorem withHyper (h : SFP P c s s') (hy : Hyper) : SFP P c { s with hyper := hy } { s' with hyper := hy } :=
  ⟨h.steps, h.mini, h.pass, rfl, h.defs, h.len, h.lay⟩

theorem save (h : SFP P c s s') (l : Nat) (isA : Bool) : SFP P c (save c s l isA) (save c s' l isA) := by
  obtain ⟨h1, h2, h3, h4, h5, h6, h7⟩ := h.lay l
  unfold Spec.save
  rw [← h.pass]
  cases isA
  · simp only [Bool.false_eq_true, if_false]
    rw [← h3]
    cases (getS s l).gBatch with
    | none => exact h.setS l ⟨h1, h2, rfl, rfl, h5, h6, h7⟩
    | some b => exact h.setS l ⟨h1, h2, rfl, by simp [h4], h5, h6, h7⟩
  · simp only [if_true]
    rw [← h1]
    cases (getS s l).aBatch with
    | none => exact h.setS l ⟨rfl, rfl, h3, h4, h5, h6, h7⟩
    | some b => exact h.setS l ⟨rfl, by simp [h2], h3, h4, h5, h6, h7⟩

theorem urVals_eq (h : SFP P c s s') (l : Nat) (isA : Bool) (α : Rat) :
    urVals c (getS s l) l isA α = urVals c (getS s' l) l isA α := by
  obtain ⟨h1, h2, h3, h4, h5, h6, h7⟩ := h.lay l
  unfold urVals
  rw [h1, h2, h3, h4, h5, h6]

theorem urPut_rel {p : Prop} {x y : SLayer} (h : relP p c x y) (isA : Bool) (v : Option V) :
    relP p c (urPut x isA v) (urPut y isA v) := by
  obtain ⟨h1, h2, h3, h4, h5, h6, h7⟩ := h
  unfold urPut
  cases isA
  · exact ⟨h1, h2, rfl, h4, h5, rfl, fun hp => by simpa [soRel] using h7 hp⟩
  · exact ⟨rfl, h2, h3, h4, rfl, h6, fun hp => by simpa [soRel] using h7 hp⟩

theorem updateReduce (h : SFP P c s s') (l : Nat) (isA : Bool) (α : Rat) :
    SFP P c (updateReduce c s l isA α) (updateReduce c s' l isA α) := by
  rw [updateReduce_eq, updateReduce_eq, ← h.urVals_eq l isA α, ← h.defs]
  cases urVals c (getS s l) l isA α with
  | none => exact h
  | some vals =>
    dsimp only
    split
    · exact h.setS l (urPut_rel (h.lay l) _ _)
    · exact (h.withDefs _).setS l (urPut_rel (h.lay l) _ _)

theorem fold {α : Type} (f : SSt → α → SSt) (hf : ∀ t t' a, SFP P c t t' → SFP P c (f t a) (f t' a))
    (h : SFP P c s s') (L : List α) : SFP P c (L.foldl f s) (L.foldl f s') :=
  foldl_rel (SFP P c) f f hf L s s' h

theorem fwdBody (h : SFP P c s s') (α : Rat) (l : Nat) : SFP P c (fwdBody c α s l) (fwdBody c α s' l) := by
  unfold Spec.fwdBody
  have h1 := h.save l true
  dsimp only
  rw [← h1.mini]
  split
  · exact (h1.withMini _).updateReduce _ _ _
  · exact h1.withMini _

theorem bwdBody (h : SFP P c s s') (α : Rat) (l : Nat) : SFP P c (bwdBody c α s l) (bwdBody c α s' l) := by
  unfold Spec.bwdBody
  have h1 := h.save l false
  dsimp only
  rw [← h1.mini]
  split
  · exact h1.updateReduce _ _ _
  · exact h1

theorem passBody (h : SFP P c s s') (α : Rat) : SFP P c (passBody c α s) (passBody c α s') := by
  unfold Spec.passBody
  exact fold _ (fun _ _ a ht => ht.bwdBody α a) (fold _ (fun _ _ a ht => ht.fwdBody α a) h _) _

theorem ite_rel {R : SSt → SSt → Prop} {p p' : Prop} [Decidable p] [Decidable p'] (hp : p ↔ p')
    {a b a' b' : SSt} (h1 : R a a') (h2 : R b b') : R (if p then a else b) (if p' then a' else b') := by
  by_cases hq : p
  · rw [if_pos hq, if_pos (hp.mp hq)]; exact h1
  · rw [if_neg hq, if_neg (fun h => hq (hp.mpr h))]; exact h2

theorem fwdBwd (h : SFP P c s s') (t : Bool) : SFP P c (fwdBwd c s t) (fwdBwd c s' t) := by
  cases t
  · exact h
  · rw [fwdBwd_eq, fwdBwd_eq]
    simp only [Bool.not_true, Bool.false_eq_true, if_false]
    have hα : s'.hyper.decay.val s'.steps = s.hyper.decay.val s.steps := by rw [h.steps, h.hyper]
    rw [hα]
    refine ite_rel (by rw [h.steps, h.hyper]) ?_ ?_
    · rw [← h.pass]; exact h.withPass _
    · have h1 := h.passBody (s.hyper.decay.val s.steps)
      rw [← h1.pass]; exact h1.withPass _

theorem stepA (h : SFP P c s s') (b : Bool) (α : Rat) : SFP P c (stepA c b α s) (stepA c b α s') := by
  unfold Spec.stepA
  split
  · refine fold _ (fun t t' a ht => ?_) h _
    rw [← ht.mini]
    exact ((ht.withMini _).updateReduce _ _ _).updateReduce _ _ _
  · exact h

theorem rfL_rel {p : Prop} {x y : SLayer} (h : relP p c x y) (d : Rat) : relP True c (rfL c d x) (rfL c d y) := by
  obtain ⟨h1, h2, h3, h4, h5, h6, _⟩ := h
  cases hm : c.method <;> cases hp : c.prediv <;> simp [relP, soRel, rfL, *]

theorem refresh (h : SFP P c s s') (l : Nat) (d : Rat) :
    SFP (fun k => P k ∨ k = l) c (refresh c s l d) (refresh c s' l d) := by
  rw [refresh_eq, refresh_eq]
  exact h.setS' l (fun k hk hq => hq.resolve_right hk) (relP_mono (fun _ => trivial) (rfL_rel (h.lay l) d))

theorem refreshFold (d : Rat) (L : List Nat) : ∀ {P : Nat → Prop} {s s' : SSt}, SFP P c s s' →
    SFP (fun k => P k ∨ k ∈ L) c (L.foldl (fun t l => Spec.refresh c t l d) s)
      (L.foldl (fun t l => Spec.refresh c t l d) s') := by
  induction L with
  | nil => intro P s s' h; exact h.mono (fun k hk => by simpa using hk)
  | cons a t ih =>
    intro P s s' h
    simp only [List.foldl_cons]
    refine (ih (h.refresh a d)).mono (fun k hk => ?_)
    simp only [List.mem_cons] at hk
    rcases hk with hk | hk | hk
    · exact Or.inl (Or.inl hk)
    · exact Or.inl (Or.inr hk)
    · exact Or.inr hk

theorem stepB_all (h : SFP AllL c s s') (b : Bool) (d : Rat) : SFP AllL c (stepB c b d s) (stepB c b d s') := by
  unfold Spec.stepB
  split
  · exact (refreshFold d _ h).mono (fun _ _ => Or.inl trivial)
  · exact h

/-- refreshing every layer makes the stale second-order data irrelevant -/
theorem stepB_refresh (h : SFP P c s s') (hlen : s.layers.length = c.nLayers) (d : Rat) :
    SFP AllL c (stepB c true d s) (stepB c true d s') := by
  unfold Spec.stepB
  simp only [if_true]
  have h1 := refreshFold d (revIdxs c) h
  have hl : (List.foldl (fun t l => Spec.refresh c t l d) s (revIdxs c)).layers.length = c.nLayers :=
    (fr_len (foldl_pres fr _ (fun t l => fr_refresh c t l d) _ _)).trans hlen
  refine (h1.extend _ hl).mono (fun k _ => ?_)
  by_cases hk : k < c.nLayers
  · exact Or.inl (Or.inr (mem_revIdxs.mpr hk))
  · exact Or.inr (by omega)

theorem precond (h : SFP P c s s') (l : Nat) (hl : P l) (d : Rat) : precond c s l d = precond c s' l d := by
  obtain ⟨_, _, _, _, _, _, h7⟩ := h.lay l
  have h7 := h7 hl
  have h8 := h.steps
  cases hm : c.method <;> cases hp : c.prediv <;> simp_all [Spec.precond, soRel]

theorem stepOut (h : SFP AllL c s s') (d : Rat) (kl : Option Rat) (lr : Rat) :
    stepOut c d kl lr s = stepOut c d kl lr s' := by
  unfold Spec.stepOut
  have : (fun l => Spec.precond c s l d) = (fun l => Spec.precond c s' l d) :=
    funext fun l => h.precond l trivial d
  rw [this, ← h.steps]

/-- the tail of `step` given related states after the inverse phase -/
theorem stepFin (h : SFP AllL c s s') (n : Nat) (o : List V) (o' : List V) :
    SFP AllL c { s with steps := n, mini := List.replicate c.nLayers 0, out := o }
      { s' with steps := n, mini := List.replicate c.nLayers 0, out := o' } :=
  ⟨rfl, rfl, h.pass, h.hyper, h.defs, h.len, h.lay⟩

theorem step (h : SFP AllL c s s') :
    SFP AllL c (Spec.step c s) (Spec.step c s') ∧ (Spec.step c s).out = (Spec.step c s').out := by
  rw [step_eq, step_eq, ← h.steps, ← h.hyper]
  have h2 := (h.stepA (!c.hook && s.steps % s.hyper.fus.val s.steps == 0) (s.hyper.decay.val s.steps)).stepB_all
    (s.steps % s.hyper.ius.val s.steps == 0) (s.hyper.damping.val s.steps)
  have h3 := h2.stepOut (s.hyper.damping.val s.steps) (s.hyper.kl.val s.steps) (s.hyper.lr.val s.steps)
  exact ⟨h2.stepFin _ _ _, h3⟩

/-- a step that refreshes: stale second-order data does not matter -/
theorem step_refresh (h : SFP P c s s') (hlen : s.layers.length = c.nLayers)
    (hon : s.steps % s.hyper.ius.val s.steps = 0) :
    SFP AllL c (Spec.step c s) (Spec.step c s') ∧ (Spec.step c s).out = (Spec.step c s').out := by
  rw [step_eq, step_eq, ← h.steps, ← h.hyper]
  have hb : (s.steps % s.hyper.ius.val s.steps == 0) = true := by simp [hon]
  rw [hb]
  have h1 := h.stepA (!c.hook && s.steps % s.hyper.fus.val s.steps == 0) (s.hyper.decay.val s.steps)
  have h2 := h1.stepB_refresh ((fr_len (fr_stepA c _ _ s)).trans hlen) (s.hyper.damping.val s.steps)
  have h3 := h2.stepOut (s.hyper.damping.val s.steps) (s.hyper.kl.val s.steps) (s.hyper.lr.val s.steps)
  exact ⟨h2.stepFin _ _ _, h3⟩

theorem resetBatch (h : SFP P c s s') : SFP P c (resetBatch c s) (resetBatch c s') := by
  unfold Spec.resetBatch
  refine fold _ (fun t t' l ht => ?_) h _
  obtain ⟨h1, h2, h3, h4, h5, h6, h7⟩ := ht.lay l
  exact ht.setS l ⟨rfl, rfl, rfl, rfl, h5, h6, fun hp => by simpa [soRel] using h7 hp⟩

/-- a checkpoint reads only what the relation fixes -/
theorem saveLoad_eq (h : SFP P c s s') (f ci : Bool) : saveLoad c s f ci = saveLoad c s' f ci := by
  have e1 : slFresh c s = slFresh c s' := by
    unfold slFresh; rw [h.steps, h.pass, h.hyper, h.defs]
  have e2 : slCopy c s = slCopy c s' := by
    unfold slCopy
    rw [e1]
    congr 1
    funext t l
    obtain ⟨_, _, _, _, h5, h6, _⟩ := h.lay l
    rw [h5, h6]
  rw [Spec.saveLoad_eq, Spec.saveLoad_eq, e1, e2]

theorem exec (h : SFP AllL c s s') (op : Op) : SFP AllL c (Spec.exec c s op) (Spec.exec c s' op) := by
  cases op with
  | fwdBwd t => exact h.fwdBwd t
  | step => exact h.step.1
  | resetBatch => exact h.resetBatch
  | memUsage => exact h
  | save f => exact h
  | saveLoad f ci => show SFP AllL c (saveLoad c s f ci) (saveLoad c s' f ci); rw [h.saveLoad_eq]; exact refl _ _ _
  | setHyper hy => exact h.withHyper hy

theorem outs (h : SFP AllL c s s') (ops : List Op) : outsOf c s ops = outsOf c s' ops := by
  induction ops generalizing s s' with
  | nil => rfl
  | cons op t ih =>
    cases op with
    | step =>
      simp only [outsOf]
      rw [show Spec.exec c s .step = Spec.step c s from rfl, show Spec.exec c s' .step = Spec.step c s' from rfl,
        h.step.2, ih h.step.1]
    | fwdBwd b => simp only [outsOf]; exact ih (h.exec _)
    | resetBatch => simp only [outsOf]; exact ih (h.exec _)
    | memUsage => simp only [outsOf]; exact ih (h.exec _)
    | save f => simp only [outsOf]; exact ih (h.exec _)
    | saveLoad f ci => simp only [outsOf]; exact ih (h.exec _)
    | setHyper hy => simp only [outsOf]; exact ih (h.exec _)

end SFP

/-! ### the checkpoint round trip -/

theorem getS_slFresh (c : SCfg) (s : SSt) (l : Nat) : getS (slFresh c s) l = {} := by
  simp only [getS, slFresh, SSt.init, List.getD_eq_getElem?_getD, List.getElem?_replicate]
  split <;> rfl

/-- batches and counters of a layer -/
def batOf (x : SLayer) : Option (List V) × Nat × Option (List V) × Nat := (x.aBatch, x.aCount, x.gBatch, x.gCount)

theorem slCopy_len (c : SCfg) (s : SSt) : (slCopy c s).layers.length = c.nLayers := by
  have h := (sc_slCopy c s).trans (sc_slFresh c s)
  simp only [sc, Prod.mk.injEq] at h
  exact h.2.2.2.2.2

theorem slCopy_bat (c : SCfg) (s : SSt) (l : Nat) : batOf (getS (slCopy c s) l) = batOf ({} : SLayer) := by
  unfold slCopy
  have h := foldl_pres (fun t => batOf (getS t l))
    (fun t a => setS t a { getS t a with aFactor := (getS s a).aFactor, gFactor := (getS s a).gFactor })
    (fun t a => getS_setS_proj batOf _ _ _ _ rfl) (idxs c) (slFresh c s)
  exact h.trans (congrArg batOf (getS_slFresh c s l))

theorem slCopy_fac (c : SCfg) (s : SSt) (l : Nat) (hl : l < c.nLayers) :
    facOf (getS (slCopy c s) l) = facOf (getS s l) := by
  unfold slCopy
  refine foldl_estab (fun t => l < t.layers.length) (fun t => facOf (getS t l) = facOf (getS s l)) _ l
    (fun t a ht => by simpa using ht) (fun t a _ hp => ?_) (fun t ht => ?_) _ _
    (by simp [slFresh, SSt.init, hl]) (Or.inr (mem_idxs.mpr hl))
  · rw [getS_setS]
    split
    · rename_i hh; rw [hh.1]; rfl
    · exact hp
  · rw [getS_setS_self _ _ _ ht]; rfl

theorem Boundary.bat {c : SCfg} {s : SSt} (hb : Boundary c s) (l : Nat) : batOf (getS s l) = batOf ({} : SLayer) := by
  by_cases hl : l < s.layers.length
  · have hm : getS s l ∈ s.layers := by
      unfold getS
      rw [List.getD_eq_getElem?_getD, List.getElem?_eq_getElem hl]
      exact List.getElem_mem hl
    obtain ⟨h1, h2, h3, h4⟩ := hb.2.2 _ hm
    simp [batOf, h1, h2, h3, h4]
  · rw [getS_oob s l (by omega)]

theorem slCopy_rel {c : SCfg} {s : SSt} (hb : Boundary c s) : SFP NoL c (slCopy c s) s := by
  have h := (sc_slCopy c s).trans (sc_slFresh c s)
  simp only [sc, Prod.mk.injEq] at h
  obtain ⟨h1, h2, h3, h4, h5, h6⟩ := h
  refine ⟨h1, h5.trans hb.1.symm, h4, h2, h3, h6.trans hb.2.1.symm, fun l => ?_⟩
  by_cases hl : l < c.nLayers
  · have e1 := (slCopy_bat c s l).trans (hb.bat l).symm
    have e2 := slCopy_fac c s l hl
    simp only [batOf, facOf, Prod.mk.injEq] at e1 e2
    exact ⟨e1.1, e1.2.1, e1.2.2.1, e1.2.2.2, e2.1, e2.2, fun hf => hf.elim⟩
  · rw [getS_oob _ l (by rw [h6]; omega), getS_oob s l (by rw [hb.2.1]; omega)]
    exact relP_refl _ _ _

theorem refresh_noL (c : SCfg) (t : SSt) (l : Nat) (d : Rat) : SFP NoL c (refresh c t l d) t := by
  have h := fr_refresh c t l d
  refine ⟨fr_steps h, refresh_mini c t l d, fr_pass h, fr_hyper h, refresh_defs c t l d, fr_len h, fun k => ?_⟩
  have e := refresh_proj (fun x => (batOf x, facOf x)) (fun _ _ _ _ _ _ _ _ => rfl) c t l d k
  simp only [batOf, facOf, Prod.mk.injEq] at e
  exact ⟨e.1.1, e.1.2.1, e.1.2.2.1, e.1.2.2.2, e.2.1, e.2.2, fun hf => hf.elim⟩

theorem refreshFold_noL (c : SCfg) (d : Rat) (L : List Nat) (t : SSt) :
    SFP NoL c (L.foldl (fun t l => refresh c t l d) t) t := by
  induction L generalizing t with
  | nil => exact SFP.refl _ _ _
  | cons a r ih => simp only [List.foldl_cons]; exact (ih _).trans (refresh_noL c t a d)

/-- whatever `compute_inverses`, a load restores everything but the second-order data -/
theorem saveLoad_rel {c : SCfg} {s : SSt} (hb : Boundary c s) (ci : Bool) :
    SFP NoL c (saveLoad c s true ci) s := by
  rw [Spec.saveLoad_eq]
  simp only [Bool.not_true, Bool.false_eq_true, if_false]
  split
  · exact slCopy_rel hb
  · exact (refreshFold_noL c _ _ _).trans (slCopy_rel hb)

theorem load_refresh {c : SCfg} {s : SSt} (hb : Boundary c s) :
    SFP AllL c (saveLoad c s true true) (refreshAll c s) := by
  rw [Spec.saveLoad_eq]
  simp only [Bool.not_true, Bool.false_eq_true, if_false]
  unfold refreshAll
  have h := (sc_slCopy c s).trans (sc_slFresh c s)
  simp only [sc, Prod.mk.injEq] at h
  rw [h.1, h.2.1]
  have h1 := SFP.refreshFold (s.hyper.damping.val s.steps) (idxs c) (slCopy_rel hb)
  have hl : (List.foldl (fun t l => Spec.refresh c t l (s.hyper.damping.val s.steps)) (slCopy c s) (idxs c)).layers.length
      = c.nLayers :=
    (fr_len (foldl_pres fr _ (fun t l => fr_refresh c t l _) _ _)).trans (slCopy_len c s)
  refine (h1.extend _ hl).mono (fun k _ => ?_)
  by_cases hk : k < c.nLayers
  · exact Or.inl (Or.inr (mem_idxs.mpr hk))
  · exact Or.inr (by omega)

theorem fwdBwd_frame (c : SCfg) (s : SSt) (t : Bool) :
    (fwdBwd c s t).steps = s.steps ∧ (fwdBwd c s t).hyper = s.hyper ∧
    (fwdBwd c s t).layers.length = s.layers.length := by
  rw [fwdBwd_eq]
  split
  · exact ⟨rfl, rfl, rfl⟩
  · split
    · exact ⟨rfl, rfl, rfl⟩
    · have h := fr_passBody c (s.hyper.decay.val s.steps) s
      exact ⟨(fr_steps h : (passBody c _ s).steps = _), (fr_hyper h : (passBody c _ s).hyper = _),
        (fr_len h : (passBody c _ s).layers.length = _)⟩

theorem passes_then_step (c : SCfg) (ops : List Op) (n : Nat) : ∀ (s s' : SSt), SFP NoL c s s' →
    s.layers.length = c.nLayers → s.steps % s.hyper.ius.val s.steps = 0 →
    outsOf c s (List.replicate n (.fwdBwd true) ++ .step :: ops)
      = outsOf c s' (List.replicate n (.fwdBwd true) ++ .step :: ops) := by
  induction n with
  | zero =>
    intro s s' h hlen hon
    simp only [List.replicate_zero, List.nil_append, outsOf]
    obtain ⟨h1, h2⟩ := h.step_refresh hlen hon
    rw [show Spec.exec c s .step = Spec.step c s from rfl, show Spec.exec c s' .step = Spec.step c s' from rfl,
      h2, h1.outs]
  | succ n ih =>
    intro s s' h hlen hon
    simp only [List.replicate_succ, List.cons_append, outsOf]
    obtain ⟨f1, f2, f3⟩ := fwdBwd_frame c s true
    refine ih _ _ (h.fwdBwd true) ?_ ?_
    · exact f3.trans hlen
    · show (fwdBwd c s true).steps % (fwdBwd c s true).hyper.ius.val (fwdBwd c s true).steps = 0
      rw [f1, f2]; exact hon

theorem roundtrip_fac (c : SCfg) (s : SSt) (ci : Bool) (l : Nat) (hl : l < c.nLayers) :
    facOf (getS (saveLoad c s true ci) l) = facOf (getS s l) := by
  rw [Spec.saveLoad_eq]
  simp only [Bool.not_true, Bool.false_eq_true, if_false]
  split
  · exact slCopy_fac c s l hl
  · rw [foldl_pres (fun t => facOf (getS t l)) _
      (fun t a => refresh_proj facOf (fun _ _ _ _ _ _ _ _ => rfl) c t a _ l)]
    exact slCopy_fac c s l hl

theorem roundtrip_nofac (c : SCfg) (s : SSt) (ci : Bool) (l : Nat) :
    getS (saveLoad c s false ci) l = {} := by
  rw [Spec.saveLoad_eq]
  simp only [Bool.not_false, if_true]
  exact getS_slFresh c s l

end KV.C09
