/-
Refinement Precond ⟶ Spec, part 8: `reset_batch`, `memory_usage`, `state_dict`.  Core Lean only.
-/
import KfacVerif.Lemmas.Refine7
namespace KV.Refine
open KV KV.Precond

/-- a loop over ranks and layers whose step `(r, l)` transforms cell `(r, l)` -/
theorem nested_eff (c : Cfg) (rs ls : List Nat) (f : St → Nat → Nat → St) (G : Nat → Nat → LV → LV)
    (hG : ∀ r l v, G r l (G r l v) = G r l v) (s0 : St)
    (hstep : ∀ s r l, r ∈ rs → l ∈ ls → Same s0 s → Shape c s →
      Eff c s (f s r l) (fun r' l' => r' = r ∧ l' = l) G)
    (hs : Shape c s0) :
    Eff c s0 (rs.foldl (fun s r => ls.foldl (fun s l => f s r l) s) s0) (fun r' l' => r' ∈ rs ∧ l' ∈ ls) G := by
  have e := foldl_effT c (fun s r => ls.foldl (fun s l => f s r l) s)
    (fun x r' l' => r' = x ∧ l' ∈ ls) G rs s0 (Or.inl hG)
    (fun s x hx hsm hsh => by
      have e' := foldl_effT c (fun s l => f s x l) (fun y r' l' => r' = x ∧ l' = y) G ls s (Or.inl hG)
        (fun s' y hy hsm' hsh' => hstep s' x y hx hy (hsm.trans hsm') hsh') hsh
      refine e'.congrK (fun r' l' => ⟨?_, ?_⟩)
      · rintro ⟨y, hy, h1, h2⟩; exact ⟨h1, h2 ▸ hy⟩
      · rintro ⟨h1, h2⟩; exact ⟨l', h2, h1, rfl⟩) hs
  refine e.congrK (fun r' l' => ⟨?_, ?_⟩)
  · rintro ⟨x, hx, h1, h2⟩; exact ⟨h1 ▸ hx, h2⟩
  · rintro ⟨h1, h2⟩; exact ⟨r', h1, rfl, h2⟩

/-- a loop over the layers of the reference machine -/
theorem sLayerFold (G : Nat → Spec.SLayer → Spec.SLayer) (n : Nat) (t : Spec.SSt) (hn : n ≤ t.layers.length) :
    let t' := (List.range n).foldl (fun t l => Spec.setS t l (G l (Spec.getS t l))) t
    t'.steps = t.steps ∧ t'.mini = t.mini ∧ t'.pass = t.pass ∧ t'.hyper = t.hyper ∧ t'.defs = t.defs ∧
    t'.out = t.out ∧ t'.layers.length = t.layers.length ∧
    ∀ l, Spec.getS t' l = if l < n then G l (Spec.getS t l) else Spec.getS t l := by
  induction n with
  | zero => simp
  | succ n ih =>
    obtain ⟨a1, a2, a3, a4, a5, a6, a7, a8⟩ := ih (by omega)
    simp only [List.range_succ, List.foldl_append, List.foldl_cons, List.foldl_nil]
    refine ⟨a1, a2, a3, a4, a5, a6, by rw [setS_len]; exact a7, fun l => ?_⟩
    by_cases e : l = n
    · subst e
      rw [getS_setS_same (by rw [a7]; omega), a8]
      simp
    · rw [getS_setS_ne _ _ e, a8]
      by_cases h : l < n
      · simp [h, Nat.lt_succ_of_lt h]
      · have : ¬ l < n + 1 := by omega
        simp [h, this]

/-! ### `reset_batch()` -/

def gReset (v : LV) : LV := { v with aBatch := none, aCount := 0, gBatch := none, gCount := 0 }
def sReset (y : Spec.SLayer) : Spec.SLayer := { y with aBatch := none, aCount := 0, gBatch := none, gCount := 0 }

theorem resetBatch_err (c : Cfg) (s : St) : (Precond.resetBatch c s).err = s.err := by
  unfold Precond.resetBatch forRanks
  exact foldl_err_eq _ (fun s r => foldl_setL_err' r _ _ s) _ _

theorem resetBatch_rel {c s t} (h : Rel c s t) :
    Rel c (Precond.resetBatch c s) (Spec.resetBatch (Spec.ofCfg c) t) := by
  have e : Eff c s (Precond.resetBatch c s) (fun r' l' => r' ∈ worldRanks c ∧ l' ∈ layerIdxs c)
      (fun _ _ => gReset) := by
    unfold Precond.resetBatch forRanks
    exact nested_eff c (worldRanks c) (layerIdxs c)
      (fun s r l => setL s r l { getL s r l with aBatch := none, aCount := 0, gBatch := none, gCount := 0 })
      (fun _ _ => gReset) (fun _ _ _ => rfl) s
      (fun s' r l hr hl _ hsh => Eff.setL hsh (mem_worldRanks.mp hr) (mem_layerIdxs.mp hl) _ _ rfl) h.shape
  have ht := sLayerFold (fun _ => sReset) c.layers.length t (by rw [h.tlen]; exact Nat.le_refl _)
  have heq : Spec.resetBatch (Spec.ofCfg c) t =
      (List.range c.layers.length).foldl (fun t l => Spec.setS t l (sReset (Spec.getS t l))) t := rfl
  rw [heq]
  simp only [] at ht
  generalize (List.range c.layers.length).foldl (fun t l => Spec.setS t l (sReset (Spec.getS t l))) t = t' at ht ⊢
  obtain ⟨a1, a2, a3, a4, a5, a6, a7, a8⟩ := ht
  refine ⟨e.same.steps.trans (h.steps.trans a1.symm), e.same.mini.trans (h.mini.trans a2.symm),
    e.same.pass.trans (h.pass.trans a3.symm), e.same.hyper.trans (h.hyper.trans a4.symm),
    e.same.defs.trans (h.defs.trans a5.symm), fun r hr => by rw [e.same.outGrads, a6]; exact h.out r hr,
    e.shape, a7.trans h.tlen, fun l hl => ?_⟩
  obtain ⟨hT, hC⟩ := h.lay l hl
  rw [LayRel, a8, if_pos hl]
  refine ⟨⟨fun b hb => by simp [sReset] at hb, fun b hb => by simp [sReset] at hb⟩, fun r hr => ?_⟩
  rw [e.hit r l ⟨mem_worldRanks.mpr hr, mem_layerIdxs.mpr hl⟩]
  have cr := hC r hr
  refine ⟨rfl, rfl, rfl, rfl, cr.aFactor, cr.gFactor, fun hw => ?_⟩
  have := cr.so hw
  unfold SO at this ⊢
  cases hm : c.method <;> simp only [hm] at this ⊢ <;> exact this

/-! ### `memory_usage()` and `state_dict()` -/

/-- only bookkeeping changed, and nothing was raised -/
def NeutralE (c : Cfg) (s s' : St) : Prop := Neutral c s s' ∧ s'.err = s.err

theorem NeutralE.refl {c s} (h : Shape c s) : NeutralE c s s := ⟨Neutral.refl h, rfl⟩

theorem NeutralE.trans {c s s' s''} (h1 : NeutralE c s s') (h2 : NeutralE c s' s'') : NeutralE c s s'' :=
  ⟨h1.1.trans h2.1, h2.2.trans h1.2⟩

theorem foldl_neutralE {α} (c : Cfg) (f : St → α → St) (xs : List α) (s0 : St)
    (hstep : ∀ s x, x ∈ xs → Shape c s → NeutralE c s (f s x)) (hs : Shape c s0) :
    NeutralE c s0 (xs.foldl f s0) := by
  induction xs generalizing s0 with
  | nil => exact NeutralE.refl hs
  | cons a t ih =>
    simp only [List.foldl_cons]
    have h1 := hstep s0 a (by simp) hs
    exact h1.trans (ih _ (fun s x hx => hstep s x (by simp [hx])) h1.1.2.1)

theorem memUsage_neutralE {c s} (hs : Shape c s) : NeutralE c s (Precond.memUsage c s) := by
  unfold Precond.memUsage
  show NeutralE c s (forRanks c (flushBucket c s) _)
  refine NeutralE.trans ⟨flushBucket_neutral hs, flushBucket_err c s⟩ ?_
  unfold forRanks
  refine foldl_neutralE c _ _ _ (fun s' r hr hsh => ?_) (flushBucket_neutral hs).2.1
  refine foldl_neutralE c _ _ _ (fun s'' l hl hsh' => ?_) hsh
  have hr' := mem_worldRanks.mp hr
  have hl' := mem_layerIdxs.mp hl
  extract_lets rd s1 s2 s3 s4 s5 s6 s7
  have hrd : ∀ s0 get set, (∀ x, lv (set x (rsSlot (get x))) = lv x) → Shape c s0 → NeutralE c s0 (rd s0 get set) := by
    intro s0 get set hgs h0
    simp only [rd]
    norm_reads
    exact ⟨neutral_setL_tch h0 hr' hl' _ _ _ (hgs _), rfl⟩
  clear_value rd
  have n1 : NeutralE c s'' s1 := by
    refine hrd s'' _ _ ?_ hsh'; intro x; simp [lv]
  have n2 : NeutralE c s1 s2 := by
    refine hrd s1 _ _ ?_ n1.1.2.1; intro x; simp [lv]
  have n3 : NeutralE c s2 s3 := by
    refine hrd s2 _ _ ?_ n2.1.2.1; intro x; simp [lv]
  have n4 : NeutralE c s3 s4 := by
    refine hrd s3 _ _ ?_ n3.1.2.1; intro x; simp [lv]
  have n5 : NeutralE c s4 s5 := by
    refine hrd s4 _ _ ?_ n4.1.2.1; intro x; simp [lv]
  have n6 : NeutralE c s5 s6 := by
    refine hrd s5 _ _ ?_ n5.1.2.1; intro x; simp [lv]
  have n7 : NeutralE c s2 s7 := by
    refine hrd s2 _ _ ?_ n2.1.2.1; intro x; simp [lv]
  cases c.method
  · refine n1.trans (n2.trans (n3.trans (n4.trans (n5.trans (n6.trans ?_)))))
    refine hrd s6 _ _ ?_ n6.1.2.1; intro x; simp [lv]
  · refine n1.trans (n2.trans (n7.trans ?_))
    refine hrd s7 _ _ ?_ n7.1.2.1; intro x; simp [lv]

theorem saveState_neutralE {c s} (hs : Shape c s) (inclF : Bool) :
    NeutralE c s (Precond.saveState c s inclF) := by
  unfold Precond.saveState
  split
  · exact NeutralE.refl hs
  unfold forRanks
  refine foldl_neutralE c _ _ _ (fun s' r hr hsh => ?_) hs
  refine foldl_neutralE c _ _ _ (fun s'' l hl hsh' => ?_) hsh
  have hr' := mem_worldRanks.mp hr
  have hl' := mem_layerIdxs.mp hl
  norm_reads
  have n1 : NeutralE c s'' (setL (tch s'' (rsScript s''.script r (getL s'' r l).aFactor) s''.nIssued) r l
      { getL s'' r l with aFactor := rsSlot (getL s'' r l).aFactor }) :=
    ⟨neutral_setL_tch hsh' hr' hl' _ _ _ (by simp [lv, cell]), rfl⟩
  refine n1.trans ⟨neutral_setL_tch n1.1.2.1 hr' hl' _ _ _ (by simp [lv, cell]), rfl⟩
end KV.Refine
