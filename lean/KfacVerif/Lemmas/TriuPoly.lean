/-
Polymorphic triangular packing: the same definitions as KV.Comm.getTriu / fillTriu (Model/Comm.lean)
for an arbitrary payload type `α` (`d` is the default entry used for out-of-range reads, like `0`
in the Int model).  Definitions only at the top; lemmas below (proof agent).
-/
import KfacVerif.Model.Comm
import KfacVerif.Lemmas.Triu

namespace KV.Comm

def getTriuAuxP {α : Type} : Nat → List (List α) → List α
  | _, [] => []
  | i, r :: t => r.drop i ++ getTriuAuxP (i + 1) t

/-- `get_triu` for any payload type -/
def getTriuP {α : Type} (A : List (List α)) : List α := getTriuAuxP 0 A

/-- `fill_triu` for any payload type -/
def fillTriuP {α : Type} (d : α) (n : Nat) (v : List α) : List (List α) :=
  (List.range n).map fun i => (List.range n).map fun j =>
    if i ≤ j then v.getD (triuPos n i j) d else v.getD (triuPos n j i) d

def SquareP {α : Type} (A : List (List α)) (n : Nat) : Prop := A.length = n ∧ ∀ r ∈ A, r.length = n

def SymmP {α : Type} (d : α) (A : List (List α)) (n : Nat) : Prop :=
  ∀ i j, i < n → j < n → (A.getD i []).getD j d = (A.getD j []).getD i d

end KV.Comm

/-! ## Lemmas (replay of Lemmas/Triu.lean for an arbitrary payload type) -/

namespace KV.Comm
open KV KV.C14

theorem getTriuAux_eq_P : ∀ (A : List (List Int)) (i : Nat), getTriuAux i A = getTriuAuxP i A
  | [], _ => rfl
  | r :: t, i => by simp only [getTriuAux, getTriuAuxP, getTriuAux_eq_P t (i + 1)]

theorem getTriu_eq_P (A : Mat) : getTriu A = getTriuP A := getTriuAux_eq_P A 0

theorem fillTriu_eq_P (n : Nat) (v : List Int) : fillTriu n v = fillTriuP (0 : Int) n v := rfl

section poly
variable {α : Type}

theorem getD_append_leftP (l l' : List α) (d : α) (i : Nat) (h : i < l.length) :
    (l ++ l').getD i d = l.getD i d := by
  simp only [List.getD_eq_getElem?_getD, List.getElem?_append_left h]

theorem getD_append_rightP (l l' : List α) (d : α) (i : Nat) (h : l.length ≤ i) :
    (l ++ l').getD i d = l'.getD (i - l.length) d := by
  simp only [List.getD_eq_getElem?_getD, List.getElem?_append_right h]

theorem length_getTriuAuxP (n : Nat) : ∀ (rows : List (List α)) (k : Nat),
    (∀ r ∈ rows, r.length = n) → k + rows.length ≤ n →
    (getTriuAuxP k rows).length = off n (k + rows.length) - off n k
  | [], k, _, _ => by simp [getTriuAuxP]
  | r :: t, k, hr, hk => by
    have hlen : r.length = n := hr r (by simp)
    have ih := length_getTriuAuxP n t (k + 1) (fun r h => hr r (by simp [h]))
      (by simp at hk; omega)
    have m1 := off_succ n k
    have m2 : off n (k + 1) ≤ off n (k + 1 + t.length) := off_mono n (by omega)
    simp only [getTriuAuxP, List.length_append, List.length_drop, List.length_cons, ih, hlen]
    rw [show k + (t.length + 1) = k + 1 + t.length by omega]
    omega

theorem length_getTriuP {A : List (List α)} {n : Nat} (hA : SquareP A n) :
    (getTriuP A).length = n * (n + 1) / 2 := by
  have := length_getTriuAuxP n A 0 hA.2 (by rw [hA.1]; omega)
  rw [getTriuP, this, hA.1, ← off_self]; simp [off]

theorem getD_getTriuAuxP (n : Nat) (d : α) : ∀ (rows : List (List α)) (k i j : Nat),
    (∀ r ∈ rows, r.length = n) → k + rows.length ≤ n → i < rows.length → k + i ≤ j → j < n →
    (getTriuAuxP k rows).getD (off n (k + i) - off n k + (j - (k + i))) d
      = (rows.getD i []).getD j d
  | [], _, _, _, _, _, hi, _, _ => by simp at hi
  | r :: t, k, 0, j, hr, hk, _, hij, hj => by
    have hlen : r.length = n := hr r (by simp)
    simp only [getTriuAuxP, Nat.add_zero, Nat.sub_self, Nat.zero_add, List.getD_cons_zero]
    rw [getD_append_leftP _ _ _ _ (by simp [hlen]; omega)]
    simp only [List.getD_eq_getElem?_getD, List.getElem?_drop]
    congr 2; omega
  | r :: t, k, i + 1, j, hr, hk, hi, hij, hj => by
    have hlen : r.length = n := hr r (by simp)
    simp only [List.length_cons] at hk hi
    have ih := getD_getTriuAuxP n d t (k + 1) i j (fun r h => hr r (by simp [h]))
      (by omega) (by omega) (by omega) hj
    have m1 := off_succ n k
    have m2 : off n (k + 1) ≤ off n (k + 1 + i) := off_mono n (by omega)
    simp only [getTriuAuxP, List.getD_cons_succ]
    rw [getD_append_rightP _ _ _ _ (by
      simp only [List.length_drop, hlen]
      rw [show k + (i + 1) = k + 1 + i by omega]; omega)]
    rw [← ih]
    congr 1
    simp only [List.length_drop, hlen]
    rw [show k + (i + 1) = k + 1 + i by omega]; omega

theorem getD_getTriuP (d : α) {A : List (List α)} {n i j : Nat} (hA : SquareP A n)
    (hij : i ≤ j) (hj : j < n) :
    (getTriuP A).getD (triuPos n i j) d = (A.getD i []).getD j d := by
  have := getD_getTriuAuxP n d A 0 i j hA.2 (by rw [hA.1]; omega) (by rw [hA.1]; omega)
    (by omega) hj
  rw [triuPos_eq n i j (by omega), getTriuP, ← this]
  simp [off]

theorem length_fillTriuP (d : α) (n : Nat) (v : List α) : (fillTriuP d n v).length = n := by
  simp [fillTriuP]

theorem square_fillTriuP (d : α) (n : Nat) (v : List α) : SquareP (fillTriuP d n v) n := by
  refine ⟨length_fillTriuP d n v, ?_⟩
  intro r hr
  simp only [fillTriuP, List.mem_map] at hr
  obtain ⟨i, _, rfl⟩ := hr
  simp

theorem get_fillTriuP (d : α) (n : Nat) (v : List α) {i j : Nat} (hi : i < n) (hj : j < n) :
    ((fillTriuP d n v).getD i []).getD j d =
      if i ≤ j then v.getD (triuPos n i j) d else v.getD (triuPos n j i) d := by
  simp [fillTriuP, List.getD_eq_getElem?_getD, hi, hj]

theorem symm_fillTriuP (d : α) (n : Nat) (v : List α) : SymmP d (fillTriuP d n v) n := by
  intro i j hi hj
  rw [get_fillTriuP d n v hi hj, get_fillTriuP d n v hj hi]
  by_cases h1 : i ≤ j <;> by_cases h2 : j ≤ i <;> simp [h1, h2]
  · have : i = j := by omega
    subst this; rfl
  · omega

theorem getD_eq_getElemP (d : α) {A : List (List α)} {n i j : Nat} (hA : SquareP A n)
    (hi : i < n) (hj : j < n) :
    (A.getD i []).getD j d = (A[i]'(by rw [hA.1]; exact hi))[j]'(by
      rw [hA.2 _ (List.getElem_mem _)]; exact hj) := by
  have h1 : i < A.length := by rw [hA.1]; exact hi
  have h2 : j < (A[i]).length := by rw [hA.2 _ (List.getElem_mem _)]; exact hj
  simp [List.getD_eq_getElem?_getD, h1, h2]

theorem fill_getP (d : α) {A : List (List α)} {n : Nat} (hA : SquareP A n) (hS : SymmP d A n) :
    fillTriuP d n (getTriuP A) = A := by
  apply List.ext_getElem
  · rw [length_fillTriuP, hA.1]
  · intro i h1 h2
    have hi : i < n := by rw [length_fillTriuP] at h1; exact h1
    have hrow : (A[i]).length = n := hA.2 _ (List.getElem_mem _)
    apply List.ext_getElem
    · rw [(square_fillTriuP d n _).2 _ (List.getElem_mem _), hrow]
    · intro j h3 h4
      have hj : j < n := by rw [hrow] at h4; exact h4
      rw [← getD_eq_getElemP d (square_fillTriuP d n _) hi hj, ← getD_eq_getElemP d hA hi hj,
        get_fillTriuP d n _ hi hj]
      by_cases hij : i ≤ j
      · rw [if_pos hij, getD_getTriuP d hA hij hj]
      · rw [if_neg hij, getD_getTriuP d hA (by omega) hi, hS i j hi hj]

theorem fill_row_dropP (d : α) (n : Nat) (v : List α) (k : Nat) (hk : k < n)
    (hv : off n n ≤ v.length) :
    (((List.range n).map fun j =>
        if k ≤ j then v.getD (triuPos n k j) d else v.getD (triuPos n j k) d).drop k)
      = (v.drop (off n k)).take (n - k) := by
  have m1 := off_succ n k
  have m2 : off n (k + 1) ≤ off n n := off_mono n (by omega)
  apply List.ext_getElem
  · simp only [List.length_drop, List.length_map, List.length_range, List.length_take]
    omega
  · intro t h1 h2
    simp only [List.length_drop, List.length_map, List.length_range] at h1
    simp only [List.getElem_drop, List.getElem_map, List.getElem_range, List.getElem_take]
    rw [if_pos (by omega), triuPos_eq n k _ (by omega), List.getD_eq_getElem?_getD,
      List.getElem?_eq_getElem (by omega)]
    simp only [Option.getD_some]
    congr 1; omega

theorem getTriuAuxP_fill (d : α) (n : Nat) (v : List α) (hv : v.length = off n n) :
    ∀ (m k : Nat), k + m = n →
    getTriuAuxP k ((List.range' k m).map fun i => (List.range n).map fun j =>
        if i ≤ j then v.getD (triuPos n i j) d else v.getD (triuPos n j i) d)
      = v.drop (off n k)
  | 0, k, h => by
    have : k = n := by omega
    subst this
    simp [getTriuAuxP, List.drop_eq_nil_iff, hv]
  | m + 1, k, h => by
    have ih := getTriuAuxP_fill d n v hv m (k + 1) (by omega)
    simp only [List.range'_succ, List.map_cons, getTriuAuxP]
    rw [ih, fill_row_dropP d n v k (by omega) (by omega), off_succ,
      ← List.drop_drop, List.take_append_drop]

theorem get_fillP (d : α) {n : Nat} {v : List α} (hv : v.length = n * (n + 1) / 2) :
    getTriuP (fillTriuP d n v) = v := by
  have := getTriuAuxP_fill d n v (by rw [hv, off_self]) n 0 (by omega)
  rw [List.range_eq_range'] at this
  rw [getTriuP, fillTriuP, List.range_eq_range', this]
  simp [off]

/-! ### naturality in the payload -/

theorem getTriuAuxP_map {β : Type} (f : α → β) : ∀ (A : List (List α)) (i : Nat),
    getTriuAuxP i (A.map (List.map f)) = (getTriuAuxP i A).map f
  | [], _ => rfl
  | r :: t, i => by
    simp only [List.map_cons, getTriuAuxP, List.map_append, List.map_drop,
      getTriuAuxP_map f t (i + 1)]

theorem getTriuP_map {β : Type} (f : α → β) (A : List (List α)) :
    getTriuP (A.map (List.map f)) = (getTriuP A).map f := getTriuAuxP_map f A 0

theorem getD_map_default {β : Type} (f : α → β) (v : List α) (k : Nat) (d : α) :
    (v.map f).getD k (f d) = f (v.getD k d) := by
  simp only [List.getD_eq_getElem?_getD, List.getElem?_map]
  cases v[k]? <;> rfl

theorem fillTriuP_map {β : Type} (f : α → β) (d : α) (n : Nat) (v : List α) :
    fillTriuP (f d) n (v.map f) = (fillTriuP d n v).map (List.map f) := by
  simp only [fillTriuP, List.map_map]
  apply List.map_congr_left
  intro i _
  simp only [Function.comp, List.map_map]
  apply List.map_congr_left
  intro j _
  simp only [Function.comp, getD_map_default]
  split <;> rfl

end poly
end KV.Comm
