/-
Polymorphic triangular packing: the same definitions as KV.Comm.getTriu / fillTriu (Model/Comm.lean)
for an arbitrary payload type `α` (`d` is the default entry used for out-of-range reads, like `0`
in the Int model).  Definitions only at the top; lemmas below (proof agent).
-/
import KfacVerif.Model.Comm
import KfacVerif.Lemmas.Triu

namespace KV.Comm

def getTriuAuxP {α : Type} : Nat → List (List α) → List α
  | _, [] => []
  | i, r :: t => r.drop i ++ getTriuAuxP (i + 1) t

/-- `get_triu` for any payload type -/
def getTriuP {α : Type} (A : List (List α)) : List α := getTriuAuxP 0 A

/-- `fill_triu` for any payload type -/
def fillTriuP {α : Type} (d : α) (n : Nat) (v : List α) : List (List α) :=
  (List.range n).map fun i => (List.range n).map fun j =>
    if i ≤ j then v.getD (triuPos n i j) d else v.getD (triuPos n j i) d

def SquareP {α : Type} (A : List (List α)) (n : Nat) : Prop := A.length = n ∧ ∀ r ∈ A, r.length = n

def SymmP {α : Type} (d : α) (A : List (List α)) (n : Nat) : Prop :=
  ∀ i j, i < n → j < n → (A.getD i []).getD j d = (A.getD j []).getD i d

end KV.Comm
