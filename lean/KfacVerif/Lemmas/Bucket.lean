/- Helper lemmas (single Mathlib modules may be imported; never `import Mathlib`). -/
import KfacVerif.Model.Comm
import KfacVerif.Model.Misc
import Mathlib.Data.List.Basic
import Mathlib.Data.List.Perm.Basic

/-!
Helper lemmas for C08 (bucketed all-reduce).  The spec-level definitions of `Props/C08.lean`
(`Event.group` … `init`) live here (moved verbatim) so that the lemmas can mention them.

Structure:
* get/set laws of `lookupB` / `setB`, the "current bucket" `curB`;
* `allreduceBucketed` rewritten as `stepB` on accepted requests;
* the pair-permutation invariant (`run_pairs_perm`) → `each_tensor_once`, `pending_or_issued`;
* a pure one-group machine `gRun` simulating `run` on a group (`run_sim`, needs distinct keys)
  → `fifo_per_group`, `group_projection`;
* a bucket-content invariant `GoodItems` → `cap_respected`, `dtype_homogeneous`;
* list lemmas on `sumRanks` / `unflatten` → `value_eq_unbucketed`.
-/

namespace KV.C08
open KV KV.Comm

/-! ### spec-level definitions (moved verbatim from Props/C08.lean) -/

def Event.group : Event → Key
  | .allreduce g _ _ => g
  | .broadcast g _ _ _ => g

def Event.tids : Event → List Nat
  | .allreduce _ tids _ => tids
  | .broadcast _ tid _ _ => [tid]

def shapeOk (shape : List Nat) (sym : Bool) : Bool :=
  match checkShape shape sym with | .ok _ => true | .error _ => false

/-- the bucketed requests of an op list that are accepted for communication, as (group, tid) -/
def submitted : List Op → List (Key × Nat)
  | [] => []
  | .reduceB g tid shape _ _ sym :: t =>
    if g.length ≠ 1 ∧ shapeOk shape sym = true then (g, tid) :: submitted t else submitted t
  | _ :: t => submitted t

/-- bytes / dtype / elements of a bucketed request -/
def bytesOf : List Op → Nat → Nat
  | [], _ => 0
  | .reduceB _ tid shape es _ sym :: t, q => if tid = q then commElems shape sym * es else bytesOf t q
  | _ :: t, q => bytesOf t q

def dtypeOf : List Op → Nat → Nat
  | [], _ => 0
  | .reduceB _ tid _ _ dt _ :: t, q => if tid = q then dt else dtypeOf t q
  | _ :: t, q => dtypeOf t q

/-- request ids of all bucketed calls (accepted or not) -/
def tidsOf : List Op → List Nat
  | [] => []
  | .reduceB _ tid _ _ _ _ :: t => tid :: tidsOf t
  | _ :: t => tidsOf t

def onlyBucketed (ops : List Op) : Prop := ∀ op ∈ ops, (∃ g tid sh es dt sym, op = .reduceB g tid sh es dt sym) ∨ op = .flush

def init (cap : Nat) : CState := { cap := cap, buckets := [] }

/-! ### `lookupB` / `setB` -/

abbrev Buckets := List (Key × Option Bucket)

theorem lookupB_setB_self (k : Key) (v : Option Bucket) (bs : Buckets) :
    lookupB k (setB k v bs) = some v := by
  induction bs with
  | nil => simp [setB, lookupB]
  | cons kb t ih =>
    obtain ⟨k', b⟩ := kb
    by_cases h : k' = k
    · simp [setB, lookupB, h]
    · simp [setB, lookupB, h, ih]

theorem lookupB_setB_ne (k k' : Key) (v : Option Bucket) (bs : Buckets) (hne : k' ≠ k) :
    lookupB k (setB k' v bs) = lookupB k bs := by
  induction bs with
  | nil => simp [setB, lookupB, hne]
  | cons kb t ih =>
    obtain ⟨k'', b⟩ := kb
    by_cases h : k'' = k'
    · subst h; simp [setB, lookupB, hne]
    · by_cases h2 : k'' = k
      · subst h2; simp [setB, lookupB, h]
      · simp [setB, lookupB, h, h2, ih]

/-- the bucket `allreduce_bucketed` works on: the stored one, or a fresh empty one -/
def curB (g : Key) (bs : Buckets) : Bucket :=
  match lookupB g bs with
  | some (some b) => b
  | _ => { items := [] }

theorem curB_nil (g : Key) : curB g [] = { items := [] } := rfl

theorem curB_cons_self (g : Key) (b : Option Bucket) (t : Buckets) :
    curB g ((g, b) :: t) = (match b with | some b => b | none => { items := [] }) := by
  cases b <;> simp [curB, lookupB]

theorem curB_cons_ne (g k : Key) (b : Option Bucket) (t : Buckets) (h : k ≠ g) :
    curB g ((k, b) :: t) = curB g t := by
  simp [curB, lookupB, h]

theorem curB_setB_self (g : Key) (b : Bucket) (bs : Buckets) :
    curB g (setB g (some b) bs) = b := by
  simp [curB, lookupB_setB_self]

theorem curB_setB_ne (g g' : Key) (v : Option Bucket) (bs : Buckets) (h : g' ≠ g) :
    curB g (setB g' v bs) = curB g bs := by
  simp [curB, lookupB_setB_ne _ _ _ _ h]

/-! ### `allreduceBucketed` on an accepted request -/

def mkItem (tid : Nat) (shape : List Nat) (es dt : Nat) (sym : Bool) : Item :=
  { tid := tid, elems := commElems shape sym, esize := es, dtype := dt }

def flushNow (cap : Nat) (cur : Bucket) (it : Item) : Bool :=
  cur.size + it.elems * it.esize > cap ||
    (match cur.dtype? with | some d => d != it.dtype | none => false)

/-- state / events of an accepted bucketed request -/
def stepB (s : CState) (g : Key) (it : Item) : CState × List Event :=
  if flushNow s.cap (curB g s.buckets) it then
    ({ s with buckets := setB g (some { items := [it] }) s.buckets }, emit g (curB g s.buckets))
  else
    ({ s with buckets := setB g (some { items := (curB g s.buckets).items ++ [it] }) s.buckets }, [])

theorem shapeOk_true {shape : List Nat} {sym : Bool} (h : shapeOk shape sym = true) :
    checkShape shape sym = .ok () := by
  unfold shapeOk at h
  split at h
  · assumption
  · cases h

theorem shapeOk_false {shape : List Nat} {sym : Bool} (h : ¬ shapeOk shape sym = true) :
    ∃ e, checkShape shape sym = .error e := by
  unfold shapeOk at h
  split at h
  · simp at h
  · exact ⟨_, by assumption⟩

theorem arB_accept (s : CState) (g : Key) (tid : Nat) (shape : List Nat) (es dt : Nat) (sym : Bool)
    (hg : g.length ≠ 1) (hs : shapeOk shape sym = true) :
    allreduceBucketed s g tid shape es dt sym =
      ((stepB s g (mkItem tid shape es dt sym)).1, (stepB s g (mkItem tid shape es dt sym)).2, .future) := by
  have hc := shapeOk_true hs
  unfold allreduceBucketed stepB
  simp only [beq_iff_eq, hg, if_false, hc]
  by_cases hf : flushNow s.cap (curB g s.buckets) (mkItem tid shape es dt sym) = true
  · rw [if_pos hf]
    exact if_pos hf
  · rw [if_neg hf]
    exact if_neg hf

theorem arB_reject (s : CState) (g : Key) (tid : Nat) (shape : List Nat) (es dt : Nat) (sym : Bool)
    (h : ¬ (g.length ≠ 1 ∧ shapeOk shape sym = true)) :
    (allreduceBucketed s g tid shape es dt sym).1 = s ∧
    (allreduceBucketed s g tid shape es dt sym).2.1 = [] := by
  unfold allreduceBucketed
  by_cases hg : g.length = 1
  · simp [hg]
  · have hs : ¬ shapeOk shape sym = true := fun hs => h ⟨hg, hs⟩
    obtain ⟨e, he⟩ := shapeOk_false hs
    simp [hg, he]

/-! ### `step` / `run` unfolding -/

theorem step_reduceB_accept (s : CState) (g : Key) (tid : Nat) (shape : List Nat) (es dt : Nat)
    (sym : Bool) (h : g.length ≠ 1 ∧ shapeOk shape sym = true) :
    (step s (.reduceB g tid shape es dt sym)).1 = (stepB s g (mkItem tid shape es dt sym)).1 ∧
    (step s (.reduceB g tid shape es dt sym)).2.1 = (stepB s g (mkItem tid shape es dt sym)).2 := by
  simp [step, arB_accept s g tid shape es dt sym h.1 h.2]

theorem step_reduceB_reject (s : CState) (g : Key) (tid : Nat) (shape : List Nat) (es dt : Nat)
    (sym : Bool) (h : ¬ (g.length ≠ 1 ∧ shapeOk shape sym = true)) :
    (step s (.reduceB g tid shape es dt sym)).1 = s ∧
    (step s (.reduceB g tid shape es dt sym)).2.1 = [] :=
  arB_reject s g tid shape es dt sym h

theorem step_flush (s : CState) :
    (step s .flush).1 = (flush s).1 ∧ (step s .flush).2.1 = (flush s).2 := ⟨rfl, rfl⟩

theorem run_nil (s : CState) : run s [] = (s, []) := rfl

theorem run_cons (s : CState) (op : Op) (t : List Op) :
    run s (op :: t) = ((run (step s op).1 t).1, (step s op).2.1 ++ (run (step s op).1 t).2) := rfl

theorem onlyBucketed_cons {op : Op} {t : List Op} (h : onlyBucketed (op :: t)) :
    onlyBucketed t := fun o ho => h o (List.mem_cons_of_mem _ ho)

theorem onlyBucketed_append_flush {ops : List Op} (h : onlyBucketed ops) :
    onlyBucketed (ops ++ [.flush]) := by
  intro o ho
  rcases List.mem_append.1 ho with ho | ho
  · exact h o ho
  · right; simpa using ho

theorem not_onlyBucketed_reduce {g tid sh sym t} : ¬ onlyBucketed (Op.reduce g tid sh sym :: t) := by
  intro h
  have := h _ (List.mem_cons_self ..)
  simp at this

theorem not_onlyBucketed_bcast {g tid sh sym src t} :
    ¬ onlyBucketed (Op.bcast g tid sh sym src :: t) := by
  intro h
  have := h _ (List.mem_cons_self ..)
  simp at this

theorem submitted_cons (op : Op) (t : List Op) : submitted (op :: t) = submitted [op] ++ submitted t := by
  cases op <;> simp [submitted]
  split <;> simp

theorem submitted_append (a b : List Op) : submitted (a ++ b) = submitted a ++ submitted b := by
  induction a with
  | nil => simp [submitted]
  | cons op t ih => rw [List.cons_append, submitted_cons, ih, submitted_cons op t, List.append_assoc]

theorem submitted_append_flush (ops : List Op) : submitted (ops ++ [.flush]) = submitted ops := by
  simp [submitted_append, submitted]

/-! ### pair-permutation invariant -/

/-- (group, request) pairs carried by a list of events -/
def evPairs (evs : List Event) : List (Key × Nat) :=
  evs.flatMap fun e => (Event.tids e).map fun t => (Event.group e, t)

/-- (group, request) pairs waiting in the buckets -/
def pendP (bs : Buckets) : List (Key × Nat) :=
  bs.flatMap fun (k, b) => match b with | some b => b.items.map (fun it => (k, it.tid)) | none => []

theorem pendP_cons (k : Key) (b : Option Bucket) (t : Buckets) :
    pendP ((k, b) :: t) =
      (match b with | some b => b.items.map (fun it => (k, it.tid)) | none => []) ++ pendP t := by
  simp [pendP]

theorem evPairs_append (a b : List Event) : evPairs (a ++ b) = evPairs a ++ evPairs b := by
  simp [evPairs]

theorem evPairs_emit (g : Key) (b : Bucket) : evPairs (emit g b) = b.items.map fun it => (g, it.tid) := by
  unfold emit
  cases h : b.items with
  | nil => simp [evPairs]
  | cons x t => simp [evPairs, Event.tids, Event.group]

theorem evPairs_map_snd (evs : List Event) : (evPairs evs).map (·.2) = evs.flatMap Event.tids := by
  induction evs with
  | nil => rfl
  | cons e t ih =>
    have : evPairs (e :: t) = evPairs [e] ++ evPairs t := evPairs_append [e] t
    rw [this, List.map_append, ih]
    simp [evPairs, Function.comp_def]

theorem pendP_map_snd (s : CState) : (pendP s.buckets).map (·.2) = pending s := by
  unfold pending pendP
  induction s.buckets with
  | nil => rfl
  | cons kb t ih =>
    obtain ⟨k, b⟩ := kb
    cases b <;> simp_all [Function.comp_def]

theorem pendP_setB (g : Key) (new : List Item) (bs : Buckets) :
    (((curB g bs).items.map fun it => (g, it.tid)) ++ pendP (setB g (some { items := new }) bs)).Perm
      (pendP bs ++ new.map fun it => (g, it.tid)) := by
  induction bs with
  | nil => simp [curB_nil, setB, pendP]
  | cons kb t ih =>
    obtain ⟨k, b⟩ := kb
    by_cases h : k = g
    · subst h
      rw [curB_cons_self]
      have hp : ∀ (x y z : List (Key × Nat)), (x ++ (y ++ z)).Perm ((x ++ z) ++ y) := by
        intro x y z
        rw [List.append_assoc]
        exact List.Perm.append_left _ List.perm_append_comm
      cases b with
      | none => simpa [setB, pendP] using List.perm_append_comm
      | some b => simpa [setB, pendP] using hp _ _ _
    · rw [curB_cons_ne _ _ _ _ h]
      have e1 : pendP (setB g (some { items := new }) ((k, b) :: t))
          = pendP [(k, b)] ++ pendP (setB g (some { items := new }) t) := by
        simp [setB, h, pendP]
      have e2 : pendP ((k, b) :: t) = pendP [(k, b)] ++ pendP t := by simp [pendP]
      rw [e1, e2, List.append_assoc]
      refine List.Perm.trans ?_ (List.Perm.append_left _ ih)
      rw [← List.append_assoc, ← List.append_assoc]
      exact List.Perm.append_right _ List.perm_append_comm

theorem evPairs_flush (s : CState) : evPairs (flush s).2 = pendP s.buckets := by
  unfold flush
  simp only
  induction s.buckets with
  | nil => rfl
  | cons kb t ih =>
    obtain ⟨k, b⟩ := kb
    rw [List.flatMap_cons, evPairs_append, ih, pendP_cons]
    cases b with
    | none => simp [evPairs]
    | some b => simp [evPairs_emit]

theorem pendP_flush (s : CState) : pendP (flush s).1.buckets = [] := by
  unfold flush
  simp only
  induction s.buckets with
  | nil => rfl
  | cons kb t ih =>
    obtain ⟨k, b⟩ := kb
    rw [List.map_cons, pendP_cons, ih]
    rfl

theorem stepB_pairs_perm (s : CState) (g : Key) (it : Item) :
    (evPairs (stepB s g it).2 ++ pendP (stepB s g it).1.buckets).Perm
      (pendP s.buckets ++ [(g, it.tid)]) := by
  unfold stepB
  split
  · simpa [evPairs_emit] using pendP_setB g [it] s.buckets
  · have := pendP_setB g ((curB g s.buckets).items ++ [it]) s.buckets
    have h2 : (pendP s.buckets ++ List.map (fun it => (g, it.tid)) ((curB g s.buckets).items ++ [it])).Perm
        (List.map (fun it => (g, it.tid)) (curB g s.buckets).items ++ (pendP s.buckets ++ [(g, it.tid)])) := by
      rw [List.map_append, ← List.append_assoc, ← List.append_assoc]
      exact List.Perm.append_right _ List.perm_append_comm
    have h3 := this.trans h2
    simpa [evPairs] using (List.perm_append_left_iff _).1 h3

theorem step_pairs_perm (s : CState) (op : Op) (h : onlyBucketed [op]) :
    (evPairs (step s op).2.1 ++ pendP (step s op).1.buckets).Perm
      (pendP s.buckets ++ submitted [op]) := by
  cases op with
  | reduce => exact absurd h not_onlyBucketed_reduce
  | bcast => exact absurd h not_onlyBucketed_bcast
  | flush =>
    rw [(step_flush s).1, (step_flush s).2, evPairs_flush, pendP_flush]
    simp [submitted]
  | reduceB g tid shape es dt sym =>
    by_cases ha : g.length ≠ 1 ∧ shapeOk shape sym = true
    · rw [(step_reduceB_accept s g tid shape es dt sym ha).1,
        (step_reduceB_accept s g tid shape es dt sym ha).2]
      simpa [submitted, ha, mkItem] using stepB_pairs_perm s g (mkItem tid shape es dt sym)
    · rw [(step_reduceB_reject s g tid shape es dt sym ha).1,
        (step_reduceB_reject s g tid shape es dt sym ha).2]
      simp [submitted, ha, evPairs]

theorem run_pairs_perm (s : CState) (ops : List Op) (h : onlyBucketed ops) :
    (evPairs (run s ops).2 ++ pendP (run s ops).1.buckets).Perm (pendP s.buckets ++ submitted ops) := by
  induction ops generalizing s with
  | nil => simp [run_nil, evPairs, submitted]
  | cons op t ih =>
    have h1 : onlyBucketed [op] := fun o ho => h o (by simp at ho; simp [ho])
    rw [run_cons, submitted_cons]
    simp only
    rw [evPairs_append, List.append_assoc]
    refine (List.Perm.append_left _ (ih (step s op).1 (onlyBucketed_cons h))).trans ?_
    rw [← List.append_assoc, ← List.append_assoc]
    exact List.Perm.append_right _ (step_pairs_perm s op h1)

theorem pendP_run_flush (s : CState) (ops : List Op) :
    pendP (run s (ops ++ [.flush])).1.buckets = [] := by
  induction ops generalizing s with
  | nil => exact pendP_flush s
  | cons op t ih => rw [List.cons_append, run_cons]; exact ih _

/-! ### the one-group machine -/

/-- what one bucketed op does to the bucket of group `g` and the events it issues on `g` -/
def gStep (cap : Nat) (g : Key) (cur : Bucket) : Op → Bucket × List Event
  | .reduceB g' tid shape es dt sym =>
    if g' = g ∧ g'.length ≠ 1 ∧ shapeOk shape sym = true then
      if flushNow cap cur (mkItem tid shape es dt sym) then
        ({ items := [mkItem tid shape es dt sym] }, emit g cur)
      else ({ items := cur.items ++ [mkItem tid shape es dt sym] }, [])
    else (cur, [])
  | .flush => ({ items := [] }, emit g cur)
  | _ => (cur, [])

def gRun (cap : Nat) (g : Key) : Bucket → List Op → Bucket × List Event
  | cur, [] => (cur, [])
  | cur, op :: t =>
    ((gRun cap g (gStep cap g cur op).1 t).1, (gStep cap g cur op).2 ++ (gRun cap g (gStep cap g cur op).1 t).2)

/-- the group filter used in the statements -/
abbrev onG (g : Key) : Event → Bool := fun e => Event.group e == g

def KeysND (bs : Buckets) : Prop := (bs.map (·.1)).Nodup

theorem mem_keys_setB (x k : Key) (v : Option Bucket) (bs : Buckets) :
    x ∈ (setB k v bs).map (·.1) ↔ x ∈ bs.map (·.1) ∨ x = k := by
  induction bs with
  | nil => simp [setB]
  | cons kb t ih =>
    obtain ⟨k', b⟩ := kb
    by_cases h : k' = k
    · subst h; simp [setB]; tauto
    · simp only [setB, beq_iff_eq, h, if_false, List.map_cons, List.mem_cons, ih]
      tauto

theorem KeysND_setB (k : Key) (v : Option Bucket) (bs : Buckets) (h : KeysND bs) :
    KeysND (setB k v bs) := by
  induction bs with
  | nil => simp [setB, KeysND]
  | cons kb t ih =>
    obtain ⟨k', b⟩ := kb
    unfold KeysND at h ⊢
    rw [List.map_cons, List.nodup_cons] at h
    by_cases hk : k' = k
    · subst hk
      simpa [setB] using h
    · simp only [setB, beq_iff_eq, hk, if_false, List.map_cons, List.nodup_cons]
      refine ⟨?_, ih h.2⟩
      rw [mem_keys_setB]
      rintro (h1 | h1)
      · exact h.1 h1
      · exact hk h1

theorem KeysND_flush (s : CState) (h : KeysND s.buckets) : KeysND (flush s).1.buckets := by
  unfold flush KeysND
  simp only [List.map_map]
  exact h

theorem KeysND_stepB (s : CState) (g : Key) (it : Item) (h : KeysND s.buckets) :
    KeysND (stepB s g it).1.buckets := by
  unfold stepB
  split <;> exact KeysND_setB _ _ _ h

theorem cap_stepB (s : CState) (g : Key) (it : Item) : (stepB s g it).1.cap = s.cap := by
  unfold stepB
  split <;> rfl

theorem filter_emit_self (g : Key) (b : Bucket) : (emit g b).filter (onG g) = emit g b := by
  unfold emit
  split <;> simp [onG, Event.group]

theorem filter_emit_ne (g k : Key) (b : Bucket) (h : k ≠ g) : (emit k b).filter (onG g) = [] := by
  unfold emit
  split <;> simp [onG, Event.group, h]

theorem emit_nil (g : Key) : emit g { items := [] } = [] := rfl

/-- events of a flush, as a function of the dict -/
def flushEv (bs : Buckets) : List Event :=
  bs.flatMap fun (k, b) => match b with | some b => emit k b | none => []

theorem flushEv_cons (k : Key) (b : Option Bucket) (t : Buckets) :
    flushEv ((k, b) :: t) = (match b with | some b => emit k b | none => []) ++ flushEv t := by
  simp [flushEv]

theorem flushEv_filter_notMem (g : Key) (bs : Buckets) (h : g ∉ bs.map (·.1)) :
    (flushEv bs).filter (onG g) = [] := by
  induction bs with
  | nil => rfl
  | cons kb t ih =>
    obtain ⟨k, b⟩ := kb
    rw [List.map_cons, List.mem_cons, not_or] at h
    rw [flushEv_cons, List.filter_append, ih h.2]
    cases b with
    | none => rfl
    | some b => simp [filter_emit_ne g k b (Ne.symm h.1)]

theorem flushEv_filter (g : Key) (bs : Buckets) (h : KeysND bs) :
    (flushEv bs).filter (onG g) = emit g (curB g bs) := by
  induction bs with
  | nil => rfl
  | cons kb t ih =>
    obtain ⟨k, b⟩ := kb
    unfold KeysND at h
    rw [List.map_cons, List.nodup_cons] at h
    rw [flushEv_cons, List.filter_append]
    by_cases hk : k = g
    · subst hk
      rw [flushEv_filter_notMem _ _ h.1, curB_cons_self]
      cases b with
      | none => rfl
      | some b => simp [filter_emit_self]
    · rw [curB_cons_ne _ _ _ _ hk, ih h.2]
      cases b with
      | none => rfl
      | some b => simp [filter_emit_ne g k b hk]

theorem flush_events (s : CState) : (flush s).2 = flushEv s.buckets := rfl

theorem curB_flush (g : Key) (s : CState) : curB g (flush s).1.buckets = { items := [] } := by
  unfold flush
  simp only
  induction s.buckets with
  | nil => rfl
  | cons kb t ih =>
    obtain ⟨k, b⟩ := kb
    rw [List.map_cons]
    by_cases hk : k = g
    · subst hk; rw [curB_cons_self]
    · rw [curB_cons_ne _ _ _ _ hk, ih]

/-- one step of `run` seen from group `g` -/
theorem step_sim (s : CState) (op : Op) (g : Key) (h : onlyBucketed [op]) (hk : KeysND s.buckets) :
    KeysND (step s op).1.buckets ∧ (step s op).1.cap = s.cap ∧
    (step s op).2.1.filter (onG g) = (gStep s.cap g (curB g s.buckets) op).2 ∧
    curB g (step s op).1.buckets = (gStep s.cap g (curB g s.buckets) op).1 := by
  cases op with
  | reduce => exact absurd h not_onlyBucketed_reduce
  | bcast => exact absurd h not_onlyBucketed_bcast
  | flush =>
    rw [(step_flush s).1, (step_flush s).2]
    refine ⟨KeysND_flush s hk, rfl, ?_, ?_⟩
    · rw [flush_events, flushEv_filter g _ hk]; rfl
    · rw [curB_flush]; rfl
  | reduceB g' tid shape es dt sym =>
    by_cases ha : g'.length ≠ 1 ∧ shapeOk shape sym = true
    · rw [(step_reduceB_accept s g' tid shape es dt sym ha).1,
        (step_reduceB_accept s g' tid shape es dt sym ha).2]
      refine ⟨KeysND_stepB _ _ _ hk, cap_stepB _ _ _, ?_⟩
      by_cases hg : g' = g
      · subst hg
        unfold stepB gStep
        simp only [ha, and_self, if_true, ne_eq, not_false_eq_true]
        split
        · exact ⟨filter_emit_self _ _, curB_setB_self _ _ _⟩
        · exact ⟨rfl, curB_setB_self _ _ _⟩
      · unfold stepB gStep
        simp only [hg, false_and, if_false]
        split
        · exact ⟨filter_emit_ne _ _ _ hg, curB_setB_ne _ _ _ _ hg⟩
        · exact ⟨rfl, curB_setB_ne _ _ _ _ hg⟩
    · rw [(step_reduceB_reject s g' tid shape es dt sym ha).1,
        (step_reduceB_reject s g' tid shape es dt sym ha).2]
      refine ⟨hk, rfl, ?_⟩
      have : ¬ (g' = g ∧ g'.length ≠ 1 ∧ shapeOk shape sym = true) := fun h' => ha h'.2
      simp [gStep, this]

/-- `run` seen from group `g` is the one-group machine -/
theorem run_sim (s : CState) (ops : List Op) (g : Key) (h : onlyBucketed ops) (hk : KeysND s.buckets) :
    (run s ops).2.filter (onG g) = (gRun s.cap g (curB g s.buckets) ops).2 ∧
    curB g (run s ops).1.buckets = (gRun s.cap g (curB g s.buckets) ops).1 := by
  induction ops generalizing s with
  | nil => exact ⟨rfl, rfl⟩
  | cons op t ih =>
    have h1 : onlyBucketed [op] := fun o ho => h o (by simp at ho; simp [ho])
    obtain ⟨k1, c1, e1, b1⟩ := step_sim s op g h1 hk
    obtain ⟨i1, i2⟩ := ih (step s op).1 (onlyBucketed_cons h) k1
    rw [c1, b1] at i1 i2
    rw [run_cons]
    simp only [gRun, List.filter_append, e1, i1, i2, and_self]

/-- the one-group machine ignores requests for other groups -/
theorem gRun_filter (cap : Nat) (g : Key) (cur : Bucket) (ops : List Op) :
    gRun cap g cur (ops.filter fun op => match op with
            | .reduceB g' _ _ _ _ _ => g' == g
            | _ => true) = gRun cap g cur ops := by
  induction ops generalizing cur with
  | nil => rfl
  | cons op t ih =>
    cases op with
    | reduceB g' tid shape es dt sym =>
      by_cases hg : g' = g
      · subst hg
        simp only [List.filter_cons, beq_self_eq_true, if_true, gRun, ih]
      · have e : gStep cap g cur (.reduceB g' tid shape es dt sym) = (cur, []) := by
          simp [gStep, hg]
        simp only [List.filter_cons, beq_iff_eq, hg, if_false, gRun, ih, e, List.nil_append]
    | reduce => simp only [List.filter_cons, if_true, gRun, ih]
    | bcast => simp only [List.filter_cons, if_true, gRun, ih]
    | flush => simp only [List.filter_cons, if_true, gRun, ih]

theorem onlyBucketed_filter {ops : List Op} (h : onlyBucketed ops) (p : Op → Bool) :
    onlyBucketed (ops.filter p) := fun o ho => h o (List.mem_of_mem_filter ho)

theorem KeysND_init (cap : Nat) : KeysND (init cap).buckets := by simp [init, KeysND]

theorem emit_tids (g : Key) (b : Bucket) : (emit g b).flatMap Event.tids = b.items.map (·.tid) := by
  unfold emit
  cases h : b.items with
  | nil => rfl
  | cons x t => simp [Event.tids]

theorem gStep_fifo (cap : Nat) (g : Key) (cur : Bucket) (op : Op) :
    (gStep cap g cur op).2.flatMap Event.tids ++ (gStep cap g cur op).1.items.map (·.tid)
      = cur.items.map (·.tid) ++ ((submitted [op]).filter (fun p => p.1 == g)).map (·.2) := by
  cases op with
  | reduce => simp [gStep, submitted]
  | bcast => simp [gStep, submitted]
  | flush => simp [gStep, submitted, emit_tids]
  | reduceB g' tid shape es dt sym =>
    by_cases ha : g'.length ≠ 1 ∧ shapeOk shape sym = true
    · by_cases hg : g' = g
      · subst hg
        unfold gStep
        simp only [ha, and_self, if_true, ne_eq, not_false_eq_true]
        split <;> simp [submitted, ha, emit_tids, mkItem]
      · simp [gStep, submitted, ha, hg]
    · simp only [gStep, if_false, submitted, ha]
      simp

theorem gRun_fifo (cap : Nat) (g : Key) (cur : Bucket) (ops : List Op) :
    (gRun cap g cur ops).2.flatMap Event.tids ++ (gRun cap g cur ops).1.items.map (·.tid)
      = cur.items.map (·.tid) ++ ((submitted ops).filter (fun p => p.1 == g)).map (·.2) := by
  induction ops generalizing cur with
  | nil => simp [gRun, submitted]
  | cons op t ih =>
    rw [submitted_cons]
    simp only [gRun, List.flatMap_append, List.append_assoc, ih, List.filter_append, List.map_append]
    rw [← List.append_assoc, gStep_fifo, List.append_assoc]

theorem gRun_flush_last (cap : Nat) (g : Key) (cur : Bucket) (ops : List Op) :
    (gRun cap g cur (ops ++ [.flush])).1 = { items := [] } := by
  induction ops generalizing cur with
  | nil => rfl
  | cons op t ih => rw [List.cons_append]; exact ih _

/-! ### bucket-content invariant (capacity, dtype) -/

/-- contents of a bucket: sizes / dtypes recorded by `fb` / `fd`, within capacity unless a single
    item, one dtype -/
def GoodItems (cap : Nat) (fb fd : Nat → Nat) (items : List Item) : Prop :=
  (∀ it ∈ items, fb it.tid = it.elems * it.esize ∧ fd it.tid = it.dtype) ∧
  ((Bucket.mk items).size ≤ cap ∨ items.length ≤ 1) ∧
  (∀ a ∈ items, ∀ b ∈ items, a.dtype = b.dtype)

def EvOk (cap : Nat) (fb fd : Nat → Nat) (e : Event) : Prop :=
  (((Event.tids e).map fb).sum ≤ cap ∨ (Event.tids e).length = 1) ∧
  (∀ a ∈ Event.tids e, ∀ b ∈ Event.tids e, fd a = fd b)

def BInv (cap : Nat) (fb fd : Nat → Nat) (bs : Buckets) : Prop :=
  ∀ k b, (k, some b) ∈ bs → GoodItems cap fb fd b.items

theorem GoodItems_nil (cap : Nat) (fb fd : Nat → Nat) : GoodItems cap fb fd [] := by
  simp [GoodItems]

theorem GoodItems_single (cap : Nat) (fb fd : Nat → Nat) (it : Item)
    (h : fb it.tid = it.elems * it.esize ∧ fd it.tid = it.dtype) : GoodItems cap fb fd [it] := by
  simp [GoodItems, h]

theorem GoodItems_append (cap : Nat) (fb fd : Nat → Nat) (cur : Bucket) (it : Item)
    (hc : GoodItems cap fb fd cur.items)
    (h : fb it.tid = it.elems * it.esize ∧ fd it.tid = it.dtype)
    (hf : ¬ flushNow cap cur it = true) : GoodItems cap fb fd (cur.items ++ [it]) := by
  obtain ⟨c1, c2, c3⟩ := hc
  simp only [flushNow, Bool.or_eq_true, decide_eq_true_eq, not_or, Nat.not_lt] at hf
  obtain ⟨f1, f2⟩ := hf
  refine ⟨?_, ?_, ?_⟩
  · intro a ha
    rcases List.mem_append.1 ha with ha | ha
    · exact c1 a ha
    · rw [List.mem_singleton.1 ha]; exact h
  · left
    simpa [Bucket.size] using f1
  · have key : ∀ a ∈ cur.items, a.dtype = it.dtype := by
      intro a ha
      cases hi : cur.items with
      | nil => rw [hi] at ha; cases ha
      | cons x t =>
        have hx : x ∈ cur.items := by rw [hi]; exact List.mem_cons_self ..
        simp [Bucket.dtype?, hi] at f2
        rw [c3 a ha x hx, f2]
    intro a ha b hb
    rcases List.mem_append.1 ha with ha | ha <;> rcases List.mem_append.1 hb with hb | hb
    · exact c3 a ha b hb
    · rw [List.mem_singleton.1 hb]; exact key a ha
    · rw [List.mem_singleton.1 ha]; exact (key b hb).symm
    · rw [List.mem_singleton.1 ha, List.mem_singleton.1 hb]

theorem emit_ok (cap : Nat) (fb fd : Nat → Nat) (g : Key) (b : Bucket)
    (hb : GoodItems cap fb fd b.items) : ∀ e ∈ emit g b, EvOk cap fb fd e := by
  obtain ⟨c1, c2, c3⟩ := hb
  unfold emit
  split
  · simp
  · rename_i hne
    intro e he
    rw [List.mem_singleton] at he
    subst he
    refine ⟨?_, ?_⟩
    · rcases c2 with c2 | c2
      · left
        have : (List.map fb (Event.tids (.allreduce g (List.map (·.tid) b.items)
            (List.map (·.elems) b.items).sum))) = b.items.map fun it => it.elems * it.esize := by
          simp only [Event.tids, List.map_map]
          exact List.map_congr_left fun a ha => (c1 a ha).1
        rw [this]
        exact c2
      · right
        cases hi : b.items with
        | nil => simp [hi] at hne
        | cons x t =>
          rw [hi] at c2
          simp at c2
          simp [Event.tids, c2]
    · intro a ha b' hb'
      simp only [Event.tids, List.mem_map] at ha hb'
      obtain ⟨ia, hia, rfl⟩ := ha
      obtain ⟨ib, hib, rfl⟩ := hb'
      rw [(c1 ia hia).2, (c1 ib hib).2]
      exact c3 ia hia ib hib

theorem lookupB_mem (g : Key) (bs : Buckets) (v : Option Bucket) (h : lookupB g bs = some v) :
    ∃ k, (k, v) ∈ bs := by
  induction bs with
  | nil => simp [lookupB] at h
  | cons kb t ih =>
    obtain ⟨k, b⟩ := kb
    by_cases hk : k = g
    · simp [lookupB, hk] at h
      exact ⟨k, by simp [h]⟩
    · simp [lookupB, hk] at h
      obtain ⟨k', hk'⟩ := ih h
      exact ⟨k', List.mem_cons_of_mem _ hk'⟩

theorem curB_good (cap : Nat) (fb fd : Nat → Nat) (g : Key) (bs : Buckets) (h : BInv cap fb fd bs) :
    GoodItems cap fb fd (curB g bs).items := by
  unfold curB
  split
  · rename_i b hb
    obtain ⟨k, hk⟩ := lookupB_mem g bs _ hb
    exact h k b hk
  · exact GoodItems_nil ..

theorem mem_setB (x : Key × Option Bucket) (k : Key) (v : Option Bucket) (bs : Buckets)
    (h : x ∈ setB k v bs) : x ∈ bs ∨ x.2 = v := by
  induction bs with
  | nil => simp [setB] at h; simp [h]
  | cons kb t ih =>
    obtain ⟨k', b⟩ := kb
    by_cases hk : k' = k
    · simp only [setB, beq_iff_eq, hk, if_true, List.mem_cons] at h
      rcases h with h | h
      · right; simp [h]
      · left; exact List.mem_cons_of_mem _ h
    · simp only [setB, beq_iff_eq, hk, if_false, List.mem_cons] at h
      rcases h with h | h
      · left; simp [h]
      · rcases ih h with h | h
        · left; exact List.mem_cons_of_mem _ h
        · right; exact h

theorem BInv_setB (cap : Nat) (fb fd : Nat → Nat) (g : Key) (new : List Item) (bs : Buckets)
    (h : BInv cap fb fd bs) (hn : GoodItems cap fb fd new) :
    BInv cap fb fd (setB g (some { items := new }) bs) := by
  intro k b hm
  rcases mem_setB _ _ _ _ hm with hm | hm
  · exact h k b hm
  · simp at hm; subst hm; exact hn

theorem BInv_flush (cap : Nat) (fb fd : Nat → Nat) (s : CState) : BInv cap fb fd (flush s).1.buckets := by
  intro k b hm
  simp [flush] at hm

theorem flushEv_ok (cap : Nat) (fb fd : Nat → Nat) (bs : Buckets) (h : BInv cap fb fd bs) :
    ∀ e ∈ flushEv bs, EvOk cap fb fd e := by
  intro e he
  simp only [flushEv, List.mem_flatMap] at he
  obtain ⟨⟨k, b⟩, hm, he⟩ := he
  cases b with
  | none => simp at he
  | some b => exact emit_ok cap fb fd k b (h k b hm) e he

theorem stepB_ok (cap : Nat) (fb fd : Nat → Nat) (s : CState) (g : Key) (it : Item)
    (hc : s.cap = cap) (hb : BInv cap fb fd s.buckets)
    (h : fb it.tid = it.elems * it.esize ∧ fd it.tid = it.dtype) :
    BInv cap fb fd (stepB s g it).1.buckets ∧ ∀ e ∈ (stepB s g it).2, EvOk cap fb fd e := by
  have hcur := curB_good cap fb fd g s.buckets hb
  unfold stepB
  rw [hc]
  split
  · exact ⟨BInv_setB _ _ _ _ _ _ hb (GoodItems_single _ _ _ _ h), emit_ok _ _ _ _ _ hcur⟩
  · rename_i hf
    exact ⟨BInv_setB _ _ _ _ _ _ hb (GoodItems_append _ _ _ _ _ hcur h hf), by simp⟩

theorem step_ok (cap : Nat) (fb fd : Nat → Nat) (s : CState) (op : Op) (h : onlyBucketed [op])
    (hc : s.cap = cap) (hb : BInv cap fb fd s.buckets)
    (hgood : ∀ g tid sh es dt sym, op = .reduceB g tid sh es dt sym →
      fb tid = commElems sh sym * es ∧ fd tid = dt) :
    (step s op).1.cap = cap ∧ BInv cap fb fd (step s op).1.buckets ∧
      ∀ e ∈ (step s op).2.1, EvOk cap fb fd e := by
  cases op with
  | reduce => exact absurd h not_onlyBucketed_reduce
  | bcast => exact absurd h not_onlyBucketed_bcast
  | flush =>
    rw [(step_flush s).1, (step_flush s).2]
    exact ⟨hc, BInv_flush _ _ _ _, flushEv_ok _ _ _ _ hb⟩
  | reduceB g tid shape es dt sym =>
    by_cases ha : g.length ≠ 1 ∧ shapeOk shape sym = true
    · rw [(step_reduceB_accept s g tid shape es dt sym ha).1,
        (step_reduceB_accept s g tid shape es dt sym ha).2]
      refine ⟨(cap_stepB _ _ _).trans hc, ?_⟩
      exact stepB_ok cap fb fd s g _ hc hb (hgood g tid shape es dt sym rfl)
    · rw [(step_reduceB_reject s g tid shape es dt sym ha).1,
        (step_reduceB_reject s g tid shape es dt sym ha).2]
      exact ⟨hc, hb, by simp⟩

theorem run_events_ok (cap : Nat) (fb fd : Nat → Nat) (s : CState) (ops : List Op)
    (h : onlyBucketed ops) (hc : s.cap = cap) (hb : BInv cap fb fd s.buckets)
    (hgood : ∀ g tid sh es dt sym, .reduceB g tid sh es dt sym ∈ ops →
      fb tid = commElems sh sym * es ∧ fd tid = dt) :
    ∀ e ∈ (run s ops).2, EvOk cap fb fd e := by
  induction ops generalizing s with
  | nil => simp [run_nil]
  | cons op t ih =>
    have h1 : onlyBucketed [op] := fun o ho => h o (by simp at ho; simp [ho])
    obtain ⟨c1, b1, e1⟩ := step_ok cap fb fd s op h1 hc hb
      (fun g tid sh es dt sym he => hgood g tid sh es dt sym (by rw [he]; exact List.mem_cons_self ..))
    have i1 := ih (step s op).1 (onlyBucketed_cons h) c1 b1
      (fun g tid sh es dt sym he => hgood g tid sh es dt sym (List.mem_cons_of_mem _ he))
    rw [run_cons]
    intro e he
    rcases List.mem_append.1 he with he | he
    · exact e1 e he
    · exact i1 e he

theorem mem_tidsOf {g tid sh es dt sym} {ops : List Op}
    (h : Op.reduceB g tid sh es dt sym ∈ ops) : tid ∈ tidsOf ops := by
  induction ops with
  | nil => cases h
  | cons op t ih =>
    rcases List.mem_cons.1 h with h' | h'
    · subst h'; simp [tidsOf]
    · cases op <;> simp [tidsOf, ih h']

theorem ops_good (ops : List Op) (hd : (tidsOf ops).Nodup) :
    ∀ g tid sh es dt sym, .reduceB g tid sh es dt sym ∈ ops →
      bytesOf ops tid = commElems sh sym * es ∧ dtypeOf ops tid = dt := by
  induction ops with
  | nil => intro g tid sh es dt sym h; cases h
  | cons op t ih =>
    intro g tid sh es dt sym h
    rcases List.mem_cons.1 h with h' | h'
    · subst h'; simp [bytesOf, dtypeOf]
    · cases op with
      | reduceB g' tid' sh' es' dt' sym' =>
        simp only [tidsOf, List.nodup_cons] at hd
        have hne : tid' ≠ tid := fun e => hd.1 (e ▸ mem_tidsOf h')
        simpa [bytesOf, dtypeOf, hne] using ih hd.2 g tid sh es dt sym h'
      | reduce => simpa [bytesOf, dtypeOf, tidsOf] using ih (by simpa [tidsOf] using hd) g tid sh es dt sym h'
      | bcast => simpa [bytesOf, dtypeOf, tidsOf] using ih (by simpa [tidsOf] using hd) g tid sh es dt sym h'
      | flush => simpa [bytesOf, dtypeOf, tidsOf] using ih (by simpa [tidsOf] using hd) g tid sh es dt sym h'

theorem BInv_init (cap : Nat) (fb fd : Nat → Nat) : BInv cap fb fd (init cap).buckets := by
  intro k b hm
  simp [init] at hm

/-! ### values: `sumRanks` / `unflatten` -/

theorem sumRanks_cons_cons (v w : List Int) (t : List (List Int)) :
    sumRanks (v :: w :: t) = vecAdd v (sumRanks (w :: t)) := rfl

theorem sumRanks_length (n : Nat) (vs : List (List Int)) (hne : vs ≠ [])
    (h : ∀ v ∈ vs, v.length = n) : (sumRanks vs).length = n := by
  induction vs with
  | nil => exact absurd rfl hne
  | cons v t ih =>
    cases t with
    | nil => exact h v (List.mem_cons_self ..)
    | cons w t' =>
      rw [sumRanks_cons_cons, vecAdd, List.length_zipWith,
        ih (by simp) (fun x hx => h x (List.mem_cons_of_mem _ hx)), h v (List.mem_cons_self ..)]
      simp

theorem sumRanks_append (n : Nat) (L : List (List Int × List Int)) (h : ∀ p ∈ L, p.1.length = n) :
    sumRanks (L.map fun p => p.1 ++ p.2) = sumRanks (L.map (·.1)) ++ sumRanks (L.map (·.2)) := by
  induction L with
  | nil => rfl
  | cons p t ih =>
    cases t with
    | nil => rfl
    | cons q t' =>
      have ih' := ih (fun x hx => h x (List.mem_cons_of_mem _ hx))
      simp only [List.map_cons] at ih' ⊢
      rw [sumRanks_cons_cons, sumRanks_cons_cons, sumRanks_cons_cons, ih']
      unfold vecAdd
      apply List.zipWith_append
      have := sumRanks_length n ((q :: t').map (·.1)) (by simp)
        (by intro v hv
            simp only [List.mem_map] at hv
            obtain ⟨x, hx, rfl⟩ := hv
            exact h x (List.mem_cons_of_mem _ hx))
      simp only [List.map_cons] at this
      rw [this, h p (List.mem_cons_self ..)]

theorem unflatten_sumRanks (lens : List Nat) (X : List (List (List Int))) (hne : X ≠ [])
    (hl : ∀ xs ∈ X, xs.map List.length = lens) :
    unflatten lens (sumRanks (X.map flatten))
      = (List.range lens.length).map fun i => sumRanks (X.map fun xs => xs.getD i []) := by
  induction lens generalizing X with
  | nil => rfl
  | cons n t ih =>
    have hx : ∀ xs ∈ X, ∃ hd tl, xs = hd :: tl ∧ hd.length = n ∧ tl.map List.length = t := by
      intro xs hxs
      have := hl xs hxs
      cases xs with
      | nil => simp at this
      | cons hd tl =>
        simp only [List.map_cons, List.cons.injEq] at this
        exact ⟨hd, tl, rfl, this.1, this.2⟩
    have e1 : X.map flatten = (X.map fun xs => (xs.headD [], flatten xs.tail)).map fun p => p.1 ++ p.2 := by
      rw [List.map_map]
      apply List.map_congr_left
      intro xs hxs
      obtain ⟨hd, tl, rfl, -, -⟩ := hx xs hxs
      simp [flatten]
    have hA : (sumRanks ((X.map fun xs => (xs.headD [], flatten xs.tail)).map (·.1))).length = n := by
      apply sumRanks_length n _ (by simpa using hne)
      intro v hv
      simp only [List.map_map, List.mem_map, Function.comp] at hv
      obtain ⟨xs, hxs, rfl⟩ := hv
      obtain ⟨hd, tl, rfl, h1, -⟩ := hx xs hxs
      simpa using h1
    rw [e1, sumRanks_append n _ (by
      intro p hp
      simp only [List.mem_map] at hp
      obtain ⟨xs, hxs, rfl⟩ := hp
      obtain ⟨hd, tl, rfl, h1, -⟩ := hx xs hxs
      simpa using h1)]
    rw [unflatten, List.take_left' hA, List.drop_left' hA]
    have e2 : (X.map fun xs => (xs.headD [], flatten xs.tail)).map (·.2) = (X.map List.tail).map flatten := by
      simp [List.map_map, Function.comp_def]
    rw [e2, ih (X.map List.tail) (by simpa using hne) (by
      intro ys hys
      simp only [List.mem_map] at hys
      obtain ⟨xs, hxs, rfl⟩ := hys
      obtain ⟨hd, tl, rfl, -, h2⟩ := hx xs hxs
      exact h2)]
    rw [List.length_cons, List.range_succ_eq_map, List.map_cons]
    congr 1
    · congr 1
      rw [List.map_map]
      apply List.map_congr_left
      intro xs hxs
      obtain ⟨hd, tl, rfl, -, -⟩ := hx xs hxs
      simp
    · rw [List.map_map]
      apply List.map_congr_left
      intro i _
      simp only [Function.comp, List.map_map]
      congr 1
      apply List.map_congr_left
      intro xs hxs
      obtain ⟨hd, tl, rfl, -, -⟩ := hx xs hxs
      simp

/-! ### flush twice -/

theorem flush_flush (s : CState) : flush (flush s).1 = ((flush s).1, []) := by
  simp only [flush, List.map_map, List.flatMap_map, Function.comp_def]
  congr 1
  induction s.buckets with
  | nil => rfl
  | cons kb t ih => rw [List.flatMap_cons, ih]; rfl

theorem pending_flush (s : CState) : pending (flush s).1 = [] := by
  rw [← pendP_map_snd, pendP_flush]; rfl

end KV.C08
