/-
The first `step()` makes every gradient worker hold second-order data (`qa` resp. `aInv`), and
nothing but a checkpoint load ever drops it.  Core Lean only.
-/
import KfacVerif.Lemmas.HoldingsWalk

namespace KV.HR
open KV KV.Precond
variable {c : Cfg} {bp : Bool}
set_option linter.unusedSimpArgs false

/-- unless the run has failed, cell (r, l) holds `qa` resp. `aInv` -/
def Est (c : Cfg) (r l : Nat) (u : St) : Prop := u.err = none → hq c (getL u r l) = true

theorem Est.mono {r l : Nat} {t u : St} (h : Reach c false bp t u) (ht : Est c r l t) : Est c r l u :=
  fun he => h.hq r l (ht (h.err he))

theorem Est.fail {r l : Nat} (s : St) (r' : Nat) (w : String) : Est c r l (Precond.fail s r' w) :=
  fun he => absurd he (fail_err _ _ _)

theorem Est.ite {r l : Nat} (b : Prop) [Decidable b] {t u : St} (h1 : b → Est c r l t) (h2 : ¬ b → Est c r l u) :
    Est c r l (if b then t else u) := by
  split
  · exact h1 ‹_›
  · exact h2 ‹_›

theorem getL_setL_self {s : St} (hs : Shape c s) {r l : Nat} (hr : r < c.world) (hl : l < c.layers.length)
    (x : LState) : getL (Precond.setL s r l x) r l = x := by
  obtain ⟨h1, h2⟩ := hs
  have hr' : r < s.ranks.length := by omega
  have hrow : (s.ranks.getD r []).length = c.layers.length := by
    apply h2
    simp only [List.getD, List.getElem?_eq_getElem hr', Option.getD_some]
    exact List.getElem_mem hr'
  simp only [getL, Precond.setL, List.getD]
  rw [List.getElem?_set_self hr']
  simp only [Option.getD_some]
  rw [List.getElem?_set_self (by simp only [List.getD] at hrow; omega)]
  rfl

theorem Est.setL {r l : Nat} {s : St} (hs : Shape c s) (hr : r < c.world) (hl : l < c.layers.length)
    {x : LState} (hx : hq c x = true) : Est c r l (Precond.setL s r l x) := by
  intro _
  rw [getL_setL_self hs hr hl]
  exact hx

theorem Shape.rd {s s' : St} (hs : Shape c s) (e : s'.ranks = s.ranks) : Shape c s' := hs.of_ranks e

/-- split the outermost `if` -/
macro "esplit" : tactic => `(tactic| (apply Est.ite <;> intro _))

theorem est_computeAInv {s : St} (hs : Shape c s) {r l : Nat} (hr : r < c.world) (hl : l < c.layers.length)
    (d : Rat) : Est c r l (computeAInv c s r l d) := by
  unfold Precond.computeAInv
  cases hm : c.method <;>
    simp only [readSlot_eq, ite_pair, getL_rdSt, getL_ite_rdSt, getL_ite_rdSt'] <;> esplit
  · exact Est.fail _ _ _
  · exact Est.setL (hs.rd (by simp)) hr hl (by simp [hq, hm])
  · exact Est.fail _ _ _
  · exact Est.setL (hs.rd (by simp)) hr hl (by simp [hq, hm])

theorem est_bcastA_eigen_body (hm : c.method = .eigen) (l : Nat) (s : St) (r : Nat) (hs : Shape c s)
    (hr : r < c.world) (hl : l < c.layers.length) :
    Est c r l (
      let src := c.asg.invA l
      let x := getL s r l
      let (s, qa) := readSlot s r x.qa
      let x := { getL s r l with qa := qa }
      let (s, da) := if qa.isSome && !c.prediv then readSlot s r x.da else (s, x.da)
      let x := { getL s r l with qa := qa, da := da }
      if qa.isNone || (!c.prediv && da.isNone) then
        if r == src then Precond.fail s r "broadcast A inv from src that has not computed it" else
        let (s, af) := readSlot s r x.aFactor
        let x := { getL s r l with qa := qa, da := da, aFactor := af }
        if af.isNone then Precond.fail s r "a_factor is None when allocating the receive buffer" else
        Precond.setL s r l { x with qa := some ⟨.garbage, .ready⟩, da := some ⟨.garbage, .ready⟩ }
      else Precond.setL s r l x) := by
  simp only [readSlot_eq, ite_pair, getL_rdSt, getL_ite_rdSt, getL_ite_rdSt']
  esplit
  · esplit
    · exact Est.fail _ _ _
    · esplit
      · exact Est.fail _ _ _
      · exact Est.setL (hs.rd (by simp)) hr hl (by simp [hq, hm])
  · rename_i hcond
    refine Est.setL (hs.rd (by simp)) hr hl ?_
    cases hqa : (getL s r l).qa with
    | none => simp [hqa, rdVal] at hcond
    | some v => simp [hq, hm]

theorem est_bcastA_inv_body (hm : c.method = .inverse) (l : Nat) (s : St) (r : Nat) (hs : Shape c s)
    (hr : r < c.world) (hl : l < c.layers.length) :
    Est c r l (
      let src := c.asg.invA l
      let x := getL s r l
      let (s, ai) := readSlot s r x.aInv
      let x := { getL s r l with aInv := ai }
      if ai.isNone then
        if r == src then Precond.fail s r "broadcast A inv from src that has not computed it" else
        let (s, af) := readSlot s r x.aFactor
        let x := { getL s r l with aInv := ai, aFactor := af }
        if af.isNone then Precond.fail s r "a_factor is None when allocating the receive buffer" else
        Precond.setL s r l { x with aInv := some ⟨.garbage, .ready⟩ }
      else Precond.setL s r l x) := by
  simp only [readSlot_eq, ite_pair, getL_rdSt, getL_ite_rdSt, getL_ite_rdSt']
  esplit
  · esplit
    · exact Est.fail _ _ _
    · esplit
      · exact Est.fail _ _ _
      · exact Est.setL (hs.rd (by simp)) hr hl (by simp [hq, hm])
  · rename_i hcond
    refine Est.setL (hs.rd (by simp)) hr hl ?_
    cases hai : (getL s r l).aInv with
    | none => simp [hai, rdVal] at hcond
    | some v => simp [hq, hm]

/-- a fold all of whose steps are primitive sequences, one of which establishes `G` -/
theorem foldl_est {α : Type} (f : St → α → St) (ls : List α) (a : α) (ha : a ∈ ls) (s : St)
    (hR : ∀ t b, b ∈ ls → Reach c false bp t (f t b)) (hS : Shape c s) (G : St → Prop)
    (hG : ∀ t u, Reach c false bp t u → G t → G u) (hest : ∀ t, Shape c t → G (f t a)) :
    G (ls.foldl f s) := by
  obtain ⟨pre, post, rfl⟩ := List.append_of_mem ha
  rw [List.foldl_append, List.foldl_cons]
  have h1 : Reach c false bp s (pre.foldl f s) :=
    Reach.foldl f pre (fun t b hb => hR t b (by simp [hb])) (Reach.refl s)
  have h2 : Reach c false bp (f (pre.foldl f s) a) (post.foldl f (f (pre.foldl f s) a)) :=
    Reach.foldl f post (fun t b hb => hR t b (by simp [hb])) (Reach.refl _)
  exact hG _ _ h2 (hest _ (h1.shape hS))

theorem est_broadcastAInv (hwl : ∀ r ∈ c.asg.workers l, r < c.world) (hb : c.asg.bcastInv = true)
    {s : St} (hs : Shape c s) (hl : l < c.layers.length) (r : Nat) (hr : r ∈ c.asg.workers l) :
    Est c r l (broadcastAInv c s l) := by
  unfold Precond.broadcastAInv
  cases hm : c.method <;> simp only []
  · have h1 := foldl_est (c := c) (bp := true) _ (c.asg.workers l) r hr s
      (fun t b hb' => R.bcastA_eigen_body l t b (Or.inl hb')) hs (Est c r l)
      (fun t u h => Est.mono h) (fun t ht => est_bcastA_eigen_body hm l t r ht (hwl r hr) hl)
    have h2 := Est.mono (R.bcastField (ld := false) (bp := true) _ l (c.asg.invA l)
      ((c.layers.getD l ⟨0, 0⟩).aDim * (c.layers.getD l ⟨0, 0⟩).aDim) hb (Or.inl rfl)
      (·.qa) (fun x v => { x with qa := v }) (fun x o ho => by simp [monoSO, ho])) h1
    split
    · exact h2
    · exact Est.mono (R.bcastField (ld := false) (bp := true) _ l (c.asg.invA l) _ hb (Or.inl rfl)
        (·.da) (fun x v => { x with da := v }) (fun x o ho => by simp [monoSO])) h2
  · have h1 := foldl_est (c := c) (bp := true) _ (c.asg.workers l) r hr s
      (fun t b hb' => R.bcastA_inv_body l t b (Or.inl hb')) hs (Est c r l)
      (fun t u h => Est.mono h) (fun t ht => est_bcastA_inv_body hm l t r ht (hwl r hr) hl)
    exact Est.mono (R.bcastField (ld := false) (bp := true) _ l (c.asg.invA l) _ hb (Or.inl rfl)
      (·.aInv) (fun x v => { x with aInv := v }) (fun x o ho => by simp [monoSO, ho])) h1

/-- what C13 assumes of the assignment -/
structure AsgH (c : Cfg) : Prop where
  workers_lt : ∀ l r, r ∈ c.asg.workers l → r < c.world
  invA_mem : ∀ l, c.asg.invA l ∈ c.asg.workers l
  invG_mem : ∀ l, c.asg.invG l ∈ c.asg.workers l
  nobi_single : c.asg.bcastInv = false → ∀ l, c.asg.workers l = [c.asg.invA l] ∧ c.asg.invG l = c.asg.invA l

theorem AsgH.invMem (ha : AsgH c) : InvMem c false :=
  fun l => ⟨Or.inl (ha.invA_mem l), Or.inl (ha.invG_mem l)⟩

theorem est_invBody (ha : AsgH c) (d : Rat) {s : St} (hs : Shape c s) {l : Nat} (hl : l < c.layers.length)
    (r : Nat) (hr : r ∈ c.asg.workers l) : Est c r l (invBody c d s l) := by
  have key : invBody c d s l =
      (fun t => if c.asg.bcastInv then Precond.broadcastGInv c t l else t)
        (Precond.computeGInv c
          ((fun t => if c.asg.bcastInv then Precond.broadcastAInv c t l else t)
            (Precond.computeAInv c s (c.asg.invA l) l d)) (c.asg.invG l) l d) := rfl
  rw [key]
  have hm := ha.invMem
  have r1 : Reach c false true s (Precond.computeAInv c s (c.asg.invA l) l d) := R.computeAInv s _ l d (hm l).1
  have e1 : Est c r l ((fun t => if c.asg.bcastInv then Precond.broadcastAInv c t l else t)
      (Precond.computeAInv c s (c.asg.invA l) l d)) := by
    by_cases hb : c.asg.bcastInv = true
    · simp only [hb, if_true]
      exact est_broadcastAInv (ha.workers_lt l) hb (r1.shape hs) hl r hr
    · have hb' : c.asg.bcastInv = false := by simpa using hb
      simp only [hb', Bool.false_eq_true, if_false]
      have hw := (ha.nobi_single hb' l).1
      rw [hw] at hr
      have : r = c.asg.invA l := by simpa using hr
      subst this
      exact est_computeAInv hs (ha.workers_lt l _ (ha.invA_mem l)) hl d
  exact Est.mono (bp := true) ((R.computeGInv _ _ l d (hm l).2).trans (R.iteBG _ l)) e1

theorem Est.congr {r l : Nat} {s s' : St} (h : Est c r l s) (h1 : s'.ranks = s.ranks) (h2 : s'.err = s.err) :
    Est c r l s' := by
  intro he
  have := h (h2 ▸ he)
  simpa only [getL, h1] using this

/-- the first `step()` (step count 0 runs the inverse phase whatever the interval) -/
theorem est_stepAll (ha : AsgH c) {s : St} (hs : Shape c s) (h0 : s.steps = 0) {l : Nat}
    (hl : l < c.layers.length) (r : Nat) (hr : r ∈ c.asg.workers l) : Est c r l (stepAll c s) := by
  obtain ⟨n, m, o, e⟩ := stepAll_pre c s
  rw [e]
  refine Est.congr (s := stepPre c s) ?_ rfl rfl
  unfold stepPre
  have hm := ha.invMem
  have r0 : Reach c false false s (Precond.flushBucket c (PI.stepHead c s)) :=
    (R.stepHead s).trans (R.flushBucket _)
  have hs1 := r0.shape hs
  have h1 : (Precond.flushBucket c (PI.stepHead c s)).steps = 0 := by rw [r0.steps, h0]
  generalize Precond.flushBucket c (PI.stepHead c s) = s1 at hs1 h1
  have e2 : Est c r l (PI.stepInv c (s.hyper.ius.val s.steps) (s.hyper.damping.val s.steps) s1) := by
    rw [stepInv_eq]
    simp only [h1, Nat.zero_mod, beq_self_eq_true, if_true]
    refine Est.mono (bp := true) (R.flushBucket _) ?_
    exact foldl_est (bp := true) _ _ l (PI.mem_revLayers.mpr hl) s1 (fun t b _ => R.invBody hm _ t b) hs1
      (Est c r l) (fun t u h => Est.mono h) (fun t ht => est_invBody ha _ ht hl r hr)
  exact Est.mono (bp := true) ((((R.stepGrad _ _).trans (R.flushBucket _)).trans (R.stepClip _)).trans
    (R.stepClear _)) e2

/-- histories without a load that contain a step -/
theorem est_run (ha : AsgH c) {l : Nat} (hl : l < c.layers.length) (r : Nat) (hr : r ∈ c.asg.workers l) :
    ∀ (ops : List Op) (s : St), Shape c s → s.steps = 0 → (∀ op ∈ ops, isLoad op = false) →
      (∃ op ∈ ops, isStep op = true) → Est c r l (run c s ops) := by
  intro ops
  induction ops with
  | nil => intro s _ _ _ h; obtain ⟨op, hop, _⟩ := h; cases hop
  | cons op rest ih =>
    intro s hs h0 hld hst
    show Est c r l (run c (Precond.exec c s op) rest)
    have hrest : ∀ op ∈ rest, isLoad op = false := fun o ho => hld o (by simp [ho])
    cases hso : isStep op with
    | true =>
      have hop : op = .step := by cases op <;> simp [isStep] at hso ⊢
      subst hop
      have rr := R.run_noload ha.invMem (Precond.exec c s .step) rest hrest
      refine Est.mono rr ?_
      unfold Precond.exec
      split
      · rename_i herr
        intro he
        rw [he] at herr
        cases herr
      · exact est_stepAll ha hs h0 hl r hr
    | false =>
      have hlo : isLoad op = false := hld op (by simp)
      have rq : Reach c false false s (Precond.exec c s op) := R.exec_quiet s op hlo hso
      refine ih _ (rq.shape hs) (by rw [rq.steps, h0]) hrest ?_
      obtain ⟨o, ho, hos⟩ := hst
      rcases List.mem_cons.mp ho with rfl | ho
      · rw [hso] at hos; cases hos
      · exact ⟨o, ho, hos⟩

theorem Shape.init (c : Cfg) (h : Hyper) : Shape c (St.init c h) := by
  refine ⟨by simp [St.init], ?_⟩
  intro ls hls
  simp only [St.init] at hls
  rw [List.eq_of_mem_replicate hls]
  simp

theorem getL_init (c : Cfg) (h : Hyper) (r l : Nat) : getL (St.init c h) r l = {} :=
  PI.getD_replicate_empty _ _ r l

end KV.HR
