/- Helper lemmas for C04 / C07 (single Mathlib modules may be imported; never `import Mathlib`). -/
import KfacVerif.Model.Alg
import KfacVerif.Model.Spec
import KfacVerif.Lemmas.SpecFrames
import Mathlib.LinearAlgebra.Matrix.PosDef
import Mathlib.Analysis.Matrix.PosDef
import Mathlib.Data.Real.Basic
import Mathlib.Algebra.Order.Star.Real
import Mathlib.Algebra.BigOperators.Fin
import Mathlib.Algebra.BigOperators.Group.Finset.Basic
import Mathlib.Tactic.FieldSimp
import Mathlib.Tactic.Ring
import Mathlib.Tactic.Linarith

namespace KV.C04
open Matrix

section Real
variable {r n : Type*} [Fintype r] [Fintype n] [DecidableEq n]
set_option linter.unusedSectionVars false

/-- second moment of the rows of `a` : `(1/rows) • aᵀ a` -/
noncomputable def covM (a : Matrix r n ℝ) : Matrix n n ℝ := (1 / (Fintype.card r : ℝ)) • (aᵀ * a)

/-- running the recurrence from the identity over any sequence of (decay, batch moment) pairs -/
noncomputable def iterate : List (ℝ × Matrix n n ℝ) → Matrix n n ℝ
  | [] => 1
  | (α, M) :: t => α • iterate t + (1 - α) • M       -- head = most recent update

theorem covM_symm (a : Matrix r n ℝ) : (covM a)ᵀ = covM a := by
  unfold covM
  rw [transpose_smul, transpose_mul, transpose_transpose]

theorem symm_id (c : Matrix n n ℝ) (h : cᵀ = c) : (1 / 2 : ℝ) • (c + cᵀ) = c := by
  rw [h]
  ext i j
  simp only [Matrix.smul_apply, Matrix.add_apply, smul_eq_mul]
  ring

theorem covM_psd (a : Matrix r n ℝ) : (covM a).PosSemidef := by
  unfold covM
  have h := Matrix.posSemidef_conjTranspose_mul_self a
  rw [conjTranspose_eq_transpose_of_trivial] at h
  exact h.smul (by positivity)

theorem ema_psd (α : ℝ) (h0 : 0 ≤ α) (h1 : α ≤ 1) (F M : Matrix n n ℝ) (hF : F.PosSemidef)
    (hM : M.PosSemidef) : (α • F + (1 - α) • M).PosSemidef :=
  (hF.smul h0).add (hM.smul (by linarith))

theorem iterate_psd (h : List (ℝ × Matrix n n ℝ))
    (hd : ∀ p ∈ h, 0 ≤ p.1 ∧ p.1 ≤ 1 ∧ p.2.PosSemidef) : (iterate h).PosSemidef := by
  induction h with
  | nil => exact Matrix.PosSemidef.one
  | cons p t ih =>
    obtain ⟨α, M⟩ := p
    have hp := hd (α, M) (List.mem_cons_self)
    exact ema_psd α hp.1 hp.2.1 _ _ (ih fun q hq => hd q (List.mem_cons_of_mem _ hq)) hp.2.2

theorem zipIdx_shift (α : ℝ) (Ms : List (Matrix n n ℝ)) (k : ℕ) :
    ((List.zipIdx Ms k).map fun p => α ^ p.2 • p.1).sum =
      α ^ k • ((List.zipIdx Ms).map fun p => α ^ p.2 • p.1).sum := by
  induction Ms generalizing k with
  | nil => simp
  | cons M t ih =>
    simp only [List.zipIdx_cons, List.map_cons, List.sum_cons, zero_add, pow_zero, one_smul]
    rw [ih (k + 1), ih 1, smul_add, smul_smul, pow_succ, pow_one]

theorem iterate_const' (α : ℝ) (Ms : List (Matrix n n ℝ)) :
    iterate (Ms.map fun M => (α, M)) =
      α ^ Ms.length • (1 : Matrix n n ℝ) + (1 - α) • ((List.zipIdx Ms).map fun p => α ^ p.2 • p.1).sum := by
  induction Ms with
  | nil => simp [iterate]
  | cons M t ih =>
    simp only [List.map_cons, iterate, List.length_cons, List.zipIdx_cons, List.sum_cons, zero_add,
      pow_zero, one_smul]
    rw [ih, zipIdx_shift α t 1, smul_add, smul_add, smul_smul, smul_smul, smul_smul, pow_succ]
    rw [mul_comm (1 - α) (α ^ 1), pow_one, mul_comm (α ^ t.length) α]
    abel

theorem cross_rank_mean' {W : Type*} [Fintype W] [Nonempty W] (α : ℝ) (F : Matrix n n ℝ)
    (M : W → Matrix n n ℝ) :
    (1 / (Fintype.card W : ℝ)) • ∑ w, (α • F + (1 - α) • M w) =
      α • F + (1 - α) • ((1 / (Fintype.card W : ℝ)) • ∑ w, M w) := by
  have hc : (Fintype.card W : ℝ) ≠ 0 := Nat.cast_ne_zero.mpr Fintype.card_ne_zero
  rw [Finset.sum_add_distrib, Finset.sum_const, Finset.card_univ, ← Finset.smul_sum, smul_add,
    ← Nat.cast_smul_eq_nsmul ℝ, smul_smul, one_div, inv_mul_cancel₀ hc, one_smul, smul_comm]

theorem unscale' (g : Matrix r n ℝ) (s : ℝ) (hs : s ≠ 0) :
    covM ((1 / s) • g) = (1 / s ^ 2) • covM g := by
  unfold covM
  rw [transpose_smul, Matrix.smul_mul, Matrix.mul_smul, smul_smul, smul_smul, smul_smul]
  congr 1
  field_simp

end Real

/-! ### the executable formulas -/

open KV.Alg

def toM (m k : ℕ) (A : KV.Alg.Mat) : Matrix (Fin m) (Fin k) ℚ := fun i j => KV.Alg.ent A i j

theorem ent_ofFn' (m n : ℕ) (f : ℕ → ℕ → ℚ) (i j : ℕ) (hi : i < m) (hj : j < n) :
    ent (ofFn m n f) i j = f i j := by
  simp [ent, ofFn, List.getD_eq_getElem?_getD, hi, hj]

theorem sumTo_succ' (n : ℕ) (f : ℕ → ℚ) : sumTo (n + 1) f = sumTo n f + f n := by
  simp [sumTo, List.range_succ, List.foldl_append]

theorem sumTo_eq_sum' (n : ℕ) (f : ℕ → ℚ) : sumTo n f = ∑ t : Fin n, f t := by
  induction n with
  | zero => simp [sumTo]
  | succ k ih => rw [sumTo_succ', ih, Fin.sum_univ_castSucc]; simp

theorem ent_smul' (m n : ℕ) (c : ℚ) (A : Mat) (i j : ℕ) (hi : i < m) (hj : j < n) :
    ent (Alg.smul m n c A) i j = c * ent A i j := by
  rw [Alg.smul, ent_ofFn' _ _ _ _ _ hi hj]

theorem ent_add' (m n : ℕ) (A B : Mat) (i j : ℕ) (hi : i < m) (hj : j < n) :
    ent (Alg.add m n A B) i j = ent A i j + ent B i j := by
  rw [Alg.add, ent_ofFn' _ _ _ _ _ hi hj]

theorem ent_tr' (m n : ℕ) (A : Mat) (i j : ℕ) (hi : i < n) (hj : j < m) :
    ent (tr m n A) i j = ent A j i := by
  rw [tr, ent_ofFn' _ _ _ _ _ hi hj]

theorem ent_mul' (m k n : ℕ) (A B : Mat) (i j : ℕ) (hi : i < m) (hj : j < n) :
    ent (mul m k n A B) i j = ∑ t : Fin k, ent A i t * ent B t j := by
  rw [mul, ent_ofFn' _ _ _ _ _ hi hj, sumTo_eq_sum']

theorem cov_bridge' (rows k : ℕ) (a : KV.Alg.Mat) :
    toM k k (KV.Alg.cov rows k a) = (1 / (rows : ℚ)) • ((toM rows k a)ᵀ * toM rows k a) := by
  ext i j
  have hc : ∀ (i j : Fin k),
      ent (mul k rows k (tr rows k a) (Alg.smul rows k (1 / (rows : ℚ)) a)) i j =
        (1 / (rows : ℚ)) * ∑ t : Fin rows, ent a t i * ent a t j := by
    intro i j
    rw [ent_mul' _ _ _ _ _ _ _ i.2 j.2, Finset.mul_sum]
    refine Finset.sum_congr rfl fun t _ => ?_
    rw [ent_tr' _ _ _ _ _ i.2 t.2, ent_smul' _ _ _ _ _ _ t.2 j.2]
    ring
  simp only [toM, Matrix.smul_apply, Matrix.mul_apply, Matrix.transpose_apply, smul_eq_mul]
  unfold KV.Alg.cov
  simp only []
  rw [ent_smul' _ _ _ _ _ _ i.2 j.2, ent_add' _ _ _ _ _ _ i.2 j.2, ent_tr' _ _ _ _ _ i.2 j.2,
    hc i j, hc j i]
  have : ∑ t : Fin rows, ent a t j * ent a t i = ∑ t : Fin rows, ent a t i * ent a t j :=
    Finset.sum_congr rfl fun t _ => mul_comm _ _
  rw [this]
  ring

theorem ema_bridge' (k : ℕ) (α : ℚ) (F M : KV.Alg.Mat) :
    toM k k (KV.Alg.ema k α F M) = α • toM k k F + (1 - α) • toM k k M := by
  ext i j
  simp only [toM, Matrix.add_apply, Matrix.smul_apply, smul_eq_mul]
  rw [ema, ent_add' _ _ _ _ _ _ i.2 j.2, ent_smul' _ _ _ _ _ _ i.2 j.2, ent_smul' _ _ _ _ _ _ i.2 j.2]

theorem ident_bridge' (k : ℕ) : toM k k (KV.Alg.ident k) = (1 : Matrix (Fin k) (Fin k) ℚ) := by
  ext i j
  simp only [toM]
  rw [ident, ent_ofFn' _ _ _ _ _ i.2 j.2, Matrix.one_apply]
  by_cases h : i = j
  · subst h; simp
  · have : (i : ℕ) ≠ j := fun e => h (Fin.ext e)
    simp [h, this]

theorem update_mean' (k : ℕ) (α : ℚ) (F : Option KV.Alg.Mat) (b : KV.Alg.Mat) (bs : List KV.Alg.Mat) :
    KV.Alg.updateFactor k α F [] = F ∧
    KV.Alg.updateFactor k α F [b] = some (KV.Alg.ema k α (F.getD (KV.Alg.ident k)) b) ∧
    (bs ≠ [] → KV.Alg.updateFactor k α F (b :: bs) =
      some (KV.Alg.ema k α (F.getD (KV.Alg.ident k))
        (KV.Alg.smul k k (1 / ((bs.length + 1 : ℕ) : ℚ)) (bs.foldl (KV.Alg.add k k) b)))) := by
  refine ⟨rfl, ?_, ?_⟩
  · simp [updateFactor]
  · intro hbs
    have : 0 < bs.length := List.length_pos_iff.mpr hbs
    have h1 : (b :: bs).length > 1 := by simp only [List.length_cons]; omega
    simp only [List.length_cons] at h1
    simp only [updateFactor, List.length_cons, h1, if_true]

open KV.Precond KV.Spec in
theorem spec_update_shape' (c : SCfg) (s : SSt) (l : Nat) (α : Rat) (b : List V) (hl : l < s.layers.length)
    (hb : (getS s l).aBatch = some b) (hw : c.world ≠ 1) :
    let s' := Spec.updateReduce c s l true α
    let fv := ((getS s l).aFactor).getD (.ident l true)
    (getS s' l).aFactor = some (.ref s.defs.length) ∧
    s'.defs = s.defs ++ [avgOf (b.map fun br => V.ema α fv (if (getS s l).aCount > 1 then V.divN br (getS s l).aCount else br))] ∧
    (getS s' l).aBatch = none := by
  intro s' fv
  have hw' : (c.world == 1) = false := beq_eq_false_iff_ne.mpr hw
  have hs' : s' = setS { s with defs := s.defs ++ [avgOf (b.map fun br => V.ema α fv
      (if (getS s l).aCount > 1 then V.divN br (getS s l).aCount else br))] } l
      (urPut (getS s l) true (some (V.ref s.defs.length))) := by
    show Spec.updateReduce c s l true α = _
    rw [updateReduce_eq]
    simp only [urVals, if_true, hb, hw', Bool.false_eq_true, if_false]
    rfl
  have hg : getS s' l = urPut (getS s l) true (some (V.ref s.defs.length)) := by
    rw [hs']; exact getS_setS_self _ _ _ hl
  refine ⟨?_, ?_, ?_⟩
  · rw [hg]; rfl
  · rw [hs']; rfl
  · rw [hg]; rfl

end KV.C04
